(* Model of onnxscript/optimizer/_constant_folding.py : FoldConstantsPass (C03 / C04).

   `process_node` is modelled as a total decision function on (config, state, node) whose tests come in
   exactly the order of the source:
     1. inputs whose symbolic value is another value are redirected (process_node, first loop);
     2. Constant nodes set const_value of their output (_process_constant_node);
        [node-level ONNX shape inference (_do_inference) is NOT modelled: the model describes the pass
         with onnx_shape_inference=False, the default of fold_constants]
     3. no opset import for the node's domain               -> keep;
     4. registered partial evaluators (version range)        -> replacement nodes / If-branch inlining /
                                                              an exception (RuntimeError) / None (+ side effects);
     5. Constant                                             -> keep;
     6. control flow (graph attributes)                      -> keep;
     7. non-deterministic ops                                -> keep;
     8. a node consuming a graph input                       -> keep;
     9. some input without const_value                       -> keep;
    10. should_fold False -> keep;  None -> black-list, input size gate (Transpose exemption);
    11. reference evaluator (abstract `ref_eval`) fails      -> keep;
    12. exactly one declared output and a single tensor result: output size gate, then the node is replaced
        by a new initializer (main graph / subgraphs) or a new Constant node (functions);
    13. otherwise keep.
   The traversal (visit_node / visit_graph / visit_function) re-visits nodes inserted by a replacement,
   descends into graph attributes of kept nodes, and finally redirects graph outputs to their symbolic
   value when `_sym_value_can_replace_graph_output` allows it.

   Values are abstract (Section variable V with accessors); names play the role of ir.Value objects,
   which is faithful on models whose value names are unique across graphs, subgraphs and functions.
   No proofs in this file. *)
From Coq Require Import List String ZArith Bool Ascii.
Require Import OV.Graph.Syntax OV.Graph.Sem OV.Graph.Names OV.Gen.FoldTables.
Import ListNotations.
Local Open Scope string_scope.

(* ---------------------------------------------------------------- small helpers *)
Fixpoint assoc {A} (k : string) (l : list (string * A)) : option A :=
  match l with
  | [] => None
  | (x, v) :: t => if String.eqb k x then Some v else assoc k t
  end.

Definition upd {A} (k : string) (v : A) (l : list (string * A)) : list (string * A) := (k, v) :: l.

Fixpoint remove_key {A} (k : string) (l : list (string * A)) : list (string * A) :=
  match l with
  | [] => []
  | (x, v) :: t => if String.eqb k x then remove_key k t else (x, v) :: remove_key k t
  end.

Fixpoint remove_one (x : string) (l : list string) : list string :=
  match l with
  | [] => []
  | y :: t => if String.eqb x y then t else y :: remove_one x t
  end.

Fixpoint dedup (l : list string) : list string :=
  match l with
  | [] => []
  | x :: t => if mem x t then dedup t else x :: dedup t
  end.

Definition zlen {A} (l : list A) : Z := Z.of_nat (List.length l).

Definition pair_eqb (a b : string * string) : bool := String.eqb (fst a) (fst b) && String.eqb (snd a) (snd b).

(* decimal printing of integers (only for the names of symbolic dimensions built by the Add evaluator) *)
Definition digit (n : nat) : string :=
  String (ascii_of_nat (48 + n)) EmptyString.
Fixpoint nat_to_string_aux (fuel n : nat) (acc : string) : string :=
  match fuel with
  | O => acc
  | S f => let acc' := digit (Nat.modulo n 10) ++ acc in
           if Nat.leb n 9 then acc' else nat_to_string_aux f (Nat.div n 10) acc'
  end.
Definition nat_to_string (n : nat) : string := nat_to_string_aux (S n) n "".
Definition z_to_string (z : Z) : string :=
  if Z.ltb z 0 then "-" ++ nat_to_string (Z.to_nat (- z)) else nat_to_string (Z.to_nat z).

(* ---------------------------------------------------------------- shapes *)
Inductive dim := DInt (z : Z) | DSym (s : string) | DUnk.       (* DUnk = ir.SymbolicDim(None) *)

Definition dim_eqb (a b : dim) : bool :=            (* tuple comparison of ir.Shape.dims *)
  match a, b with
  | DInt x, DInt y => Z.eqb x y
  | DSym x, DSym y => String.eqb x y
  | DUnk, DUnk => true
  | _, _ => false
  end.
Fixpoint dims_eqb (a b : list dim) : bool :=
  match a, b with
  | [], [] => true
  | x :: s, y :: t => dim_eqb x y && dims_eqb s t
  | _, _ => false
  end.
Definition is_unk (d : dim) : bool := match d with DUnk => true | _ => false end.
Definition is_int (d : dim) : bool := match d with DInt _ => true | _ => false end.
(* _same_shape(shape1, shape2): an unknown dimension in the FIRST shape makes it fail *)
Definition same_shape (s1 s2 : list dim) : bool := negb (existsb is_unk s1) && dims_eqb s1 s2.

(* _merge_shapes(preferred, other) : None = ValueError (rank mismatch) *)
Definition merge_dim (d1 d2 : dim) : dim :=
  if dim_eqb d1 d2 then d1 else
  match d1, d2 with
  | DInt _, _ => d1
  | _, DInt _ => d2
  | DUnk, _ => d2
  | _, _ => d1
  end.
Definition merge_shapes (p o : option (list dim)) : option (option (list dim)) :=
  match p, o with
  | None, _ => Some o
  | _, None => Some p
  | Some a, Some b =>
    if Nat.eqb (List.length a) (List.length b) then Some (Some (map (fun xy => merge_dim (fst xy) (snd xy)) (combine a b)))
    else None
  end.

(* Python slicing l[start:end] (step 1) and indexing l[i] with negative indices *)
Definition py_norm (len i : Z) : Z := let j := if Z.ltb i 0 then (i + len)%Z else i in Z.max 0 (Z.min len j).
Definition py_slice {A} (l : list A) (start : option Z) (stop : option Z) : list A :=
  let len := zlen l in
  let s := match start with Some i => py_norm len i | None => 0%Z end in
  let e := match stop with Some i => py_norm len i | None => len end in
  firstn (Z.to_nat (e - s)) (skipn (Z.to_nat s) l).
Definition py_index {A} (l : list A) (i : Z) : option A :=
  let len := zlen l in
  let j := if Z.ltb i 0 then (i + len)%Z else i in
  if Z.ltb j 0 || Z.leb len j then None else nth_error l (Z.to_nat j).

Definition prodz (l : list Z) : Z := fold_right Z.mul 1%Z l.
Fixpoint ints_of_dims (l : list dim) : option (list Z) :=
  match l with
  | [] => Some []
  | DInt z :: t => option_map (cons z) (ints_of_dims t)
  | _ :: _ => None
  end.

(* ---------------------------------------------------------------- the pass *)
Inductive symv :=
| SVal (x : vname)                          (* the value equals value x *)
| SSeq (xs : list (option vname))           (* a sequence of these values *)
| SShape (ds : list dim).                   (* a 1-D/0-D INT64 tensor with these entries *)

Inductive reason :=
| RNoOpset | RConstantNode | RControlFlow | RNonDet | RGraphInput | RNonConst | RShouldFoldFalse
| RBlacklist | RLargeInput | REvalNone | RLargeOutput | RMultiOut | RUnmodelled | RRefAttr.

Definition DT_INT64 : Z := 7.
Definition DT_BOOL : Z := 9.

Section Fold.
  Variable V : Type.
  (* onnx.reference evaluation of one node on constant inputs (None = evaluation failed / no implementation) *)
  Variable ref_eval : string -> string -> list (string * attrv) -> list (option V) -> option (list V).
  Variable const_val : list (string * attrv) -> option V.     (* tensor denoted by the single attribute of a Constant node *)
  Variable attr_of_val : V -> attrv.                           (* the `value` attribute of a new Constant node *)
  Variable v_dtype : V -> Z.
  Variable v_dims : V -> list Z.
  Variable v_ints : V -> option (list Z).                     (* flat integer / bool payload, when available *)
  Variable v_zero : V -> bool.                                 (* size-1 tensor whose item equals 0 *)
  Variable v_tensor : V -> bool.                               (* a numpy ndarray (not a list = sequence) *)
  Variable fresh : nat -> vname.                               (* names for values created by TapeBuilder *)

  Definition v_size (v : V) : Z := prodz (v_dims v).

  Record config := mkConfig {
    c_opsets : list (string * Z);                (* model.opset_imports *)
    c_in_limit : Z;
    c_out_limit : Z;
    c_should_fold : list (string * bool);        (* should_fold by op type; absent = None *)
    c_graph_inputs : list vname;                 (* values with is_graph_input(): inputs of any graph / function *)
    c_graph_outputs : list vname;                (* values with is_graph_output(): outputs of any graph *)
  }.

  Record state := mkState {
    s_const : list (vname * V);                  (* Value.const_value *)
    s_sym : list (vname * symv);                 (* OptimizerState._sym_value_map *)
    s_dtype : list (vname * Z);                  (* Value.type (tensor element type) *)
    s_shape : list (vname * list dim);           (* Value.shape *)
    s_uses : list (vname * list vname);          (* Value.uses(): consumers (first output of the node), with multiplicity *)
    s_next : nat;                                (* number of values created so far by TapeBuilder *)
    s_inits : list vname;                        (* values registered as initializer of some graph (is_initializer()) *)
    s_guard : list vname;                        (* values whose const_value _get_numpy_value refuses to read: the graph
                                                    inputs when the source has that guard (Gen: numpy_value_guards_graph_inputs) *)
  }.

  Definition set_const st x v := mkState (upd x v (s_const st)) (s_sym st) (s_dtype st) (s_shape st) (s_uses st) (s_next st) (s_inits st) (s_guard st).
  Definition set_sym st x v := mkState (s_const st) (upd x v (s_sym st)) (s_dtype st) (s_shape st) (s_uses st) (s_next st) (s_inits st) (s_guard st).
  Definition set_dtype st x v := mkState (s_const st) (s_sym st) (upd x v (s_dtype st)) (s_shape st) (s_uses st) (s_next st) (s_inits st) (s_guard st).
  Definition set_shape st x v := mkState (s_const st) (s_sym st) (s_dtype st) (upd x v (s_shape st)) (s_uses st) (s_next st) (s_inits st) (s_guard st).
  Definition set_uses st u := mkState (s_const st) (s_sym st) (s_dtype st) (s_shape st) u (s_next st) (s_inits st) (s_guard st).
  Definition set_next st k := mkState (s_const st) (s_sym st) (s_dtype st) (s_shape st) (s_uses st) k (s_inits st) (s_guard st).
  Definition set_inits st l := mkState (s_const st) (s_sym st) (s_dtype st) (s_shape st) (s_uses st) (s_next st) l (s_guard st).
  (* the symbolic value map is keyed by ir.Value OBJECTS: the fresh value that replaces a folded output has no entry *)
  Definition drop_sym st x := mkState (s_const st) (remove_key x (s_sym st)) (s_dtype st) (s_shape st) (s_uses st) (s_next st) (s_inits st) (s_guard st).
  (* replace_nodes_and_values: type / shape / const_value of the old value win when they are known *)
  Definition set_dtype_if_absent st x v := match assoc x (s_dtype st) with Some _ => st | None => set_dtype st x v end.
  Definition set_shape_if_absent st x v := match assoc x (s_shape st) with Some _ => st | None => set_shape st x v end.

  Definition get_const st (x : option vname) : option V := match x with Some x => assoc x (s_const st) | None => None end.
  Definition get_dtype st (x : option vname) : Z :=        (* _get_input_element_type: UNDEFINED = 0 *)
    match x with Some x => match assoc x (s_dtype st) with Some d => d | None => 0%Z end | None => 0%Z end.
  Definition get_shape st (x : vname) : option (list dim) := assoc x (s_shape st).
  Definition sym_val st (x : vname) : option vname :=
    match assoc x (s_sym st) with Some (SVal y) => Some y | _ => None end.

  Definition uses_of st (x : vname) : list vname := match assoc x (s_uses st) with Some l => l | None => [] end.
  Definition add_use st (x c : vname) := set_uses st (upd x (c :: uses_of st x) (s_uses st)).
  Definition del_use st (x c : vname) := set_uses st (upd x (remove_one c (uses_of st x)) (s_uses st)).
  Definition node_id (n : node) : vname := match n_outs n with y :: _ => y | [] => "" end.
  Definition add_node_uses st (n : node) := fold_left (fun s x => add_use s x (node_id n)) (present (n_ins n)) st.
  Definition del_node_uses st (n : node) := fold_left (fun s x => del_use s x (node_id n)) (present (n_ins n)) st.

  (* _get_numpy_value(val, dtype, size_limit) *)
  Definition numpy_value st (x : option vname) (dt : option Z) (limit : option Z) : option V :=
    match (match x with Some x' => if mem x' (s_guard st) then None else get_const st x | None => None end) with
    | Some v =>
      if match dt with Some d => negb (Z.eqb (v_dtype v) d) | None => false end then None
      else if match limit with Some l => Z.ltb l (v_size v) | None => false end then None
      else Some v
    | None => None
    end.
  (* _get_bool_value *)
  Definition bool_value st (x : option vname) : option bool :=
    match numpy_value st x None None with
    | Some v => if Z.eqb (v_size v) 1 && Z.eqb (v_dtype v) DT_BOOL then
                  match v_ints v with Some [b] => Some (negb (Z.eqb b 0)) | _ => None end
                else None
    | None => None
    end.
  (* OptimizerState.get_shape_value *)
  Definition shape_value st (x : option vname) : option (list dim) :=
    match numpy_value st x (Some DT_INT64) (Some 10%Z) with
    | Some v => match v_dims v, v_ints v with
                | [_], Some l => Some (map DInt l)
                | _, _ => None
                end
    | None => match x with
              | Some x => match assoc x (s_sym st) with Some (SShape ds) => Some ds | _ => None end
              | None => None
              end
    end.

  Definition int_attr (n : node) (name : string) (default : option Z) : option Z :=
    match assoc name (n_attrs n) with
    | Some (AInt z) => Some z
    | Some _ => None
    | None => default
    end.
  Definition has_attr (n : node) (name : string) : bool := match assoc name (n_attrs n) with Some _ => true | None => false end.

  Definition is_onnx (n : node) (op : string) : bool := String.eqb (n_dom n) "" && String.eqb (n_op n) op.
  Definition is_control_flow (n : node) : bool := match n_subs n with [] => false | _ => true end.
  Definition is_non_det (n : node) : bool := String.eqb (n_dom n) "" && mem (n_op n) non_deterministic_ops.

  (* ---- results of a partial evaluator *)
  Inductive pe_out :=
  | PNone (st : state)                                         (* returned None (state: its side effects) *)
  | PRepl (st : state) (new_nodes : list node)                 (* replacement; the new outputs already carry the old names *)
  | PInline (st : state) (new_nodes : list node) (moved : list vname)   (* If branch inlined; initializers moved to this graph *)
  | PRaise                                                     (* the evaluator raised: process_node raises RuntimeError *)
  | PUnmodelled.

  Definition mk (op : string) (ins : list (option vname)) (outs : list vname) (attrs : list (string * attrv)) : node :=
    Node "" op ins outs attrs [].
  Definition out0 (n : node) : option vname := match n_outs n with y :: _ => Some y | [] => None end.
  Definition in_at (n : node) (i : nat) : option vname := match nth_error (n_ins n) i with Some x => x | None => None end.

  (* replacement by a single Identity(x) named like the old output *)
  Definition repl_identity st (n : node) (x : vname) : pe_out :=
    match n_outs n with
    | y :: _ => PRepl st [mk "Identity" [Some x] [y] []]
    | [] => PNone st
    end.

  Definition propagate_shape_value st (n : node) : pe_out :=
    match out0 n, shape_value st (in_at n 0) with
    | Some y, Some sv => PNone (set_sym st y (SShape sv))
    | _, _ => PNone st
    end.

  (* ---- the registered evaluators, in the order of the source file *)
  Definition pe_add st (n : node) : pe_out :=
    let dimv (i : nat) : option (Z + string) :=
      match in_at n i with
      | None => None
      | Some x => match shape_value st (Some x) with
                  | Some [DInt z] => Some (inl z)
                  | Some [DSym s] => Some (inr s)
                  | _ => None
                  end
      end in
    match dimv 0%nat, dimv 1%nat with
    | Some (inl x), Some (inr _) | Some (inr _), Some (inl x) =>
      if add_rejects_negative_constant && Z.ltb x 0 then PNone st
      else
        let show (d : Z + string) := match d with inl z => z_to_string z | inr s => s end in
        match dimv 0%nat, dimv 1%nat, out0 n with
        | Some a, Some b, Some y => PNone (set_sym st y (SShape [DSym (show a ++ "+" ++ show b)]))
        | _, _, _ => PNone st
        end
    | Some a, Some b =>
      let r := match a, b with
               | inl x, inl y => DInt (x + y)
               | _, _ => let show (d : Z + string) := match d with inl z => z_to_string z | inr s => s end in
                         DSym (show a ++ "+" ++ show b)
               end in
      match out0 n with Some y => PNone (set_sym st y (SShape [r])) | None => PNone st end
    | _, _ => PNone st
    end.

  Definition pe_abs st (n : node) : pe_out :=
    match in_at n 0, shape_value st (in_at n 0) with
    | Some x, Some sv =>
      if existsb (fun d => match d with DInt z => Z.ltb z 0 | _ => false end) sv then PNone st
      else repl_identity st n x
    | _, _ => PNone st
    end.

  Definition pe_gather st (n : node) : pe_out :=
    match in_at n 0, in_at n 1 with
    | Some x, Some i =>
      match shape_value st (Some x) with
      | None => PNone st
      | Some sv =>
        match int_attr n "axis" None with
        | Some 0%Z =>
          match numpy_value st (Some i) None None with
          | None => PNone st
          | Some iv =>
            match v_dims iv, v_ints iv with
            | [_], Some idx =>
              let picked := map (py_index sv) idx in
              if forallb (fun o => match o with Some _ => true | None => false end) picked then
                let g := flat_map (fun o => match o with Some d => [d] | None => [] end) picked in
                let st1 := match out0 n with Some y => set_sym st y (SShape g) | None => st end in
                match ints_of_dims g, n_outs n with
                | Some l, y :: _ => PRepl st1 [mk "Constant" [] [y] [("value_ints", AInts l)]]
                | _, _ => PNone st1
                end
              else PRaise                                   (* IndexError inside the evaluator *)
            | [_], None => PUnmodelled
            | _, _ => PNone st
            end
          end
        | _ => PNone st
        end
      end
    | _, _ => PNone st
    end.

  Definition pe_reshape st (n : node) : pe_out :=
    match in_at n 0, in_at n 1 with
    | Some x, Some s =>
      match get_shape st x, shape_value st (Some s) with
      | Some ishape, Some sv => if same_shape ishape sv then repl_identity st n x else propagate_shape_value st n
      | _, _ => propagate_shape_value st n
      end
    | _, _ => PNone st
    end.

  Definition pe_cast st (n : node) : pe_out :=
    match in_at n 0, out0 n with
    | Some x, Some y =>
      match int_attr n "to" None with
      | Some t => if Z.eqb (get_dtype st (Some x)) t then repl_identity st n x else PNone (set_dtype st y t)
      | None => PNone st
      end
    | _, _ => PNone st
    end.

  Definition pe_castlike st (n : node) : pe_out :=
    match in_at n 0 with
    | None => PRaise                  (* node.inputs[0] is None: op.Identity(None) ... not modelled further *)
    | Some x =>
      let src := get_dtype st (Some x) in
      let tgt := get_dtype st (in_at n 1) in
      if Z.eqb tgt 0 then PNone st
      else if Z.eqb src tgt then repl_identity st n x
      else match n_outs n with
           | y :: _ =>
             let sat := if castlike_keeps_saturate then
                          match int_attr n "saturate" None with Some z => [("saturate", AInt z)] | None => [] end
                        else [] in
             PRepl st [mk "Cast" [Some x] [y] (("to", AInt tgt) :: sat)]
           | [] => PNone st
           end
    end.

  Definition pe_shape st (n : node) : pe_out :=
    match in_at n 0 with
    | None => PNone st
    | Some x =>
      match get_shape st x with
      | None => PNone st
      | Some shp =>
        let start := if has_attr n "start" then int_attr n "start" None else Some 0%Z in
        let sl := py_slice shp start (int_attr n "end" None) in
        let st1 := match out0 n with Some y => set_sym st y (SShape sl) | None => st end in
        match ints_of_dims sl, n_outs n with
        | Some l, y :: _ => PRepl st1 [mk "Constant" [] [y] [("value_ints", AInts l)]]
        | _, _ => PNone st1
        end
      end
    end.

  Definition pe_size st (n : node) : pe_out :=
    match in_at n 0 with
    | None => PNone st
    | Some x =>
      match get_shape st x with
      | None => PNone st
      | Some shp =>
        match ints_of_dims shp, n_outs n with
        | Some l, y :: _ => PRepl st [mk "Constant" [] [y] [("value_int", AInt (prodz l))]]
        | _, _ => PNone st
        end
      end
    end.

  (* op.Identity / nodes created in a row take fresh names fresh k, fresh (k+1), ... for their non-final outputs *)
  Definition pe_dropout st (n : node) : pe_out :=
    let optimized :=
      match in_at n 0, n_outs n with
      | Some x, [y] => PRepl st [mk "Identity" [Some x] [y] []]
      | Some x, y :: m :: _ =>
        let s := fresh (s_next st) in
        PRepl (set_next st (S (s_next st)))
              [mk "Identity" [Some x] [y] [];
               mk "Shape" [Some x] [s] [];
               mk "ConstantOfShape" [Some s] [m] [("value", ATensor DT_BOOL [1%Z] [1%Z])]]
      | _, _ => PUnmodelled
      end in
    match n_ins n with
    | _ :: _ :: Some tm :: _ =>
      match bool_value st (Some tm) with
      | Some false => optimized
      | _ =>
        match numpy_value st (in_at n 1) None None with
        | None => PNone st
        | Some r => if negb (Z.eqb (v_size r) 1) then PNone st
                    else if v_zero r then optimized else PNone st
        end
      end
    | _ => optimized
    end.

  Definition pe_expand st (n : node) : pe_out :=
    match n_ins n with
    | [Some x; s] =>
      match get_shape st x with
      | None => PNone st
      | Some ishape =>
        match numpy_value st s None None with
        | None =>
          match shape_value st s with
          | Some sv => if same_shape ishape sv then repl_identity st n x else PNone st
          | None => PNone st
          end
        | Some ev =>
          match v_dims ev, v_ints ev with
          | [_], Some l => if dims_eqb ishape (map DInt l) then repl_identity st n x else PNone st
          | [_], None => PUnmodelled
          | _, _ => PNone st
          end
        end
      end
    | _ => PNone st
    end.

  Definition has_zero_size st (axis : Z) (x : option vname) : bool :=
    match x with
    | None => false
    | Some x => match get_shape st x with
                | None => false
                | Some shp => match py_index shp axis with Some (DInt 0%Z) => true | _ => false end
                end
    end.

  (* same_except_axis(operand, reference) of the repaired evaluator: the dims other than the concatenation axis are KNOWN to
     be equal (same int, or same non-None name), ranks equal, axis in range *)
  Definition dim_known_eq (d r : dim) : bool :=
    match d, r with
    | DInt a, DInt b => Z.eqb a b
    | DSym a, DSym b => String.eqb a b
    | _, _ => false
    end.
  Definition same_except_axis st (axis : Z) (x r : option vname) : bool :=
    match x, r with
    | Some x, Some r =>
      match get_shape st x, get_shape st r with
      | Some s, Some rs =>
        let rank := zlen s in
        Nat.eqb (List.length s) (List.length rs) && Z.leb (- rank) axis && Z.ltb axis rank &&
        (let k := Z.to_nat (Z.modulo axis rank) in
         (fix go (i : nat) (a b : list dim) : bool :=
            match a, b with
            | d :: a', e :: b' => (Nat.eqb i k || dim_known_eq d e) && go (S i) a' b'
            | _, _ => true
            end) O s rs)
      | _, _ => false
      end
    | _, _ => false
    end.
  Fixpoint first_false (l : list bool) (i : nat) : option nat :=
    match l with [] => None | b :: t => if b then first_false t (S i) else Some i end.

  (* which operands survive.  as-read (before fix 37f3956): every operand annotated 0 on the axis is dropped.
     repaired: a zero-size operand is dropped only when same_except_axis holds against the reference operand (the first
     operand that is not zero-size, or operand 0 when all are) - which is itself never dropped *)
  Definition concat_kept st (fixed : bool) (axis : Z) (ins : list (option vname)) : list (option vname) :=
    let zero := map (has_zero_size st axis) ins in
    if fixed then
      let ref_index := match first_false zero O with Some i => i | None => O end in
      let reference := match nth_error ins ref_index with Some r => r | None => None end in
      map (fun p => fst (snd p))
          (filter (fun p => let '(i, (x, z)) := p in negb z || Nat.eqb i ref_index || negb (same_except_axis st axis x reference))
                  (combine (seq O (List.length ins)) (combine ins zero)))
    else filter (fun x => negb (has_zero_size st axis x)) ins.

  Definition pe_concat_variant (fixed : bool) st (n : node) : pe_out :=
    match n_ins n, n_outs n with
    | [Some x], _ => repl_identity st n x
    | [None], _ => PUnmodelled
    | ins, y :: _ =>
      match int_attr n "axis" None with
      | None => PNone st
      | Some axis =>
        let kept := concat_kept st fixed axis ins in
        if negb (Nat.eqb (List.length kept) (List.length ins)) then
          if fixed then
            match kept with
            | [Some x] => PRepl st [mk "Identity" [Some x] [y] []]
            | [None] => PUnmodelled
            | _ => PRepl st [mk "Concat" kept [y] [("axis", AInt axis)]]
            end
          else
            match kept, ins with
            | _ :: _, _ => PRepl st [mk "Concat" kept [y] [("axis", AInt axis)]]
            | [], Some x :: _ => PRepl st [mk "Identity" [Some x] [y] []]
            | [], _ => PUnmodelled
            end
        else if negb (Z.eqb axis 0) then PNone st
        else
          let shapes := map (shape_value st) ins in
          if forallb (fun o => match o with Some _ => true | None => false end) shapes then
            PNone (set_sym st y (SShape (flat_map (fun o => match o with Some l => l | None => [] end) shapes)))
          else PNone st
      end
    | _, [] => PNone st
    end.
  (* the variant the current source is in (Gen/FoldTables.v: concat_drop_checks_other_dims, read by the translator) *)
  Definition pe_concat st (n : node) : pe_out := pe_concat_variant concat_drop_checks_other_dims st n.

  Definition pe_sequence_construct st (n : node) : pe_out :=
    match out0 n with Some y => PNone (set_sym st y (SSeq (n_ins n))) | None => PNone st end.

  Definition pe_sequence_at st (n : node) : pe_out :=
    match in_at n 0, in_at n 1 with
    | Some s, Some p =>
      match assoc s (s_sym st), numpy_value st (Some p) None None with
      | Some (SSeq xs), Some pv =>
        if negb (Z.eqb (v_size pv) 1) then PNone st else
        match v_ints pv with
        | Some [i] => match py_index xs i with
                      | Some (Some r) => repl_identity st n r
                      | Some None => PUnmodelled
                      | None => PNone st
                      end
        | _ => PUnmodelled
        end
      | _, _ => PNone st
      end
    | _, _ => PNone st
    end.

  Definition pe_concat_from_sequence st (n : node) : pe_out :=
    match in_at n 0 with
    | None => PNone st
    | Some s =>
      match assoc s (s_sym st) with
      | Some (SSeq xs) =>
        if existsb (fun o => match o with None => true | Some _ => false end) xs then PNone st else
        match int_attr n "new_axis" (Some 0%Z), int_attr n "axis" None, n_outs n with
        | Some new_axis, Some axis, y :: _ =>
          if Z.eqb new_axis 0 then PRepl st [mk "Concat" xs [y] [("axis", AInt axis)]]
          else if Z.eqb new_axis 1 then
            let a := fresh (s_next st) in
            let name_of (ix : nat * vname) : vname :=
              match unsqueeze_name_scheme with
              | O => String.append (snd ix) "_unsqueeze"
              | _ => String.append y (String.append "_" (String.append (nat_to_string (fst ix)) "_unsqueeze"))
              end in
            let ixs := combine (seq 0 (List.length (present xs))) (present xs) in
            PRepl (set_next st (S (s_next st)))
                  (mk "Constant" [] [a] [("value_int", AInt axis)]
                   :: map (fun ix => mk "Unsqueeze" [Some (snd ix); Some a] [name_of ix] []) ixs
                   ++ [mk "Concat" (map (fun ix => Some (name_of ix)) ixs) [y] [("axis", AInt axis)]])
          else PNone st
        | _, _, _ => PNone st
        end
      | Some (SVal _) | Some (SShape _) => PRaise        (* iterating an ir.Value / comparing entries: TypeError *)
      | None => PNone st
      end
    end.

  (* SplitToSequence => Split + (Squeeze)* + SequenceConstruct when the number of chunks is known *)
  Definition pe_split_to_sequence st (n : node) : pe_out :=
    match n_ins n, n_outs n with
    | [_], _ => PNone st
    | Some x :: Some sp :: _, y :: _ =>
      match int_attr n "axis" (Some 0%Z), get_shape st x with
      | Some axis0, Some shp =>
        let rank := zlen shp in
        let axis := if Z.ltb axis0 0 then (axis0 + rank)%Z else axis0 in
        if Z.ltb axis 0 || Z.leb rank axis then PNone st else
        let split_value := numpy_value st (Some sp) None None in
        let split_shape := match get_shape st sp with Some l => ints_of_dims l | None => None end in
        let names (k : nat) := map (fun i => y ++ "_split_" ++ nat_to_string i) (seq 0 k) in
        let finish (st : state) (pre : list node) (outs : list vname) : pe_out :=
          match int_attr n "keepdims" (Some 1%Z) with
          | None => PNone st
          | Some kd =>
            if Z.eqb kd 0 then
              let ax := y ++ "_axis" in
              PRepl st (pre ++ [mk "Constant" [] [ax] [("value_ints", AInts [axis])]]
                            ++ map (fun o => mk "Squeeze" [Some o; Some ax] [String.append o "_squeeze"] []) outs
                            ++ [mk "SequenceConstruct" (map (fun o => Some (String.append o "_squeeze")) outs) [y] []])%list
            else PRepl st (pre ++ [mk "SequenceConstruct" (map Some outs) [y] []])%list
          end in
        match split_value, split_shape with
        | None, None => PNone st
        | _, Some [k] =>
          if Z.leb k 0 then PUnmodelled else
          let outs := names (Z.to_nat k) in
          finish st [mk "Split" [Some x; Some sp] outs [("axis", AInt axis)]] outs
        | None, Some _ => if split_value_none_guard then PNone st
                          else PRaise                  (* split_value.ndim with split_value = None: AttributeError *)
        | Some v, _ =>
          match v_dims v with
          | [k] =>
            if Z.leb k 0 then PUnmodelled else
            let outs := names (Z.to_nat k) in
            finish st [mk "Split" [Some x; Some sp] outs [("axis", AInt axis)]] outs
          | [] =>
            match py_index shp axis, v_ints v with
            | Some (DInt d), Some [sz] =>
              if Z.leb sz 0 then PNone st else
              let num := ((d + sz - 1) / sz)%Z in
              if Z.leb num 0 then PUnmodelled else
              let outs := names (Z.to_nat num) in
              if negb (Z.eqb (d mod sz) 0) then
                let sizes := (repeat sz (Z.to_nat (num - 1)) ++ [d - (num - 1) * sz])%list%Z in
                let sn := y ++ "_split_sizes" in
                finish st [mk "Constant" [] [sn] [("value_ints", AInts sizes)];
                           mk "Split" [Some x; Some sn] outs [("axis", AInt axis)]] outs
              else finish st [mk "Split" [Some x] outs [("axis", AInt axis); ("num_outputs", AInt num)]] outs
            | Some (DInt _), _ => PUnmodelled
            | _, _ => PNone st
            end
          | _ => PNone st
          end
        end
      | _, _ => PNone st
      end
    | _, _ => PNone st
    end.

  (* ---- renaming of values (ir.Value.name = ...) *)
  Fixpoint map_node (rho : vname -> vname) (n : node) : node :=
    let 'Node d o ins outs a subs := n in
    Node d o (map (option_map rho) ins) (map rho outs) a
         ((fix go (l : list (string * graph)) : list (string * graph) :=
             match l with [] => [] | (k, g) :: t => (k, map_graph rho g) :: go t end) subs)
  with map_graph (rho : vname -> vname) (g : graph) : graph :=
    let 'Graph ins inits nodes outs := g in
    Graph (map rho ins) (map rho inits)
          ((fix go (l : list node) : list node :=
              match l with [] => [] | n :: t => map_node rho n :: go t end) nodes)
          (map rho outs).
  Definition map_subs (rho : vname -> vname) : list (string * graph) -> list (string * graph) :=
    fix go (l : list (string * graph)) : list (string * graph) :=
      match l with [] => [] | (k, g) :: t => (k, map_graph rho g) :: go t end.
  Definition map_nodes (rho : vname -> vname) : list node -> list node :=
    fix go (l : list node) : list node :=
      match l with [] => [] | n :: t => map_node rho n :: go t end.

  Fixpoint rename_name (r : list (vname * vname)) (x : vname) : vname :=
    match r with
    | [] => x
    | (a, b) :: t => if String.eqb x a then b else rename_name t x
    end.
  Definition rename_nodes r (ns : list node) : list node := map_nodes (rename_name r) ns.

  Definition rename_key {A} (r : list (vname * vname)) (l : list (vname * A)) : list (vname * A) :=
    map (fun kv => (rename_name r (fst kv), snd kv)) l.
  Definition rename_symv r (s : symv) : symv :=
    match s with
    | SVal x => SVal (rename_name r x)
    | SSeq xs => SSeq (map (option_map (rename_name r)) xs)
    | SShape d => SShape d
    end.
  (* `sym_value.name = output.name`: the value keeps everything recorded for it, under its new name *)
  Definition rename_state_move r st : state :=
    mkState (rename_key r (s_const st))
            (map (fun kv => (fst kv, rename_symv r (snd kv))) (rename_key r (s_sym st)))
            (rename_key r (s_dtype st))
            (rename_key r (s_shape st))
            (map (fun kv => (fst kv, map (rename_name r) (snd kv))) (rename_key r (s_uses st)))
            (s_next st)
            (map (rename_name r) (s_inits st))
            (s_guard st).
  (* replace_nodes_and_values on an existing value (If branch outputs): type / shape / const_value recorded for the
     replaced value (found first) win when known; symbolic value, uses and initializer status are those of the new value *)
  Definition rename_state_merge r st : state :=
    mkState (s_const st ++ rename_key r (s_const st))
            (map (fun kv => (fst kv, rename_symv r (snd kv))) (rename_key r (s_sym st)))
            (s_dtype st ++ rename_key r (s_dtype st))
            (s_shape st ++ rename_key r (s_shape st))
            (map (fun kv => (fst kv, map (rename_name r) (snd kv))) (rename_key r (s_uses st)))
            (s_next st)
            (map (rename_name r) (s_inits st))
            (s_guard st).

  (* If: `if_op`.  The taken branch is spliced in: its nodes move to the enclosing graph with the formal branch
     outputs renamed to the If node's outputs; the branch's initializers move to the enclosing graph (names of moved
     initializers are assumed not to clash in the destination). *)
  Definition pe_if st (n : node) : pe_out :=
    match bool_value st (in_at n 0) with
    | None => PNone st
    | Some c =>
      match find_sub (if c then "then_branch" else "else_branch") (n_subs n) with
      | None => PNone st
      | Some (Graph _ inits nodes fouts) =>
        let r := combine fouts (n_outs n) in
        PInline (rename_state_merge r (del_node_uses st n)) (rename_nodes r nodes) (map (rename_name r) inits)
      end
    end.

  (* registry.lookup_evaluators: one evaluator per op in this version of the source *)
  Definition registered (dom op : string) (version : Z) : bool :=
    existsb (fun e => let '(d, o, lo, hi) := e in
                      String.eqb d dom && String.eqb o op
                      && match lo with Some l => Z.leb l version | None => true end
                      && match hi with Some h => Z.leb version h | None => true end) registry.

  (* the op-specific evaluators (everything registered except If and Identity, which the traversal treats itself) *)
  Definition partial_eval (st : state) (n : node) : pe_out :=
    let op := n_op n in
    if String.eqb op "Add" then pe_add st n
    else if String.eqb op "Abs" then pe_abs st n
    else if String.eqb op "Gather" then pe_gather st n
    else if String.eqb op "Reshape" then pe_reshape st n
    else if String.eqb op "Squeeze" then propagate_shape_value st n
    else if String.eqb op "Cast" then pe_cast st n
    else if String.eqb op "CastLike" then pe_castlike st n
    else if String.eqb op "Shape" then pe_shape st n
    else if String.eqb op "Size" then pe_size st n
    else if String.eqb op "SequenceConstruct" then pe_sequence_construct st n
    else if String.eqb op "Concat" then pe_concat st n
    else if String.eqb op "Dropout" then pe_dropout st n
    else if String.eqb op "Expand" then pe_expand st n
    else if String.eqb op "ConcatFromSequence" then pe_concat_from_sequence st n
    else if String.eqb op "SequenceAt" then pe_sequence_at st n
    else if String.eqb op "SplitToSequence" then pe_split_to_sequence st n
    else PUnmodelled.                                       (* anything registered later *)

  (* Identity evaluator: backward merge of the shape, type copy, symbolic value; always returns None *)
  Definition pe_identity st (n : node) : state :=
    match in_at n 0, out0 n with
    | Some x, Some y =>
      let st1 := match merge_shapes (get_shape st x) (get_shape st y) with
                 | Some (Some s) => set_shape st x s
                 | _ => st                                  (* ValueError is caught and logged *)
                 end in
      let st2 := match assoc x (s_dtype st1), assoc y (s_dtype st1) with
                 | None, Some d => set_dtype st1 x d
                 | Some d, None => if identity_forwards_type then set_dtype st1 y d else st1
                 | _, _ => st1
                 end in
      let st3 := if identity_forwards_type then
                   match assoc y (s_shape st2), assoc x (s_shape st2) with
                   | None, Some sh => set_shape st2 y sh
                   | _, _ => st2
                   end
                 else st2 in
      set_sym st3 y (SVal x)
    | _, _ => st
    end.

  (* ---- step 1: redirect inputs whose symbolic value is another value *)
  Definition subst_input st (x : option vname) : option vname :=
    match x with
    | Some x => match sym_val st x with Some y => Some y | None => Some x end
    | None => None
    end.
  Definition subst_node st (n : node) : node :=
    let 'Node d o ins outs a subs := n in Node d o (map (subst_input st) ins) outs a subs.
  Definition subst_uses st (n : node) : state :=
    fold_left (fun s x => match sym_val st x with
                          | Some y => add_use (del_use s x (node_id n)) y (node_id n)
                          | None => s
                          end) (present (n_ins n)) st.

  (* ---- step 2: _process_constant_node *)
  Definition const_attr_names : list string :=
    ["value_float"; "value_floats"; "value_int"; "value_ints"; "value_string"; "value_strings"; "value"].
  Definition constant_value (n : node) : option (vname * V) :=
    if is_onnx n "Constant" then
      match n_attrs n, n_subs n, n_outs n with
      | [(k, a)], [], [y] =>
        match a with
        | ARef _ => None
        | _ => if mem k const_attr_names then option_map (pair y) (const_val (n_attrs n)) else None
        end
      | _, _, _ => None
      end
    else None.
  Definition note_constant st (n : node) : state :=
    match constant_value n with
    | Some (y, v) => set_dtype (set_shape (set_const st y v) y (map DInt (v_dims v))) y (v_dtype v)
    | None => st
    end.

  (* ---- decisions *)
  Inductive decision :=
  | DKeep (r : reason) (st : state)
  | DFoldInit (st : state) (y : vname) (v : V)     (* st: the state the evaluators left behind (their writes on ir.Value objects persist) *)
  | DFoldConst (st : state) (y : vname) (v : V)
  | DNodes (st : state) (new_nodes : list node)
  | DInline (st : state) (new_nodes : list node) (moved : list vname)
  | DRaise.

  (* the tail of process_node, after the partial evaluators *)
  Definition generic_fold (cfg : config) (is_function : bool) st (n : node) : decision :=
    if is_onnx n "Constant" then DKeep RConstantNode st
    else if is_control_flow n then DKeep RControlFlow st
    else if is_non_det n then DKeep RNonDet st
    else if existsb (fun x => mem x (c_graph_inputs cfg)) (present (n_ins n)) then DKeep RGraphInput st
    else if existsb (fun x => match assoc x (s_const st) with Some _ => false | None => true end) (present (n_ins n))
      then DKeep RNonConst st
    else
      let consts := map (get_const st) (n_ins n) in
      let gate :=
        match assoc (n_op n) (c_should_fold cfg) with
        | Some false => Some RShouldFoldFalse
        | Some true => None
        | None =>
          if String.eqb (n_dom n) "" && mem (n_op n) blacklist then Some RBlacklist
          else
            let large := map (fun o => match o with Some v => Z.ltb (c_in_limit cfg) (v_size v) | None => false end) consts in
            if existsb (fun b => b) large then
              if existsb (pair_eqb (n_dom n, n_op n)) always_fold_ops
                 && forallb (fun xl => match fst xl with
                                       | Some x => Nat.eqb (List.length (dedup (uses_of st x))) 1 || negb (snd xl)
                                       | None => true
                                       end) (combine (n_ins n) large)
              then None else Some RLargeInput
            else None
        end in
      match gate with
      | Some r => DKeep r st
      | None =>
        match ref_eval (n_dom n) (n_op n) (n_attrs n) consts with
        | None => DKeep REvalNone st
        | Some outs =>
          match n_outs n, outs with
          | [y], [v] =>
            if negb (v_tensor v) then DKeep RMultiOut st        (* a list: "multiple outputs" *)
            else
              let too_large :=
                if Z.ltb (c_out_limit cfg) (v_size v) then
                  let removed := fold_right Z.add 0%Z
                    (map (fun x => if Nat.eqb (List.length (uses_of st x)) 1
                                   then match assoc x (s_const st) with Some c => v_size c | None => 0%Z end
                                   else 0%Z) (present (n_ins n))) in
                  Z.ltb 0 (v_size v - removed)
                else false in
              if too_large then DKeep RLargeOutput st
              else if is_function then DFoldConst st y v else DFoldInit st y v
          | _, _ => DKeep RMultiOut st
          end
        end
      end.

  (* names the recorded facts talk about (keys of const_value, keys and targets of value-valued symbolic values) *)
  Definition fnames st : list vname :=
    (map fst (s_const st)
     ++ flat_map (fun kv => match snd kv with SVal x => [fst kv; x] | _ => [] end) (s_sym st))%list.
  Definition disjointb (a b : list vname) : bool := forallb (fun x => negb (mem x b)) a.

  Inductive tr_entry :=
  | TKeep (op : string) (id : vname) (r : reason) (substituted : nat)
  | TFoldInit (op : string) (id : vname)
  | TFoldConst (op : string) (id : vname)
  | TNodes (op : string) (id : vname) (new_ops : list string)
  | TInline (op : string) (id : vname) (new_ops : list string) (moved : list vname)
  | TOutput (old new : vname).

  (* Stuck: a freshness side condition of the soundness theorem failed (strict mode only) *)
  Inductive result (A : Type) := OK (a : A) | Raised | OutOfFuel | Stuck (why : string).
  Arguments OK {A}. Arguments Raised {A}. Arguments OutOfFuel {A}. Arguments Stuck {A}.

  Definition count_subst st (n : node) : nat :=
    List.length (filter (fun x => match sym_val st x with Some _ => true | None => false end) (present (n_ins n))).

  (* _clear_unused_initializers(node_inputs): an initializer among the inputs of the replaced node that has no use
     left and is not a graph output is popped from the initializers of ITS graph *)
  Definition clear_unused_initializers (cfg : config) (st : state) (candidates : list vname) : state :=
    set_inits st (filter (fun i => negb (mem i candidates && Nat.eqb (List.length (uses_of st i)) 0
                                         && negb (mem i (c_graph_outputs cfg))
                                         && negb (clear_keeps_graph_inputs && mem i (c_graph_inputs cfg)))) (s_inits st)).
  Definition register_inits st (l : list vname) : state := set_inits st (l ++ s_inits st)%list.

  Definition dup_name (x : vname) : vname := x ++ "~dup".

  (* what a traversal returns: state, resulting nodes (a node folded into an initializer is still present as a
     Constant node, see `erase_nodes`), initializers of the enclosing graph, names folded into initializers,
     names defined by the visited nodes (deep), trace *)
  Definition visit_result := (state * list node * list vname * list vname * list vname * list tr_entry)%type.
  Definition subs_result := (state * list (string * graph) * list vname * list vname * list tr_entry)%type.

  Section Traversal.
    Variable pe : state -> node -> pe_out.     (* op-specific partial evaluators *)
    Variable strict : bool.                    (* check the freshness side conditions of the soundness theorem *)
    Variable cfg : config.

    (* an attribute given by reference to an attribute of the enclosing function (ir.Attr.is_ref()): its value is None here.
       As read, process_node treats it as absent (partial evaluators, shape inference and the reference evaluator see the
       operator default).  Repaired (skip_ref): the node is kept, right after the redirection of its inputs. *)
    Definition has_ref_attr (n : node) : bool :=
      existsb (fun kv => match snd kv with ARef _ => true | _ => false end) (n_attrs n).

    Definition decide_variant (skip_ref : bool) (is_function : bool) st (n : node) : decision :=
      if skip_ref && has_ref_attr n then DKeep RRefAttr st else
      match assoc (n_dom n) (c_opsets cfg) with
      | None => DKeep RNoOpset st
      | Some version =>
        if registered (n_dom n) (n_op n) version then
          if String.eqb (n_op n) "Identity" then generic_fold cfg is_function (pe_identity st n) n
          else if String.eqb (n_op n) "If" then
            match pe_if st n with
            | PInline st1 news moved => DInline st1 news moved
            | _ => generic_fold cfg is_function st n
            end
          else
            match pe st n with
            | PNone st1 => generic_fold cfg is_function st1 n
            | PRepl st1 news => DNodes st1 news
            | PInline _ _ _ => DKeep RUnmodelled st
            | PRaise => DRaise
            | PUnmodelled => DKeep RUnmodelled st
            end
        else generic_fold cfg is_function st n
      end.
    (* the variant the current source is in (Gen/FoldTables.v: skips_reference_attributes, read by the translator) *)
    Definition decide := decide_variant skips_reference_attributes.

    (* side conditions (strict mode) *)
    Definition keep_ok st (n : node) : bool :=
      disjointb (n_outs n) (fnames st)
      && (if String.eqb (n_op n) "Identity" then
            match n_ins n, n_outs n, n_subs n with [Some x], [y], [] => negb (String.eqb x y) | _, _, _ => false end
          else true).
    Definition inline_ok st (bound : list vname) (n : node) : bool :=
      match bool_value st (in_at n 0) with
      | Some c =>
        match find_sub (if c then "then_branch" else "else_branch") (n_subs n) with
        | Some (Graph gi inits nodes fouts) =>
          let aouts := n_outs n in
          let inner := names_nodes nodes in
          Nat.eqb (List.length fouts) (List.length aouts) && nodupb fouts && nodupb aouts
          && disjointb aouts inner && disjointb aouts fouts
          && disjointb (fouts ++ aouts ++ flat_map n_outs nodes)%list bound
          && subset fouts (flat_map n_outs nodes)
          && disjointb fouts (fnames st)
          && disjointb (fouts ++ aouts)%list (map fst (s_sym st) ++ map fst (s_const st))%list
          && match n_ins n, gi with [Some _], [] => true | _, _ => false end
        | None => true
        end
      | None => true
      end.

    Section Nodes.
      (* visitor of the graph attributes of a kept node (ties the recursion over the nesting depth) *)
      Variable visit_subs : list vname -> state -> list (string * graph) -> result subs_result.

      Fixpoint visit_nodes (fuel : nat) (is_function : bool) (bound : list vname) (st : state) (inits : list vname)
               (work : list node) : result visit_result :=
        match fuel with
        | O => OutOfFuel
        | S f =>
          match work with
          | [] => OK (st, [], inits, [], [], [])
          | n0 :: rest =>
            let nsub := count_subst st n0 in
            let st0 := subst_uses st n0 in
            let n := subst_node st n0 in
            let st1 := note_constant st0 n in
            let continue (st' : state) (inits' : list vname) (bound' : list vname) (emit : list node) (news : list vname)
                         (defd : list vname) (work' : list node) (t : list tr_entry) : result visit_result :=
              match visit_nodes f is_function bound' st' inits' work' with
              | OK (st2, ns, inits2, news2, defd2, tr) =>
                OK (st2, (emit ++ ns)%list, inits2, (news ++ news2)%list, (defd ++ defd2)%list, (t ++ tr)%list)
              | Raised => Raised
              | OutOfFuel => OutOfFuel
              | Stuck w => Stuck w
              end in
            match decide is_function st1 n with
            | DRaise => Raised
            | DKeep r st2 =>
              if strict && negb (keep_ok st0 n) then Stuck "keep: an output name is already mentioned by a recorded fact" else
              match visit_subs (n_outs n ++ bound)%list st2 (n_subs n) with
              | OK (st3, subs', news_s, defd_s, trs) =>
                if strict && negb (disjointb defd_s (n_outs n ++ bound)%list) then Stuck "keep: a subgraph defines a name of an enclosing scope" else
                let n' := Node (n_dom n) (n_op n) (n_ins n) (n_outs n) (n_attrs n) subs' in
                continue st3 inits (defd_s ++ n_outs n ++ bound)%list [n'] news_s (n_outs n ++ defd_s)%list rest
                         (TKeep (n_op n) (node_id n) r nsub :: trs)
              | Raised => Raised
              | OutOfFuel => OutOfFuel
              | Stuck w => Stuck w
              end
            | DFoldInit ste y v =>
              (* ste = st1 + what the partial evaluators wrote before returning None (Identity: shape / type of the
                 input and of the output); the new initializer value takes the old output's type / shape when known
                 (replace_nodes_and_values) and has no symbolic value *)
              if strict && negb (disjointb [y] (fnames st0)) then Stuck "fold: the output name is already mentioned by a recorded fact" else
              let st2 := set_dtype_if_absent (set_shape_if_absent (set_const (del_node_uses (drop_sym ste y) n) y v) y (map DInt (v_dims v))) y (v_dtype v) in
              let st3 := clear_unused_initializers cfg (register_inits st2 [y]) (present (n_ins n)) in
              let c := mk "Constant" [] [y] [("value", attr_of_val v)] in
              continue st3 (inits ++ [y])%list (y :: bound) [c] [y] [y] rest [TFoldInit (n_op n) (node_id n)]
            | DFoldConst ste y v =>
              if strict && negb (disjointb [y] (fnames st0)) then Stuck "fold: the output name is already mentioned by a recorded fact" else
              let c := mk "Constant" [] [y] [("value", attr_of_val v)] in
              continue (del_node_uses (drop_sym ste y) n) inits bound [] [] [] (c :: rest) [TFoldConst (n_op n) (node_id n)]
            | DNodes st2 news =>
              let st3 := fold_left add_node_uses news (del_node_uses st2 n) in
              let st4 := if is_function then st3 else clear_unused_initializers cfg st3 (present (n_ins n)) in
              continue st4 inits bound [] [] [] (news ++ rest)%list [TNodes (n_op n) (node_id n) (map n_op news)]
            | DInline st2 news moved =>
              if strict && negb (inline_ok st1 bound n) then Stuck "inline: branch / output names are not fresh" else
              let st3 := if is_function then st2 else clear_unused_initializers cfg st2 (present (n_ins n)) in
              continue st3 (inits ++ moved)%list bound [] [] [] (news ++ rest)%list [TInline (n_op n) (node_id n) (map n_op news) moved]
            end
          end
        end.
    End Nodes.

    (* _sym_value_can_replace_graph_output + the renaming of the symbolic value to the output's name.  The old
       holder of the name is renamed to name~dup (the real pass leaves two values with one name and lets NameFixPass
       repair it).  The real loop renames after each output; since a value that was renamed is a graph output and
       is never chosen again, choosing first and renaming once is the same.
       chosen: (output, symbolic value) pairs; a value produced by a node of this graph that is not a graph output *)
    Definition choose_outputs (st : state) (nodes : list node) (news : list vname) (outs : list vname) : list (vname * vname) :=
      fold_left (fun chosen o =>
                   match sym_val st o with
                   | Some s => if mem s (flat_map n_outs nodes) && negb (mem s news)   (* a folded value has no producer any more *)
                                  && negb (mem s (c_graph_outputs cfg)) && negb (mem s (map snd chosen))
                               then (chosen ++ [(o, s)])%list else chosen
                   | None => chosen
                   end) outs [].
    Definition output_renaming (chosen : list (vname * vname)) : list (vname * vname) :=
      flat_map (fun os => [(fst os, dup_name (fst os)); (snd os, fst os)]) chosen.
    Definition replace_ok (bound gi : list vname) (st : state) (nodes : list node) (outs : list vname) (scope : list vname)
               (chosen : list (vname * vname)) : bool :=
      let os := map fst chosen in
      let ss := map snd chosen in
      let dups := map dup_name os in
      nodupb outs && nodupb dups && disjointb dups (names_nodes nodes ++ gi ++ outs ++ bound)%list
      && disjointb ss outs && disjointb ss gi && disjointb os gi && disjointb (os ++ ss)%list bound
      && subset (os ++ ss ++ dups)%list scope
      && forallb (fun kv => match snd kv with
                            | SVal t => mem (fst kv) scope || negb (mem t (os ++ ss)%list)
                            | _ => true
                            end) (s_sym st).
    Definition replace_outputs (bound gi : list vname) (st : state) (nodes : list node) (news : list vname) (outs : list vname) (scope : list vname)
      : result (state * list node * list tr_entry) :=
      let chosen := choose_outputs st nodes news outs in
      if strict && negb (replace_ok bound gi st nodes outs scope chosen) then Stuck "output replacement: names are not fresh"
      else
        let r := output_renaming chosen in
        OK (rename_state_move r st, rename_nodes r nodes, map (fun os => TOutput (fst os) (snd os)) chosen).

    (* visit_attribute on every graph attribute of a kept node; depth = remaining nesting depth *)
    Fixpoint visit_subs_d (depth fuel : nat) (bound : list vname) (st : state) (l : list (string * graph)) {struct depth}
      : result subs_result :=
      match depth with
      | O => match l with [] => OK (st, [], [], [], []) | _ => OutOfFuel end
      | S d =>
        (fix go (st : state) (l : list (string * graph)) : result subs_result :=
           match l with
           | [] => OK (st, [], [], [], [])
           | (k, Graph gi ginits gnodes gouts) :: t =>
             if strict && negb (disjointb gi (fnames st) && disjointb gi bound) then Stuck "subgraph input names are not fresh" else
             match visit_nodes (visit_subs_d d fuel) fuel false (gi ++ bound)%list st ginits gnodes with
             | OK (sta, ns, ginits', news_a, defd_a, tra) =>
               match replace_outputs (gi ++ bound)%list gi sta ns news_a gouts (gi ++ defd_a ++ map dup_name gouts)%list with
               | OK (stb, ns', tro) =>
                 match go stb t with
                 | OK (stc, l', news_c, defd_c, trc) =>
                   OK (stc, (k, Graph gi ginits' ns' gouts) :: l', (news_a ++ news_c)%list,
                       (gi ++ defd_a ++ map dup_name gouts ++ defd_c)%list, (tra ++ tro ++ trc)%list)
                 | Raised => Raised
                 | OutOfFuel => OutOfFuel
                 | Stuck w => Stuck w
                 end
               | Raised => Raised
               | OutOfFuel => OutOfFuel
               | Stuck w => Stuck w
               end
             | Raised => Raised
             | OutOfFuel => OutOfFuel
             | Stuck w => Stuck w
             end
           end) st l
      end.

    (* visit_graph on the main graph, then the output replacement; `bound` = names bound by the caller (the
       initializers of all graphs and whatever else the outer environment holds) *)
    Definition fold_graph (depth fuel : nat) (bound : list vname) (st : state) (g : graph)
      : result (state * graph * list vname * list tr_entry) :=
      let 'Graph gi inits nodes outs := g in
      match visit_nodes (visit_subs_d depth fuel) fuel false (gi ++ bound)%list st inits nodes with
      | OK (st1, ns, inits', news, defd, tr) =>
        match replace_outputs (gi ++ bound)%list gi st1 ns news outs (gi ++ defd ++ map dup_name outs)%list with
        | OK (st2, ns', tro) => OK (st2, Graph gi inits' ns' outs, news, (tr ++ tro)%list)
        | Raised => Raised
        | OutOfFuel => OutOfFuel
        | Stuck w => Stuck w
        end
      | Raised => Raised
      | OutOfFuel => OutOfFuel
      | Stuck w => Stuck w
      end.

    (* visit_function: no initializers, folded values become Constant nodes, no output replacement *)
    Definition fold_function (depth fuel : nat) (bound : list vname) (st : state) (g : graph)
      : result (state * graph * list vname * list tr_entry) :=
      let 'Graph gi inits nodes outs := g in
      match visit_nodes (visit_subs_d depth fuel) fuel true (gi ++ bound)%list st inits nodes with
      | OK (st1, ns, inits', news, _, tr) => OK (st1, Graph gi inits' ns outs, news, tr)
      | Raised => Raised
      | OutOfFuel => OutOfFuel
      | Stuck w => Stuck w
      end.
  End Traversal.

  (* ---- from the semantic form of the result to what the pass leaves behind *)
  (* nodes folded into initializers are dropped (their value lives in the initializer) *)
  Fixpoint erase_node (news : list vname) (n : node) : node :=
    let 'Node d o ins outs a subs := n in
    Node d o ins outs a
         ((fix go (l : list (string * graph)) : list (string * graph) :=
             match l with [] => [] | (k, g) :: t => (k, erase_graph news g) :: go t end) subs)
  with erase_graph (news : list vname) (g : graph) : graph :=
    let 'Graph ins inits nodes outs := g in
    Graph ins inits
          ((fix go (l : list node) : list node :=
              match l with
              | [] => []
              | n :: t => match n_outs n with
                          | [y] => if mem y news then go t else erase_node news n :: go t
                          | _ => erase_node news n :: go t
                          end
              end) nodes)
          outs.

  (* initializer lists after the pass: what is still registered (deep) *)
  Fixpoint prune_node (alive : list vname) (n : node) : node :=
    let 'Node d o ins outs a subs := n in
    Node d o ins outs a
         ((fix go (l : list (string * graph)) : list (string * graph) :=
             match l with [] => [] | (k, g) :: t => (k, prune_graph alive g) :: go t end) subs)
  with prune_graph (alive : list vname) (g : graph) : graph :=
    let 'Graph ins inits nodes outs := g in
    Graph ins (filter (fun i => mem i alive) inits)
          ((fix go (l : list node) : list node :=
              match l with [] => [] | n :: t => prune_node alive n :: go t end) nodes)
          outs.

  (* Value.uses() of the model before the pass: every (node, input position), nested graphs included *)
  Fixpoint uses_node (n : node) (acc : list (vname * list vname)) : list (vname * list vname) :=
    let 'Node _ _ ins outs _ subs := n in
    let id := match outs with y :: _ => y | [] => "" end in
    let acc1 := fold_left (fun a x => upd x (id :: match assoc x a with Some l => l | None => [] end) a) (present ins) acc in
    (fix go (l : list (string * graph)) (acc : list (vname * list vname)) : list (vname * list vname) :=
       match l with [] => acc | (_, g) :: t => go t (uses_graph g acc) end) subs acc1
  with uses_graph (g : graph) (acc : list (vname * list vname)) : list (vname * list vname) :=
    let 'Graph _ _ nodes _ := g in
    (fix go (l : list node) (acc : list (vname * list vname)) : list (vname * list vname) :=
       match l with [] => acc | n :: t => go t (uses_node n acc) end) nodes acc.

  (* FoldConstantsPass.call without the final NameFixPass: main graph, then every function.
     Returns the final state, the graphs as the pass leaves them, and the semantic form of the main graph. *)
  Definition fold_model (strict : bool) (depth fuel : nat) (cfg : config) (bound : list vname) (st : state) (g : graph) (funs : list graph)
    : result (state * graph * list graph * list tr_entry * graph) :=
    match fold_graph partial_eval strict cfg depth fuel bound st g with
    | OK (st1, g1, news1, tr1) =>
      let fix go (st : state) (l : list graph) : result (state * list graph * list tr_entry) :=
        match l with
        | [] => OK (st, [], [])
        | f :: t =>
          match fold_function partial_eval strict cfg depth fuel bound st f with
          | OK (sta, f', news_f, tra) =>
            match go sta t with
            | OK (stb, l', trb) => OK (stb, erase_graph news_f f' :: l', (tra ++ trb)%list)
            | Raised => Raised
            | OutOfFuel => OutOfFuel
            | Stuck w => Stuck w
            end
          | Raised => Raised
          | OutOfFuel => OutOfFuel
          | Stuck w => Stuck w
          end
        end in
      match go st1 funs with
      | OK (st2, funs', tr2) => OK (st2, prune_graph (s_inits st2) (erase_graph news1 g1), funs', (tr1 ++ tr2)%list, g1)
      | Raised => Raised
      | OutOfFuel => OutOfFuel
      | Stuck w => Stuck w
      end
    | Raised => Raised
    | OutOfFuel => OutOfFuel
    | Stuck w => Stuck w
    end.
End Fold.

Arguments OK {A}. Arguments Raised {A}. Arguments OutOfFuel {A}. Arguments Stuck {A}.
