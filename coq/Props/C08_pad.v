(* C08 property theorems, family aten_constant_pad_nd / aten_pad with mode = "constant" (_process_padding): statements only.

   PyTorch's pad list is (last_dim_begin, last_dim_end, second_to_last_begin, ...), possibly shorter than 2 * rank, entries
   may be negative; the functions compute paddings = (pad + zeros)[-2::-2] + (pad + zeros)[-1::-2] at trace time and emit
   Pad(self, paddings, value).  `pad_paddings` models the python slicing, `pad_shape` / `pad_axis` are Pad-18 (Onnx2.v).
   NOT covered: reflect / replicate / circular modes (kernel behaviour, direct oracle only), dtype of `value`. *)
From Coq Require Import ZArith List Bool.
Require Import OV.Torch.Onnx OV.Torch.Onnx2 OV.Torch.Spec OV.Torch.Spec2 OV.Torch.Aten OV.Torch.Aten2
               OV.Torch.ShapeProofs OV.Torch.PadProofs OV.Torch.Examples2.
Import ListNotations.
Local Open Scope Z_scope.

(* the reordering: for every rank r and every legal pad list, Pad receives [begin_0 .. begin_{r-1}, end_0 .. end_{r-1}] with
   (begin_i, end_i) the pair PyTorch means for dimension i *)
Theorem C08_pad_paddings_layout : forall r pad, 0 <= r -> zlen pad mod 2 = 0 -> zlen pad <= 2 * r ->
  pad_paddings r pad = map (pad_begin r pad) (iota r) ++ map (pad_end r pad) (iota r).
Proof. exact pad_paddings_layout. Qed.
Print Assumptions C08_pad_paddings_layout.

(* output shape, every rank / extent / pad list incl. negative and omitted leading pairs: whenever constant_pad_nd accepts *)
Theorem C08_pad_shape : forall s pad out,
  shape_ok s -> torch_pad_shape s pad = Some out -> aten_pad_shape s pad = Some out.
Proof. exact pad_shape_correct. Qed.
Print Assumptions C08_pad_shape.

(* Pad-18 along one axis (slab type arbitrary) = constant_pad_nd along that axis: fill slabs added, or slabs removed by narrow *)
Theorem C08_pad_axis : forall (A : Type) (fill : A) xs pb pe out,
  torch_pad_axis fill xs pb pe = Some out -> pad_axis fill xs pb pe = Some out.
Proof. exact pad_axis_correct. Qed.
Print Assumptions C08_pad_axis.

(* composed: along dimension a of a rank-r tensor the emitted Pad does what constant_pad_nd does with that dimension's pair *)
Theorem C08_pad_along_dimension : forall (A : Type) (fill : A) r a xs pad out,
  0 <= a < r -> zlen pad mod 2 = 0 -> zlen pad <= 2 * r ->
  torch_pad_axis fill xs (pad_begin r pad a) (pad_end r pad a) = Some out ->
  aten_pad_axis fill r a xs pad = Some out.
Proof. exact aten_pad_axis_correct. Qed.
Print Assumptions C08_pad_along_dimension.
