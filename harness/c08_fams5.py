"""C08 helper: the fifth group of modelled torch_lib functions (coq/Torch/Group5.v; checked through coq/Torch/Check5.v):
aten_select_scatter, aten_slice_scatter, aten_repeat_interleave_self_int, aten_repeat_interleave_Tensor, aten_pixel_shuffle,
aten_pixel_unshuffle, aten_max_dim, aten_min_dim, aten_atleast_1d/2d/3d, aten_reflection_pad1d/2d/3d, aten_replication_pad1d/2d/3d,
aten_group_norm, aten_native_group_norm, aten_glu.  Same conventions as c08_fams (generators yield (args, kwargs) of plain data)."""
from __future__ import annotations

import numpy as np

from harness.c08_exec import spec
from harness.c08_fams import Fam, arr, b, flat_ints, llz, lz, numel, oz, slabs, z
from harness.c08_gen import rand_shape, tensor


def sh(t):
    return list(t["shape"])


def wrap(d, r):
    return d + r if d < 0 else d


def shapes(out):
    outs = out if isinstance(out, (list, tuple)) else [out]
    return "(R5Shapes " + llz([list(np.asarray(o).shape) for o in outs]) + ")"


def r5slabs(out, ax):
    return f"(R5Slabs {ax} {llz(slabs(out, ax))})"


def perm_values(rng, shape, dtype="float32"):
    """distinct values in random order (no ties for max / min)"""
    n = numel(shape)
    v = list(range(1, n + 1))
    rng.shuffle(v)
    return spec(dtype, shape, [float(x) for x in v] if dtype.startswith("float") else v)


# ----------------------------------------------------------------------------- generators

def gen_select_scatter(rng, n):
    for i in range(n):
        s = rand_shape(rng, min_rank=1, allow_zero=(i % 4 == 0))
        r = len(s)
        d = rng.randint(-r, r - 1)
        if s[d] == 0:
            s[d] = rng.randint(1, 3)
        ext = s[d]
        idx = rng.randint(-ext, ext - 1)
        if i % 17 == 16:
            idx = rng.choice([ext, -ext - 1])                               # outside the dimension: torch refuses
        ss = [e for j, e in enumerate(s) if j != wrap(d, r)]
        dt = "int64" if i % 3 == 0 else "float32"
        x = tensor(rng, s, dt, kind="iota")
        src = tensor(rng, ss, dt, kind="iota")
        src["data"] = [-v for v in src["data"]]
        yield [x, src, d, idx], {}


def _torch_slice_len(n, start, end, step):
    s0 = 0 if start is None else start
    e0 = 2 ** 63 - 1 if end is None else end
    s1 = s0 + n if s0 < 0 else s0
    e1 = e0 + n if e0 < 0 else e0
    s2 = 0 if s1 < 0 else (n if s1 >= n else s1)
    e2 = s2 if e1 < s2 else (n if e1 >= n else e1)
    return (e2 - s2 + step - 1) // step


def gen_slice_scatter(rng, n):
    for i in range(n):
        s = rand_shape(rng, min_rank=1, allow_zero=(i % 5 == 0))
        r = len(s)
        d = rng.randint(-r, r - 1)
        ext = s[d]

        def bound():
            c = rng.random()
            if c < 0.2:
                return None
            if c < 0.3:
                return rng.choice([-ext - 3, ext + 4, 100, -100])
            return rng.randint(-ext - 1, ext + 1)
        start, end = bound(), bound()
        step = rng.choice([1, 1, 1, 2, 3])
        k = _torch_slice_len(ext, start, end, step)
        ss = list(s)
        ss[wrap(d, r)] = k
        dt = "int64" if i % 3 == 0 else "float32"
        x = tensor(rng, s, dt, kind="iota")
        src = tensor(rng, ss, dt, kind="iota")
        src["data"] = [-v for v in src["data"]]
        yield [x, src, d, start, end, step], {}


def gen_repeat_int(rng, n):
    fixed = [([2, 0], 3, 0), ([2, 3, 0], 2, 0), ([0, 3], 2, 1), ([2, 3], 0, 1), ([], 2, None), ([2, 3, 4], 2, -3)]
    for i in range(n):
        if i < len(fixed):
            s, k, d = fixed[i]
        else:
            s = rand_shape(rng, allow_zero=(i % 6 == 0))
            r = len(s)
            k = rng.choice([0, 1, 2, 2, 3])
            d = None if (r == 0 or i % 4 == 0) else rng.randint(-r, r - 1)
        yield [tensor(rng, s, "int64" if i % 2 else "float32", kind="iota"), k, d], {}


def gen_repeat_tensor(rng, n):
    fixed = [[1, 2], [0, 3, 0, 1], [0], [0, 0], [5], []]
    for i in range(n):
        reps = fixed[i] if i < len(fixed) else [rng.choice([0, 0, 1, 1, 2, 3, 5]) for _ in range(rng.randint(1, 7))]
        yield [spec("int64", [len(reps)], reps)], {}


def gen_pixel_shuffle(rng, n):
    fixed = [([4, 0, 2], 2), ([4, 2, 0], 2), ([0, 4, 2, 2], 2), ([2, 0, 4, 2, 2], 2), ([1, 9, 2, 2], 3)]
    for i in range(n):
        if i < len(fixed):
            s, r = fixed[i]
        else:
            r = rng.choice([1, 2, 2, 2, 3])
            batch = [rng.randint(0 if i % 7 == 0 else 1, 3) for _ in range(rng.choice([0, 0, 1, 1, 2, 3]))]
            s = batch + [r * r * rng.randint(1, 2), rng.randint(1, 3), rng.randint(1, 3)]
            if i % 13 == 12:
                s[-3] += 1                                                   # channels not divisible: torch refuses
        yield [tensor(rng, s, "float32", kind="iota"), r], {}


def gen_pixel_unshuffle(rng, n):
    for i in range(n):
        r = rng.choice([1, 2, 2, 2, 3])
        batch = [rng.randint(1, 3) for _ in range(rng.choice([0, 0, 1, 1, 2, 3]))]
        s = batch + [rng.randint(1, 3), r * rng.randint(1, 3), r * rng.randint(1, 3)]
        if i % 13 == 12 and r > 1:
            s[-1] += 1                                                       # not divisible: torch refuses
        yield [tensor(rng, s, "float32", kind="iota"), r], {}


def gen_maxmin_dim(rng, n):
    fixed = [([], 0), ([], -1), ([], 0), ([3], -1), ([2, 3], -2), ([2, 0, 3], -1)]
    for i in range(n):
        if i < len(fixed):
            s, d = fixed[i]
        else:
            s = rand_shape(rng, allow_zero=(i % 5 == 0))
            r = len(s)
            d = rng.randint(-max(r, 1), max(r, 1) - 1)
        yield [perm_values(rng, s), d, bool(i % 2)], {}


def gen_atleast(rng, n):
    fixed = [[], [0], [3], [2, 0], [2, 3], [1, 1], [2, 3, 4], [0, 2, 0], [1, 2, 3, 4]]
    for i in range(n):
        s = fixed[i] if i < len(fixed) else rand_shape(rng, allow_zero=True)
        yield [tensor(rng, s, "int64" if i % 2 else "float32", kind="iota")], {}


def gen_padnd(e, reflect):
    def g(rng, n):
        if reflect:                                                          # witness of the known finding (replayed on every run)
            yield [tensor(rng, {1: [1, 5], 2: [1, 3, 2], 3: [1, 2, 3, 5]}[e], "float32", kind="iota"),
                   {1: [4, -1], 2: [1, -1, 1, 1], 3: [4, -1, 0, 0, 0, 0]}[e]], {}
        for i in range(n):
            sp = [rng.randint(2, 5) for _ in range(e)]
            lead = [rng.randint(1, 3)] if i % 2 else [rng.randint(0 if i % 9 == 0 else 1, 2), rng.randint(1, 3)]
            s = lead + sp
            pad = []
            for ext in reversed(sp):
                hi = ext - 1 if reflect else ext + 2
                for _ in range(2):
                    p = rng.randint(0, hi)
                    if rng.random() < 0.12:
                        p = -1
                    pad.append(p)
            if i % 19 == 18 and reflect:
                pad[0] = sp[-1]                                              # pad = extent: torch refuses reflection
            yield [tensor(rng, s, "float32", kind="iota"), pad], {}
    return g


def gen_group_norm(native):
    def g(rng, n):
        for i in range(n):
            grp = rng.choice([1, 2, 2, 3, 4])
            c = grp * rng.randint(1, 2)
            s = [rng.randint(1, 3), c] + [rng.randint(1, 3) for _ in range(0 if i < 2 else rng.choice([0, 1, 1, 2, 3]))]
            x = tensor(rng, s, "float32", kind="rand")
            w = tensor(rng, [c], "float32", kind="rand") if i % 3 != 0 else None
            bb = tensor(rng, [c], "float32", kind="rand") if i % 3 == 1 else None
            if native:
                yield [x, w, bb, s[0], c, numel(s[2:]), grp, 1e-5], {}
            else:
                yield [x, grp, w, bb, 1e-5], {}
    return g


def gen_glu(rng, n):
    for i in range(n):
        s = rand_shape(rng, min_rank=1, allow_zero=False)
        r = len(s)
        d = rng.randint(-r, r - 1)
        s[d] = 2 * rng.randint(1, 3) + (1 if i % 11 == 10 else 0)          # odd: torch refuses
        yield [tensor(rng, s, "float32", kind="rand"), d], {}


# ----------------------------------------------------------------------------- families

def build(torch):
    A = torch.ops.aten
    F = []

    def add(f, finding=None, shape_only=False):
        f.finding = finding or (lambda a, k, want, desc: None)
        if shape_only:
            f.shape_only = True
        F.append(f)

    def ax(a, pos):
        return wrap(a[pos], len(sh(a[0])))

    # ---- select_scatter / slice_scatter
    add(Fam("select_scatter", "aten_select_scatter", lambda x, y, d, i: torch.select_scatter(x, y, d, i), gen_select_scatter,
            lambda a, k: f"(C5SelectScatter {len(sh(a[0]))} {z(a[2])} {llz(slabs(arr(a[0]), ax(a, 2)))} {lz(flat_ints(arr(a[1])))} {z(a[3])})",
            lambda a, k, out: r5slabs(out, ax(a, 2)),
            lambda a, k: (len(sh(a[0])), a[2] < 0, a[2] == -len(sh(a[0])), a[3] < 0, numel(sh(a[0])) == 0), chk=5, quick=60, thorough=600,
            floors={"negative dim": (lambda a, k: a[2] < 0, 12), "negative index": (lambda a, k: a[3] < 0, 12),
                    "rank >= 3": (lambda a, k: len(sh(a[0])) >= 3, 8)}))
    add(Fam("slice_scatter", "aten_slice_scatter", lambda x, y, d, s, e, st: torch.slice_scatter(x, y, d, s, e, st), gen_slice_scatter,
            lambda a, k: (f"(C5SliceScatter {len(sh(a[0]))} {z(a[2])} {llz(slabs(arr(a[0]), ax(a, 2)))} {llz(slabs(arr(a[1]), ax(a, 2)))} "
                          f"{oz(a[3])} {oz(a[4])} {z(a[5])})"),
            lambda a, k, out: r5slabs(out, ax(a, 2)),
            lambda a, k: (len(sh(a[0])), a[2] < 0, ax(a, 2) == 0, a[3] is None, a[4] is None, a[5], sh(a[1])[ax(a, 2)] == 0), chk=5, quick=80, thorough=800,
            floors={"negative dim": (lambda a, k: a[2] < 0, 15), "dim -rank (perm is the identity)": (lambda a, k: a[2] == -len(sh(a[0])) and len(sh(a[0])) > 1, 2),
                    "step > 1": (lambda a, k: a[5] > 1, 10), "start omitted": (lambda a, k: a[3] is None, 5), "end omitted": (lambda a, k: a[4] is None, 5),
                    "negative start or end": (lambda a, k: (a[3] or 0) < 0 or (a[4] or 0) < 0, 10),
                    "inner dimension": (lambda a, k: ax(a, 2) > 0, 20)}))

    # ---- repeat_interleave
    add(Fam("repeat_interleave_int", "aten_repeat_interleave_self_int", lambda x, r, d: A.repeat_interleave.self_int(x, r, d), gen_repeat_int,
            lambda a, k: f"(C5RepeatInt {lz(sh(a[0]))} {z(a[1])} {oz(a[2])})", lambda a, k, out: shapes(out),
            lambda a, k: (len(sh(a[0])), a[1], a[2] is None, (a[2] or 0) < 0, numel(sh(a[0])) == 0), chk=5, quick=50, thorough=500,
            floors={"dim omitted": (lambda a, k: a[2] is None, 5), "negative dim": (lambda a, k: (a[2] or 0) < 0, 8), "repeats 0": (lambda a, k: a[1] == 0, 2)}),
        finding=lambda a, k, want, desc: "listed-skip:empty-input" if numel(sh(a[0])) == 0 else None)
    add(Fam("repeat_interleave_tensor", "aten_repeat_interleave_Tensor", lambda r: A.repeat_interleave.Tensor(r), gen_repeat_tensor,
            lambda a, k: f"(C5RepeatTensor {lz(a[0]['data'])})", lambda a, k, out: f"(R5Data {lz(flat_ints(out))})",
            lambda a, k: (len(a[0]["data"]), 0 in a[0]["data"], sum(a[0]["data"]) == 0), chk=5, quick=30, thorough=300,
            floors={"a zero count": (lambda a, k: 0 in a[0]["data"], 5)}),
        finding=lambda a, k, want, desc: "listed-skip:empty-input" if not a[0]["data"] else None)

    # ---- pixel_shuffle / pixel_unshuffle
    add(Fam("pixel_shuffle", "aten_pixel_shuffle", lambda x, r: torch.pixel_shuffle(x, r), gen_pixel_shuffle,
            lambda a, k: f"(C5PixelShuffle {lz(sh(a[0]))} {z(a[1])})", lambda a, k, out: shapes(out),
            lambda a, k: (len(sh(a[0])), a[1], numel(sh(a[0])) == 0), chk=5, quick=40, thorough=400,
            floors={"rank 3": (lambda a, k: len(sh(a[0])) == 3, 3), "rank >= 5": (lambda a, k: len(sh(a[0])) >= 5, 5), "rank 4": (lambda a, k: len(sh(a[0])) == 4, 3)}),
        finding=lambda a, k, want, desc: ("non-4d-input-zero-extent" if len(sh(a[0])) != 4 and 0 in sh(a[0])[-3:] else None))
    add(Fam("pixel_unshuffle", "aten_pixel_unshuffle", lambda x, r: torch.pixel_unshuffle(x, r), gen_pixel_unshuffle,
            lambda a, k: f"(C5PixelUnshuffle {lz(sh(a[0]))} {z(a[1])})", lambda a, k, out: shapes(out),
            lambda a, k: (len(sh(a[0])), a[1]), chk=5, quick=40, thorough=400,
            floors={"rank 3": (lambda a, k: len(sh(a[0])) == 3, 3), "rank >= 5": (lambda a, k: len(sh(a[0])) >= 5, 5), "factor 3": (lambda a, k: a[1] == 3, 2)}),
        finding=lambda a, k, want, desc: "listed-skip:empty-input" if numel(sh(a[0])) == 0 else None)

    # ---- max.dim / min.dim
    for nm, mn, ref in (("max_dim", False, lambda x, d, kd: list(torch.max(x, d, kd))), ("min_dim", True, lambda x, d, kd: list(torch.min(x, d, kd)))):
        add(Fam(nm, "aten_" + nm, ref, gen_maxmin_dim,
                (lambda mn_: lambda a, k: f"(C5MaxMinDim {b(mn_)} {lz(sh(a[0]))} {z(a[1])} {b(a[2])})")(mn), lambda a, k, out: shapes(out),
                lambda a, k: (len(sh(a[0])), a[1] < 0, a[2], numel(sh(a[0])) == 0), chk=5, quick=40, thorough=400,
                floors={"rank 0": (lambda a, k: not sh(a[0]), 2), "negative dim": (lambda a, k: a[1] < 0, 8), "keepdim": (lambda a, k: a[2], 8)}))

    # ---- atleast_Nd
    for kk in (1, 2, 3):
        add(Fam(f"atleast_{kk}d", f"aten_atleast_{kk}d", (lambda k_: lambda x: getattr(torch, f"atleast_{k_}d")(x))(kk), gen_atleast,
                (lambda k_: lambda a, k: f"(C5Atleast {k_} {lz(sh(a[0]))})")(kk), lambda a, k, out: shapes(out),
                lambda a, k: (len(sh(a[0])), numel(sh(a[0])) == 0), chk=5, quick=20, thorough=200,
                floors={"rank 0": (lambda a, k: not sh(a[0]), 1), "rank 1": (lambda a, k: len(sh(a[0])) == 1, 2), "rank 2": (lambda a, k: len(sh(a[0])) == 2, 2)}))

    # ---- reflection / replication pads
    for e in (1, 2, 3):
        for kind, reflect in (("reflection", True), ("replication", False)):
            nm = f"{kind}_pad{e}d"
            add(Fam(nm, "aten_" + nm, (lambda n_: lambda x, p: getattr(A, n_)(x, p))(nm), gen_padnd(e, reflect),
                    lambda a, k: f"(C5PadNd {lz(sh(a[0]))} {lz(a[1])})", lambda a, k, out: shapes(out),
                    (lambda e_: lambda a, k: (e_, len(sh(a[0])) - e_, any(p < 0 for p in a[1]), numel(sh(a[0])) == 0))(e), chk=5, mod="nn",
                    quick=24, thorough=240,
                    floors={"begin and end differ": (lambda a, k: any(a[1][j] != a[1][j + 1] for j in range(0, len(a[1]), 2)), 6),
                            "unbatched": ((lambda e_: lambda a, k: len(sh(a[0])) == e_ + 1)(e), 4)}),
                finding=(lambda a, k, want, desc: "negative-pad-beside-reflecting-pad" if any(p < 0 for p in a[1]) and desc == "runtime-error" else None) if reflect else None)

    # ---- group_norm / native_group_norm / glu (structure, element type and shape; the normalisation itself is kernel arithmetic)
    add(Fam("group_norm", "aten_group_norm", lambda x, g, w, bb, eps: A.group_norm(x, g, w, bb, eps), gen_group_norm(False),
            lambda a, k: f"(C5GroupNorm false {b(a[2] is not None)} {b(a[3] is not None)} {lz(sh(a[0]))} {z(a[1])})", lambda a, k, out: shapes(out),
            lambda a, k: (len(sh(a[0])), a[1], a[2] is None, a[3] is None), chk=5, mod="nn", quick=30, thorough=300,
            floors={"rank 2": (lambda a, k: len(sh(a[0])) == 2, 2), "rank >= 4": (lambda a, k: len(sh(a[0])) >= 4, 4), "one group": (lambda a, k: a[1] == 1, 1)}),
        shape_only=True)
    add(Fam("native_group_norm", "aten_native_group_norm", lambda x, w, bb, N, C, HW, g, eps: list(A.native_group_norm(x, w, bb, N, C, HW, g, eps)),
            gen_group_norm(True),
            lambda a, k: f"(C5GroupNorm true {b(a[1] is not None)} {b(a[2] is not None)} {lz(sh(a[0]))} {z(a[6])})", lambda a, k, out: shapes(out),
            lambda a, k: (len(sh(a[0])), a[6], a[1] is None, a[2] is None), chk=5, quick=30, thorough=300,
            floors={"rank 2": (lambda a, k: len(sh(a[0])) == 2, 2), "rank >= 4": (lambda a, k: len(sh(a[0])) >= 4, 4)}),
        shape_only=True)
    add(Fam("glu", "aten_glu", lambda x, d: A.glu(x, d), gen_glu,
            lambda a, k: f"(C5Glu {lz(sh(a[0]))} {z(a[1])})", lambda a, k, out: shapes(out),
            lambda a, k: (len(sh(a[0])), a[1] < 0, a[1] == -len(sh(a[0]))), chk=5, mod="nn", quick=24, thorough=240,
            floors={"negative dim": (lambda a, k: a[1] < 0, 6)}),
        shape_only=True)
    return F
