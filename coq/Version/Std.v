(* C10 -- the model instantiated with the registry and bounds read from the live module
   (Gen/VersionTables.v), plus what the correspondence harness evaluates.  No proofs in this file. *)
From Coq Require Import ZArith List Bool String.
Import ListNotations.
Require Import OV.Gen.VersionTables OV.Version.Model OV.Version.Adapters.
Open Scope Z_scope.

Definition std_adapt (fx : flags) : adapter := adapt_of registry_keys fx.
Definition big_fuel : nat := Z.to_nat 3000.

Definition std_native (fx : flags) (M : model) (t : Z) : mres :=
  convert_native (std_adapt fx) supported_min supported_max big_fuel M t.
Definition std_pass (fx : flags) (inline cleanup : model -> model) (capi : model -> Z -> option model)
                    (fb : bool) (M : model) (t : Z) : mres :=
  pass_convert (std_adapt fx) supported_min supported_max big_fuel inline cleanup capi fb M t.

(* ---------------------------------------------------------------- registry checks (finite, regenerated) *)
Definition key_modelled (key : string * string * Z * bool) : bool :=
  let '(d, o, v, up) := key in
  String.eqb d "" && up && (match modelled flags_current o v with Some _ => true | None => false end).
Definition key_in_range (key : string * string * Z * bool) : bool :=
  let '(_, _, v, _) := key in (supported_min <=? v) && (v <? supported_max).
Definition registry_checks : bool :=
  forallb key_modelled registry_keys && forallb key_in_range registry_keys
  && (supported_min <=? supported_max).

(* ---------------------------------------------------------------- correspondence *)
(* extra adapters patched into the live registry by the harness to exercise the loop *)
Inductive fake := FRaiseVCE | FRaiseOther | FReplace (news : list node).
Fixpoint find_fake (op : string) (k : Z) (fs : list (string * Z * fake)) : option fake :=
  match fs with
  | [] => None
  | (o, v, f) :: r => if String.eqb o op && (v =? k) then Some f else find_fake op k r
  end.
Definition with_fakes (fs : list (string * Z * fake)) (base : adapter) : adapter :=
  fun op k n =>
    match find_fake op k fs with
    | Some FRaiseVCE => ARaiseVCE
    | Some FRaiseOther => ARaiseOther
    | Some (FReplace news) => AReplace news
    | None => base op k n
    end.

Inductive ecls := CVce | CValue | COther | CFuel.
Definition cls_of (e : err) : ecls :=
  match e with
  | ENoVersion | ERefAttr | EDowngrade | ERefused => CVce
  | EValueRange | EOpsetConflict | EGhostReplace => CValue
  | EOther => COther
  | EOutOfFuel => CFuel
  end.
Definition ecls_eqb (a b : ecls) : bool :=
  match a, b with CVce, CVce | CValue, CValue | COther, COther | CFuel, CFuel => true | _, _ => false end.

(* what the harness observed on the real code: final state, number of "Skipping ..." warnings, or the
   exception class and the state left behind *)
Inductive observed := ODone (M : model) (nlog : nat) | ORaised (c : ecls) (M : model).

Definition agrees_m (r : mres) (o : observed) : bool :=
  match r, o with
  | MDone M l, ODone M' n => model_eqb M M' && Nat.eqb (List.length l) n
  | MRaised e M _, ORaised c M' => ecls_eqb (cls_of e) c && model_eqb M M'
  | _, _ => false
  end.
Definition agrees_p (r : pres) (o : observed) : bool :=
  match r, o with
  | PDone p l, ODone p' n => model_eqb p p' && Nat.eqb (List.length l) n
  | PRaised e p, ORaised c p' => ecls_eqb (cls_of e) c && model_eqb p p'
  | _, _ => false
  end.

Inductive case :=
| CNative (fx : flags) (fakes : list (string * Z * fake)) (M : model) (t : Z) (o : observed)
    (* _version_converter.convert_version(ir_model, t) *)
| CPass (fx : flags) (fb : bool) (Minl : model) (capi : option model) (t : Z) (o : observed)
    (* version_converter.convert_version(ir_model, t, fallback); Minl = the model after the real inline pass,
       capi = what the real C-API call returned for it *)
| CProto (copy : bool) (fx : flags) (fb : bool) (p : model) (Minl : model) (capi : option model) (t : Z) (o : observed).

Definition run_case (c : case) : bool :=
  match c with
  | CNative fx fakes M t o =>
    agrees_m (convert_native (with_fakes fakes (std_adapt fx)) supported_min supported_max big_fuel M t) o
  | CPass fx fb Minl capi t o =>
    agrees_m (std_pass fx (fun _ => Minl) (fun m => m) (fun _ _ => capi) fb Minl t) o
  | CProto copy fx fb p Minl capi t o =>
    agrees_p (proto_convert copy (std_pass fx (fun _ => Minl) (fun m => m) (fun _ _ => capi) fb) p t) o
  end.

Fixpoint disagreeing (i : nat) (cs : list case) : list nat :=
  match cs with
  | [] => []
  | c :: r => (if run_case c then [] else [i]) ++ disagreeing (S i) r
  end.

(* verified checker, evaluated on the states the real code produced *)
Fixpoint inconsistent (i : nat) (ms : list (Z * model)) : list nat :=
  match ms with
  | [] => []
  | (t, M) :: r => (if consistent_at t M then [] else [i]) ++ inconsistent (S i) r
  end.

(* ---------------------------------------------------------------- witnesses replayed on the real code *)
Definition relu := Node "Relu" true None false [] [true] [] [].
Definition neg := Node "Neg" true None false [] [true] [] [].
(* GroupNormalization whose input has no shape (e.g. an intermediate value without value_info) *)
Definition gn_noshape :=
  Node "GroupNormalization" true None false [("num_groups"%string, AInt 2)] [true; true; true]
       [DMissing; DStatic 2; DStatic 2] [].
Definition w_skip : model := Model (Some 20) None [relu; gn_noshape] [].
(* DFT with an explicit axis, opset 19 *)
Definition dft_axis1 := Node "DFT" true None false [("axis"%string, AInt 1)] [true] [] [].
Definition w_proto : model := Model (Some 19) None [dft_axis1; neg] [].
Definition id_model (m : model) := m.
Definition no_capi (m : model) (t : Z) : option model := None.
(* a function whose second node has a reference attribute (internal entry only: the public entry inlines) *)
Definition w_refattr : model :=
  Model (Some 19) None [relu] [Func (Some 19) None [relu; Node "LeakyRelu" true None true [] [true] [] []]].
