(* C12 property theorems, part 3: cache keys under Python's ==/hash on ALL numbers -- bool vs int (True == 1, equal hash),
   int vs float (1 == 1.0), 0.0 vs -0.0, NaN (equal to nothing; found in a dict only as the same object), +-inf, ints beyond
   2^53 / 2^63 -- for every cache of the three front ends:
     builder    GraphBuilder._constant_cache, key (value | tuple(value), resolved dtype, _float_signs(value))     proved
                initializer names f"const_{value}_{suffix}"                                              injective except on NaN (_refuted)
     converter  _translate_subscript_expr: cached_int_consts[value], the python value alone              _refuted (True vs 1), _partial, _fixed
     eager      no cache (cache inventory of the translator; histories replayed by the harness)
   Model: coq/Autocast/PyKey.v (its own value type: the literal type of Autocast.v has no NaN / inf); proofs: PyKeyProofs.v.
   `pget T mk c l d`: _get_or_create_constant on cache c; `prun`: a history of requests; `mk l r`: the tensor created for the
   literal l at the resolved dtype r; `pdenote`: the tensor a request denotes on its own.
   Not covered: float literals are taken in lowest terms (float.as_integer_ratio, so a zero is 0/1); str keys; rounding of
   ints beyond 2^53 at float dtypes is whatever `mk` does (the theorem holds for every mk that converts a bool like the
   int it equals). *)
From Coq Require Import ZArith NArith List Bool.
Require Import OV.Autocast.Autocast OV.Autocast.PyKey OV.Autocast.PyKeyProofs.
Import ListNotations.

(* -- C12_cache_never_conflates extended to the key tuples of the code under Python's ==/hash: whatever the history, a
      request is handed the tensor it denotes on its own, for EVERY creation function that converts a bool like the int it
      equals at an explicit dtype -- *)
Theorem C12_cache_never_conflates_python_keys : forall (T : Type) (mk : pylit -> option dtype -> T),
  (forall l d, mk l (Some d) = mk (pnorm_lit l) (Some d)) ->
  forall h l d, snd (pget T mk (prun T mk [] h) l d) = pdenote T mk l d.
Proof. exact pcache_never_conflates. Qed.
Print Assumptions C12_cache_never_conflates_python_keys.

(* -- two requests with matching keys denote the same tensor -- *)
Theorem C12_key_match_same_creation : forall (T : Type) (mk : pylit -> option dtype -> T),
  (forall l d, mk l (Some d) = mk (pnorm_lit l) (Some d)) ->
  forall l1 d1 l2 d2, pcached l1 = true -> pcached l2 = true -> pkey_match (pkey_of l1 d1) (pkey_of l2 d2) = true ->
  mk l1 (presolve l1 d1) = mk l2 (presolve l2 d2).
Proof. exact key_match_same_creation. Qed.
Print Assumptions C12_key_match_same_creation.

(* -- the hypothesis holds of the model of np.asarray(value).astype(dtype) (NaN / inf included), so: -- *)
Theorem C12_py_mk_norm : forall w l d, py_mk w l (Some d) = py_mk w (pnorm_lit l) (Some d).
Proof. exact py_mk_norm. Qed.
Print Assumptions C12_py_mk_norm.

Theorem C12_builder_key_never_conflates : forall w h l d,
  snd (pget _ (py_mk w) (prun _ (py_mk w) [] h) l d) = pdenote _ (py_mk w) l d.
Proof. exact builder_key_never_conflates. Qed.
Print Assumptions C12_builder_key_never_conflates.

(* -- what the key identifies (True with 1 at an explicit dtype) and what it keeps apart (True / 1 without a dtype, 1 / 1.0,
      0.0 / -0.0, two NaN objects, any int and any float) -- *)
Theorem C12_key_classes :
  (forall d, pkey_match (pkey_of P1 (Some d)) (pkey_of PTrue (Some d)) = true) /\
  pkey_match (pkey_of P1 None) (pkey_of PTrue None) = false /\
  (forall d d', pkey_match (pkey_of P1 d) (pkey_of P1f d') = false) /\
  (forall d d', pkey_match (pkey_of P0f d) (pkey_of Pm0f d') = false) /\
  (forall n i j d d', pkey_match (pkey_of (PS (PFloat (FNan n i))) d) (pkey_of (PS (PFloat (FNan n j))) d') = true -> i = j) /\
  (forall z f d d', pkey_match (pkey_of (PS (PInt z)) d) (pkey_of (PS (PFloat f)) d') = false).
Proof. exact key_classes. Qed.
Print Assumptions C12_key_classes.

(* -- converter, subscript constants: the key is the python value alone, so after `1` a request for `True` is handed the
      INT64 tensor [1] instead of BOOL [True], and after `True` a request for `1` the BOOL tensor (x[1:5:True]) -- *)
Theorem C12_subscript_key_conflates_refuted :
  snd (vget _ sub_tensor (vrun _ sub_tensor [] [PInt 1]) (PBool true)) = (INT64, PInt 1) /\
  sub_tensor (PBool true) = (BOOL, PBool true) /\
  snd (vget _ sub_tensor (vrun _ sub_tensor [] [PBool true]) (PInt 1)) = (BOOL, PBool true) /\
  sub_tensor (PInt 1) = (INT64, PInt 1).
Proof. exact subscript_key_conflates_refuted. Qed.
Print Assumptions C12_subscript_key_conflates_refuted.

(* -- partial: sound while every key is an int (no bool among the slice bounds / indices of one subscript) -- *)
Theorem C12_subscript_key_ints_only_partial : forall (T : Type) (mk : pyval -> T) h v,
  forallb is_pint h = true -> is_pint v = true -> snd (vget T mk (vrun T mk [] h) v) = mk v.
Proof. exact subscript_key_ints_only_partial. Qed.
Print Assumptions C12_subscript_key_ints_only_partial.

(* -- repaired (value = int(value) first: proposed_fixes/C12_subscript_constant_cache_bool_key.diff): ints and bools in any order -- *)
Theorem C12_subscript_key_fixed : forall h v, forallb is_intlike h = true -> is_intlike v = true ->
  snd (vget _ sub_tensor_int (vrun _ sub_tensor_int [] h) v) = sub_tensor_int v.
Proof. exact subscript_key_fixed. Qed.
Print Assumptions C12_subscript_key_fixed.

(* -- initializer names: requests whose keys differ get different names, unless both are NaN ... -- *)
Theorem C12_name_collision_only_nan : forall a da b db,
  pkey_match (pkey_of (PS a) da) (pkey_of (PS b) db) = false ->
  name_eq a (presolve (PS a) da) b (presolve (PS b) db) = true -> is_nan a && is_nan b = true.
Proof. exact name_collision_only_nan. Qed.
Print Assumptions C12_name_collision_only_nan.

(* -- ... and two NaN objects do collide: the second float("nan") beside a tensor misses the cache and is refused by
      register_initializer ("already registered, but it is not the same object") -- *)
Theorem C12_nan_name_collision_refuted : exists a b d,
  pkey_match (pkey_of (PS a) d) (pkey_of (PS b) d) = false /\ name_eq a (presolve (PS a) d) b (presolve (PS b) d) = true.
Proof. exact nan_name_collision_refuted. Qed.
Print Assumptions C12_nan_name_collision_refuted.
