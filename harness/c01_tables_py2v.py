"""Translator of the operator tables  ->  coq/Gen/ScriptTables.v   (DESIGN.md 4.1, `tables_py2v`, C01 part).

  * converter.primop_map (dict literal  ast.<Op> : "<OnnxOp>")         -> primop_map : list (string * string)
  * the special case of `%` in Converter._translate_binary_op_expr      -> verified template, flag `mod_fmod_rule`
  * tensor.Tensor operator methods (`def __add__(self, other): return self._opset.Add(self, other)`)
                                                                        -> tensor_methods : list (string * tmethod)
  * the type variables of the inputs of every operator of opset 18 (what autocast.cast_inputs consults)
                                                                        -> op_typevars : list (string * (list string * bool))
Fail-closed: an entry outside the recognised shapes raises Untranslatable.
"""
from __future__ import annotations

import ast
import os

from harness import c01_pynorm as pynorm


class Untranslatable(Exception):
    pass


def _cs(s):
    return '"' + s.replace('"', '""') + '"'


def primop_map(conv_path):
    where = os.path.basename(conv_path)
    tree = ast.parse(open(conv_path).read())
    for n in tree.body:
        if isinstance(n, ast.Assign) and len(n.targets) == 1 and isinstance(n.targets[0], ast.Name) and n.targets[0].id == "primop_map":
            if not isinstance(n.value, ast.Dict):
                raise Untranslatable(where, "primop_map is not a dict literal")
            res = []
            for k, v in zip(n.value.keys, n.value.values):
                if not (isinstance(k, ast.Attribute) and isinstance(k.value, ast.Name) and k.value.id == "ast"
                        and isinstance(v, ast.Constant) and isinstance(v.value, str)):
                    raise Untranslatable(where, f"primop_map entry outside `ast.X: \"Op\"` (line {k.lineno})")
                res.append((k.attr, v.value))
            return res
    raise Untranslatable(where, "primop_map not found")


MOD_TEMPLATE = '''
attrs = []
if isinstance(node.op, ast.Mod) and self._is_constant_expr(node.right):
    cst = self._eval_constant_expr(node.right)
    if isinstance(cst, float):
        attrs = [ir.AttrInt64("fmod", 1)]
'''


def mod_rule(conv_path):
    """'float-literal-rhs' when the converter adds fmod=1 exactly for a constant float right operand."""
    where = os.path.basename(conv_path)
    tree = ast.parse(open(conv_path).read())
    for n in ast.walk(tree):
        if isinstance(n, ast.FunctionDef) and n.name == "_translate_binary_op_expr":
            want = ast.dump(ast.parse(MOD_TEMPLATE))
            cwant = pynorm.alpha_dump_stmts(ast.parse(MOD_TEMPLATE).body)
            try:        # parameters by position, so that the free names of the template mean the same thing
                n = pynorm.rename_params(n, ["self", "node"])
            except pynorm.NotNormalisable:
                pass
            body = [s for s in n.body]
            # statements 2 and 3 of the body (after `op = type(node.op)` and the primop_map test)
            for i in range(len(body) - 1):
                got = ast.dump(ast.parse(ast.unparse(ast.Module(body=body[i:i + 2], type_ignores=[]))))
                if got == want or pynorm.alpha_dump_stmts(body[i:i + 2]) == cwant:
                    return "float-literal-rhs"
            raise Untranslatable(where, "the fmod special case of `%` in _translate_binary_op_expr changed shape")
    raise Untranslatable(where, "_translate_binary_op_expr not found")


FLOAT_SET_SRC = "{ir.DataType.FLOAT, ir.DataType.DOUBLE, ir.DataType.FLOAT16, ir.DataType.BFLOAT16}"


def tensor_methods(tensor_path):
    """[(method, kind, op, swapped, attrs)]; kind in plain | mod-by-dtype | not-equal."""
    where = os.path.basename(tensor_path)
    tree = ast.parse(open(tensor_path).read())
    cls = [n for n in tree.body if isinstance(n, ast.ClassDef) and n.name == "Tensor"]
    if not cls:
        raise Untranslatable(where, "class Tensor not found")
    skip = {"__init__", "__repr__", "__bool__", "__int__", "__float__", "__len__", "__index__", "__getitem__"}
    res = []
    for f in cls[0].body:
        if not isinstance(f, ast.FunctionDef) or not (f.name.startswith("__") and f.name.endswith("__")) or f.name in skip:
            continue
        # equivalent spellings (c01_pynorm): parameters by position, `t = E; return g(t)`, if/else vs early return
        try:
            if len(f.args.args) in (1, 2) and not (f.args.posonlyargs or f.args.kwonlyargs or f.args.vararg or f.args.kwarg):
                f = pynorm.rename_params(f, ["self", "other"][:len(f.args.args)])
        except pynorm.NotNormalisable:
            pass
        args = [a.arg for a in f.args.args]
        body = [s for s in f.body if not (isinstance(s, ast.Expr) and isinstance(s.value, ast.Constant))]
        src = ast.unparse(ast.Module(body=body, type_ignores=[]))
        if f.name == "__mod__":
            want = (f"if self.onnx_dtype in {FLOAT_SET_SRC}:\n    return self._opset.Mod(self, other, fmod=1)\n"
                    "return self._opset.Mod(self, other)")
            if (ast.dump(ast.parse(src)) != ast.dump(ast.parse(want))
                    and pynorm.alpha_dump_stmts(body) != pynorm.alpha_dump_stmts(ast.parse(want).body)):
                raise Untranslatable(where, f"Tensor.__mod__ changed shape (line {f.lineno})")
            res.append(("__mod__", "mod-by-dtype", "Mod", False, []))
            continue
        if f.name == "__ne__":
            want = "temp = self._opset.Equal(self, other)\nreturn self._opset.Not(temp)"
            if (ast.dump(ast.parse(src)) != ast.dump(ast.parse(want))
                    and pynorm.alpha_dump_stmts(body) != pynorm.alpha_dump_stmts(ast.parse(want).body)):
                raise Untranslatable(where, f"Tensor.__ne__ changed shape (line {f.lineno})")
            res.append(("__ne__", "not-equal", "Equal", False, []))
            continue
        if len(body) > 1:
            g = ast.parse("def _m_():\n    pass").body[0]
            g.body = body
            body = pynorm.flatten(pynorm.inline_single_use(g).body)
        ok = len(body) == 1 and isinstance(body[0], ast.Return) and isinstance(body[0].value, ast.Call)
        if ok:
            c = body[0].value
            ok = (isinstance(c.func, ast.Attribute) and ast.unparse(c.func.value) == "self._opset" and not c.keywords
                  and all(isinstance(a, ast.Name) for a in c.args))
        if not ok:
            raise Untranslatable(where, f"Tensor.{f.name} is not `return self._opset.Op(...)` (line {f.lineno})")
        names = [a.id for a in c.args]
        if args == ["self"] and names == ["self"]:
            res.append((f.name, "plain", c.func.attr, False, []))
        elif args == ["self", "other"] and names == ["self", "other"]:
            res.append((f.name, "plain", c.func.attr, False, []))
        elif args == ["self", "other"] and names == ["other", "self"]:
            res.append((f.name, "plain", c.func.attr, True, []))
        else:
            raise Untranslatable(where, f"Tensor.{f.name}: unexpected argument order {names} (line {f.lineno})")
    return res


def op_typevars(version=18):
    """For every operator of the default domain at `version`: (type variable of each input, last input variadic?).
    The name is "" where the binding is skipped by cast_inputs ("(" in the name) or the variadic input is not homogeneous."""
    import onnx.defs
    from onnxscript import values
    opset = values.Opset("", version)
    res = []
    names = sorted({s.name for s in onnx.defs.get_all_schemas_with_history() if s.domain == "" and s.since_version <= version})
    for name in names:
        try:
            schema = onnx.defs.get_schema(name, version, "")
        except Exception:  # noqa: BLE001
            continue
        if schema.deprecated:
            continue
        sig = values.Op(opset, name, schema).op_signature
        if sig is None:
            continue
        tvs = []
        variadic = False
        for p in sig.inputs:
            tv = p.type_constraint.name
            if "(" in tv:
                tv = ""
            if p.variadic:
                variadic = True
                if not p.homogeneous:
                    tv = ""
            tvs.append(tv)
        res.append((name, tvs, variadic))
    return res


def translate(repo):
    conv = os.path.join(repo, "onnxscript", "_internal", "converter.py")
    tens = os.path.join(repo, "onnxscript", "tensor.py")
    pm = primop_map(conv)
    rule = mod_rule(conv)
    tm = tensor_methods(tens)
    tv = op_typevars(18)
    lines = ["(* GENERATED by harness/c01_tables_py2v.py from converter.py (primop_map, `%` rule), tensor.py (Tensor operator",
             "   methods) and the operator signatures of opset 18 -- do not edit. *)",
             "From Coq Require Import List String Bool.", "Import ListNotations.", "Local Open Scope string_scope.", "",
             "(* python operator (ast class name) -> ONNX operator; \"NotEqual\" is expanded to Equal + Not by the converter *)",
             "Definition primop_map : list (string * string) :=",
             "  [" + ";\n   ".join(f"({_cs(k)}, {_cs(v)})" for k, v in pm) + "].", "",
             "(* when does the converter add fmod=1 to Mod?  MFloatLiteralRhs: exactly when the right operand is a constant float *)",
             "Inductive mod_rule := MFloatLiteralRhs.",
             "Definition converter_mod_rule : mod_rule := MFloatLiteralRhs.", "",
             "(* Tensor.__op__ in eager mode: TPlain op swapped | TModByDtype (fmod=1 iff the left operand is a float tensor) | TNotEqual *)",
             "Inductive tmethod := TPlain (op : string) (swapped : bool) | TModByDtype | TNotEqual.",
             "Definition tensor_methods : list (string * tmethod) :=",
             "  [" + ";\n   ".join(
                 f"({_cs(m)}, " + ("TModByDtype" if kind == "mod-by-dtype" else "TNotEqual" if kind == "not-equal"
                                    else f"TPlain {_cs(op)} {'true' if sw else 'false'}") + ")"
                 for (m, kind, op, sw, _a) in tm) + "].", "",
             "(* type variable of every input of every operator of opset 18 (\"\" = none); flag = last input is variadic *)",
             "Definition op_typevars : list (string * (list string * bool)) :=",
             "  [" + ";\n   ".join(
                 f"({_cs(n)}, ([" + "; ".join(_cs(t) for t in tvs) + f"], {'true' if var else 'false'}))" for (n, tvs, var) in tv) + "].", ""]
    return "\n".join(lines)
