(* C07 proofs, part 6: the frame over a whole replayed sweep (metadata_props of every node and value that no application
   of the sweep matched or created are what they were -- for the event lists the tie replays, single-root and generalised),
   and overlapping matches: a node removed by one application is not a node of the list any more, so a later match
   -- which selects nodes of the CURRENT list -- cannot contain it. *)
From Coq Require Import List String ZArith Bool Arith Lia.
Require Import OV.Graph.Syntax OV.Graph.Names OV.Rewrite.Apply OV.Rewrite.ApplyProofs OV.Rewrite.State OV.Rewrite.StateProofs.
Require Import OV.Rewrite.Multi.
Import ListNotations.
Local Open Scope list_scope.

(* ---- metadata: one application, any repair flags ----------------------------------------------------------------------- *)
Lemma splice_meta : forall fx used d s s' ov, splice fx used d s = Some (s', ov) ->
  s_nmeta s' = step_nmeta d (s_nmeta s) /\ s_vmeta s' = step_vmeta d (s_vmeta s).
Proof.
  intros fx used d s s' ov H. unfold splice in H. destruct (d_fn d).
  - destruct (add_function (d_site d) (d_site_is_fn d) (s_imports s) f (s_funcs s)) as [[o fs]|]; [|discriminate].
    inversion H; subst. split; reflexivity.
  - inversion H; subst. split; reflexivity.
Qed.

Definition no_fn (d : delta) : delta :=
  Delta (d_site d) (d_owner d) (d_site_is_fn d) (d_opsets d) (d_inits d) (d_other_names d) (d_rule d) (d_matched d)
        (d_matched_vals d) (d_new d) (d_new_vals d) (d_remove d) (d_dead d) None (d_merge d).

Lemma step_meta_frame : forall d nm vm, d_remove d = true ->
  (forall k, ~ In k (d_matched d) -> ~ In k (map fst (d_new d)) -> mget k (step_nmeta d nm) = mget k nm) /\
  (forall k, ~ In k (d_matched_vals d) -> ~ In k (d_new_vals d) -> mget k (step_vmeta d vm) = mget k vm).
Proof.
  intros d nm vm R.
  pose proof (splice_frame (fun _ => true) (no_fn d) (MState [] [] [] nm vm)
                (MState [] (add_inits as_is (d_site d) (fun _ => true) (d_other_names d) (d_inits d) []) []
                        (step_nmeta d nm) (step_vmeta d vm)) None eq_refl) as F.
  destruct F as [_ [_ [_ [_ [F1 F2]]]]]. split; intros k A B; [apply (F1 R k A B)|apply (F2 R k A B)].
Qed.

(* ---- metadata: the event list of a sweep (what check_state replays) ---------------------------------------------------- *)
Definition ev_untouched (k : vname) (e : event) : Prop :=
  match e with
  | EVisit _ => True
  | ESplice _ _ d _ _ => d_remove d = true /\ ~ In k (d_matched d) /\ ~ In k (map fst (d_new d))
  end.
Definition ev_untouched_val (k : vname) (e : event) : Prop :=
  match e with
  | EVisit _ => True
  | ESplice _ _ d _ _ => d_remove d = true /\ ~ In k (d_matched_vals d) /\ ~ In k (d_new_vals d)
  end.

Theorem events_meta_frame : forall fx evs i g s c j g' s', run_events fx i evs g s = (c, j, Some (g', s')) ->
  (forall k, Forall (ev_untouched k) evs -> mget k (s_nmeta s') = mget k (s_nmeta s)) /\
  (forall k, Forall (ev_untouched_val k) evs -> mget k (s_vmeta s') = mget k (s_vmeta s)).
Proof.
  intros fx evs. induction evs as [|e t IH]; intros i g s c j g' s' H.
  - cbn in H. inversion H; subst. split; reflexivity.
  - destruct e as [d|p a d cm ca]; cbn [run_events] in H.
    + destruct (visit fx d s) as [s1|] eqn:V; [|discriminate].
      destruct (visit_frame _ _ _ _ V) as [_ [_ [En [Ev _]]]]. destruct (IH _ _ _ _ _ _ _ H) as [I1 I2].
      split; intros k F; inversion F; subst; [rewrite (I1 k H3), En|rewrite (I2 k H3), Ev]; reflexivity.
    + destruct (site p g) as [sg|]; [|discriminate]. destruct (apply_at p a g) as [g1|]; [|discriminate].
      destruct (site p g1) as [sg1|]; [|discriminate].
      destruct (splice fx (used_in sg1) d s) as [[s1 ov]|] eqn:Sp; [|discriminate].
      destruct (fn_okb d a sg ov cm ca); [|discriminate].
      destruct (splice_meta _ _ _ _ _ _ Sp) as [En Ev]. destruct (IH _ _ _ _ _ _ _ H) as [I1 I2].
      split; intros k F; inversion F; subst; cbn in H2; destruct H2 as [R [A B]].
      * rewrite (I1 k H3), En. apply (proj1 (step_meta_frame d (s_nmeta s) (s_vmeta s) R)); assumption.
      * rewrite (I2 k H3), Ev. apply (proj2 (step_meta_frame d (s_nmeta s) (s_vmeta s) R)); assumption.
Qed.

Definition mev_untouched (k : vname) (e : mevent) : Prop :=
  match e with
  | MVisit _ => True
  | MSplice _ _ d _ _ => d_remove d = true /\ ~ In k (d_matched d) /\ ~ In k (map fst (d_new d))
  end.
Definition mev_untouched_val (k : vname) (e : mevent) : Prop :=
  match e with
  | MVisit _ => True
  | MSplice _ _ d _ _ => d_remove d = true /\ ~ In k (d_matched_vals d) /\ ~ In k (d_new_vals d)
  end.

Theorem mevents_meta_frame : forall fx evs i g s c j g' s', run_mevents fx i evs g s = (c, j, Some (g', s')) ->
  (forall k, Forall (mev_untouched k) evs -> mget k (s_nmeta s') = mget k (s_nmeta s)) /\
  (forall k, Forall (mev_untouched_val k) evs -> mget k (s_vmeta s') = mget k (s_vmeta s)).
Proof.
  intros fx evs. induction evs as [|e t IH]; intros i g s c j g' s' H.
  - cbn in H. inversion H; subst. split; reflexivity.
  - destruct e as [d|p a d cm ca]; cbn [run_mevents] in H.
    + destruct (visit fx d s) as [s1|] eqn:V; [|discriminate].
      destruct (visit_frame _ _ _ _ V) as [_ [_ [En [Ev _]]]]. destruct (IH _ _ _ _ _ _ _ H) as [I1 I2].
      split; intros k F; inversion F; subst; [rewrite (I1 k H3), En|rewrite (I2 k H3), Ev]; reflexivity.
    + destruct (site p g) as [sg|]; [|discriminate]. destruct (apply_at_m p a g) as [g1|]; [|discriminate].
      destruct (site p g1) as [sg1|]; [|discriminate].
      destruct (splice fx (used_in sg1) d s) as [[s1 ov]|] eqn:Sp; [|discriminate].
      destruct (fn_okb_m d a sg ov cm ca); [|discriminate].
      destruct (splice_meta _ _ _ _ _ _ Sp) as [En Ev]. destruct (IH _ _ _ _ _ _ _ H) as [I1 I2].
      split; intros k F; inversion F; subst; cbn in H2; destruct H2 as [R [A B]].
      * rewrite (I1 k H3), En. apply (proj1 (step_meta_frame d (s_nmeta s) (s_vmeta s) R)); assumption.
      * rewrite (I2 k H3), Ev. apply (proj2 (step_meta_frame d (s_nmeta s) (s_vmeta s) R)); assumption.
Qed.

(* ---- overlapping matches ------------------------------------------------------------------------------------------------ *)
Lemma sel_incl : forall mask (l : list node) n, In n (sel mask l) -> In n l.
Proof.
  induction mask as [|b mt IH]; intros [|h t] n I; cbn in I; try destruct I.
  apply in_app_or in I. destruct I as [I|I]; [destruct b; [destruct I as [<-|[]]; left; reflexivity|destruct I]|right; apply IH; exact I].
Qed.

Lemma unsel_incl : forall mask (l : list node) n, In n (unsel mask l) -> In n l.
Proof.
  induction mask as [|b mt IH]; intros [|h t] n I; cbn in I; try exact I; try destruct I.
  apply in_app_or in I. destruct I as [I|I]; [destruct b; [destruct I|destruct I as [<-|[]]; left; reflexivity]|right; apply IH; exact I].
Qed.

Lemma sel_unsel_disjoint : forall mask (l : list node) n, NoDup l -> In n (sel mask l) -> ~ In n (unsel mask l).
Proof.
  induction mask as [|b mt IH]; intros [|h t] n N I; cbn in I; try destruct I.
  inversion N; subst. cbn [unsel]. apply in_app_or in I. destruct I as [I|I].
  - destruct b; [|destruct I]. destruct I as [<-|[]]. cbn [List.app]. intro Q. apply H1. eapply unsel_incl; exact Q.
  - intro Q. apply in_app_or in Q. destruct Q as [Q|Q].
    + destruct b; [destruct Q|]. destruct Q as [<-|[]]. apply H1. eapply sel_incl; exact I.
    + exact (IH t n H2 I Q).
Qed.

(* a node removed by an application (and not re-created by its replacement) is not a node of the list any more *)
Theorem removed_nodes_gone : forall a ns ns', NoDup ns -> a_remove a = true -> apply_nodes a ns = Some ns' ->
  forall n, In n (sel (a_mask a) (firstn (List.length (a_mask a)) ns)) -> ~ In n (a_new a) -> ~ In n ns'.
Proof.
  intros a ns ns' N R A n I Nn. unfold apply_nodes in A. destruct (app_wf a ns); [|discriminate]. inversion A; subst ns'; clear A.
  rewrite R, kept_remove. set (k := List.length (a_mask a)) in *.
  rewrite <- (firstn_skipn k ns) in N.
  assert (Nw : NoDup (firstn k ns)).
  { clear - N. revert N. generalize (firstn k ns) (skipn k ns). induction l as [|h t IH]; intros r N; [constructor|].
    cbn in N. inversion N; subst. constructor; [intro Q; apply H1; apply in_or_app; left; exact Q|eapply IH; exact H2]. }
  intro Q. apply in_app_or in Q. destruct Q as [Q|Q]; [exact (sel_unsel_disjoint _ _ _ Nw I Q)|].
  apply in_app_or in Q. destruct Q as [Q|Q]; [exact (Nn Q)|].
  apply sel_incl in I. clear - N I Q. revert N I. generalize (firstn k ns) (skipn k ns) Q. clear.
  induction l as [|h t IH]; intros r Q N I; [destruct I|]. cbn in N. inversion N; subst. destruct I as [<-|I].
  - apply H1. apply in_or_app; right; exact Q.
  - exact (IH r Q H2 I).
Qed.

(* after one match is replaced, a second match -- nodes of the list the first application left -- shares no removed node *)
Theorem second_match_not_stale : forall a b ns ns1 ns2, NoDup ns -> a_remove a = true ->
  apply_nodes a ns = Some ns1 -> apply_nodes b ns1 = Some ns2 ->
  forall n, In n (sel (a_mask a) (firstn (List.length (a_mask a)) ns)) -> ~ In n (a_new a) ->
            ~ In n (sel (a_mask b) (firstn (List.length (a_mask b)) ns1)).
Proof.
  intros a b ns ns1 ns2 N R A B n I Nn Q. apply (removed_nodes_gone a ns ns1 N R A n I Nn).
  apply sel_incl in Q. clear - Q. revert Q. generalize (List.length (a_mask b)). intro k. revert ns1. induction k as [|k IH]; intros [|h t] Q; cbn in Q; try destruct Q; [left; assumption|right; apply IH; assumption].
Qed.

(* ---- fresh names avoid every name of the model, nested graphs included ------------------------------------------------------ *)
Require Import OV.Graph.Sem OV.Graph.SemProofs OV.Rewrite.Naming OV.Rewrite.NamingProofs.

Lemma nth_error_names : forall (ns : list node) idx n, nth_error ns idx = Some n -> incl (names_node n) (names_nodes ns).
Proof.
  induction ns as [|h t IH]; intros [|i] n E; cbn in E; try discriminate.
  - inversion E; subst. intros x Hx. cbn [names_nodes]. apply in_or_app; left; exact Hx.
  - intros x Hx. cbn [names_nodes]. apply in_or_app; right. eapply IH; eassumption.
Qed.

Lemma find_sub_incl : forall subs key sg, find_sub key subs = Some sg -> incl (names_graph sg) (names_subs subs).
Proof.
  induction subs as [|[k h] t IH]; intros key sg F; cbn in F; [discriminate|].
  destruct (String.eqb k key).
  - inversion F; subst. intros x Hx. cbn [names_subs]. apply in_or_app; left; exact Hx.
  - intros x Hx. cbn [names_subs]. apply in_or_app; right. eapply IH; eassumption.
Qed.

(* the names of a graph contain the names of every graph nested in it, at any depth *)
Theorem site_names_incl : forall p g sg, site p g = Some sg -> incl (names_graph sg) (names_graph g).
Proof.
  induction p as [|[idx key] p IH]; intros g sg S; cbn in S.
  - inversion S; subst. apply incl_refl.
  - destruct (nth_error (g_nodes g) idx) as [n|] eqn:N; [|discriminate].
    destruct (find_sub key (n_subs n)) as [h|] eqn:F; [|discriminate].
    intros x Hx. apply (IH h sg S) in Hx. apply (find_sub_incl _ _ _ F) in Hx.
    destruct g as [gi gn ns go]. rewrite names_graph_eq. cbn [g_nodes] in N.
    apply in_or_app; right. apply in_or_app; right. apply in_or_app; right.
    apply (nth_error_names ns idx n N). destruct n as [d o i ou at_ subs]. rewrite names_node_eq. cbn [n_subs] in Hx.
    apply in_or_app; right. apply in_or_app; right. exact Hx.
Qed.

(* used = the names of all containers of the model (main graph, function bodies): the names the fresh-name authority creates
   differ from every name of every graph of the model, however deeply nested *)
Theorem fresh_names_avoid_nested : forall (cs : list graph) k nm g p sg,
  In nm (fresh_seq (flat_map names_graph cs) k) -> In g cs -> site p g = Some sg -> ~ In nm (names_graph sg).
Proof.
  intros cs k nm g p sg H G S Q. destruct (fresh_names_fixed k (flat_map names_graph cs)) as [_ [_ F]].
  apply (F nm H). apply in_flat_map. exists g. split; [exact G|]. apply (site_names_incl p g sg S). exact Q.
Qed.
