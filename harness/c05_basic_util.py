"""Helpers shared by the c05_fam_* modules for the basic / no-op / min-max / slice / scatter / reshape families.

Not a family itself (name does not start with c05_fam_).
"""
from __future__ import annotations

import numpy as np

from harness import c05 as base

_T = None


def T(dtype):
    from onnx import TensorProto
    return {"float32": TensorProto.FLOAT, "float64": TensorProto.DOUBLE, "float16": TensorProto.FLOAT16,
            "int64": TensorProto.INT64, "int32": TensorProto.INT32, "uint8": TensorProto.UINT8,
            "int8": TensorProto.INT8, "bool": TensorProto.BOOL, "bfloat16": TensorProto.BFLOAT16}[dtype]


def vi(name, dtype, shape):
    from onnx import helper
    return helper.make_tensor_value_info(name, T(dtype), shape)


def const_arr(name, arr):
    from onnx import numpy_helper
    return numpy_helper.from_array(np.asarray(arr), name)


def const_node(name, arr):
    from onnx import helper
    return helper.make_node("Constant", [], [name], value=const_arr(name, arr))


def model(nodes, inputs, outputs, inits=(), value_info=(), opset=18, ir_version=9, check=True):
    """inputs/outputs/value_info: lists of (name, dtype, shape) (shape None = unknown rank)."""
    import onnx
    from onnx import helper
    g = helper.make_graph(list(nodes), "g", [vi(*i) for i in inputs], [vi(*o) for o in outputs],
                          initializer=list(inits), value_info=[vi(*v) for v in value_info])
    m = helper.make_model(g, opset_imports=[helper.make_opsetid("", opset)], ir_version=ir_version)
    if check:
        onnx.checker.check_model(m, full_check=False)
    return m


def apply_rule(m, rules):
    """Apply rule(s) through the public entry point; returns the rewritten ModelProto."""
    from onnxscript import rewriter
    if not isinstance(rules, (list, tuple)):
        try:
            rules = list(rules)
        except TypeError:
            rules = [rules]
    return rewriter.rewrite(m, pattern_rewrite_rules=list(rules))


def ops(m):
    return [n.op_type for n in m.graph.node if n.op_type != "Constant"]


def consts(m):
    from onnx import numpy_helper
    c = {i.name: numpy_helper.to_array(i) for i in m.graph.initializer}
    for n in m.graph.node:
        if n.op_type == "Constant":
            for a in n.attribute:
                if a.name == "value":
                    c[n.output[0]] = numpy_helper.to_array(a.t)
                elif a.name == "value_ints":
                    c[n.output[0]] = np.array(list(a.ints), dtype=np.int64)
                elif a.name == "value_int":
                    c[n.output[0]] = np.array(a.i, dtype=np.int64)
                elif a.name == "value_float":
                    c[n.output[0]] = np.array(a.f, dtype=np.float32)
                elif a.name == "value_floats":
                    c[n.output[0]] = np.array(list(a.floats), dtype=np.float32)
    return c


def attr(node, name, default=None):
    from onnx import helper
    for a in node.attribute:
        if a.name == name:
            return helper.get_attribute_value(a)
    return default


def node_of(m, op_type):
    return [n for n in m.graph.node if n.op_type == op_type]


def valid(m):
    """onnx.checker (full: with strict shape inference) verdict on a model; returns None or the error text."""
    import onnx
    try:
        onnx.checker.check_model(m, full_check=True)
        return None
    except Exception as e:  # noqa: BLE001
        return f"{type(e).__name__}: {str(e)[:300]}"


def run_all(m, feeds_list):
    """{engine: [(kind, outputs) per feed]}; one session per engine, kind 'ok' or 'err:<type>:<msg>'."""
    import onnx.reference
    import onnxruntime as ort
    res = {}
    for eng in ("ref", "ort"):
        out = []
        try:
            if eng == "ref":
                sess = onnx.reference.ReferenceEvaluator(m)
            else:
                so = ort.SessionOptions()
                so.graph_optimization_level = ort.GraphOptimizationLevel.ORT_DISABLE_ALL
                so.log_severity_level = 4
                so.intra_op_num_threads = 1
                so.inter_op_num_threads = 1
                sess = ort.InferenceSession(m.SerializeToString(), so, providers=["CPUExecutionProvider"])
        except Exception as e:  # noqa: BLE001
            res[eng] = [("err:load:" + type(e).__name__ + ":" + str(e)[:200], None)] * len(feeds_list)
            continue
        for feeds in feeds_list:
            try:
                out.append(("ok", sess.run(None, feeds)))
            except Exception as e:  # noqa: BLE001
                out.append(("err:" + type(e).__name__ + ":" + str(e)[:200], None))
        res[eng] = out
    return res


def run_both(m, feeds):
    r = run_all(m, [feeds])
    return [(eng, r[eng][0][0], r[eng][0][1]) for eng in ("ref", "ort")]


def oracle(ctx, key, what, host, new, feeds_list, replay, exact=True, engines=("ref", "ort")):
    """Direct oracle: host vs rewritten on every feed on both engines + checker on the rewritten model.

    An engine on which the *host* itself fails is skipped for that feed (host_ok is a precondition).
    All manifestations (different values / shape / dtype, rewritten model fails to run, rewritten model rejected by
    onnx.checker) are reported under the one `key` of the input class.
    Returns (property held on every executed comparison, number of comparisons)."""
    good = True
    err = valid(new)
    if err is not None and valid(host) is None:
        ctx.violation(key, what + f": rewritten model rejected by onnx.checker ({err})", dict(replay, manifestation="invalid", checker=err))
        good = False
    compared = 0
    a = run_all(host, feeds_list)
    b = run_all(new, feeds_list)
    for eng in engines:
        for feeds, (ka, oa), (kb, ob) in zip(feeds_list, a[eng], b[eng]):
            if ka != "ok":
                continue
            compared += 1
            fd = {k: np.asarray(v).tolist() for k, v in feeds.items()}
            if kb != "ok":
                ctx.violation(key, what + f": original runs on {eng}, rewritten model fails ({kb})",
                              dict(replay, manifestation="rewritten-fails", engine=eng, feeds=fd, error=kb))
                good = False
            elif not base.same_outputs(oa, ob, exact=exact):
                ctx.violation(key, what + f": rewritten model differs from original on {eng}",
                              dict(replay, manifestation="differs", engine=eng, feeds=fd,
                                   original=[np.asarray(o).tolist() for o in oa], original_shape=[list(np.asarray(o).shape) for o in oa],
                                   rewritten=[np.asarray(o).tolist() for o in ob], rewritten_shape=[list(np.asarray(o).shape) for o in ob]))
                good = False
    if compared == 0:
        ctx.cover(**{"oracle_skipped_" + key.split(":")[1]: ctx.coverage.get("oracle_skipped_" + key.split(":")[1], 0) + 1})
    return good, compared


def overridable_probe(ctx, fam, what, host, rules, feeds_list):
    """An initializer that is also a graph input is only a default value: a caller may feed something else.
    `host` lists the operand both as input and as initializer; `feeds_list` overrides it.  If the rule fires the
    rewritten model must still agree on those feeds."""
    new = apply_rule(host, rules)
    ctx.case((fam, "overridable-initializer-operand", ops(new) != ops(host)))
    if ops(new) == ops(host) and len(new.graph.initializer) == len(host.graph.initializer):
        return
    oracle(ctx, f"C05:{fam}:overridable-initializer-operand", what + " with the constant operand being an overridable initializer (also a graph input)",
           host, new, feeds_list, {"family": fam, "overridable_operand": True})


def guard(ctx, name, fired, minimum):
    """The correspondence only constrains instances on which the rule fired: keep it from going vacuous."""
    ctx.obligation(f"non-vacuity {name}: the rule fired on {fired} generated instances (>= {minimum} required)", fired >= minimum)
    if fired < minimum:
        ctx.tie_broken("correspondence", f"{name}:vacuous", f"the rule fired on only {fired} generated instances; the generators no longer reach it")


def int_data(shape, dtype, k=0):
    """Deterministic integer-exact test data of the given shape (k selects one of several fillings)."""
    n = int(np.prod(shape)) if len(shape) else 1
    if k == 0:
        a = np.arange(n) - n // 2
    elif k == 1:
        a = (np.arange(n) * 7 + 3) % 11 - 5
    else:
        a = -(np.arange(n) % 5) * 3 + 4
    if dtype in ("uint8",):
        a = np.abs(a)
    if dtype == "bool":
        a = a % 2
    return a.reshape(shape).astype(dtype)
