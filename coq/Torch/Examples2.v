(* C08 (second group of families) -- non-vacuity: every implication proved in DiagProofs / PoolProofs / PadProofs /
   WindowProofs has its hypotheses satisfied on a non-trivial instance, and the two sides are evaluated on it. *)
From Coq Require Import ZArith List Bool.
Require Import OV.Torch.Onnx OV.Torch.Onnx2 OV.Torch.Spec OV.Torch.Spec2 OV.Torch.Aten OV.Torch.Aten2.
Import ListNotations.
Local Open Scope Z_scope.

Example ex_diagonal_shape : torch_diagonal_shape [2; 3; 5] (-1) (-1) 1 = Some [2; 3] /\ aten_diagonal_shape [2; 3; 5] (-1) (-1) 1 = Some [2; 3].
Proof. split; reflexivity. Qed.
Example ex_diagonal_shape_far : torch_diagonal_shape [3; 5] 7 0 1 = Some [0] /\ aten_diagonal_shape [3; 5] 7 0 1 = Some [0].
Proof. split; reflexivity. Qed.
Example ex_diag_matrix : torch_diag_matrix [[1; 2; 3; 4; 5]; [6; 7; 8; 9; 10]; [11; 12; 13; 14; 15]] 5 2 = Some [3; 9; 15]
  /\ aten_diag_matrix [[1; 2; 3; 4; 5]; [6; 7; 8; 9; 10]; [11; 12; 13; 14; 15]] 5 2 = Some [3; 9; 15]
  /\ aten_diag_matrix [[1; 2; 3; 4; 5]; [6; 7; 8; 9; 10]; [11; 12; 13; 14; 15]] 5 (-1) = Some [6; 12].
Proof. repeat split; reflexivity. Qed.
Example ex_max_pool : torch_pool_shape 2 [2; 6; 7] (IInt 3) (IList []) (IList [1; 0]) (IList [1; 1]) true = Some [2; 3; 3]
  /\ aten_max_pool_shape 2 [2; 6; 7] (IInt 3) (IList []) (IList [1; 0]) (IList [1; 1]) true = Some [2; 3; 3].
Proof. split; reflexivity. Qed.
Example ex_max_pool_ceil_last_window : torch_pool_shape 1 [1; 1; 3] (IList [2]) (IList [2]) (IList [1]) (IList [1]) true = Some [1; 1; 2]
  /\ aten_max_pool_shape 1 [1; 1; 3] (IList [2]) (IList [2]) (IList [1]) (IList [1]) true = Some [1; 1; 2].
Proof. split; reflexivity. Qed.
Example ex_avg_pool : torch_pool_shape 3 [1; 2; 5; 6; 7] (IList [2; 3; 2]) (IInt 2) (IList [1]) (IInt 1) false = Some [1; 2; 3; 3; 4]
  /\ aten_avg_pool_shape 3 [1; 2; 5; 6; 7] (IList [2; 3; 2]) (IInt 2) (IList [1]) false = Some [1; 2; 3; 3; 4].
Proof. split; reflexivity. Qed.

Example ex_pad_paddings : pad_paddings 3 [1; -1; 0; 2] = [0; 0; 1; 0; 2; -1].
Proof. reflexivity. Qed.
Example ex_pad_shape : torch_pad_shape [2; 3; 4] [1; -1; 0; 2] = Some [2; 5; 4] /\ aten_pad_shape [2; 3; 4] [1; -1; 0; 2] = Some [2; 5; 4].
Proof. split; reflexivity. Qed.
Example ex_pad_axis : torch_pad_axis 7 [1; 2; 3] 2 (-1) = Some [7; 7; 1; 2] /\ aten_pad_axis 7 2 1 [1; 2; 3] [2; -1] = Some [7; 7; 1; 2]
  /\ torch_pad_axis 7 [1; 2; 3] (-1) (-2) = Some [] /\ pad_axis 7 [1; 2; 3] (-1) (-2) = Some [].
Proof. repeat split; reflexivity. Qed.
Example ex_unfold : torch_unfold [0; 1; 2; 3; 4] 2 2 = Some [[0; 1]; [2; 3]] /\ aten_unfold [0; 1; 2; 3; 4] 2 2 = Some [[0; 1]; [2; 3]].
Proof. split; reflexivity. Qed.
Example ex_unfold_shape : torch_unfold_shape [2; 5; 3] (-2) 2 2 = Some [2; 2; 3; 2] /\ aten_unfold_shape [2; 5; 3] (-2) 2 2 = Some [2; 2; 3; 2]
  /\ torch_unfold_shape [] 0 1 1 = Some [1] /\ aten_unfold_shape [] 0 1 1 = Some [1].
Proof. repeat split; reflexivity. Qed.
Example ex_unbind : aten_unbind 2 (-1) [[0; 5]; [1; 6]; [2; 7]] = Some (1, [[0; 5]; [1; 6]; [2; 7]]).
Proof. reflexivity. Qed.
Example ex_gather : torch_gather_shape [] (-1) [3] = Some [3] /\ aten_gather_shape [] (-1) [3] = Some [3]
  /\ torch_gather_shape [4] 0 [] = Some [] /\ aten_gather_shape [4] 0 [] = Some []
  /\ torch_gather_shape [4; 5] (-2) [2; 3] = Some [2; 3] /\ aten_gather_shape [4; 5] (-2) [2; 3] = Some [2; 3].
Proof. repeat split; reflexivity. Qed.
Example ex_softmax : torch_dim_only [] (-1) = Some [] /\ aten_softmax_shape [] (-1) = Some [] /\ aten_softmax_shape [2; 3] (-2) = Some [2; 3]
  /\ aten_sort_shape [2; 3] (-1) = Some [2; 3] /\ aten_sort_shape [] 0 = Some [].
Proof. repeat split; reflexivity. Qed.
