"""C08 helper: the table of modelled torch_lib functions.

For each family:  fn (attribute of torch_lib.ops.core), ref (torch eager reference on torch arguments),
gen (argument generator, c08_gen), enc (args, kwargs, want, got, status) -> (Coq `call` literal or None,
Coq `result` literal for an array-like output), cls (args, kwargs, want) -> short structural class used for
coverage counting and, when the property fails, for the finding key.

`want` / `got` are numpy arrays (or lists of arrays).  Integer-exact data only: bool -> 0/1, floats must be
integral (generators guarantee it), so everything is printed as Z.
"""
from __future__ import annotations

import numpy as np

from harness import c08_gen as G

INT64_MAX = 2 ** 63 - 1


# ----------------------------------------------------------------------------- Coq literal printers

def z(v):
    v = int(v)
    return f"({v})" if v < 0 else str(v)


def lz(vs):
    return "[" + "; ".join(z(v) for v in vs) + "]"


def llz(vss):
    return "[" + "; ".join(lz(v) for v in vss) + "]"


def oz(v):
    return "None" if v is None else f"(Some {z(v)})"


def olz(v):
    return "None" if v is None else f"(Some {lz(v)})"


def b(v):
    return "true" if v else "false"


def flat_ints(a):
    a = np.asarray(a)
    if a.dtype.kind == "f":
        r = np.rint(a)
        assert np.array_equal(r, a), "non-integral float data reached the Coq printer"
        a = r.astype(np.int64)
    return [int(v) for v in a.reshape(-1).tolist()]


def slabs(a, axis):
    """tensor viewed along `axis`: list of slabs, each flattened"""
    a = np.asarray(a)
    if a.ndim == 0:
        return [flat_ints(a)]
    m = np.moveaxis(a, axis, 0)
    return [flat_ints(m[i]) for i in range(m.shape[0])]


def shape_of(spec):
    return list(spec["shape"])


def arr(spec):
    from harness import c08_exec
    return c08_exec.to_torch(spec).numpy()


def rshape(a):
    return f"(RShape {lz(np.asarray(a).shape)})"


def rslabs(a, axis):
    return f"(RSlabs {z(axis)} {llz(slabs(a, axis))})"


def rdata(a):
    return f"(RData {lz(flat_ints(a))})"


def rchunks(parts, axis):
    return f"(RChunks {z(axis)} [" + "; ".join(llz(slabs(p, axis)) for p in parts) + "])"


def pax(spec_or_rank, dim):
    """python view of the axis used to lay out slabs (the Coq model returns its own normalised axis,
    which must coincide)."""
    r = spec_or_rank if isinstance(spec_or_rank, int) else len(spec_or_rank["shape"])
    return dim % r if r else 0


def numel(shape):
    n = 1
    for d in shape:
        n *= d
    return n


# ----------------------------------------------------------------------------- families

class Fam:
    """chk: 1 = coq/Torch/Check.v (`call`), 2 = coq/Torch/Check2.v (`call2`); mod: module of torch_lib.ops holding `fn`;
    floors: {label: (predicate(args, kwargs), minimum number of agreeing cases per quick run)} -- classes the generator must hit."""

    def __init__(self, name, fn, ref, gen, call, res, cls, quick=60, thorough=600, dtypes=None, chk=1, mod="core", floors=None):
        self.name, self.fn, self.ref, self.gen, self.call, self.res, self.cls = name, fn, ref, gen, call, res, cls
        self.quick, self.thorough = quick, thorough
        self.chk, self.mod, self.floors = chk, mod, floors or {}


def T():
    from harness import c08_exec
    return c08_exec.mods()["torch"]


def _shape_fam(name, fn, ref, gen, call, cls=None, **kw):
    return Fam(name, fn, ref, gen, call, lambda a, k, out: rshape(out), cls or (lambda a, k: (len(a[0]["shape"]),)), **kw)


def zero_in(shape):
    return any(d == 0 for d in shape)


def build():
    torch = T()
    A = torch.ops.aten
    F = []

    # ---- shapes
    F.append(_shape_fam(
        "flatten", "aten_flatten", lambda x, s, e: torch.flatten(x, s, e), G.gen_flatten,
        lambda a, k: f"(CFlatten {lz(a[0]['shape'])} {z(a[1])} {z(a[2])})",
        lambda a, k: (len(a[0]["shape"]), a[1] < 0, a[2] < 0, zero_in(a[0]["shape"]), a[1] % max(1, len(a[0]["shape"])) == a[2] % max(1, len(a[0]["shape"])))))
    F.append(_shape_fam(
        "unflatten", "aten_unflatten", lambda x, d, s: torch.unflatten(x, d, s), G.gen_unflatten,
        lambda a, k: f"(CUnflatten {lz(a[0]['shape'])} {z(a[1])} {lz(a[2])})",
        lambda a, k: (len(a[0]["shape"]), a[1] < 0, a[1] % len(a[0]["shape"]) in (0, len(a[0]["shape"]) - 1), -1 in a[2], zero_in(a[0]["shape"]))))
    F.append(_shape_fam(
        "squeeze_dim", "aten_squeeze_dim", lambda x, d: torch.squeeze(x, d), G.gen_squeeze_dim,
        lambda a, k: f"(CSqueezeDim {lz(a[0]['shape'])} {z(a[1])})",
        lambda a, k: (len(a[0]["shape"]), a[1] < 0, (a[0]["shape"][a[1]] == 1) if a[0]["shape"] else None)))
    F.append(_shape_fam(
        "squeeze", "aten_squeeze", lambda x: torch.squeeze(x), G.gen_squeeze,
        lambda a, k: f"(CSqueeze {lz(a[0]['shape'])})",
        lambda a, k: (len(a[0]["shape"]), sum(1 for d in a[0]["shape"] if d == 1))))
    F.append(_shape_fam(
        "unsqueeze", "aten_unsqueeze", lambda x, d: torch.unsqueeze(x, d), G.gen_unsqueeze,
        lambda a, k: f"(CUnsqueeze {lz(a[0]['shape'])} {z(a[1])})",
        lambda a, k: (len(a[0]["shape"]), a[1] < 0, a[1] % (len(a[0]["shape"]) + 1))))
    F.append(_shape_fam(
        "permute", "aten_permute", lambda x, p: torch.permute(x, p), G.gen_permute,
        lambda a, k: f"(CPermute {lz(a[0]['shape'])} {lz(a[1])})",
        lambda a, k: (len(a[0]["shape"]), sum(1 for q in a[1] if q < 0))))
    F.append(_shape_fam(
        "transpose", "aten_transpose", lambda x, p, q: torch.transpose(x, p, q), G.gen_transpose,
        lambda a, k: f"(CTranspose {lz(a[0]['shape'])} {z(a[1])} {z(a[2])})",
        lambda a, k: (len(a[0]["shape"]), a[1] < 0, a[2] < 0, a[1] % max(1, len(a[0]["shape"])) == a[2] % max(1, len(a[0]["shape"])))))
    F.append(_shape_fam(
        "t", "aten_t", lambda x: torch.t(x), G.gen_t,
        lambda a, k: f"(CT {lz(a[0]['shape'])})"))
    F.append(_shape_fam(
        "expand", "aten_expand", lambda x, s: x.expand(s), G.gen_expand,
        lambda a, k: f"(CExpand {lz(a[0]['shape'])} {lz(a[1])})",
        lambda a, k: (len(a[0]["shape"]), len(a[1]) - len(a[0]["shape"]), -1 in a[1], 0 in a[1])))
    F.append(_shape_fam(
        "view", "aten_view", lambda x, s: x.view(s), G.gen_view,
        lambda a, k: f"(CView {lz(a[0]['shape'])} {lz(a[1])})",
        lambda a, k: (len(a[0]["shape"]), len(a[1]), -1 in a[1], 0 in a[1])))
    F.append(_shape_fam(
        "reshape", "aten_reshape", lambda x, s: x.reshape(s), G.gen_view,
        lambda a, k: f"(CReshape {lz(a[0]['shape'])} {lz(a[1])})",
        lambda a, k: (len(a[0]["shape"]), len(a[1]), -1 in a[1], 0 in a[1])))
    F.append(_shape_fam(
        "view_copy", "aten_view_copy", lambda x, s: A.view_copy(x, s), G.gen_view,
        lambda a, k: f"(CReshape {lz(a[0]['shape'])} {lz(a[1])})",
        lambda a, k: (len(a[0]["shape"]), len(a[1]), -1 in a[1], 0 in a[1])))
    F.append(_shape_fam(
        "repeat", "aten_repeat", lambda x, r: x.repeat(r), G.gen_repeat,
        lambda a, k: f"(CRepeat {lz(a[0]['shape'])} {lz(a[1])})",
        lambda a, k: (len(a[0]["shape"]), len(a[1]) - len(a[0]["shape"]), 0 in a[1])))
    F.append(_shape_fam(
        "tile", "aten_tile", lambda x, r: torch.tile(x, r), G.gen_tile,
        lambda a, k: f"(CTile {lz(a[0]['shape'])} {lz(a[1])})",
        lambda a, k: (len(a[0]["shape"]), np.sign(len(a[1]) - len(a[0]["shape"])), 0 in a[1])))
    F.append(Fam(
        "cat", "aten_cat", lambda ts, d: torch.cat(ts, d), G.gen_cat,
        lambda a, k: f"(CCat {llz([t['shape'] for t in a[0]])} {z(a[1])})",
        lambda a, k, out: rshape(out),
        lambda a, k: (len(a[0]), len(a[0][0]["shape"]), a[1] < 0, sum(1 for t in a[0] if t["shape"] == [0]))))
    F.append(Fam(
        "stack", "aten_stack", lambda ts, d: torch.stack(ts, d), G.gen_stack,
        lambda a, k: f"(CStack {llz([t['shape'] for t in a[0]])} {z(a[1])})",
        lambda a, k, out: rshape(out),
        lambda a, k: (len(a[0]), len(a[0][0]["shape"]), a[1] < 0)))
    F.append(_shape_fam(
        "sum_dim", "aten_sum_dim_IntList",
        lambda x, d, kd_: torch.sum(x, d, kd_) if d is not None else A.sum.dim_IntList(x, None, kd_), G.gen_sum_dim,
        lambda a, k: f"(CReduce RSum {lz(a[0]['shape'])} {olz(a[1])} {b(a[2])})",
        lambda a, k: (len(a[0]["shape"]), None if a[1] is None else len(a[1]), a[2], numel(a[0]["shape"]) == 0)))
    F.append(_shape_fam(
        "amax", "aten_amax", lambda x, d, kd_: torch.amax(x, [] if d is None else d.tolist(), kd_), G.gen_amax,
        lambda a, k: f"(CReduce RAmax {lz(a[0]['shape'])} {'None' if a[1] is None else '(Some ' + lz(a[1]['data']) + ')'} {b(a[2])})",
        lambda a, k: (len(a[0]["shape"]), None if a[1] is None else len(a[1]["data"]), a[2])))
    F.append(_shape_fam(
        "mean_dim", "aten_mean_dim", lambda x, d, kd_: torch.mean(x, d.tolist(), kd_), G.gen_mean_dim,
        lambda a, k: f"(CReduce RMean {lz(a[0]['shape'])} (Some {lz(a[1]['data'])}) {b(a[2])})",
        lambda a, k: (len(a[0]["shape"]), len(a[1]["data"]), a[2])))

    # ---- along one axis
    def axis_cls(a, k, dim_pos=1):
        sh = a[0]["shape"]
        return (len(sh), a[dim_pos] < 0, a[dim_pos] == -len(sh), sh[a[dim_pos]] if sh else None)

    F.append(Fam(
        "select", "aten_select", lambda x, d, i: torch.select(x, d, i), G.gen_select,
        lambda a, k: f"(CSelect {len(a[0]['shape'])} {z(a[1])} {llz(slabs(arr(a[0]), pax(a[0], a[1])))} {z(a[2])})",
        lambda a, k, out: f"(RSlab {pax(a[0], a[1])} {lz(flat_ints(out))})",
        lambda a, k: axis_cls(a, k) + (a[2] < 0,)))

    def slice_cls(a, k):
        n = a[0]["shape"][a[1]]

        def bc(v):
            if v is None:
                return "none"
            if v < -n:
                return "<-n"
            if v < 0:
                return "neg"
            if v > n:
                return ">n"
            return "in"
        return (len(a[0]["shape"]), a[1] < 0, min(n, 2), bc(a[2]), bc(a[3]), a[4] is None or a[4] == 1)

    F.append(Fam(
        "slice", "aten_slice", lambda x, d, s, e, st: A.slice.Tensor(x, d, s, e, 1 if st is None else st), G.gen_slice,
        lambda a, k: f"(CSlice {len(a[0]['shape'])} {z(a[1])} {llz(slabs(arr(a[0]), pax(a[0], a[1])))} {oz(a[2])} {oz(a[3])} {oz(a[4])})",
        lambda a, k, out: rslabs(out, pax(a[0], a[1])), slice_cls))
    F.append(Fam(
        "narrow", "aten_narrow", lambda x, d, s, l: torch.narrow(x, d, s, l), G.gen_narrow,
        lambda a, k: f"(CNarrow {len(a[0]['shape'])} {z(a[1])} {llz(slabs(arr(a[0]), pax(a[0], a[1])))} {z(a[2])} {z(a[3])})",
        lambda a, k, out: rslabs(out, pax(a[0], a[1])),
        lambda a, k: axis_cls(a, k) + (a[2] < 0, a[2] < 0 and a[2] + a[3] == 0, a[3] == 0)))
    F.append(Fam(
        "split", "aten_split", lambda x, s, d: list(torch.split(x, s, d)), G.gen_split,
        lambda a, k: f"(CSplit {len(a[0]['shape'])} {z(a[2])} {llz(slabs(arr(a[0]), pax(a[0], a[2])))} {z(a[1])})",
        lambda a, k, out: rchunks(out, pax(a[0], a[2])),
        lambda a, k: axis_cls(a, k, 2) + (a[0]["shape"][a[2]] % a[1] == 0, a[1] > a[0]["shape"][a[2]])))
    F.append(Fam(
        "split_with_sizes", "aten_split_with_sizes", lambda x, s, d: list(torch.split(x, s, d)), G.gen_split_with_sizes,
        lambda a, k: f"(CSplitSizes {len(a[0]['shape'])} {z(a[2])} {llz(slabs(arr(a[0]), pax(a[0], a[2])))} {lz(a[1])})",
        lambda a, k, out: rchunks(out, pax(a[0], a[2])),
        lambda a, k: axis_cls(a, k, 2) + (len(a[1]), 0 in a[1])))
    F.append(Fam(
        "chunk", "aten_chunk", lambda x, c, d: list(torch.chunk(x, c, d)), G.gen_chunk,
        lambda a, k: f"(CChunk {len(a[0]['shape'])} {z(a[2])} {llz(slabs(arr(a[0]), pax(a[0], a[2])))} {z(a[1])})",
        lambda a, k, out: rchunks(out if isinstance(out, list) else [out], pax(a[0], a[2])),
        lambda a, k: axis_cls(a, k, 2) + (a[1] == 1, a[0]["shape"][a[2]] % a[1] == 0)))

    def roll_call(a, k):
        sh = a[0]["shape"]
        r = len(sh)
        s0 = sh[0] if sh else 1
        x = arr(a[0])
        if len(a) == 2 or not a[2]:
            return f"(CRollFlat {r} {s0} {llz([[v] for v in flat_ints(x)])} {z(a[1][0])})"
        if len(a[2]) == 1:
            return f"(CRollDim {r} {s0} {numel(sh)} {z(a[2][0])} {llz(slabs(x, pax(a[0], a[2][0])))} {z(a[1][0])})"
        return f"(CRollMulti {r} {s0} {lz(a[1])} {lz(a[2])})"

    def roll_res(a, k, out):
        if len(a) == 2 or not a[2]:
            return f"(RSlabs 0 {llz([[v] for v in flat_ints(out)])})"
        if len(a[2]) == 1:
            return rslabs(out, pax(a[0], a[2][0]))
        return "RNone"

    def roll_cls(a, k):
        sh = a[0]["shape"]
        dims = a[2] if len(a) > 2 else []
        if not dims:
            n = numel(sh)
            sh_ = a[1][0]
            return (len(sh), "flat", sh_ < 0, abs(sh_) > n if sh_ < 0 else sh_ >= 2 * n if n else False, n == 0)
        return (len(sh), len(dims), any(d < 0 for d in dims), any(s < 0 for s in a[1]),
                any((-s > sh[d]) if s < 0 else (s >= 2 * sh[d]) for s, d in zip(a[1], dims)), numel(sh) == 0)

    F.append(Fam("roll", "aten_roll", lambda x, s, d=(): torch.roll(x, s, d), G.gen_roll, roll_call, roll_res, roll_cls))

    def flip_call(a, k):
        if len(a[1]) == 1:
            return f"(CFlip1 {len(a[0]['shape'])} {z(a[1][0])} {llz(slabs(arr(a[0]), pax(a[0], a[1][0])))})"
        return f"(CFlipMulti {lz(a[1])})"

    F.append(Fam(
        "flip", "aten_flip", lambda x, d: torch.flip(x, d), G.gen_flip, flip_call,
        lambda a, k, out: rslabs(out, pax(a[0], a[1][0])) if len(a[1]) == 1 else "RNone",
        lambda a, k: (len(a[0]["shape"]), len(a[1]), any(d < 0 for d in a[1]), numel(a[0]["shape"]) == 0)))

    def isel_res(a, k, out):
        out = np.asarray(out)
        if out.ndim == 0:
            return f"(RSlabs 0 {llz([flat_ints(out)])})"
        return rslabs(out, pax(a[0], a[1]))

    F.append(Fam(
        "index_select", "aten_index_select", lambda x, d, i: torch.index_select(x, d, i), G.gen_index_select,
        lambda a, k: f"(CIndexSelect {len(a[0]['shape'])} {z(a[1])} {llz(slabs(arr(a[0]), pax(a[0], a[1])))} {lz(a[2]['data'])})",
        isel_res,
        lambda a, k: (len(a[0]["shape"]), a[1] < 0, len(a[2]["shape"]), len(a[2]["data"]), a[2]["t"])))
    F.append(Fam(
        "cumsum", "aten_cumsum", lambda x, d: torch.cumsum(x, d), G.gen_cumsum,
        lambda a, k: f"(CCumsum {len(a[0]['shape'])} {z(a[1])} {llz(slabs(arr(a[0]), pax(a[0], a[1])))})",
        lambda a, k, out: rslabs(out, pax(a[0], a[1])),
        lambda a, k: (len(a[0]["shape"]), a[1] < 0, numel(a[0]["shape"]) == 0, a[0]["t"])))

    def trilu_rows(x):
        x = np.asarray(x)
        if x.size == 0:
            return []
        x2 = x.reshape((-1,) + x.shape[-2:])
        return [flat_ints(row) for row in x2[-1]]

    for nm, up in (("tril", False), ("triu", True)):
        F.append(Fam(
            nm, "aten_" + nm, (lambda up_: (lambda x, kk: torch.triu(x, kk) if up_ else torch.tril(x, kk)))(up), G.gen_trilu,
            (lambda up_: (lambda a, k: f"(CTrilu {b(up_)} {z(a[1])} {llz(trilu_rows(arr(a[0])))})"))(up),
            lambda a, k, out: f"(RSlabs 0 {llz(trilu_rows(out))})",
            lambda a, k: (len(a[0]["shape"]), np.sign(a[1]), abs(a[1]) >= max(a[0]["shape"][-2:]), numel(a[0]["shape"]) == 0)))

    # ---- arithmetic
    code = {"int64": 7, "int32": 6, "uint8": 2}

    def arith(nm, fn, ref, gen, op):
        F.append(Fam(
            nm, fn, ref, gen,
            lambda a, k: f"(CArith {op(a)} {lz(a[0]['data'])} {lz(a[1]['data'])})",
            lambda a, k, out: rdata(out),
            lambda a, k: (a[0]["t"], len(a[0]["shape"]), any(v < 0 for v in a[0]["data"]), any(v < 0 for v in a[1]["data"]),
                          any(abs(v) >= 2 ** 24 for v in a[0]["data"]))))

    F.append(Fam(
        "div_mode", "aten_div_mode", lambda p, q, rounding_mode: torch.div(p, q, rounding_mode=rounding_mode), G.gen_div_mode,
        lambda a, k: f"(CArith (OpDivModeInt {b(k['rounding_mode'] == 'floor')}) {lz(a[0]['data'])} {lz(a[1]['data'])})",
        lambda a, k, out: rdata(out),
        lambda a, k: (a[0]["t"], k["rounding_mode"], any(v < 0 for v in a[0]["data"]), any(v < 0 for v in a[1]["data"]),
                      any(abs(v) >= 2 ** 24 for v in a[0]["data"] + a[1]["data"]))))
    arith("floor_divide", "aten_floor_divide", lambda p, q: torch.floor_divide(p, q), G.gen_floor_divide,
          lambda a: "OpFloorDivU" if a[0]["t"] == "uint8" else f"(OpFloorDivS {code[a[0]['t']]})")
    arith("remainder", "aten_remainder", lambda p, q: torch.remainder(p, q), G.gen_remainder, lambda a: "OpRemainder")
    arith("fmod", "aten_fmod", lambda p, q: torch.fmod(p, q), G.gen_remainder, lambda a: "OpFmod")

    def bound_lit(v):
        return oz(None if v is None else int(v))

    F.append(Fam(
        "clamp", "aten_clamp", lambda x, min, max: torch.clamp(x, min, max), G.gen_clamp,
        lambda a, k: f"(CClamp {lz(flat_ints(arr(a[0])))} {bound_lit(k['min'])} {bound_lit(k['max'])})",
        lambda a, k, out: rdata(out),
        lambda a, k: (a[0]["t"], k["min"] is None, k["max"] is None, k["min"] is not None and k["max"] is not None and k["min"] > k["max"])))

    def tb(v):
        return "None" if v is None else f"(Some {lz(flat_ints(arr(v)))})"

    F.append(Fam(
        "clamp_tensor", "aten_clamp_tensor", lambda x, min, max: torch.clamp(x, min, max), G.gen_clamp_tensor,
        lambda a, k: f"(CClampT {lz(flat_ints(arr(a[0])))} {tb(k['min'])} {tb(k['max'])})",
        lambda a, k, out: rdata(out),
        lambda a, k: (a[0]["t"], None if k["min"] is None else len(k["min"]["shape"]), None if k["max"] is None else len(k["max"]["shape"]))))
    F.append(Fam(
        "arange", "aten_arange_start_step", lambda s, e, st: torch.arange(s, e, st), G.gen_arange,
        lambda a, k: f"(CArange {z(a[0])} {z(a[1])} {z(a[2])})",
        lambda a, k, out: rdata(out),
        lambda a, k: (np.sign(a[2]), np.sign(a[1] - a[0]), (a[1] - a[0]) % a[2] == 0)))
    from harness import c08_fams2
    F.extend(c08_fams2.build(torch))
    from harness import c08_fams3
    F.extend(c08_fams3.build(torch))
    from harness import c08_fams4
    F.extend(c08_fams4.build(torch))
    from harness import c08_fams5
    F.extend(c08_fams5.build(torch))
    return F
