(* C08 (second group of families) -- PyTorch's semantics (ATen's shape functions and index arithmetic transcribed)
   of diagonal, max_pool / avg_pool output shapes, constant_pad_nd, unfold, unbind, gather/scatter/topk/sort/softmax
   dim handling.  `None` = PyTorch raises.  No proofs in this file. *)
From Coq Require Import ZArith List Bool.
Require Import OV.Torch.Onnx OV.Torch.Spec.
Import ListNotations.
Local Open Scope Z_scope.

Definition erase {A} (i : Z) (l : list A) : list A := take i l ++ drop (i + 1) l.

(* ------------------------------------------------------------------ diagonal (TensorShape.cpp, diagonal)
   dims wrapped; "diagonal dimensions cannot be identical"; diag_size = max(min(n1, n2 - offset), 0) for offset >= 0,
   max(min(n1 + offset, n2), 0) otherwise; sizes.erase(max(dim1, dim2)); sizes.erase(min(dim1, dim2));
   sizes.push_back(diag_size) *)
Definition torch_diag_len (offset n1 n2 : Z) : Z :=
  if 0 <=? offset then Z.max (Z.min n1 (n2 - offset)) 0 else Z.max (Z.min (n1 + offset) n2) 0.
Definition torch_diagonal_shape (s : list Z) (offset dim1 dim2 : Z) : option (list Z) :=
  obind (wrap_dim (zlen s) dim1) (fun d1 =>
  obind (wrap_dim (zlen s) dim2) (fun d2 =>
    if d1 =? d2 then None
    else obind (nthZ s d1) (fun n1 => obind (nthZ s d2) (fun n2 =>
      Some (erase (Z.min d1 d2) (erase (Z.max d1 d2) s) ++ [torch_diag_len offset n1 n2]))))).
(* the elements: storage_offset += offset * stride(dim2) (offset >= 0) resp. -= offset * stride(dim1); stride = stride1 + stride2,
   i.e. element t of the diagonal of the matrix m (rows along dim1, columns along dim2) is m[t - min(offset,0)][t + max(offset,0)] *)
Definition torch_diag_matrix (m : list (list Z)) (n2 offset : Z) : option (list Z) :=
  omap_all (fun t => obind (nthZ m (t + Z.max (- offset) 0)) (fun row => nthZ row (t + Z.max offset 0)))
           (iota (torch_diag_len offset (zlen m) n2)).

(* ------------------------------------------------------------------ pooling (Pool.h)
   pooling_output_shape_pad_lr: div_rtn(in + pad_l + pad_r - dilation * (kernel - 1) - 1 + (ceil_mode ? stride - 1 : 0), stride) + 1;
   with ceil_mode "ensure that the last pooling starts inside the image": if ((out - 1) * stride >= in + pad_l) --out.
   pool*d_shape_check: kernel, stride, dilation > 0, pad >= 0, pad <= kernel / 2, spatial extents >= 1, output extents >= 1.
   (avg_pool3d additionally refuses an input smaller than the kernel: a smaller domain, covered by the theorems a fortiori.) *)
Definition torch_pool_out (ceil_mode : bool) (n k s p d : Z) : option Z :=
  if negb ((0 <? k) && (0 <? s) && (0 <? d) && (0 <=? p) && (p <=? k / 2) && (1 <=? n)) then None
  else let o := (n + p + p - d * (k - 1) - 1 + (if ceil_mode then s - 1 else 0)) / s + 1 in
       let o' := if ceil_mode && (n + p <=? (o - 1) * s) then o - 1 else o in
       if 1 <=? o' then Some o' else None.
Fixpoint torch_pool_dims (ceil_mode : bool) (ns ks ss ps ds : list Z) : option (list Z) :=
  match ns, ks, ss, ps, ds with
  | [], [], [], [], [] => Some []
  | n :: ns', k :: ks', s :: ss', p :: ps', d :: ds' =>
    match torch_pool_out ceil_mode n k s p d, torch_pool_dims ceil_mode ns' ks' ss' ps' ds' with
    | Some o, Some r => Some (o :: r)
    | _, _ => None
    end
  | _, _, _, _, _ => None
  end.
(* int[e] arguments: a python int or a list with one entry stands for e equal entries *)
Inductive ints := IInt (z : Z) | IList (l : list Z).
Definition expand_ints (e : Z) (x : ints) : option (list Z) :=
  match x with
  | IInt v => Some (repeat v (Z.to_nat e))
  | IList [v] => Some (repeat v (Z.to_nat e))
  | IList l => if zlen l =? e then Some l else None
  end.
(* max_pool{1,2,3}d(self, kernel_size, stride=[], padding=0, dilation=1, ceil_mode): self is [C, spatial...] or [N, C, spatial...];
   an omitted stride is the kernel size *)
Definition torch_pool_shape (e : Z) (s : list Z) (kernel stride padding dilation : ints) (ceil_mode : bool) : option (list Z) :=
  let r := zlen s in
  if negb ((r =? e + 1) || (r =? e + 2)) then None
  else
  obind (expand_ints e kernel) (fun ks =>
  obind (match stride with IList [] => Some ks | _ => expand_ints e stride end) (fun ss =>
  obind (expand_ints e padding) (fun ps =>
  obind (expand_ints e dilation) (fun ds =>
  obind (torch_pool_dims ceil_mode (drop (r - e) s) ks ss ps ds) (fun sp => Some (take (r - e) s ++ sp)))))).

(* ------------------------------------------------------------------ constant_pad_nd (PadNd.cpp)
   pad = (last_begin, last_end, second_to_last_begin, second_to_last_end, ...), an even number of at most 2 * rank entries;
   negative pads narrow the input first (begin, then end); new extent = n + begin + end >= 0 *)
Definition torch_pad_axis {A} (fill : A) (xs : list A) (pb pe : Z) : option (list A) :=
  let n := zlen xs in
  if n + pb + pe <? 0 then None
  else obind (if pb <? 0 then torch_narrow xs (- pb) (n + pb) else Some xs) (fun ys =>
       obind (if pe <? 0 then torch_narrow ys 0 (zlen ys + pe) else Some ys) (fun zs =>
         Some (repeat fill (Z.to_nat pb) ++ zs ++ repeat fill (Z.to_nat pe)))).
(* the pad pair that belongs to dimension i of a rank-r tensor (None, None beyond the listed ones = 0, 0) *)
Definition torch_pad_pair (r : Z) (pad : list Z) (i : Z) : Z * Z :=
  let j := 2 * (r - 1 - i) in
  (match nthZ pad j with Some v => v | None => 0 end, match nthZ pad (j + 1) with Some v => v | None => 0 end).
Definition torch_pad_shape (s pad : list Z) : option (list Z) :=
  let r := zlen s in
  if negb (zlen pad mod 2 =? 0) || (2 * r <? zlen pad) then None
  else omap_all (fun i => obind (nthZ s i) (fun n =>
                  let '(b, e) := torch_pad_pair r pad i in
                  if (n + b + e <? 0) || ((b <? 0) && (n + b <? 0)) || ((e <? 0) && (n + Z.min b 0 + e <? 0)) then None
                  else Some (n + b + e))) (iota r).

(* ------------------------------------------------------------------ unfold (TensorShape.cpp, unfold)
   rank 0: size must be <= 1, the result is the tensor reshaped to [size]; otherwise 0 <= size <= n, step > 0,
   windows = (n - size) / step + 1, window w holds the slabs w * step ... w * step + size - 1; the window axis replaces
   `dimension`, the in-window axis is appended as the last dimension *)
Definition torch_unfold_count (n size step : Z) : option Z :=
  if (size <? 0) || (n <? size) || (step <=? 0) then None else Some ((n - size) / step + 1).
Definition torch_unfold {A} (xs : list A) (size step : Z) : option (list (list A)) :=
  obind (torch_unfold_count (zlen xs) size step) (fun c =>
    Some (map (fun w => take size (drop (w * step) xs)) (iota c))).
Definition torch_unfold_shape (s : list Z) (dimension size step : Z) : option (list Z) :=
  if zlen s =? 0 then (if (dimension =? 0) || (dimension =? -1) then (if (0 <=? size) && (size <=? 1) && (0 <? step) then Some [size] else None) else None)
  else obind (wrap_dim (zlen s) dimension) (fun d =>
       obind (nthZ s d) (fun n =>
       obind (torch_unfold_count n size step) (fun c => Some (take d s ++ c :: drop (d + 1) s ++ [size])))).

(* ------------------------------------------------------------------ unbind: rank >= 1, one tensor per slab of the axis *)
Definition torch_unbind {A} (r dim : Z) (xs : list A) : option (Z * list A) :=
  obind (torch_axis r dim) (fun a => Some (a, xs)).

(* ------------------------------------------------------------------ gather / scatter / topk / sort / softmax: dim handling only
   gather(self, dim, index): dim wrapped against max(rank, 1); result has the shape of index;
   index.dim() must equal self.dim() where a 0-d tensor counts as 1-d *)
Definition rank1 (s : list Z) : Z := Z.max (zlen s) 1.
Definition torch_gather_shape (s : list Z) (dim : Z) (idx : list Z) : option (list Z) :=
  obind (wrap_dim (zlen s) dim) (fun d =>
    if rank1 s =? rank1 idx then Some idx else None).
(* softmax / log_softmax / sort / topk keep the shape (topk: extent k along dim); a 0-d tensor accepts dim 0 and -1 *)
Definition torch_dim_only (s : list Z) (dim : Z) : option (list Z) :=
  obind (wrap_dim (zlen s) dim) (fun _ => Some s).
