"""C05 translator: every numeric constant a shipped rewrite rule MATCHES against, with the tolerance it is matched with.

Source of truth: the current files onnxscript/rewriter/rules/{common,fusion}/*.py (not *_test.py), _pattern_ir.py
(defaults of `Constant.__init__`, promotion of bare literals in `_to_value_pattern`, `AttrConstantPattern.matches`),
_matcher.py (`_match_constant` passes the pattern's tolerances to math.isclose) and _ir_utils.py (`is_singleton_value`).
Everything is read from the AST, fail-closed: a construct this reader does not recognise is a `problem`
(-> ctx.tie_broken("translator", ...)), never silently skipped.

What is collected (one row per scalar; a list literal gives one row per element):
  pattern   a numeric literal that becomes a `_pattern_ir.Constant` in a TARGET pattern: positional argument of an
            `op.X(...)` call / operand of an arithmetic operator on a pattern value (tolerances = defaults of
            Constant.__init__), an explicit `Constant(v, rel_tol=, abs_tol=)`, or a call of a module-level helper that
            returns such a Constant (e.g. `_exactly(1)`)
  pattern_int   the same when the operator's schema types that input as tensor(int64) only (axes of ReduceMean, ...):
            the operand is an integer tensor and the default tolerance is vacuous for small integer targets (theorem)
  singleton / singleton_int   `is_singleton_value(v, <float>, rtol=r)` (math.isclose(rel_tol=r), abs_tol 0) /
            `is_singleton_value(v, <int>)` (`expected == scalar`)
  np_isclose / math_isclose   calls in any function of a rule file, with their (default) tolerance arguments
Keyword arguments of `op.X(...)` in a pattern are ATTRIBUTE patterns (AttrConstantPattern: `==`); they are counted, and the
`==` is itself checked on the AST of AttrConstantPattern.matches.
"""
from __future__ import annotations

import ast
import glob
import inspect
import math
import os
from fractions import Fraction

from harness import common

RULE_DIRS = ("onnxscript/rewriter/rules/common", "onnxscript/rewriter/rules/fusion")
ARITH = (ast.Add, ast.Sub, ast.Mult, ast.Div, ast.Pow)


def _num(node):
    """numeric literal (int/float, optionally negated) -> python number, else None"""
    if isinstance(node, ast.Constant) and isinstance(node.value, (int, float)) and not isinstance(node.value, bool):
        return node.value
    if isinstance(node, ast.UnaryOp) and isinstance(node.op, (ast.USub, ast.UAdd)):
        v = _num(node.operand)
        if v is not None:
            return -v if isinstance(node.op, ast.USub) else v
    return None


def _const_expr(node):
    """closed arithmetic expression of literals (1 / 6) -> number, else None"""
    v = _num(node)
    if v is not None:
        return v
    if isinstance(node, ast.BinOp) and isinstance(node.op, ARITH):
        a, b = _const_expr(node.left), _const_expr(node.right)
        if a is None or b is None:
            return None
        try:
            return {ast.Add: a + b, ast.Sub: a - b, ast.Mult: a * b, ast.Div: a / b, ast.Pow: a ** b}[type(node.op)]
        except Exception:
            return None
    return None


def _num_list(node):
    if isinstance(node, (ast.List, ast.Tuple)) and node.elts and all(_num(e) is not None for e in node.elts):
        return [_num(e) for e in node.elts]
    return None


def _callee(node):
    """dotted name of a call target: op.Pow -> ('op','Pow'); np.isclose -> ('np','isclose'); f -> ('f',)"""
    parts = []
    f = node.func
    while isinstance(f, ast.Attribute):
        parts.append(f.attr)
        f = f.value
    if isinstance(f, ast.Name):
        parts.append(f.id)
        return tuple(reversed(parts))
    return None


def constant_defaults(repo):
    """(rel_tol, abs_tol) defaults of _pattern_ir.Constant.__init__, and the facts the table relies on, from the AST."""
    problems = []
    path = os.path.join(repo, "onnxscript/rewriter/_pattern_ir.py")
    tree = ast.parse(open(path).read())
    rel = abs_ = None
    promo_ok = attr_eq_ok = clone_ok = False
    for n in ast.walk(tree):
        if isinstance(n, ast.ClassDef) and n.name == "Constant":
            for f in n.body:
                if isinstance(f, ast.FunctionDef) and f.name == "__init__":
                    names = [a.arg for a in f.args.args]
                    defs = dict(zip(names[len(names) - len(f.args.defaults):], f.args.defaults))
                    rel, abs_ = _num(defs.get("rel_tol")), _num(defs.get("abs_tol"))
                if isinstance(f, ast.FunctionDef) and f.name == "clone":
                    # commuted copies of a rule are built with clone(): it must forward both tolerances
                    for r in ast.walk(f):
                        if isinstance(r, ast.Return) and isinstance(r.value, ast.Call) and _callee(r.value) == ("Constant",):
                            src = [ast.unparse(a) for a in r.value.args] + [ast.unparse(k.value) for k in r.value.keywords]
                            clone_ok = src == ["self._value", "self._rel_tol", "self._abs_tol"]
        if isinstance(n, ast.FunctionDef) and n.name == "_to_value_pattern":
            # `return Constant(x)` for int/float and for sequences: defaults apply to bare literals
            rets = [ast.unparse(r.value) for r in ast.walk(n) if isinstance(r, ast.Return) and r.value is not None]
            promo_ok = rets.count("Constant(x)") == 2
        if isinstance(n, ast.ClassDef) and n.name == "AttrConstantPattern":
            for f in n.body:
                if isinstance(f, ast.FunctionDef) and f.name == "matches":
                    rets = [r.value for r in ast.walk(f) if isinstance(r, ast.Return)]
                    cmp = [r for r in rets if isinstance(r, ast.Compare)]
                    attr_eq_ok = bool(cmp) and all(len(c.ops) == 1 and isinstance(c.ops[0], ast.Eq) for c in cmp) and \
                        all(isinstance(r, ast.Compare) or (isinstance(r, ast.Constant) and r.value is False) for r in rets)
    if rel is None or abs_ is None:
        problems.append("_pattern_ir.Constant.__init__: rel_tol / abs_tol defaults not found as literals")
    if not promo_ok:
        problems.append("_pattern_ir._to_value_pattern: bare literals are no longer promoted by `Constant(x)`")
    if not attr_eq_ok:
        problems.append("_pattern_ir.AttrConstantPattern.matches: not a plain `==` comparison any more")
    if not clone_ok:
        problems.append("_pattern_ir.Constant.clone does not forward (value, rel_tol, abs_tol)")
    # the matcher hands exactly these tolerances to math.isclose
    mt = ast.parse(open(os.path.join(repo, "onnxscript/rewriter/_matcher.py")).read())
    calls = []
    for n in ast.walk(mt):
        if isinstance(n, ast.FunctionDef) and n.name == "_match_constant":
            for c in ast.walk(n):
                if isinstance(c, ast.Call) and _callee(c) == ("math", "isclose"):
                    calls.append({k.arg: ast.unparse(k.value) for k in c.keywords})
    if len(calls) != 2 or any(c != {"rel_tol": "pattern_constant._rel_tol", "abs_tol": "pattern_constant._abs_tol"} for c in calls):
        problems.append(f"_matcher._match_constant: math.isclose calls changed: {calls}")
    # is_singleton_value: int -> ==, float -> math.isclose(rel_tol=rtol)
    iu = ast.parse(open(os.path.join(repo, "onnxscript/rewriter/_ir_utils.py")).read())
    ok_sv = False
    for n in ast.walk(iu):
        if isinstance(n, ast.FunctionDef) and n.name == "is_singleton_value":
            src = ast.unparse(n)
            ok_sv = ("if isinstance(expected, int):\n        return expected == scalar" in src
                     and "return math.isclose(scalar, expected, rel_tol=rtol)" in src and "assert rtol is not None" in src)
    if not ok_sv:
        problems.append("_ir_utils.is_singleton_value: body changed (int: ==, float: math.isclose(rel_tol=rtol))")
    return rel, abs_, problems


INT_TYPES = {"tensor(int64)", "tensor(int32)", "tensor(int16)", "tensor(int8)", "tensor(uint64)", "tensor(uint32)",
             "tensor(uint16)", "tensor(uint8)"}


def _yields_int64(node, env=None, depth=0):
    """pattern expression whose value is an int64 tensor by the operator documents: Shape / Size, or Gather of one
    (local names are resolved through the function's single-target assignments)."""
    env = env or {}
    if isinstance(node, ast.Name) and node.id in env and depth < 8:
        return _yields_int64(env[node.id], env, depth + 1)
    if isinstance(node, ast.Call):
        cal = _callee(node)
        if cal and cal[0] == "op" and len(cal) == 2:
            if cal[1] in ("Shape", "Size"):
                return True
            if cal[1] == "Gather" and node.args:
                return _yields_int64(node.args[0], env, depth + 1)
    return False


def _int_only_input(op_type, idx, call=None, env=None):
    """True iff in every ONNX schema version of op_type input idx can only be an integer tensor: its type constraint lists
    integer tensor types only, or it shares its type variable with another positional argument of the same call that is
    Shape / Size / Gather(Shape) (int64 by the operator documents; a valid model gives both the same type)."""
    import onnx.defs
    found = False
    for s in onnx.defs.get_all_schemas_with_history():
        if s.name == op_type and s.domain == "" and idx < len(s.inputs):
            found = True
            if set(s.inputs[idx].types) <= INT_TYPES:
                continue
            tied = False
            if call is not None:
                for j, a in enumerate(call.args):
                    if j != idx and j < len(s.inputs) and s.inputs[j].type_str == s.inputs[idx].type_str and _yields_int64(a, env):
                        tied = True
            if not tied:
                return False
    return found


def scan(repo=None):
    """-> (rows, stats, problems).  row = dict(file, line, kind, value, rel, abs, where)"""
    import numpy as np
    repo = repo or common.REPO
    rel_d, abs_d, problems = constant_defaults(repo)
    np_sig = inspect.signature(np.isclose).parameters
    np_rel, np_abs = np_sig["rtol"].default, np_sig["atol"].default
    m_sig = inspect.signature(math.isclose).parameters
    m_rel, m_abs = m_sig["rel_tol"].default, m_sig["abs_tol"].default
    rows, stats = [], {"files": 0, "pattern_functions": 0, "attr_patterns": 0, "dynamic_singletons": 0}
    for d in RULE_DIRS:
        for path in sorted(glob.glob(os.path.join(repo, d, "*.py"))):
            base = os.path.basename(path)
            if base.endswith("_test.py") or base == "__init__.py":
                continue
            stats["files"] += 1
            rel = os.path.relpath(path, os.path.join(repo, "onnxscript/rewriter"))
            tree = ast.parse(open(path).read())
            funcs = {}
            for n in ast.walk(tree):
                if isinstance(n, (ast.FunctionDef,)):
                    funcs.setdefault(n.name, []).append(n)
            # helpers returning a Constant: name -> (rel, abs) with the value taken from the call's first argument
            helpers = {}
            for n in tree.body:
                if isinstance(n, ast.FunctionDef) and len(n.args.args) == 1:
                    rets = [r for r in ast.walk(n) if isinstance(r, ast.Return)]
                    if len(rets) == 1 and isinstance(rets[0].value, ast.Call) and (_callee(rets[0].value) or ("",))[-1] == "Constant":
                        c = rets[0].value
                        if c.args and isinstance(c.args[0], ast.Name) and c.args[0].id == n.args.args[0].arg:
                            kw = {k.arg: _num(k.value) for k in c.keywords}
                            pos = [_num(a) for a in c.args[1:]]
                            r = kw.get("rel_tol", pos[0] if len(pos) > 0 else rel_d)
                            a = kw.get("abs_tol", pos[1] if len(pos) > 1 else abs_d)
                            if r is None or a is None:
                                problems.append(f"{rel}:{n.lineno}: helper {n.name}: tolerance is not a literal")
                            else:
                                helpers[n.name] = (r, a)
            # roles of module-level functions: RewriteRule(target, replacement[, condition])
            role = {}
            for n in ast.walk(tree):
                if isinstance(n, ast.Call) and (_callee(n) or ("",))[-1] == "RewriteRule":
                    for i, a in enumerate(n.args[:3]):
                        if isinstance(a, ast.Name):
                            role.setdefault(a.id, ("pattern", "replacement", "condition")[i])
            for name, fl in funcs.items():
                if name == "pattern":
                    role["pattern"] = "pattern"
            # transitive: functions called by name from a pattern function build part of the pattern
            changed = True
            while changed:
                changed = False
                for name, r in list(role.items()):
                    if r != "pattern":
                        continue
                    for f in funcs.get(name, []):
                        for c in ast.walk(f):
                            if isinstance(c, ast.Call) and isinstance(c.func, ast.Name) and c.func.id in funcs \
                                    and c.func.id not in role and c.func.id not in helpers:
                                role[c.func.id] = "pattern"
                                changed = True

            def add(kind, v, r, a, line, where):
                for x in (v if isinstance(v, list) else [v]):
                    rows.append(dict(file=rel, line=line, kind=kind, value=x, rel=r, abs=a, where=where))

            for name, fl in funcs.items():
                for f in fl:
                    is_pat = role.get(name) == "pattern"
                    env = {}
                    for st in ast.walk(f):
                        if isinstance(st, ast.Assign) and len(st.targets) == 1 and isinstance(st.targets[0], ast.Name):
                            env[st.targets[0].id] = st.value
                    if is_pat:
                        stats["pattern_functions"] += 1
                    for c in ast.walk(f):
                        if isinstance(c, ast.Call):
                            cal = _callee(c)
                            if cal is None:
                                continue
                            last = cal[-1]
                            if last == "Constant" and cal[0] != "op":
                                v = _num(c.args[0]) if c.args else None
                                vl = _num_list(c.args[0]) if c.args else None
                                if v is None and vl is None:
                                    if name in helpers:
                                        continue          # the helper's own `Constant(value, ...)`
                                    problems.append(f"{rel}:{c.lineno}: Constant(...) with a non-literal value")
                                    continue
                                kw = {k.arg: _num(k.value) for k in c.keywords}
                                pos = [_num(a) for a in c.args[1:]]
                                r = kw["rel_tol"] if "rel_tol" in kw else (pos[0] if len(pos) > 0 else rel_d)
                                a = kw["abs_tol"] if "abs_tol" in kw else (pos[1] if len(pos) > 1 else abs_d)
                                if r is None or a is None:
                                    problems.append(f"{rel}:{c.lineno}: Constant(...) tolerance is not a literal")
                                    continue
                                if not is_pat:
                                    problems.append(f"{rel}:{c.lineno}: pattern Constant outside a recognised target pattern ({name})")
                                add("pattern", v if v is not None else vl, r, a, c.lineno, f"{name}: {ast.unparse(c)}")
                            elif len(cal) == 1 and last in helpers:
                                v = _num(c.args[0]) if c.args else None
                                if v is None:
                                    problems.append(f"{rel}:{c.lineno}: {last}(...) with a non-literal value")
                                    continue
                                add("pattern", v, helpers[last][0], helpers[last][1], c.lineno, f"{name}: {ast.unparse(c)}")
                            elif cal[0] == "op" and len(cal) == 2 and is_pat:
                                for i, a in enumerate(c.args):
                                    v, vl = _num(a), _num_list(a)
                                    if v is None and vl is None:
                                        continue
                                    ints = all(isinstance(x, int) for x in (vl if vl is not None else [v]))
                                    kind = "pattern_int" if ints and _int_only_input(last, i, c, env) else "pattern"
                                    add(kind, v if v is not None else vl, rel_d, abs_d, c.lineno, f"{name}: op.{last} input {i}")
                                for k in c.keywords:
                                    if k.arg and not k.arg.startswith("_") and (_num(k.value) is not None or _num_list(k.value) is not None):
                                        stats["attr_patterns"] += 1
                            elif last == "is_singleton_value":
                                if len(c.args) < 2:
                                    problems.append(f"{rel}:{c.lineno}: is_singleton_value with fewer than 2 positional arguments")
                                    continue
                                v = _num(c.args[1])
                                kw = {k.arg: k.value for k in c.keywords}
                                if v is None:
                                    if "rtol" in kw:
                                        problems.append(f"{rel}:{c.lineno}: is_singleton_value(non-literal, rtol=..) not modelled")
                                    else:
                                        stats["dynamic_singletons"] += 1      # int (==) or predicate; a float would fail the assert
                                    continue
                                if isinstance(v, int):
                                    add("singleton_int", v, 0.0, 0.0, c.lineno, f"{name}: {ast.unparse(c)}")
                                else:
                                    r = _num(kw["rtol"]) if "rtol" in kw else None
                                    if r is None:
                                        problems.append(f"{rel}:{c.lineno}: is_singleton_value(float) without a literal rtol")
                                        continue
                                    add("singleton", v, r, 0.0, c.lineno, f"{name}: {ast.unparse(c)}")
                            elif last in ("isclose", "allclose"):
                                if cal[0] in ("np", "numpy") and last == "isclose":
                                    kind, r0, a0, rk, ak = "np_isclose", np_rel, np_abs, "rtol", "atol"
                                elif cal[0] == "math":
                                    kind, r0, a0, rk, ak = "math_isclose", m_rel, m_abs, "rel_tol", "abs_tol"
                                else:
                                    problems.append(f"{rel}:{c.lineno}: unrecognised closeness test {'.'.join(cal)}")
                                    continue
                                vals = [_const_expr(a) for a in c.args[:2]]
                                lit = [x for x in vals if x is not None]
                                if len(lit) != 1:
                                    problems.append(f"{rel}:{c.lineno}: {'.'.join(cal)} without exactly one literal side")
                                    continue
                                kw = {k.arg: _num(k.value) for k in c.keywords}
                                pos = [_num(a) for a in c.args[2:]]
                                r = kw[rk] if rk in kw else (pos[0] if len(pos) > 0 else r0)
                                a = kw[ak] if ak in kw else (pos[1] if len(pos) > 1 else a0)
                                if r is None or a is None:
                                    problems.append(f"{rel}:{c.lineno}: {'.'.join(cal)} tolerance is not a literal")
                                    continue
                                add(kind, lit[0], r, a, c.lineno, f"{name}: {ast.unparse(c)}")
                        elif isinstance(c, ast.BinOp) and isinstance(c.op, ARITH) and is_pat:
                            for side in (c.left, c.right):
                                v = _num(side)
                                other = c.right if side is c.left else c.left
                                if v is not None and _const_expr(other) is None:
                                    add("pattern", v, rel_d, abs_d, c.lineno, f"{name}: {ast.unparse(c)}")
    return rows, stats, problems


KIND_COQ = {"pattern": "KPattern", "pattern_int": "KPatternInt", "singleton": "KSingleton", "singleton_int": "KSingletonInt",
            "np_isclose": "KNumpyIsclose", "math_isclose": "KMathIsclose"}


def cq(x):
    f = Fraction(x)
    return f"(({f.numerator})%Z # {f.denominator}%positive)"


def to_coq(rows):
    lines = ["(* GENERATED by harness/c05_consts_py2v.py from onnxscript/rewriter/rules/{common,fusion}/*.py -- do not edit. *)",
             "From Coq Require Import ZArith QArith List String.", "Require Import OV.Rules.XNoOp.", "Import ListNotations.",
             "Local Open Scope string_scope.", "",
             "Definition table : list centry := ["]
    ents = []
    for r in rows:
        ents.append('  {| ce_file := "%s"; ce_line := %d%%Z; ce_kind := %s; ce_value := %s; ce_rel := %s; ce_abs := %s |}  (* %s *)' % (
            r["file"], r["line"], KIND_COQ[r["kind"]], cq(r["value"]), cq(r["rel"]), cq(r["abs"]),
            r["where"].replace("(*", "( *").replace("*)", "* )")[:110]))
    body = []
    for i, e in enumerate(ents):
        head, _, comment = e.partition("  (* ")
        body.append(head + (";" if i < len(ents) - 1 else "") + "  (* " + comment)
    lines += body + ["]."]
    return "\n".join(lines) + "\n"


def regenerate(ctx):
    rows, stats, problems = scan()
    for p in problems:
        ctx.tie_broken("translator", "c05_consts_py2v", p)
    ctx.gen("C05Consts", to_coq(rows))
    return rows, stats, problems


if __name__ == "__main__":
    rows, stats, problems = scan()
    for r in rows:
        print(r)
    print(stats)
    print("PROBLEMS", problems)
