"""C02 stream `aligned-generated-name` (session 6, after seed C02-5: the retry loop of Converter._generate_unique_name
turned into a single `if`).

The valid stream draws variable names from a list that contains converter-looking names (tmp_0, x_0, ...), but a user
name only interferes with the converter's renaming when it is EXACTLY the name the converter is about to generate:
`<candidate>_<k>` with k the value of the per-function rename counter at that moment.  This stream aligns them on purpose:

  1. a base program of the typed grammar is decorated; the value names of its FunctionProto that are not names of the
     source are the names the converter generated (tmp, tmp_3, x_0, cond_1, ...);
  2. one user variable (a parameter: defined before everything else; or a local) is renamed, in the program itself, to
     one of those generated names; the renamed program is still a valid program of the subset with the same meaning
     (alpha-renaming to a name that occurs nowhere in the source);
  3. it goes through every C02 observation of the valid stream: accepted => onnx.checker on the FunctionProto and the
     ModelProto, the verified checkers wf_graphb / no_input_returned / imports_ok evaluated in Coq on the real protos,
     and the model-side tie (Script/Translate.v, whose gen_unique has the retry loop, = the real function_ir, names
     included).
Renaming does not change how often the counter is consumed before the first collision, so the renamed program meets the
collision at the counter value observed on the base program.
"""
from __future__ import annotations

import copy
import re

from harness import c01_gen, c01_run


def rename_var(p, old, new):
    """Program p with the variable / parameter `old` called `new` everywhere (new must not occur in p)."""
    q = copy.deepcopy(p)

    def ex(e):
        if e is None:
            return None
        k = e[0]
        if k in ("var", "glob"):
            return [k, new if e[1] == old else e[1]] + list(e[2:])
        if k == "lit":
            return e
        if k == "un":
            return [k, e[1], ex(e[2])]
        if k in ("bin", "cmp"):
            return [k, e[1], ex(e[2]), ex(e[3])]
        if k in ("call", "fcall"):
            kws = []
            for kw, av in e[3]:
                kws.append([kw, [av[0], new if (av[0] == "ref" and av[1] == old) else av[1]]])
            return [k, e[1], [ex(a) for a in e[2]], kws] + list(e[4:])
        raise TypeError(e)

    def nm(n):
        return new if n == old else n

    def st(s):
        k = s[0]
        if k == "assign":
            return [k, nm(s[1]), ex(s[2])] + list(s[3:])
        if k == "tassign":
            return [k, [nm(n) for n in s[1]], ex(s[2])] + list(s[3:])
        if k == "if":
            return [k, ex(s[1]), [st(x) for x in s[2]], [st(x) for x in s[3]]] + list(s[4:])
        if k == "for":
            return [k, nm(s[1]), ex(s[2]), [st(x) for x in s[3]]] + list(s[4:])
        if k == "while":
            return [k, nm(s[1]), [st(x) for x in s[2]]] + list(s[3:])
        if k == "break_if":
            return [k, nm(s[1])] + list(s[2:])
        if k == "return":
            return [k, [ex(x) for x in s[1]]] + list(s[2:])
        raise TypeError(s)

    q["body"] = [st(s) for s in q["body"]]
    q["tparams"] = [[nm(t[0])] + list(t[1:]) for t in q["tparams"]]
    q["aparams"] = [[nm(a[0])] + list(a[1:]) for a in q["aparams"]]
    q["attr_roles"] = {nm(k): v for k, v in q.get("attr_roles", {}).items()}
    q["bounded"] = sorted(nm(b) for b in q.get("bounded", []))
    return q


def value_names(fp):
    """Every value name defined in a FunctionProto (nested graphs included)."""
    import onnx
    out = list(fp.input)

    def nodes(ns):
        for n in ns:
            out.extend(o for o in n.output if o)
            for a in n.attribute:
                if a.type == onnx.AttributeProto.GRAPH:
                    out.extend(i.name for i in a.g.input)
                    nodes(a.g.node)
    nodes(fp.node)
    return out


def variants(prog, fp, rng, k):
    """Up to k renamed copies of prog: [(program, renamed variable, generated name it now carries)]."""
    src_names = c01_gen.all_names(prog)
    for h in prog["subs"]:
        src_names |= c01_gen.all_names(h)
    generated = sorted({n for n in value_names(fp) if n not in src_names and re.fullmatch(r"[A-Za-z_][A-Za-z_0-9]*", n)})
    suffixed = [g for g in generated if re.fullmatch(r".+_\d+", g)]
    # variables that may be renamed: tensor parameters and assigned locals (not loop variables, attribute parameters or
    # module constants)
    loopvars = set()

    def lv(stmts):
        for s in stmts:
            if s[0] == "for":
                loopvars.add(s[1])
                lv(s[3])
            elif s[0] == "if":
                lv(s[2])
                lv(s[3])
            elif s[0] == "while":
                lv(s[2])
    lv(prog["body"])
    params = [t[0] for t in prog["tparams"]]
    locs = [n for n in c01_gen.assigned_names(prog) if n not in loopvars and n not in params and n not in prog["globals"]]
    out = []
    tried = set()
    for _ in range(4 * k):
        if len(out) >= k or not generated or not (params or locs):
            break
        g = rng.choice(suffixed) if suffixed and rng.random() < 0.8 else rng.choice(generated)
        u = rng.choice(params) if params and (not locs or rng.random() < 0.6) else rng.choice(locs)
        if (u, g) in tried:
            continue
        tried.add((u, g))
        try:
            out.append((rename_var(prog, u, g), u, g))
        except TypeError:
            break
    return out


def stream(ctx, wd, rng, n_bases, per_base, coll, model_side, stats, observe_accepted, crash_site):
    import traceback
    made = 0
    for b in range(n_bases):
        base = c01_gen.gen_program(rng, 12000 + b, straight=(b % 3 == 0))
        src = c01_gen.to_source(base)
        mod, exc = c01_run.load(wd, f"c02_gb{b}", src)
        if exc is not None:
            continue
        f = getattr(mod, base["name"], None)
        try:
            fp = f.to_function_proto()
        except Exception:  # noqa: BLE001 -- the valid stream reports such a program
            continue
        for j, (q, u, g) in enumerate(variants(base, fp, rng, per_base)):
            qsrc = c01_gen.to_source(q)
            with c01_run.ConverterTrace() as tr:
                mod2, exc2 = c01_run.load(wd, f"c02_gv{b}_{j}", qsrc)
            made += 1
            stats["aligned_name_variants"] += 1
            ctx.case(("aligned-generated-name", "param" if u in [t[0] for t in base["tparams"]] else "local",
                      re.sub(r"\d+", "N", g)))
            if made <= 2:
                ctx.sample({"stream": "aligned-generated-name", "renamed": u, "to": g, "source": qsrc})
            model_side.append((f"g{b}_{j}", q, qsrc, mod2, exc2, tr.events))
            if exc2 is None:
                stats["aligned_name_accepted"] += 1
                observe_accepted(ctx, mod2, q, qsrc, "aligned-generated-name", f"{u}->{g}", coll, stats)
            else:
                cls = c01_run.exc_class(exc2)
                stats["aligned_name_refused"] += 1
                replay = {"stream": "aligned-generated-name", "renamed": u, "to": g, "source": qsrc, "base_source": src,
                          "traceback": "".join(traceback.format_exception(exc2))[-1500:]}
                if cls not in c01_run.DESCRIPTIVE:
                    ctx.violation(f"C02:crash:{cls}@{crash_site(exc2)}",
                                  f"the decorator crashed with an internal {cls} ({str(exc2)[:120]!r}) on a program whose variable "
                                  f"`{u}` is spelled `{g}`", replay)
                else:
                    # the base program is accepted and the renamed one is the same program up to the spelling of one variable
                    ctx.violation("C02:valid-program-refused:variable-named-like-a-generated-name",
                                  f"a program of the subset is accepted, the same program with the variable `{u}` spelled `{g}` is refused "
                                  f"({cls}: {str(exc2)[:160]})", replay)
    return made
