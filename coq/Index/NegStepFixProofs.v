(* C11 -- the two-Slice repair of the negative-step corner equals Python's slice on one axis, for every d, start, stop, step. *)
From Coq Require Import ZArith List Bool Lia ZifyBool.
Import ListNotations.
Require Import OV.Index.NumpySpec OV.Index.OnnxSlice OV.Index.ConverterIdx OV.Index.SliceProofs OV.Index.NegStepFix.
Open Scope Z_scope.

Lemma range_len_unit : forall lo hi, lo <= hi -> range_len lo hi 1 = hi - lo.
Proof.
  intros lo hi H. unfold range_len. cbn [Z.ltb Z.compare]. destruct (lo <? hi) eqn:E; [|lia].
  rewrite Z.div_1_r. lia.
Qed.

Lemma nth_range_unit : forall lo hi j, 0 <= j < hi - lo -> nth (Z.to_nat j) (range_list lo hi 1) 0 = lo + j.
Proof.
  intros lo hi j Hj. unfold range_list. rewrite range_len_unit by lia.
  rewrite (nth_indep _ 0 ((fun k => lo + Z.of_nat k * 1) O)) by (rewrite map_length, seq_length; lia).
  rewrite (map_nth (fun k => lo + Z.of_nat k * 1)). rewrite seq_nth by lia. lia.
Qed.

Lemma pick_range_unit : forall lo hi js, (forall j, In j js -> 0 <= j < hi - lo) ->
  pick_all (range_list lo hi 1) js = map (fun j => lo + j) js.
Proof.
  intros lo hi js H. unfold pick_all. apply map_ext_in. intros j Hj. apply nth_range_unit. apply H. assumption.
Qed.

Lemma range_len_shift : forall a b st k, range_len (a + k) (b + k) st = range_len a b st.
Proof.
  intros. unfold range_len. replace (b + k - (a + k) - 1) with (b - a - 1) by lia. replace (a + k - (b + k) - 1) with (a - b - 1) by lia.
  destruct (0 <? st); [destruct (a <? b) eqn:E1, (a + k <? b + k) eqn:E2; try lia; reflexivity|].
  destruct (st <? 0); [|reflexivity]. destruct (b <? a) eqn:E1, (b + k <? a + k) eqn:E2; try lia; reflexivity.
Qed.

Lemma map_shift_range : forall a b st k, map (fun j => k + j) (range_list a b st) = range_list (a + k) (b + k) st.
Proof.
  intros. unfold range_list. rewrite range_len_shift, map_map. apply map_ext. intros n. lia.
Qed.

(* the elements lo .. hi-1 walked backwards from the last one = range(hi-1, lo-1, st) *)
Lemma two_stage : forall lo hi st, st < 0 -> lo <= hi ->
  pick_all (range_list lo hi 1) (range_list (hi - lo - 1) (-1) st) = range_list (hi - 1) (lo - 1) st.
Proof.
  intros lo hi st Hs H. rewrite (pick_range_unit lo hi).
  - rewrite map_shift_range. f_equal; lia.
  - intros j Hj. destruct (range_list_bounds _ _ _ _ Hj) as [_ B]. specialize (B Hs). lia.
Qed.

Theorem conv_slice_ns_eq_python : forall d a b s,
  0 <= d <= MAXI -> ns_applies a b s = true ->
  conv_slice_ns d a b s = py_slice d (bval a) (bval b) (bval s).
Proof.
  intros d a b s Hd Ha. destruct MAXI_MINI as [HM Hm]. unfold conv_slice_ns. rewrite Ha. unfold ns_applies in Ha.
  destruct s as [|st|st]; try discriminate. destruct a as [|c|c]; try discriminate.
  apply andb_true_iff in Ha. destruct Ha as [Ha Hb]. apply andb_true_iff in Ha. destruct Ha as [Hst Hc].
  assert (st < 0) by lia. assert (c < 0) by lia.
  cbn [bval dflt]. unfold py_slice, step_of. destruct (st =? 0) eqn:E0; [lia|].
  unfold py_adjust. destruct (st <? 0) eqn:En; [|lia]. destruct (c <? 0) eqn:Ec; [|lia].
  unfold onnx_slice at 1. cbn [Z.eqb Z.ltb Z.compare].
  set (A := Z.max (c + d) (-1)).
  set (B := match bval b with None => -1 | Some e => if e <? 0 then Z.max (e + d) (-1) else Z.min e (d - 1) end).
  (* stage 1 selects B+1 .. A (nothing when A <= B) *)
  assert (S1 : exists lo hi, (0 <= lo /\ hi <= d) /\ lo <= hi /\ (A <= B -> lo = hi) /\ (B < A -> lo = B + 1 /\ hi = A + 1) /\
               range_list (clamp 0 d (if ns_lo b <? 0 then ns_lo b + d else ns_lo b))
                          (clamp 0 d (if ns_hi (BConst c) <? 0 then ns_hi (BConst c) + d else ns_hi (BConst c))) 1 = range_list lo hi 1).
  { unfold clamp, ns_hi, ns_lo. subst A B.
    destruct b as [|e|e]; try discriminate; cbn [bval];
      [|destruct (e =? -1) eqn:Ee; destruct (e <? 0) eqn:Ee0; try lia];
      destruct (c =? -1) eqn:Ec1;
      repeat (match goal with |- context [if ?t <? 0 then _ else _] => destruct (t <? 0) eqn:? end); try lia;
      match goal with |- exists lo hi, _ /\ _ /\ _ /\ _ /\ range_list ?x ?y 1 = _ =>
        destruct (x <=? y) eqn:Exy;
        [exists x, y; repeat split; intros; try reflexivity; try lia
        |exists 0, 0; repeat split; intros; try lia; rewrite !range_list_empty_pos by lia; reflexivity] end. }
  destruct S1 as [lo [hi [Hrg [Hle [He [Hn S1]]]]]]. rewrite S1. cbn [option_map].
  rewrite range_list_length. rewrite (range_len_unit lo hi Hle).
  unfold onnx_slice. rewrite E0. destruct (0 <? st) eqn:Ep; [lia|].
  assert (Ms : (if MAXI <? 0 then MAXI + (hi - lo) else MAXI) = MAXI) by (rewrite HM; reflexivity).
  assert (Me : (if MINI <? 0 then MINI + (hi - lo) else MINI) = MINI + (hi - lo)) by (rewrite Hm; reflexivity).
  rewrite Ms, Me. cbn [option_map]. f_equal.
  assert (C1 : clamp 0 (hi - lo - 1) MAXI = hi - lo - 1 \/ (lo = hi /\ clamp 0 (hi - lo - 1) MAXI = -1)) by (unfold clamp; lia).
  assert (C2 : clamp (-1) (hi - lo - 1) (MINI + (hi - lo)) = -1) by (unfold clamp; lia).
  rewrite C2. fold A. fold B. destruct C1 as [C1|[C0 C1]]; rewrite C1.
  - rewrite two_stage by lia. destruct (Z_lt_le_dec B A) as [L|L].
    + destruct (Hn L) as [-> ->]. f_equal; lia.
    + rewrite (He L). rewrite !range_list_empty_neg by lia. reflexivity.
  - subst hi. rewrite (range_list_empty_neg (-1) (-1)) by lia. cbn.
    destruct (Z_lt_le_dec B A) as [L|L]; [destruct (Hn L); lia|]. rewrite range_list_empty_neg by lia. reflexivity.
Qed.

(* the repaired translation of one slice: Python's positions whenever the repair applies or the old translation was right *)
Theorem conv_slice_ns_sound : forall d a b s,
  0 <= d <= MAXI -> conv_bounds a b s <> None ->
  ns_applies a b s = true \/ neg_start_hazard d (bval a) (bval b) (bval s) = false ->
  conv_slice_ns d a b s = py_slice d (bval a) (bval b) (bval s).
Proof.
  intros d a b s Hd Hacc [H|H].
  - apply conv_slice_ns_eq_python; assumption.
  - destruct (ns_applies a b s) eqn:E; [apply conv_slice_ns_eq_python; assumption|].
    unfold conv_slice_ns. rewrite E. apply conv_slice_eq_python; assumption.
Qed.

(* what is left of the corner: a start, step or stop known only at run time *)
Theorem conv_slice_ns_remaining_corner : forall d a b s,
  ns_applies a b s = false -> neg_start_hazard d (bval a) (bval b) (bval s) = true ->
  (exists z, a = BDyn z) \/ (exists z, s = BDyn z) \/ (exists z, b = BDyn z).
Proof.
  intros d a b s Hn Hh. unfold neg_start_hazard in Hh. unfold ns_applies in Hn.
  destruct s as [|st|st]; cbn [bval] in Hh; try discriminate; [|right; left; exists st; reflexivity].
  destruct a as [|c|c]; cbn [bval] in Hh; try discriminate; [|left; exists c; reflexivity].
  destruct b as [|e|e]; [| |right; right; exists e; reflexivity]; cbn [bval] in Hh; lia.
Qed.

Example ns_instances :   (* X[-6::-1], X[-6:-7:-2] on d = 4: nothing; X[-2::-1]: [2,1,0]; X[-1:0:-2] on d = 5: [4,2] *)
  conv_slice_ns 4 (BConst (-6)) BNone (BConst (-1)) = Some [] /\ conv_slice 4 (BConst (-6)) BNone (BConst (-1)) = Some [0] /\
  conv_slice_ns 4 (BConst (-6)) (BConst (-7)) (BConst (-2)) = Some [] /\
  conv_slice_ns 4 (BConst (-2)) BNone (BConst (-1)) = Some [2; 1; 0] /\
  conv_slice_ns 5 (BConst (-1)) (BConst 0) (BConst (-2)) = Some [4; 2].
Proof. vm_compute. repeat split. Qed.
