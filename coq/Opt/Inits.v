(* Models of the three onnx_ir passes of optimize_ir that move constants into / between / out of initializer lists (C03 / C04):
     LiftConstantsToInitializersPass(lift_all_constants=True, size_limit=0), LiftSubgraphInitializersToMainGraphPass,
     DeduplicateInitializersPass,
   over a graph together with a table of initializer values: (name, token).  A token is what denotes the tensor: the single
   attribute (kind, payload) of a Constant node - ("value", ATensor dtype dims bytes) for a tensor.  All initializers, also those
   of nested graphs, are bound in the outermost environment (faithful when value names are unique across graphs, the standing
   assumption of Opt/Fold.v and Opt/Cse.v); graph inputs shadow them, which is how an overridable default is overridden.

   lift (RecursiveGraphIterator over the main graph, nested graphs included, functions excluded): a node  y = Constant<k = a>()
   of the default domain with exactly one attribute whose output is not an output of its graph becomes the initializer y of THE
   GRAPH THAT OWNS THE NODE, with the value of the attribute; k must be one of value, value_int(s), value_float(s),
   value_string(s) - any other kind (sparse_value) makes the real pass raise ValueError (model: None).
   hoist: every initializer of a nested graph that is neither an input nor an output of that graph moves to the main graph;
   on a name collision the real pass renames it (NOT modelled: None).
   dedup (main graph; nested graphs have nothing left to de-duplicate after hoist): initializers with EQUAL tokens - element type,
   dims and bytes, so 0.0 / -0.0, NaN payloads and equal bytes under different element types stay apart - are merged into the
   first one; graph inputs and outputs are skipped; more than 1024 elements are skipped.  No proofs in this file. *)
From Coq Require Import List String ZArith Bool.
Require Import OV.Graph.Syntax OV.Opt.Cse OV.Opt.Use.
Import ListNotations.
Local Open Scope string_scope.

Definition token := (string * attrv)%type.
Definition itab := list (vname * token).

Fixpoint tab_get (x : vname) (t : itab) : option token :=
  match t with [] => None | (y, k) :: r => if String.eqb x y then Some k else tab_get x r end.

Definition token_eqb (a b : token) : bool := String.eqb (fst a) (fst b) && attr_eqb (snd a) (snd b).

(* ---------------------------------------------------------------- lift constants *)
Definition liftable_kinds : list string :=
  ["value"; "value_int"; "value_ints"; "value_float"; "value_floats"; "value_string"; "value_strings"].

(* the Constant nodes the pass looks at: -> Some (y, token) *)
Definition const_shape (gouts : list vname) (n : node) : option (vname * token) :=
  match n_outs n, n_attrs n, n_subs n with
  | [y], [(k, a)], [] =>
    if String.eqb (n_dom n) "" && String.eqb (n_op n) "Constant" && negb (mem y gouts) then Some (y, (k, a)) else None
  | _, _, _ => None
  end.
Definition unsupported (gouts : list vname) (n : node) : bool :=
  match const_shape gouts n with Some (_, (k, _)) => negb (mem k liftable_kinds) | None => false end.

(* dropped: the table holds exactly this node's token under its output name *)
Definition lifted (t : itab) (gouts : list vname) (n : node) : option vname :=
  match const_shape gouts n with
  | Some (y, k) => match tab_get y t with Some k' => if token_eqb k k' then Some y else None | None => None end
  | None => None
  end.

Definition lift_subs (rec : graph -> graph) (subs : list (string * graph)) : list (string * graph) :=
  map (fun kg => (fst kg, rec (snd kg))) subs.
Fixpoint lift_nodes (t : itab) (rec : graph -> graph) (gouts : list vname) (ns : list node) : list node * list vname :=
  match ns with
  | [] => ([], [])
  | n :: r =>
    let '(r', ys) := lift_nodes t rec gouts r in
    match lifted t gouts n with
    | Some y => (r', y :: ys)
    | None => let 'Node d o i u a s := n in (Node d o i u a (lift_subs rec s) :: r', ys)
    end
  end.
Definition lift_graph_with (t : itab) (rec : graph -> graph) (g : graph) : graph :=
  let 'Graph gi ii ns go := g in
  let '(ns', ys) := lift_nodes t rec go ns in Graph gi (ii ++ ys)%list ns' go.
Fixpoint lift_graph (t : itab) (d : nat) (g : graph) : graph :=
  match d with O => g | S d' => lift_graph_with t (lift_graph t d') g end.

(* the tokens of the Constant nodes, in iteration order (node first, then its nested graphs) *)
Fixpoint collect (d : nat) (g : graph) : itab :=
  match d with
  | O => []
  | S d' =>
    let 'Graph _ _ ns go := g in
    flat_map (fun n => match const_shape go n with
                       | Some p => [p]
                       | None => flat_map (fun kg => collect d' (snd kg)) (n_subs n)
                       end) ns
  end.
Fixpoint any_unsupported (d : nat) (g : graph) : bool :=
  match d with
  | O => false
  | S d' => let 'Graph _ _ ns go := g in
            existsb (fun n => unsupported go n || existsb (fun kg => any_unsupported d' (snd kg)) (n_subs n)) ns
  end.

Definition lift (g : graph) (t : itab) : option (graph * itab) :=
  let d := depth_graph g in
  if any_unsupported d g then None          (* ValueError: Unsupported constant node attribute *)
  else let new := collect d g in
       if existsb (fun p => match tab_get (fst p) t with Some _ => true | None => false end) new then None   (* register_initializer raises *)
       else Some (lift_graph new d g, (new ++ t)%list).

(* ---------------------------------------------------------------- hoist the initializers of nested graphs *)
Definition movable (g : graph) (x : vname) : bool := negb (mem x (g_ins g)) && negb (mem x (g_outs g)).
Definition map_subs_nodes (rec : graph -> graph) (ns : list node) : list node :=
  map (fun n => let 'Node d o i u a s := n in Node d o i u a (lift_subs rec s)) ns.
Definition keep_inits (rec : graph -> graph) (g : graph) : graph :=      (* a nested graph after the pass *)
  let 'Graph gi ii ns go := g in
  Graph gi (filter (fun x => negb (movable g x)) ii) (map_subs_nodes rec ns) go.
Fixpoint hoist_nested (d : nat) (g : graph) : graph :=
  match d with O => g | S d' => keep_inits (hoist_nested d') g end.
Fixpoint moved (d : nat) (g : graph) : list vname :=        (* of a nested graph and the graphs nested in it *)
  match d with
  | O => []
  | S d' => let 'Graph _ ii ns _ := g in
            (filter (movable g) ii ++ flat_map (fun n => flat_map (fun kg => moved d' (snd kg)) (n_subs n)) ns)%list
  end.
Definition hoist (g : graph) : option graph :=
  let 'Graph gi ii ns go := g in
  let d := depth_graph g in
  let mv := flat_map (fun n => flat_map (fun kg => moved d (snd kg)) (n_subs n)) ns in
  if existsb (fun x => mem x ii || mem x gi || mem x (flat_map n_outs ns)) mv || negb (nodupb mv) then None   (* renamed by the real pass *)
  else Some (Graph gi (ii ++ mv)%list (map_subs_nodes (hoist_nested d) ns) go).

(* ---------------------------------------------------------------- de-duplicate the initializers of the main graph *)
Definition dedup_limit : Z := 1024.
Definition token_elems (k : token) : Z := match snd k with ATensor _ dims _ => prod_dims dims | _ => 1%Z end.

(* walk the initializer list: (kept so far, pairs (removed, kept)) *)
Fixpoint dedup_walk (t : itab) (skip : list vname) (seen : list (vname * token)) (ii : list vname) : list vname * list (vname * vname) :=
  match ii with
  | [] => ([], [])
  | x :: r =>
    match tab_get x t with
    | Some k =>
      if mem x skip || Z.ltb dedup_limit (token_elems k) then let '(kp, ps) := dedup_walk t skip seen r in (x :: kp, ps)
      else match find (fun s => token_eqb (snd s) k) seen with
           | Some (x1, _) => let '(kp, ps) := dedup_walk t skip seen r in (kp, (x, x1) :: ps)
           | None => let '(kp, ps) := dedup_walk t skip (seen ++ [(x, k)])%list r in (x :: kp, ps)
           end
    | None => let '(kp, ps) := dedup_walk t skip seen r in (x :: kp, ps)       (* no constant value: skipped *)
    end
  end.

(* side conditions under which the merge is proved (value names unique): equal tokens, the kept one is not itself removed, no
   removed or kept name is bound inside the graph or is a graph output, table names distinct.  When they fail (never observed on a
   checker-valid model) the model leaves the graph alone. *)
Definition dedup_guard (g : graph) (t : itab) (pairs : list (vname * vname)) : bool :=
  forallb (fun p => match tab_get (fst p) t, tab_get (snd p) t with
                    | Some k, Some k1 => token_eqb k k1
                    | _, _ => false
                    end && negb (mem (snd p) (map fst pairs))) pairs &&
  nodupb (map fst t) &&
  disjointb (binds_graph g) (map fst pairs ++ map snd pairs)%list &&
  disjointb (g_outs g) (map fst pairs).

Definition dedup (g : graph) (t : itab) : graph * itab :=
  let 'Graph gi ii ns go := g in
  let '(kept, pairs) := dedup_walk t (gi ++ go)%list [] ii in
  if dedup_guard g t pairs
  then (Graph gi kept (use_nodes (ren pairs) ns) go, filter (fun p => negb (mem (fst p) (map fst pairs))) t)
  else (g, t).
