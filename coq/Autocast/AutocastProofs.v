(* C12 -- proofs about the model in Autocast.v.  All statements are for every schema shape, every
   argument list and every literal; the only finite computation is the registry check at the end. *)
From Coq Require Import ZArith NArith List Bool String Ascii Lia.
Require Import OV.Autocast.Autocast.
Require OV.Gen.Schemas OV.Gen.C12Decisions.
Import ListNotations.
Open Scope string_scope.

(* ------------------------------------------------------------------------------------------ *)
(* small list facts                                                                           *)

Fixpoint pairwise {A} (R : A -> A -> Prop) (l : list A) : Prop :=
  match l with [] => True | a :: t => Forall (R a) t /\ pairwise R t end.

Lemma pairwiseb_pairwise {A} (r : A -> A -> bool) (R : A -> A -> Prop) :
  (forall a b, r a b = true -> R a b) -> forall l, pairwiseb r l = true -> pairwise R l.
Proof.
  intros H l; induction l as [|a t IH]; simpl; intros Hp; [exact I|].
  apply andb_true_iff in Hp; destruct Hp as [H1 H2]; split; [|auto].
  apply Forall_forall; intros b Hb. apply H. rewrite forallb_forall in H1; auto.
Qed.

Lemma pairwise_split {A} (R : A -> A -> Prop) :
  (forall a b, R a b -> R b a) ->
  forall xs p ys, pairwise R (xs ++ p :: ys)%list -> Forall (R p) (xs ++ ys)%list.
Proof.
  intros Hs xs; induction xs as [|x xs IH]; simpl; intros p ys [H1 H2].
  - exact H1.
  - constructor.
    + apply Hs. rewrite Forall_forall in H1. apply H1. apply in_or_app; right; left; reflexivity.
    + apply IH; exact H2.
Qed.

Lemma pairwise_app {A} (R : A -> A -> Prop) : forall l1 l2,
  pairwise R l1 -> pairwise R l2 -> (forall a b, In a l1 -> In b l2 -> R a b) -> pairwise R (l1 ++ l2)%list.
Proof.
  induction l1 as [|a t IH]; simpl; intros l2 H1 H2 H; [exact H2|].
  destruct H1 as [Ha Ht]; split.
  - apply Forall_app; split; [exact Ha|]. apply Forall_forall; intros b Hb; apply H; auto.
  - apply IH; auto.
Qed.

Lemma Forall_firstn {A} (P : A -> Prop) : forall n l, Forall P l -> Forall P (firstn n l).
Proof.
  induction n; simpl; intros l H; [constructor|].
  destruct l; [constructor|]. inversion H; subst; constructor; auto.
Qed.

Lemma pairwise_firstn {A} (R : A -> A -> Prop) : forall n l, pairwise R l -> pairwise R (firstn n l).
Proof.
  induction n; simpl; intros l H; [exact I|].
  destruct l as [|a t]; [exact I|]. destruct H as [H1 H2]; split; [apply Forall_firstn; exact H1|auto].
Qed.

Lemma pairwise_repeat {A} (R : A -> A -> Prop) t : R t t -> forall n, pairwise R (repeat t n).
Proof.
  intros H n; induction n; simpl; [exact I|]. split; [|exact IHn].
  apply Forall_forall; intros x Hx. apply repeat_spec in Hx; subst; exact H.
Qed.

Lemma nth_error_map_mid {A B} (f : A -> B) : forall pre x post,
  nth_error (map f (pre ++ x :: post)%list) (List.length pre) = Some (f x).
Proof. induction pre; simpl; intros; auto. Qed.

Lemma in_mid_inv {A} : forall (pre post : list A) x y,
  In y (pre ++ x :: post)%list -> y = x \/ In y (pre ++ post)%list.
Proof.
  intros pre post x y H. apply in_app_or in H. destruct H as [H|[H|H]]; auto.
  - right; apply in_or_app; auto.
  - right; apply in_or_app; auto.
Qed.

Lemma in_mid_intro {A} : forall (pre post : list A) x y,
  In y (pre ++ post)%list -> In y (pre ++ x :: post)%list.
Proof.
  intros pre post x y H. apply in_app_or in H. apply in_or_app. destruct H; [left|right; right]; auto.
Qed.

(* ------------------------------------------------------------------------------------------ *)
(* the two passes of cast_inputs: what a lookup in the bindings returns                        *)

Section Bindings.
  Variables I : Type.
  Variable ksel : pinfo -> option string.
  Variable info : arg -> option I.
  Variable first_wins : bool.

  Notation lookup := (lookup I).
  Notation bind1 := (bind1 I ksel info first_wins).
  Notation bindings := (bindings I ksel info first_wins).

  (* argument sl contributes the binding k -> v *)
  Definition contrib (sl : slot) (k : string) (v : I) : Prop :=
    ksel (snd sl) = Some k /\ has_paren k = false /\ info (fst sl) = Some v.

  Lemma lookup_cons_eq b k v : lookup ((k, v) :: b) k = Some v.
  Proof. simpl. rewrite String.eqb_refl. reflexivity. Qed.

  Lemma bind1_sound b sl k v :
    lookup (bind1 b sl) k = Some v -> lookup b k = Some v \/ contrib sl k v.
  Proof.
    unfold bind1, contrib. destruct (ksel (snd sl)) as [k0|] eqn:Hk; auto.
    destruct (has_paren k0) eqn:Hp; auto.
    destruct (info (fst sl)) as [v0|] eqn:Hi; auto.
    assert (Hnew : lookup ((k0, v0) :: b) k = Some v -> lookup b k = Some v \/
              (Some k0 = Some k /\ has_paren k = false /\ Some v0 = Some v)).
    { simpl. destruct (String.eqb k k0) eqn:E; auto.
      apply String.eqb_eq in E; subst. intros H; inversion H; subst. right; auto. }
    destruct first_wins; [destruct (lookup b k0)|]; auto.
  Qed.

  Lemma bind1_mono b sl k v : lookup b k = Some v -> exists v', lookup (bind1 b sl) k = Some v'.
  Proof.
    intros H. unfold bind1. destruct (ksel (snd sl)) as [k0|]; eauto.
    destruct (has_paren k0); eauto. destruct (info (fst sl)) as [v0|]; eauto.
    assert (Hnew : exists v', lookup ((k0, v0) :: b) k = Some v').
    { simpl. destruct (String.eqb k k0); eauto. }
    destruct first_wins; [destruct (lookup b k0)|]; eauto.
  Qed.

  Lemma bind1_binds b sl k v : contrib sl k v -> exists v', lookup (bind1 b sl) k = Some v'.
  Proof.
    intros [Hk [Hp Hi]]. unfold bind1. rewrite Hk, Hp, Hi.
    destruct first_wins.
    - destruct (lookup b k) eqn:E; [eauto|]. rewrite lookup_cons_eq; eauto.
    - rewrite lookup_cons_eq; eauto.
  Qed.

  Lemma fold_sound : forall slots b k v,
    lookup (fold_left bind1 slots b) k = Some v ->
    lookup b k = Some v \/ exists sl, In sl slots /\ contrib sl k v.
  Proof.
    induction slots as [|a t IH]; simpl; intros b k v H; auto.
    apply IH in H. destruct H as [H|[sl [Hin Hc]]].
    - apply bind1_sound in H. destruct H; [auto|]. right; exists a; auto.
    - right; exists sl; auto.
  Qed.

  Lemma fold_complete : forall slots b k,
    ((exists v, lookup b k = Some v) \/ (exists sl v, In sl slots /\ contrib sl k v)) ->
    exists v, lookup (fold_left bind1 slots b) k = Some v.
  Proof.
    induction slots as [|a t IH]; simpl; intros b k H.
    - destruct H as [H|[sl [v [[] _]]]]; exact H.
    - apply IH. destruct H as [[v H]|[sl [v [[Hin|Hin] Hc]]]].
      + left. eapply bind1_mono; eauto.
      + subst. left. eapply bind1_binds; eauto.
      + right; eauto.
  Qed.

  (* a lookup returns the info of some argument bound to that key ... *)
  Lemma bindings_sound slots k v :
    lookup (bindings slots) k = Some v -> exists sl, In sl slots /\ contrib sl k v.
  Proof. intros H. apply fold_sound in H. destruct H as [H|H]; [discriminate|exact H]. Qed.

  (* ... and returns something as soon as one argument contributes *)
  Lemma bindings_complete slots k sl v :
    In sl slots -> contrib sl k v -> exists v', lookup (bindings slots) k = Some v'.
  Proof. intros Hin Hc. apply fold_complete. right; eauto. Qed.
End Bindings.

(* first-wins (builder) and last-wins (autocast) agree whenever all the contributions to one key
   are equal -- which is what `uniform` gives for type variables *)
Lemma binding_order_irrelevant (I : Type) ksel info (slots : list slot) k :
  (forall sl1 sl2 v1 v2, In sl1 slots -> In sl2 slots ->
       contrib I ksel info sl1 k v1 -> contrib I ksel info sl2 k v2 -> v1 = v2) ->
  lookup I (bindings I ksel info true slots) k = lookup I (bindings I ksel info false slots) k.
Proof.
  intros Hu.
  destruct (lookup I (bindings I ksel info true slots) k) as [v1|] eqn:E1;
  destruct (lookup I (bindings I ksel info false slots) k) as [v2|] eqn:E2; auto.
  - apply bindings_sound in E1; apply bindings_sound in E2.
    destruct E1 as [s1 [H1 C1]], E2 as [s2 [H2 C2]]. f_equal; eauto.
  - apply bindings_sound in E1. destruct E1 as [s1 [H1 C1]].
    destruct (bindings_complete I ksel info false slots k s1 v1 H1 C1) as [v' Hv]. congruence.
  - apply bindings_sound in E2. destruct E2 as [s2 [H2 C2]].
    destruct (bindings_complete I ksel info true slots k s2 v2 H2 C2) as [v' Hv]. congruence.
Qed.

(* ------------------------------------------------------------------------------------------ *)
(* schema facts: from the boolean check to the properties used below                           *)

Definition coh (ksel : pinfo -> option string) (p q : pinfo) : Prop :=
  forall k, ksel p = Some k -> ksel q = Some k -> has_paren k = false ->
            p_skey p = Some k /\ p_skey q = Some k.

Lemma opt_str_eqb_eq a b : opt_str_eqb a b = true -> a = b.
Proof.
  destruct a, b; simpl; intros H; try discriminate; auto.
  apply String.eqb_eq in H; subst; auto.
Qed.

Lemma cohb_coh ksel p q : cohb ksel p q = true -> coh ksel p q.
Proof.
  unfold cohb, coh. intros H k Hp Hq Hn. rewrite Hp, Hq in H.
  rewrite String.eqb_refl, Hn in H. simpl in H.
  apply andb_true_iff in H; destruct H as [H1 H2].
  apply opt_str_eqb_eq in H1; apply opt_str_eqb_eq in H2; auto.
Qed.

Lemma coh_sym ksel p q : coh ksel p q -> coh ksel q p.
Proof. unfold coh; intros H k Hq Hp Hn. destruct (H k Hp Hq Hn); auto. Qed.

(* the specification's key is the implementation's key, and it is an identifier *)
Definition pinfo_ok (p : pinfo) : Prop :=
  forall k, p_skey p = Some k -> p_akey p = Some k /\ p_bkey p = Some k /\ has_paren k = false.

Lemma is_typevar_noparen s t :
  forallb (fun tc => negb (has_paren (fst tc))) (s_tcs s) = true -> is_typevar s t = true -> has_paren t = false.
Proof.
  unfold is_typevar. intros Hf He. apply existsb_exists in He. destruct He as [x [Hin Hx]].
  apply String.eqb_eq in Hx; subst. apply in_map_iff in Hin. destruct Hin as [tc [Htc Hin]]; subst.
  rewrite forallb_forall in Hf. specialize (Hf tc Hin). apply negb_true_iff in Hf; exact Hf.
Qed.

Lemma head_info_ok s f :
  forallb (fun tc => negb (has_paren (fst tc))) (s_tcs s) = true -> pinfo_ok (head_info s f).
Proof.
  intros Hf k. unfold head_info, skey_f, akey_f; simpl.
  destruct (is_typevar s (f_tstr f)) eqn:Ht; simpl; [|discriminate].
  destruct (negb (hetero f)); [|discriminate].
  intros H; inversion H; subst. repeat split; auto. eapply is_typevar_noparen; eauto.
Qed.

Lemma tail_info_ok s f :
  forallb (fun tc => negb (has_paren (fst tc))) (s_tcs s) = true -> pinfo_ok (tail_info s f).
Proof.
  intros Hf. unfold tail_info. destruct (f_homog f); [apply head_info_ok; auto|].
  intros k H; simpl in H; discriminate.
Qed.

Lemma last_opt_in {A} : forall (l : list A) a, last_opt l = Some a -> In a l.
Proof.
  induction l as [|x t IH]; simpl; intros a H; [discriminate|].
  destruct t; [inversion H; auto|]. right; apply IH; exact H.
Qed.

Lemma firstn_incl {A} : forall n (l : list A) x, In x (firstn n l) -> In x l.
Proof.
  induction n; simpl; intros l x H; [contradiction|].
  destruct l; [contradiction|]. destruct H; [left|right]; auto.
Qed.

Lemma schema_ok_parts s : schema_okb s = true ->
  forallb (fun tc => negb (has_paren (fst tc))) (s_tcs s) = true
  /\ pairwiseb (cohb p_akey) (map (head_info s) (s_formals s)) = true
  /\ pairwiseb (cohb p_bkey) (map (head_info s) (s_formals s)) = true
  /\ tail_okb p_akey s = true /\ tail_okb p_bkey s = true.
Proof.
  unfold schema_okb. intros H.
  repeat (apply andb_true_iff in H; destruct H as [H ?]). repeat split; assumption.
Qed.

Lemma positions_ok s n ps : schema_okb s = true -> positions s n = OK ps -> Forall pinfo_ok ps.
Proof.
  intros Hs Hp. destruct (schema_ok_parts s Hs) as [Hf _].
  unfold positions in Hp.
  destruct (Nat.leb n (List.length (s_formals s))).
  - inversion Hp; subst. apply Forall_forall; intros p Hin.
    apply in_map_iff in Hin. destruct Hin as [f [Hf' _]]; subst. apply head_info_ok; auto.
  - destruct (last_opt (s_formals s)) as [f|]; [|discriminate].
    destruct (is_variadic f); [|discriminate]. inversion Hp; subst.
    apply Forall_app; split; apply Forall_forall; intros p Hin.
    + apply in_map_iff in Hin. destruct Hin as [g [Hg _]]; subst. apply head_info_ok; auto.
    + apply repeat_spec in Hin; subst. apply tail_info_ok; auto.
Qed.

Lemma positions_pairwise_gen ksel s n ps :
  pairwiseb (cohb ksel) (map (head_info s) (s_formals s)) = true ->
  tail_okb ksel s = true ->
  positions s n = OK ps -> pairwise (coh ksel) ps.
Proof.
  intros Hpw Htl Hp.
  apply (pairwiseb_pairwise _ (coh ksel) (cohb_coh ksel)) in Hpw.
  unfold positions in Hp.
  destruct (Nat.leb n (List.length (s_formals s))).
  - inversion Hp; subst. rewrite <- firstn_map. apply pairwise_firstn; exact Hpw.
  - unfold tail_okb in Htl.
    destruct (last_opt (s_formals s)) as [f|] eqn:Hl; [|discriminate].
    destruct (is_variadic f); [|discriminate]. inversion Hp; subst.
    apply andb_true_iff in Htl; destruct Htl as [Htt Hht].
    apply pairwise_app; [exact Hpw| |].
    + apply pairwise_repeat. apply cohb_coh; exact Htt.
    + intros a b Ha Hb. apply repeat_spec in Hb; subst.
      apply in_map_iff in Ha. destruct Ha as [g [Hg Hin]]; subst.
      apply cohb_coh. rewrite forallb_forall in Hht. apply Hht; exact Hin.
Qed.

Lemma positions_pairwise s n ps : schema_okb s = true -> positions s n = OK ps ->
  pairwise (coh p_akey) ps /\ pairwise (coh p_bkey) ps.
Proof.
  intros Hs Hp. destruct (schema_ok_parts s Hs) as [_ [Ha [Hb [Hta Htb]]]].
  split; eapply positions_pairwise_gen; eauto.
Qed.

Lemma positions_length s n ps : positions s n = OK ps -> List.length ps = n.
Proof.
  unfold positions. destruct (Nat.leb n (List.length (s_formals s))) eqn:E.
  - intros H; inversion H; subst. rewrite map_length, firstn_length.
    apply Nat.leb_le in E. lia.
  - destruct (last_opt (s_formals s)) as [f|]; [|discriminate].
    destruct (is_variadic f); [|discriminate]. intros H; inversion H; subst.
    rewrite app_length, map_length, repeat_length. apply Nat.leb_gt in E. lia.
Qed.

Lemma combine_fst {A B} : forall (l1 : list A) (l2 : list B),
  List.length l2 = List.length l1 -> map fst (combine l1 l2) = l1.
Proof. induction l1; destruct l2; simpl; intros; try discriminate; auto. f_equal; auto. Qed.
Lemma combine_snd {A B} : forall (l1 : list A) (l2 : list B),
  List.length l2 = List.length l1 -> map snd (combine l1 l2) = l2.
Proof. induction l1; destruct l2; simpl; intros; try discriminate; auto. f_equal; auto. Qed.

Lemma annotate_args s args slots : annotate s args = OK slots -> map fst slots = args /\
  exists ps, positions s (List.length args) = OK ps /\ map snd slots = ps.
Proof.
  unfold annotate. destruct (positions s (List.length args)) as [ps|] eqn:Hp; simpl; [|discriminate].
  intros H; inversion H; subst. apply positions_length in Hp as Hl. split.
  - apply combine_fst; exact Hl.
  - exists ps; split; auto. apply combine_snd; exact Hl.
Qed.

(* ------------------------------------------------------------------------------------------ *)
(* the core: what the literal at one position is cast with                                     *)

Section Core.
  Variable I : Type.
  Variable mk : dtype -> bool -> I.
  Variable ksel : pinfo -> option string.
  Variable info : arg -> option I.
  Variable first_wins : bool.
  Hypothesis info_tensor : forall d k, info (ATensor d k) = Some (mk d k).
  Hypothesis info_lit : forall l, info (ALit l) = None.
  Hypothesis info_none : info ANone = None.
  (* the implementation key carries the specification key *)
  Hypothesis ksel_skey : forall p k, pinfo_ok p -> p_skey p = Some k -> ksel p = Some k.

  Lemma literal_binding (slots pre post : list slot) l p :
    pairwise (coh ksel) (map snd slots) ->
    Forall pinfo_ok (map snd slots) ->
    slots = (pre ++ (ALit l, p) :: post)%list ->
    match (match ksel p with Some k => lookup I (bindings I ksel info first_wins slots) k | None => None end) with
    | Some v => exists d kn, v = mk d kn /\ exists sl, In sl (pre ++ post)%list /\ sibling p sl d
    | None => forall sl d, In sl (pre ++ post)%list -> ~ sibling p sl d
    end.
  Proof.
    intros Hpw Hok Hsl.
    assert (Hcoh : Forall (coh ksel p) (map snd (pre ++ post)%list)).
    { subst slots. rewrite map_app in Hpw. simpl in Hpw. rewrite map_app.
      apply pairwise_split; [intros a b; apply coh_sym|exact Hpw]. }
    assert (Hokp : pinfo_ok p).
    { rewrite Forall_forall in Hok. apply Hok. subst slots. rewrite map_app. simpl.
      apply in_or_app; right; left; reflexivity. }
    assert (Hokq : forall sl, In sl (pre ++ post)%list -> pinfo_ok (snd sl)).
    { intros sl Hin. rewrite Forall_forall in Hok. apply Hok. apply in_map.
      subst slots. apply in_mid_intro; exact Hin. }
    destruct (ksel p) as [k|] eqn:Hk.
    - destruct (lookup I (bindings I ksel info first_wins slots) k) as [v|] eqn:Hl.
      + apply bindings_sound in Hl. destruct Hl as [sl [Hin [Hks [Hnp Hi]]]].
        subst slots. apply in_mid_inv in Hin. destruct Hin as [Hin|Hin].
        { subst sl. simpl in Hi. rewrite info_lit in Hi. discriminate. }
        destruct sl as [a q]. simpl in *. destruct a as [d kn|l'|].
        * rewrite info_tensor in Hi. inversion Hi; subst. exists d, kn; split; auto.
          exists (ATensor d kn, q); split; auto.
          rewrite Forall_forall in Hcoh.
          assert (Hc : coh ksel p q) by (apply Hcoh; apply (in_map snd) in Hin; exact Hin).
          destruct (Hc k Hk Hks Hnp) as [Hsp Hsq].
          exists k, kn; simpl; auto.
        * rewrite info_lit in Hi; discriminate.
        * rewrite info_none in Hi; discriminate.
      + intros sl d Hin [k' [kn [Hsp [Hsq Ht]]]].
        assert (Hk' : ksel p = Some k') by (apply ksel_skey; auto).
        rewrite Hk in Hk'. inversion Hk'; subst k'.
        assert (Hc : contrib I ksel info sl k (mk d kn)).
        { destruct (Hokp k Hsp) as [_ [_ Hnp]].
          split; [apply ksel_skey; auto|]. split; [exact Hnp|]. rewrite Ht. apply info_tensor. }
        destruct (bindings_complete I ksel info first_wins slots k sl (mk d kn)) as [v' Hv]; auto.
        { subst slots. apply in_mid_intro; exact Hin. }
        congruence.
    - intros sl d Hin [k' [kn [Hsp [Hsq Ht]]]].
      assert (Hk' : ksel p = Some k') by (apply ksel_skey; auto). congruence.
  Qed.
End Core.

(* ------------------------------------------------------------------------------------------ *)
(* the three front ends produce what the specification says                                    *)

Lemma akey_of_skey p k : pinfo_ok p -> p_skey p = Some k -> p_akey p = Some k.
Proof. intros H Hs. destruct (H k Hs) as [Ha _]; exact Ha. Qed.
Lemma bkey_of_skey p k : pinfo_ok p -> p_skey p = Some k -> p_bkey p = Some k.
Proof. intros H Hs. destruct (H k Hs) as [_ [Hb _]]; exact Hb. Qed.

Lemma annotate_facts s args slots : schema_okb s = true -> annotate s args = OK slots ->
  pairwise (coh p_akey) (map snd slots) /\ pairwise (coh p_bkey) (map snd slots)
  /\ Forall pinfo_ok (map snd slots).
Proof.
  intros Hs Ha. destruct (annotate_args s args slots Ha) as [_ [ps [Hp Hm]]]. rewrite Hm.
  destruct (positions_pairwise s _ ps Hs Hp). repeat split; auto. eapply positions_ok; eauto.
Qed.

Lemma plainb_ir l : plainb l = true -> ir_default_dtype l = default_dtype l.
Proof. unfold plainb. intros H. apply andb_true_iff in H. destruct H as [_ H]. apply N.eqb_eq in H. exact H. Qed.
Lemma plainb_ok l : plainb l = true -> builder_list_ok l = true.
Proof. unfold plainb. intros H. apply andb_true_iff in H. destruct H as [H _]. exact H. Qed.
Lemma plainb_builder_default l : plainb l = true -> builder_default l = default_dtype l.
Proof. intros H. unfold builder_default. rewrite (plainb_ok l H). reflexivity. Qed.

(* converter: the literal becomes Constant(ir.tensor's dtype) [-> CastLike(sibling)]; its element type
   when the op runs is the one the specification names -- for PLAIN literals (scalars, flat lists of one
   Python type: plain_of_homog); nested and mixed lists: static_nested_float_refuted below *)
Theorem static_eq_spec : forall s args slots pre post l p outs,
  schema_okb s = true -> plainb l = true ->
  annotate s args = OK slots -> slots = (pre ++ (ALit l, p) :: post)%list ->
  promote_static s args = OK outs ->
  exists o, nth_error outs (List.length pre) = Some o /\ out_literal o = Some l /\
            exists d, out_dtype o = Some d /\ spec_dtype (pre ++ post)%list l p d.
Proof.
  intros s args slots pre post l p outs Hs Hpl Ha Hsl Hp.
  unfold promote_static in Hp. rewrite Ha in Hp. simpl in Hp. inversion Hp; subst outs; clear Hp.
  destruct (annotate_facts s args slots Hs Ha) as [Hpa [_ Hok]].
  pose proof (literal_binding dtype (fun d _ => d) p_akey info_dtype false
                (fun d k => eq_refl) (fun l => eq_refl) eq_refl akey_of_skey
                slots pre post l p Hpa Hok Hsl) as H; simpl in H.
  subst slots. unfold cast_inputs. rewrite nth_error_map_mid.
  eexists; split; [reflexivity|]. unfold cast_slot; simpl. revert H.
  destruct (match p_akey p with Some k => _ | None => None end) as [v|]; intros H.
  - destruct H as [d [kn [Hv [sl [Hin Hsib]]]]]. subst v. simpl. split; auto.
    exists d; split; auto. left; eauto.
  - simpl. split; auto. exists (default_dtype l); split; [rewrite (plainb_ir l Hpl); auto|]. right; auto.
Qed.

Theorem eager_eq_spec : forall s args slots pre post l p outs,
  schema_okb s = true ->
  annotate s args = OK slots -> slots = (pre ++ (ALit l, p) :: post)%list ->
  promote_eager s args = OK outs ->
  exists o, nth_error outs (List.length pre) = Some o /\ out_literal o = Some l /\
            exists d, out_dtype o = Some d /\ spec_dtype (pre ++ post)%list l p d.
Proof.
  intros s args slots pre post l p outs Hs Ha Hsl Hp.
  unfold promote_eager in Hp. rewrite Ha in Hp. simpl in Hp. inversion Hp; subst outs; clear Hp.
  destruct (annotate_facts s args slots Hs Ha) as [Hpa [_ Hok]].
  pose proof (literal_binding dtype (fun d _ => d) p_akey info_dtype false
                (fun d k => eq_refl) (fun l => eq_refl) eq_refl akey_of_skey
                slots pre post l p Hpa Hok Hsl) as H; simpl in H.
  subst slots. unfold cast_inputs. rewrite nth_error_map_mid.
  eexists; split; [reflexivity|]. unfold cast_slot; simpl. revert H.
  destruct (match p_akey p with Some k => _ | None => None end) as [v|]; intros H.
  - destruct H as [d [kn [Hv [sl [Hin Hsib]]]]]. subst v. simpl. split; auto.
    exists d; split; auto. left; eauto.
  - simpl. split; auto. exists (default_dtype l); split; auto. right; auto.
Qed.

Theorem builder_eq_spec : forall named s args slots pre post l p outs,
  schema_okb s = true -> plainb l = true ->
  annotate s args = OK slots -> slots = (pre ++ (ALit l, p) :: post)%list ->
  promote_builder_v named s args = OK outs ->
  exists o, nth_error outs (List.length pre) = Some o /\ out_literal o = Some l /\
            exists d, out_dtype o = Some d /\ spec_dtype (pre ++ post)%list l p d.
Proof.
  intros named s args slots pre post l p outs Hs Hpl Ha Hsl Hp.
  unfold promote_builder_v in Hp. rewrite Ha in Hp. simpl in Hp. inversion Hp; subst outs; clear Hp.
  destruct (annotate_facts s args slots Hs Ha) as [_ [Hpb Hok]].
  pose proof (literal_binding (dtype * bool) (fun d k => (d, k)) p_bkey info_builder true
                (fun d k => eq_refl) (fun l => eq_refl) eq_refl bkey_of_skey
                slots pre post l p Hpb Hok Hsl) as H; simpl in H.
  subst slots. unfold cast_inputs. rewrite nth_error_map_mid.
  eexists; split; [reflexivity|]. unfold cast_slot, cast_builder_v; simpl.
  rewrite (plainb_ok l Hpl). simpl. revert H.
  destruct (match p_bkey p with Some k => _ | None => None end) as [v|]; intros H.
  - destruct H as [d [kn [Hv [sl [Hin Hsib]]]]]. subst v. simpl.
    destruct kn; simpl; (split; auto; exists d; split; auto; left; eauto).
  - simpl. split; auto. exists (default_dtype l); split; [rewrite (plainb_builder_default l Hpl); auto|]. right; auto.
Qed.

(* every other operand is passed through untouched, in all three front ends *)
Lemma nth_error_map_inv {A B} (f : A -> B) : forall l i b,
  nth_error (map f l) i = Some b -> exists a, nth_error l i = Some a /\ b = f a.
Proof.
  induction l; destruct i; simpl; intros; try discriminate.
  - inversion H; eauto.
  - eauto.
Qed.

Theorem tensors_pass_through : forall named s args outs i o,
  (promote_static s args = OK outs \/ promote_eager s args = OK outs \/ promote_builder_v named s args = OK outs) ->
  nth_error outs i = Some o ->
  exists a, nth_error args i = Some a /\
    match a with ALit l => out_literal o = Some l | _ => o = OKeep a end.
Proof.
  intros named s args outs i o H Hn.
  unfold promote_static, promote_eager, promote_builder_v in H.
  destruct (annotate s args) as [slots|] eqn:Ha; simpl in H;
    [|destruct H as [H|[H|H]]; discriminate].
  destruct (annotate_args s args slots Ha) as [Hargs _].
  assert (Hgen : forall (I : Type) ks inf (c : arg -> option I -> out) fw,
             (forall a y, match a with ALit l => out_literal (c a y) = Some l | _ => c a y = OKeep a end) ->
             outs = cast_inputs I out ks inf c fw slots ->
             exists a, nth_error args i = Some a /\
               match a with ALit l => out_literal o = Some l | _ => o = OKeep a end).
  { intros I ks inf c fw Hc Ho. subst outs. unfold cast_inputs in Hn.
    apply nth_error_map_inv in Hn. destruct Hn as [sl [Hsl Ho]].
    exists (fst sl). split.
    - rewrite <- Hargs. apply map_nth_error. exact Hsl.
    - subst o. unfold cast_slot. apply Hc. }
  destruct H as [H|[H|H]]; inversion H as [H1]; clear H; symmetry in H1.
  - eapply (Hgen dtype p_akey info_dtype cast_static false); [|exact H1].
    intros a y; destruct a; simpl; auto. destruct y; auto.
  - eapply (Hgen dtype p_akey info_dtype cast_eager false); [|exact H1].
    intros a y; destruct a; simpl; auto. destruct y; auto.
  - eapply (Hgen (dtype * bool)%type p_bkey info_builder (cast_builder_v named) true); [|exact H1].
    intros a y; destruct a; simpl; auto.
    destruct (builder_list_ok l || named); simpl; auto. destruct y as [[d [|]]|]; auto.
Qed.

(* ------------------------------------------------------------------------------------------ *)
(* the specification is a function once the call is well typed; its executable form            *)

Lemma spec_dtype_unique slots pre post l p d1 d2 :
  uniform slots -> slots = (pre ++ (ALit l, p) :: post)%list ->
  spec_dtype (pre ++ post)%list l p d1 -> spec_dtype (pre ++ post)%list l p d2 -> d1 = d2.
Proof.
  intros Hu Hsl [[s1 [I1 S1]]|[N1 E1]] [[s2 [I2 S2]]|[N2 E2]].
  - destruct S1 as [k1 [n1 [P1 [Q1 T1]]]], S2 as [k2 [n2 [P2 [Q2 T2]]]].
    rewrite P1 in P2; inversion P2; subst k2.
    eapply (Hu s1 s2 k1 d1 d2 n1 n2); eauto; subst slots; apply in_mid_intro; auto.
  - exfalso; eapply N2; eauto.
  - exfalso; eapply N1; eauto.
  - congruence.
Qed.

Lemma sibling_dtype_b_spec p sl d : sibling_dtype_b p sl = Some d <-> sibling p sl d.
Proof.
  unfold sibling_dtype_b, sibling. split.
  - destruct (p_skey p) as [k|]; [|discriminate]. destruct (fst sl) as [d' kn| |] eqn:Ef; try discriminate.
    destruct (opt_str_eqb (p_skey (snd sl)) (Some k)) eqn:E; [|discriminate].
    intros H; inversion H; subst. apply opt_str_eqb_eq in E. exists k, kn; auto.
  - intros [k [kn [Hp [Hq Ht]]]]. rewrite Hp, Ht, Hq. simpl. rewrite String.eqb_refl. reflexivity.
Qed.

Lemma first_some_some {A B} (f : A -> option B) : forall l b,
  first_some f l = Some b -> exists a, In a l /\ f a = Some b.
Proof.
  induction l as [|a t IH]; simpl; intros b H; [discriminate|].
  destruct (f a) eqn:E; [inversion H; subst; eauto|]. destruct (IH b H) as [x [Hx Hf]]; eauto.
Qed.
Lemma first_some_none {A B} (f : A -> option B) : forall l,
  first_some f l = None -> forall a, In a l -> f a = None.
Proof.
  induction l as [|a t IH]; simpl; intros H x Hx; [contradiction|].
  destruct (f a) eqn:E; [discriminate|]. destruct Hx; [subst; auto|auto].
Qed.
Lemma first_some_skip {A B} (f : A -> option B) : forall pre x post,
  f x = None -> first_some f (pre ++ x :: post)%list = first_some f (pre ++ post)%list.
Proof.
  induction pre as [|a t IH]; simpl; intros x post H; [rewrite H; reflexivity|].
  destruct (f a); auto.
Qed.

Lemma spec_fn_correct slots pre post l p :
  slots = (pre ++ (ALit l, p) :: post)%list -> spec_dtype (pre ++ post)%list l p (spec_fn slots l p).
Proof.
  intros Hsl. unfold spec_fn. subst slots.
  rewrite first_some_skip.
  2:{ unfold sibling_dtype_b; simpl. destruct (p_skey p); reflexivity. }
  match goal with |- context [first_some ?f ?l] => destruct (first_some f l) as [d|] eqn:E end.
  - apply first_some_some in E. destruct E as [sl [Hin Hf]]. left. exists sl; split; auto.
    apply sibling_dtype_b_spec; exact Hf.
  - right; split; auto. intros sl d' Hin Hs. apply sibling_dtype_b_spec in Hs.
    rewrite (first_some_none _ _ E sl Hin) in Hs. discriminate.
Qed.

(* the three front ends give the literal one and the same element type *)
Theorem frontends_agree : forall named s args slots pre post l p o1 o2 o3,
  schema_okb s = true -> plainb l = true -> annotate s args = OK slots -> uniform slots ->
  slots = (pre ++ (ALit l, p) :: post)%list ->
  promote_static s args = OK o1 -> promote_eager s args = OK o2 -> promote_builder_v named s args = OK o3 ->
  exists a b c, nth_error o1 (List.length pre) = Some a /\ nth_error o2 (List.length pre) = Some b /\
                nth_error o3 (List.length pre) = Some c /\
                out_dtype a = Some (spec_fn slots l p) /\ out_dtype b = Some (spec_fn slots l p) /\
                out_dtype c = Some (spec_fn slots l p).
Proof.
  intros named s args slots pre post l p o1 o2 o3 Hs Hpl Ha Hu Hsl H1 H2 H3.
  destruct (static_eq_spec s args slots pre post l p o1 Hs Hpl Ha Hsl H1) as [a [Na [_ [da [Da Sa]]]]].
  destruct (eager_eq_spec s args slots pre post l p o2 Hs Ha Hsl H2) as [b [Nb [_ [db [Db Sb]]]]].
  destruct (builder_eq_spec named s args slots pre post l p o3 Hs Hpl Ha Hsl H3) as [c [Nc [_ [dc [Dc Sc]]]]].
  pose proof (spec_fn_correct slots pre post l p Hsl) as Sf.
  exists a, b, c. repeat split; auto.
  - rewrite Da; f_equal; eapply spec_dtype_unique; eauto.
  - rewrite Db; f_equal; eapply spec_dtype_unique; eauto.
  - rewrite Dc; f_equal; eapply spec_dtype_unique; eauto.
Qed.

(* ------------------------------------------------------------------------------------------ *)
(* values: creating at the target dtype = creating at the default dtype and casting            *)

Lemma dclass_bits d sg bits : dclass_of d = CInt sg bits ->
  (bits = 8 \/ bits = 16 \/ bits = 32 \/ bits = 64)%Z.
Proof.
  unfold dclass_of. destruct d as [|p]; [discriminate|].
  do 5 (try (destruct p as [p|p|]; try discriminate));
    intros H; inversion H; auto.
Qed.

Lemma wrap_in_range d sg bits z : dclass_of d = CInt sg bits ->
  in_range sg bits z = true -> wrap sg bits z = z.
Proof.
  intros Hd Hr. apply dclass_bits in Hd.
  unfold in_range in Hr. unfold wrap.
  destruct Hd as [?|[?|[?|?]]]; subst bits; destruct sg;
    apply andb_true_iff in Hr; destruct Hr as [H1 H2];
    apply Z.leb_le in H1; apply Z.ltb_lt in H2; simpl andb;
    cbn [Z.sub Z.add Z.opp Z.pos_sub Pos.pred_double Z.succ_double Z.pred_double Z.double] in *;
    try (rewrite Z.mod_small by lia; reflexivity).
  all: match goal with |- (if ?c then _ else _) = _ => destruct c eqn:E end;
       [apply Z.leb_le in E|apply Z.leb_gt in E].
  all: try (assert (0 <= z)%Z by (destruct (Z.neg_nonneg_cases z) as [Hn|Hn]; [exfalso|exact Hn];
            rewrite <- (Z.mod_add z 1) in E by lia; rewrite Z.mod_small in E by lia; lia);
            rewrite Z.mod_small by lia; reflexivity).
  all: destruct (Z.neg_nonneg_cases z) as [Hn|Hn];
       [rewrite <- (Z.mod_add z 1) by lia; rewrite Z.mod_small by lia; lia
       |rewrite Z.mod_small in E by lia; lia].
Qed.

Lemma cast_paths_agree_scalar s d v v0 :
  np_cast_scalar s d = OK v ->
  np_cast_scalar s (default_of_kind (kind_of s)) = OK v0 ->
  onnx_cast v0 d = OK v.
Proof.
  unfold np_cast_scalar, onnx_cast.
  destruct s as [z|n m e|b]; simpl kind_of; simpl default_of_kind; simpl dclass_of; cbv iota.
  - destruct (in_range true 64 z); [|discriminate]. intros H H0; inversion H0; subst v0; clear H0.
    destruct (dclass_of d) as [sg bits| | |] eqn:Hd; try exact H.
    destruct (in_range sg bits z) eqn:Hr; [|discriminate].
    rewrite (wrap_in_range d sg bits z Hd Hr). exact H.
  - intros H H0; inversion H0; subst v0; clear H0. destruct (dclass_of d); exact H.
  - intros H H0; inversion H0; subst v0; clear H0. destruct (dclass_of d); exact H.
Qed.

(* literals whose elements all have the Python type of the first one (every literal of the property) *)
Definition lit_homog (l : literal) : Prop :=
  forall s, In s (scalars_of l) -> kind_of s = kind_of (head_of l).

Lemma mapM_paths (ss : list scalar) k d : (forall s, In s ss -> kind_of s = k) ->
  forall vs v0s, mapM (fun s => np_cast_scalar s d) ss = OK vs ->
  mapM (fun s => np_cast_scalar s (default_of_kind k)) ss = OK v0s ->
  mapM (fun v => onnx_cast v d) v0s = OK vs.
Proof.
  induction ss as [|s t IH]; simpl; intros Hk vs v0s H H0.
  - inversion H; inversion H0; reflexivity.
  - destruct (np_cast_scalar s d) as [v|] eqn:E1; simpl in H; [|discriminate].
    destruct (mapM (fun s => np_cast_scalar s d) t) as [vt|] eqn:E2; simpl in H; [|discriminate].
    destruct (np_cast_scalar s (default_of_kind k)) as [v0|] eqn:E3; simpl in H0; [|discriminate].
    destruct (mapM (fun s => np_cast_scalar s (default_of_kind k)) t) as [v0t|] eqn:E4; simpl in H0; [|discriminate].
    inversion H; inversion H0; subst. simpl.
    rewrite <- (Hk s (or_introl eq_refl)) in E3.
    rewrite (cast_paths_agree_scalar s d v v0 E1 E3). simpl.
    rewrite (IH (fun x Hx => Hk x (or_intror Hx)) vt v0t eq_refl eq_refl). reflexivity.
Qed.

(* whenever the direct conversion np.array(literal, d) succeeds, Constant(default dtype) + CastLike
   yields the same elements (values exactly representable: see the assumptions in the evidence) *)
Theorem cast_paths_agree : forall l d vs v0s,
  lit_homog l -> np_cast l d = OK vs -> np_cast l (default_dtype l) = OK v0s ->
  cast_like l (default_dtype l) d = OK vs.
Proof.
  intros l d vs v0s Hh H H0. unfold cast_like. rewrite H0. simpl.
  unfold np_cast, default_dtype in *. eapply mapM_paths; eauto.
Qed.

(* ... and the exception (DESIGN F10): a negative int beside an unsigned tensor *)
Theorem cast_paths_negative_unsigned_refuted :
  exists l d, np_cast l d = Err Overflow /\ cast_like l (default_dtype l) d = OK [VI 253%Z].
Proof. exists (LScalar (SInt (-3)%Z)), UINT8. split; vm_compute; reflexivity. Qed.

(* value part of the three theorems: same literal, and (when the direct conversion is defined)
   the same elements whichever path the front end took *)
Theorem out_value_eq_spec : forall o l d vs,
  lit_homog l -> out_literal o = Some l -> out_dtype o = Some d ->
  (forall d0, o = OCastLike l d0 d -> d0 = default_dtype l /\ exists v0s, np_cast l d0 = OK v0s) ->
  np_cast l d = OK vs -> out_value o = OK vs.
Proof.
  intros o l d vs Hh Hl Hd Hc Hv. destruct o as [a|l' d'|l' d0 d'|l']; simpl in *; try discriminate.
  - inversion Hl; inversion Hd; subst; exact Hv.
  - inversion Hl; inversion Hd; subst.
    destruct (Hc d0 eq_refl) as [E [v0s H0]]. subst d0. eapply cast_paths_agree; eauto.
Qed.

(* ------------------------------------------------------------------------------------------ *)
(* the constant cache                                                                         *)

Definition reach_key (k : ckey) : Prop := exists d, snd k = resolve (fst k) d.
Definition entry_ok (w : bool) (c : cache) : Prop :=
  forall k t, In (k, t) c -> reach_key k /\ create_v w (fst k) (snd k) = OK t.

Lemma b2z_inj a b : b2z a = b2z b -> a = b.
Proof. destruct a, b; simpl; intros; auto; discriminate. Qed.

Lemma py_eq_int_int a b : py_eq (SInt a) (SInt b) = true -> a = b.
Proof. unfold py_eq; simpl. rewrite Z.eqb_eq. lia. Qed.
Lemma py_eq_int_bool a b : py_eq (SInt a) (SBool b) = true -> a = b2z b.
Proof. unfold py_eq; simpl. rewrite Z.eqb_eq. lia. Qed.
Lemma py_eq_bool_int a b : py_eq (SBool a) (SInt b) = true -> b = b2z a.
Proof. unfold py_eq; simpl. rewrite Z.eqb_eq. lia. Qed.
Lemma py_eq_bool_bool a b : py_eq (SBool a) (SBool b) = true -> a = b.
Proof. unfold py_eq; simpl. rewrite Z.eqb_eq. intros; apply b2z_inj; lia. Qed.

Lemma np_cast_int_bool b d : np_cast_scalar (SInt (b2z b)) d = np_cast_scalar (SBool b) d.
Proof.
  unfold np_cast_scalar. destruct (dclass_of d) as [sg bits| | |] eqn:Hd; auto.
  - apply dclass_bits in Hd. destruct Hd as [?|[?|[?|?]]]; subst bits; destruct sg, b; reflexivity.
  - destruct b; reflexivity.
Qed.

Lemma np_cast_int_bool_v w b d : np_cast_scalar_v w (SInt (b2z b)) d = np_cast_scalar_v w (SBool b) d.
Proof.
  destruct w; [|apply np_cast_int_bool].
  unfold np_cast_scalar_v. destruct (dclass_of d) as [sg bits| | |] eqn:Hd; try apply np_cast_int_bool.
  unfold np_cast_scalar. rewrite Hd.
  apply dclass_bits in Hd. destruct Hd as [?|[?|[?|?]]]; subst bits; destruct sg, b; reflexivity.
Qed.

Lemma key_signed_scalar w a b d : key_eq_signed a b = true -> np_cast_scalar_v w a d = np_cast_scalar_v w b d.
Proof.
  destruct a as [x|n1 m1 e1|x], b as [y|n2 m2 e2|y]; simpl; intros H; try discriminate.
  - apply py_eq_int_int in H; subst; reflexivity.
  - apply py_eq_int_bool in H; subst. apply np_cast_int_bool_v.
  - apply andb_true_iff in H; destruct H as [H H3]. apply andb_true_iff in H; destruct H as [H1 H2].
    apply eqb_prop in H1. apply N.eqb_eq in H2. apply N.eqb_eq in H3. subst; reflexivity.
  - apply py_eq_bool_int in H; subst. symmetry; apply np_cast_int_bool_v.
  - apply py_eq_bool_bool in H; subst; reflexivity.
Qed.

Lemma key_signed_list w d : forall l1 l2, list_eqb key_eq_signed l1 l2 = true ->
  mapM (fun s => np_cast_scalar_v w s d) l1 = mapM (fun s => np_cast_scalar_v w s d) l2.
Proof.
  induction l1 as [|a t IH]; destruct l2 as [|b u]; simpl; intros H; try discriminate; auto.
  apply andb_true_iff in H; destruct H as [H1 H2].
  rewrite (key_signed_scalar w a b d H1), (IH u H2). reflexivity.
Qed.

Lemma resolve_none l d : resolve l d = None -> kind_of (head_of l) = KBool.
Proof. unfold resolve. destruct d; [discriminate|]. destruct (kind_of (head_of l)); auto; discriminate. Qed.

Lemma opt_dtype_eqb_eq a b : opt_dtype_eqb a b = true -> a = b.
Proof. destruct a, b; simpl; intros H; try discriminate; auto. apply N.eqb_eq in H; subst; auto. Qed.

(* two requests with the same (fixed) key denote the same tensor *)
Lemma key_signed_sound w k1 k2 : reach_key k1 -> reach_key k2 ->
  ckey_eqb key_eq_signed k1 k2 = true -> create_v w (fst k1) (snd k1) = create_v w (fst k2) (snd k2).
Proof.
  destruct k1 as [l1 r1], k2 as [l2 r2]. intros [d1 H1] [d2 H2]. simpl in *.
  unfold ckey_eqb; simpl. intros H.
  apply andb_true_iff in H; destruct H as [H Hr]. apply andb_true_iff in H; destruct H as [Hl Hs].
  apply opt_dtype_eqb_eq in Hr. apply eqb_prop in Hl. rewrite <- Hr in H2. rewrite <- Hr. clear Hr r2.
  unfold create_v, np_cast_v. rewrite Hl.
  assert (Hd : match r1 with Some d => d | None => default_dtype l1 end
             = match r1 with Some d => d | None => default_dtype l2 end).
  { destruct r1; auto. unfold default_dtype.
    symmetry in H1. apply resolve_none in H1. symmetry in H2. apply resolve_none in H2.
    rewrite H1, H2. reflexivity. }
  rewrite <- Hd. rewrite (key_signed_list w _ _ _ Hs). reflexivity.
Qed.

Lemma cache_find_in eq c k t : cache_find eq c k = Some t ->
  exists k', In (k', t) c /\ ckey_eqb eq k k' = true.
Proof.
  induction c as [|[k' t'] rest IH]; simpl; intros H; [discriminate|].
  destruct (ckey_eqb eq k k') eqn:E.
  - inversion H; subst. exists k'; auto.
  - destruct (IH H) as [k'' [Hin He]]. exists k''; auto.
Qed.

Lemma get_or_create_ok w named c l d c' t : entry_ok w c ->
  get_or_create_v w named key_eq_signed c l d = OK (c', t) ->
  entry_ok w c' /\ denote_v w l d = OK t.
Proof.
  intros Hc. unfold get_or_create_v, denote_v.
  destruct (builder_list_ok l) eqn:Hok.
  - destruct (cache_find key_eq_signed c (l, resolve l d)) as [t0|] eqn:Ef.
    + intros H; inversion H; subst. split; auto.
      apply cache_find_in in Ef. destruct Ef as [k' [Hin He]].
      destruct (Hc k' t Hin) as [Hr Hcr].
      rewrite <- Hcr. apply (key_signed_sound w (l, resolve l d) k'); auto. exists d; reflexivity.
    + destruct (create_v w l (resolve l d)) as [t0|] eqn:Ec; simpl; [|discriminate].
      intros H; inversion H; subst. split; auto.
      intros k t1 Hin. apply in_app_or in Hin. destruct Hin as [Hin|[Hin|[]]]; [apply Hc; auto|].
      inversion Hin; subst. simpl. split; auto. exists d; reflexivity.
  - destruct named; [|discriminate].
    destruct (create_ir_v w l d) as [t0|] eqn:Ec; simpl; [|discriminate].
    intros H; inversion H; subst. split; auto.
Qed.

Lemma run_cache_ok w named : forall h c, entry_ok w c -> entry_ok w (run_cache_v w named key_eq_signed c h).
Proof.
  induction h as [|[l d] t IH]; simpl; intros c Hc; auto.
  destruct (get_or_create_v w named key_eq_signed c l d) as [[c' t0]|] eqn:E; [|auto].
  apply IH. eapply get_or_create_ok; eauto.
Qed.

(* With the sign-aware key: whatever was requested before, the tensor handed out for (l, d) is
   the tensor (l, d) denotes on its own -- distinct literals never share a tensor of a different value.
   For every variant of the code (w: wrapping creation, named: fall-through path repaired). *)
Theorem cache_never_conflates : forall w named h l d c' t,
  get_or_create_v w named key_eq_signed (run_cache_v w named key_eq_signed [] h) l d = OK (c', t) ->
  denote_v w l d = OK t.
Proof.
  intros w named h l d c' t H.
  assert (Hc : entry_ok w (run_cache_v w named key_eq_signed [] h)).
  { apply run_cache_ok. intros k t0 []. }
  eapply get_or_create_ok; eauto.
Qed.

(* the key (value, dtype) compared with Python == conflates 0.0 and -0.0 (DESIGN F9) *)
Theorem cache_eq_key_conflates :
  exists h l d c' t, get_or_create py_eq (run_cache py_eq [] h) l d = OK (c', t)
                     /\ create l (resolve l d) <> OK t.
Proof.
  exists [(LScalar (SFloat false 0 0), Some FLOAT)], (LScalar (SFloat true 0 0)), (Some FLOAT).
  eexists; eexists; split; [vm_compute; reflexivity|vm_compute; discriminate].
Qed.

(* ------------------------------------------------------------------------------------------ *)
(* list literals outside the plain ones                                                       *)

Lemma forallb_kind_head k (ss : list scalar) :
  (forall s, In s ss -> kind_of s = k) -> all_kind k ss = true.
Proof.
  intros H. unfold all_kind. apply forallb_forall. intros x Hx. rewrite (H x Hx). destruct k; reflexivity.
Qed.

(* every scalar and every FLAT list whose elements have one Python type is plain *)
Theorem plain_of_homog : forall l, is_nested l = false -> lit_homog l -> plainb l = true.
Proof.
  intros l Hn Hh. unfold plainb. destruct l as [s|h t|h t]; simpl in Hn; [| |discriminate].
  - unfold default_dtype, ir_default_dtype. simpl. destruct (kind_of s); reflexivity.
  - unfold lit_homog in Hh. simpl in Hh.
    assert (Hall : all_kind (kind_of h) (h :: t) = true) by (apply forallb_kind_head; exact Hh).
    apply andb_true_iff. split.
    + simpl. apply forallb_forall. intros x Hx. rewrite (Hh x (or_intror Hx)). destruct (kind_of h); reflexivity.
    + apply N.eqb_eq. unfold ir_default_dtype, default_dtype, numpy_infer. simpl head_of.
      destruct (kind_of h) eqn:Ek; rewrite Hall; try reflexivity.
      * (* float: all_kind KInt is false since the head is a float *)
        assert (Hi : all_kind KInt (h :: t) = false) by (simpl; rewrite Ek; reflexivity).
        rewrite Hi. reflexivity.
      * assert (Hi : all_kind KInt (h :: t) = false) by (simpl; rewrite Ek; reflexivity).
        assert (Hf : all_kind KFloat (h :: t) = false) by (simpl; rewrite Ek; reflexivity).
        rewrite Hi, Hf. reflexivity.
Qed.

Definition ex_abs : schema := mkS "Abs" 13 [mkF "X" "T" OSingle true] [("T", 81150%N)].
Definition nested_half := LNested (SFloat false 1 1) [].
Definition mixed_1_2h := LList (SInt 1) [SFloat false 5 1].

(* a nested list of floats with no sibling: the converter's ir.tensor leaves the dtype to numpy
   (float64 = DOUBLE), eager mode goes by the first element (FLOAT) -- known finding *)
Theorem static_nested_float_refuted :
  schema_okb ex_abs = true /\
  promote_static ex_abs [ALit nested_half] = OK [OConst nested_half DOUBLE] /\
  promote_eager ex_abs [ALit nested_half] = OK [OConst nested_half FLOAT].
Proof. repeat split; vm_compute; reflexivity. Qed.

(* a flat list mixing int and float with no sibling: DOUBLE [1.0, 2.5] in the translated graph,
   INT64 [1, 2] in eager mode -- different type AND different value *)
Theorem static_mixed_list_refuted :
  promote_static ex_abs [ALit mixed_1_2h] = OK [OConst mixed_1_2h DOUBLE] /\
  promote_eager ex_abs [ALit mixed_1_2h] = OK [OConst mixed_1_2h INT64] /\
  out_value (OConst mixed_1_2h DOUBLE) = OK [VF false 1 0; VF false 5 1] /\
  out_value (OConst mixed_1_2h INT64) = OK [VI 1%Z; VI 2%Z].
Proof. repeat split; vm_compute; reflexivity. Qed.

(* the builder as read refuses exactly the literals outside the cached path ... *)
Theorem builder_refuses_iff : forall a y l, a = ALit l ->
  (cast_builder_v false a y = ORefuse l <-> builder_list_ok l = false).
Proof.
  intros a y l Ha. subst a. unfold cast_builder_v. rewrite orb_false_r.
  destruct (builder_list_ok l); split; intros H; try reflexivity; try discriminate.
  destruct y as [[d [|]]|]; discriminate.
Qed.
Theorem builder_refuses_mixed_refuted :
  promote_builder_v false ex_abs [ALit mixed_1_2h] = OK [ORefuse mixed_1_2h] /\
  promote_eager ex_abs [ALit mixed_1_2h] = OK [OConst mixed_1_2h INT64].
Proof. split; vm_compute; reflexivity. Qed.
(* ... and the repaired builder refuses none *)
Theorem builder_never_refuses_fixed : forall a y l, cast_builder_v true a y <> ORefuse l.
Proof.
  intros a y l. unfold cast_builder_v. destruct a as [d k|l'|]; try discriminate.
  rewrite orb_true_r. destruct y as [[d [|]]|]; discriminate.
Qed.

(* ------------------------------------------------------------------------------------------ *)
(* the repaired conversion: creation with Cast semantics = Constant + CastLike, errors included  *)

Lemma cast_paths_agree_scalar_fixed s d v0 :
  np_cast_scalar s (default_of_kind (kind_of s)) = OK v0 ->
  np_cast_scalar_v true s d = onnx_cast v0 d.
Proof.
  unfold np_cast_scalar_v, np_cast_scalar, onnx_cast.
  destruct s as [z|n m e|b]; simpl kind_of; simpl default_of_kind; simpl dclass_of; cbv iota.
  - destruct (in_range true 64 z); [|discriminate]. intros H0; inversion H0; subst v0; clear H0.
    destruct (dclass_of d); reflexivity.
  - intros H0; inversion H0; subst v0; clear H0. destruct (dclass_of d); reflexivity.
  - intros H0; inversion H0; subst v0; clear H0. destruct (dclass_of d); reflexivity.
Qed.

Lemma mapM_paths_fixed (ss : list scalar) k d : (forall s, In s ss -> kind_of s = k) ->
  forall v0s, mapM (fun s => np_cast_scalar s (default_of_kind k)) ss = OK v0s ->
  mapM (fun s => np_cast_scalar_v true s d) ss = mapM (fun v => onnx_cast v d) v0s.
Proof.
  induction ss as [|s t IH]; intros Hk v0s H0.
  - cbn [mapM] in *. inversion H0; reflexivity.
  - cbn [mapM] in H0.
    destruct (np_cast_scalar s (default_of_kind k)) as [v0|] eqn:E3; cbn [bind] in H0; [|discriminate].
    destruct (mapM (fun s => np_cast_scalar s (default_of_kind k)) t) as [v0t|] eqn:E4; cbn [bind] in H0; [|discriminate].
    inversion H0; subst. cbn [mapM].
    rewrite <- (Hk s (or_introl eq_refl)) in E3.
    rewrite (cast_paths_agree_scalar_fixed s d v0 E3).
    rewrite (IH (fun x Hx => Hk x (or_intror Hx)) v0t eq_refl). reflexivity.
Qed.

(* with the repaired (wrapping) creation the two paths agree on EVERY target dtype, refusals included:
   no hypothesis that the direct creation succeeds (compare cast_paths_agree) *)
Theorem cast_paths_agree_fixed : forall l d v0s,
  lit_homog l -> np_cast l (default_dtype l) = OK v0s ->
  np_cast_v true l d = cast_like l (default_dtype l) d.
Proof.
  intros l d v0s Hh H0. unfold cast_like. rewrite H0. simpl.
  unfold np_cast_v, np_cast, default_dtype in *. eapply mapM_paths_fixed; eauto.
Qed.

(* ------------------------------------------------------------------------------------------ *)
(* the decision tables read from the code are the three algorithms                             *)

Lemma tail_info_g_true s f : tail_info_g true s f = tail_info s f.
Proof. unfold tail_info_g, tail_info. destruct (f_homog f); reflexivity. Qed.
Lemma positions_g_true s n : positions_g true s n = positions s n.
Proof.
  unfold positions_g, positions. destruct (Nat.leb n (List.length (s_formals s))); auto.
  destruct (last_opt (s_formals s)) as [f|]; auto. rewrite tail_info_g_true. reflexivity.
Qed.
Lemma annotate_g_true s args : annotate_g true s args = annotate s args.
Proof. unfold annotate_g, annotate. rewrite positions_g_true. reflexivity. Qed.

Theorem promote_of_static : forall named s args, promote_of named dec_static s args = promote_static s args.
Proof. intros. unfold promote_of, promote_static; simpl. rewrite annotate_g_true. reflexivity. Qed.
Theorem promote_of_eager : forall named s args, promote_of named dec_eager s args = promote_eager s args.
Proof. intros. unfold promote_of, promote_eager; simpl. rewrite annotate_g_true. reflexivity. Qed.
Theorem promote_of_builder : forall named s args, promote_of named dec_builder s args = promote_builder_v named s args.
Proof. intros. unfold promote_of, promote_builder_v; simpl. rewrite annotate_g_true. reflexivity. Qed.

(* the records read from the python ast (regenerated on every run) make promote_of the three modelled
   algorithms: an edited branch condition changes a flag and this theorem no longer holds *)
Theorem code_tables_are_model_instances :
  (forall named s args, promote_of named OV.Gen.C12Decisions.static s args = promote_static s args) /\
  (forall named s args, promote_of named OV.Gen.C12Decisions.eager s args = promote_eager s args) /\
  (forall named s args, promote_of named OV.Gen.C12Decisions.builder s args = promote_builder_v named s args).
Proof.
  assert (Hs : OV.Gen.C12Decisions.static = dec_static) by reflexivity.
  assert (He : OV.Gen.C12Decisions.eager = dec_eager) by reflexivity.
  assert (Hb : OV.Gen.C12Decisions.builder = dec_builder) by reflexivity.
  rewrite Hs, He, Hb. repeat split; intros.
  - apply promote_of_static. - apply promote_of_eager. - apply promote_of_builder.
Qed.

(* a flag that matters: without the heterogeneous-variadic guard (Loop / Scan state) the generic
   algorithm gives a float literal in the tail the type of an unrelated state variable *)
Definition ex_loop : schema :=
  mkS "Loop" 16 [mkF "M" "I" OOptional true; mkF "cond" "B" OOptional true; mkF "v_initial" "V" OVariadic false]
      [("V", 131070%N); ("I", 128%N); ("B", 512%N)].
Definition dec_no_hetero_guard : decisions :=
  mkD KeyConstraintName true true true false true true false BindInfoNotNone InfoTensorDtype CreateAtBound true true.
Theorem hetero_guard_matters :
  promote_of false dec_eager ex_loop [ANone; ANone; ATensor INT64 true; ALit (LScalar (SFloat false 5 1))]
    = OK [OKeep ANone; OKeep ANone; OKeep (ATensor INT64 true); OConst (LScalar (SFloat false 5 1)) FLOAT] /\
  promote_of false dec_no_hetero_guard ex_loop [ANone; ANone; ATensor INT64 true; ALit (LScalar (SFloat false 5 1))]
    = OK [OKeep ANone; OKeep ANone; OKeep (ATensor INT64 true); OConst (LScalar (SFloat false 5 1)) INT64].
Proof. split; vm_compute; reflexivity. Qed.

(* ------------------------------------------------------------------------------------------ *)
(* the other caches on the path, and keys that would not do                                    *)

(* converter: cached_int_consts[value] (slice bounds, Python ints under ==): distinct ints never share *)
Theorem int_key_injective : forall a b, py_eq (SInt a) (SInt b) = true ->
  np_cast (LList (SInt a) []) INT64 = np_cast (LList (SInt b) []) INT64.
Proof. intros a b H. apply py_eq_int_int in H. subst. reflexivity. Qed.

(* a type-insensitive key made of the VALUE only (no dtype component): 1 and True are == and hash alike,
   but denote an INT64 and a BOOL tensor *)
Theorem value_only_key_refuted :
  exists l1 l2, list_eqb py_eq (scalars_of l1) (scalars_of l2) = true /\ is_list l1 = is_list l2 /\
                denote_v false l1 None <> denote_v false l2 None.
Proof. exists (LScalar (SInt 1)), (LScalar (SBool true)). repeat split. vm_compute. discriminate. Qed.

(* a key (value, dtype) compared with Python == (functools.lru_cache, a plain dict): 0.0 and -0.0 are ==
   and hash alike but denote tensors of different value at every float dtype; with the dtype in the key
   True / 1 / 1.0 are harmless (they denote the same tensor at one dtype) *)
Theorem eq_value_dtype_key_refuted :
  exists a b d, py_eq a b = true /\ np_cast_scalar a d <> np_cast_scalar b d.
Proof. exists (SFloat false 0 0), (SFloat true 0 0), FLOAT. split; vm_compute; [reflexivity|discriminate]. Qed.
Theorem eq_key_true_one_harmless : forall d,
  np_cast_scalar (SBool true) d = np_cast_scalar (SInt 1) d /\
  np_cast_scalar (SFloat false 1 0) d = np_cast_scalar (SInt 1) d.
Proof.
  intros d. split.
  - symmetry. apply (np_cast_int_bool true).
  - unfold np_cast_scalar. destruct (dclass_of d) as [sg bits| | |] eqn:Hd; auto.
    apply dclass_bits in Hd. destruct Hd as [?|[?|[?|?]]]; subst bits; destruct sg; reflexivity.
Qed.

(* ------------------------------------------------------------------------------------------ *)
(* the registry: every schema of opsets 13..23 satisfies schema_okb (finite; recomputed whenever
   Gen/Schemas.v is regenerated from onnx.defs)                                                *)

Theorem registry_well_formed : forallb schema_okb OV.Gen.Schemas.all = true.
Proof. vm_compute. reflexivity. Qed.

Corollary registry_schema_ok : forall s, In s OV.Gen.Schemas.all -> schema_okb s = true.
Proof. intros s H. pose proof registry_well_formed as R. rewrite forallb_forall in R. auto. Qed.

(* ------------------------------------------------------------------------------------------ *)
(* non-vacuity: the hypotheses are satisfiable on real shapes                                  *)

Definition ex_add : schema := mkS "Add" 14 [mkF "A" "T" OSingle true; mkF "B" "T" OSingle true] [("T", 81150%N)].
Definition ex_concat : schema := mkS "Concat" 13 [mkF "inputs" "T" OVariadic true] [("T", 131070%N)].
Definition ex_clip : schema :=
  mkS "Clip" 13 [mkF "input" "T" OSingle true; mkF "min" "T" OOptional true; mkF "max" "T" OOptional true] [("T", 81150%N)].
Definition lit1 := LScalar (SInt 1).

Example ex_add_ok : schema_okb ex_add = true /\
  promote_static ex_add [ATensor UINT8 true; ALit lit1] = OK [OKeep (ATensor UINT8 true); OCastLike lit1 INT64 UINT8] /\
  promote_eager ex_add [ALit lit1; ATensor UINT8 true] = OK [OConst lit1 UINT8; OKeep (ATensor UINT8 true)] /\
  promote_builder ex_add [ATensor UINT8 false; ALit lit1] = OK [OKeep (ATensor UINT8 false); OCastLike lit1 INT64 UINT8].
Proof. repeat split; vm_compute; reflexivity. Qed.

Example ex_variadic_tail : schema_okb ex_concat = true /\
  promote_builder ex_concat [ATensor FLOAT true; ATensor FLOAT true; ALit lit1] =
    OK [OKeep (ATensor FLOAT true); OKeep (ATensor FLOAT true); OConst lit1 FLOAT].
Proof. split; vm_compute; reflexivity. Qed.

Example ex_optional_none : schema_okb ex_clip = true /\
  promote_eager ex_clip [ATensor DOUBLE true; ANone; ALit lit1] =
    OK [OKeep (ATensor DOUBLE true); OKeep ANone; OConst lit1 DOUBLE].
Proof. split; vm_compute; reflexivity. Qed.

Example ex_uniform : exists slots, annotate ex_add [ATensor UINT8 true; ALit lit1] = OK slots /\ uniform slots.
Proof.
  eexists; split; [vm_compute; reflexivity|].
  intros s1 s2 k d1 d2 k1 k2 H1 H2 _ _ T1 T2.
  simpl in H1, H2. destruct H1 as [H1|[H1|[]]], H2 as [H2|[H2|[]]]; subst; simpl in *; congruence.
Qed.

Example ex_cache_history : exists c t,
  get_or_create key_eq_signed
    (run_cache key_eq_signed [] [(LScalar (SFloat false 0 0), Some FLOAT); (LScalar (SInt 1), None)])
    (LScalar (SFloat true 0 0)) (Some FLOAT) = OK (c, t) /\ t_vals t = [VF true 0 0].
Proof. eexists; eexists; split; vm_compute; reflexivity. Qed.

(* all hypotheses of the three front-end theorems and of frontends_agree at once, on a variadic call
   with the literal in the middle of the tail and a sibling of statically unknown type after it *)
Definition ex_args := [ATensor FLOAT true; ALit lit1; ATensor FLOAT false].
Definition ex_slots : list slot := match annotate ex_concat ex_args with OK sl => sl | Err _ => [] end.
Example ex_all_hypotheses :
  let p := snd (nth 1 ex_slots (ANone, mkP None None None)) in
  schema_okb ex_concat = true /\ annotate ex_concat ex_args = OK ex_slots /\
  ex_slots = (firstn 1 ex_slots ++ (ALit lit1, p) :: skipn 2 ex_slots)%list /\
  firstn 1 ex_slots <> [] /\ skipn 2 ex_slots <> [] /\
  (exists o1 o2 o3, promote_static ex_concat ex_args = OK o1 /\ promote_eager ex_concat ex_args = OK o2 /\
                    promote_builder ex_concat ex_args = OK o3 /\ nth_error o3 1 = Some (OConst lit1 FLOAT)) /\
  uniform ex_slots.
Proof.
  cbv zeta. repeat split; try (vm_compute; reflexivity); try (vm_compute; discriminate).
  - do 3 eexists; repeat split; vm_compute; reflexivity.
  - intros s1 s2 k d1 d2 k1 k2 H1 H2 _ _ T1 T2. vm_compute in H1, H2.
    destruct H1 as [H1|[H1|[H1|[]]]], H2 as [H2|[H2|[H2|[]]]]; subst; simpl in *; congruence.
Qed.

Example ex_cast_paths_fixed : lit_homog (LScalar (SInt (-3))) /\
  np_cast_v true (LScalar (SInt (-3))) UINT8 = OK [VI 253%Z] /\
  cast_like (LScalar (SInt (-3))) INT64 UINT8 = OK [VI 253%Z].
Proof. split; [|split; vm_compute; reflexivity]. intros s [H|[]]; subst; reflexivity. Qed.

Example ex_plain : plainb (LList (SInt 1) [SInt 2]) = true /\ plainb nested_half = false /\ plainb mixed_1_2h = false.
Proof. repeat split; vm_compute; reflexivity. Qed.

Example ex_cast_paths : lit_homog (LScalar (SFloat false 5 1)) /\
  np_cast (LScalar (SFloat false 5 1)) INT64 = OK [VI 2%Z] /\
  cast_like (LScalar (SFloat false 5 1)) FLOAT INT64 = OK [VI 2%Z].
Proof.
  split; [|split; vm_compute; reflexivity].
  intros s [H|[]]; subst; reflexivity.
Qed.
