(* C19 proofs: com.microsoft.Attention on the packed weight / bias = MultiHeadAttention on the three projections. *)
From Coq Require Import List Arith Lia ZArith Bool.
Require Import OV.Fusion.Field OV.Fusion.Norm OV.Fusion.Attn OV.Fusion.AttnProofs OV.Fusion.Attention.
Import ListNotations.

Section Laws.
  Variable A : Type.
  Variable dot : list A -> list A -> A.
  Variable add : A -> A -> A.

  Lemma map2_firstn : forall n (a b : list A), firstn n (map2 add a b) = map2 add (firstn n a) (firstn n b).
  Proof. induction n; intros [|x a] [|y b]; simpl; auto. f_equal. apply IHn. Qed.
  Lemma map2_skipn : forall n (a b : list A), length a = length b -> skipn n (map2 add a b) = map2 add (skipn n a) (skipn n b).
  Proof. induction n; intros [|x a] [|y b] L; simpl in *; auto; try discriminate. Qed.
  Lemma map2_length : forall (a b : list A), length a = length b -> length (map2 add a b) = length a.
  Proof. induction a; intros [|y b] L; simpl in *; auto; try discriminate. Qed.

  (* one row: the packed projection + packed bias, split at the hidden sizes, is the three projections + their bias slices *)
  Lemma packed_row : forall (row : list A) (Wq Wk Wv : list (list A)) (bias : list A),
    length bias = length Wq + length Wk + length Wv ->
    let P := map2 add (map (dot row) (Wq ++ Wk ++ Wv)) bias in
    firstn (length Wq) P = map2 add (map (dot row) Wq) (firstn (length Wq) bias)
    /\ firstn (length Wk) (skipn (length Wq) P) = map2 add (map (dot row) Wk) (firstn (length Wk) (skipn (length Wq) bias))
    /\ firstn (length Wv) (skipn (length Wq + length Wk) P) = map2 add (map (dot row) Wv) (skipn (length Wq + length Wk) bias).
  Proof.
    intros row Wq Wk Wv bias L P.
    destruct (attention_packed_projection A A dot row Wq Wk Wv) as (Pq & Pk & Pv).
    assert (LM : length (map (dot row) (Wq ++ Wk ++ Wv)) = length bias) by (rewrite map_length, !app_length; lia).
    unfold P. repeat split.
    - rewrite map2_firstn. f_equal. exact Pq.
    - rewrite map2_skipn by exact LM. rewrite map2_firstn. f_equal. exact Pk.
    - rewrite map2_skipn by exact LM. rewrite Pv.
      rewrite firstn_all2; [reflexivity|]. rewrite map2_length; rewrite map_length; [lia|]. rewrite skipn_length. lia.
  Qed.
End Laws.

(* THE IDENTITY: for every token row list (every B, S, hidden size), every weights (every Dq, Dk, Dv), every [core] (every
   num_heads, mask, scale, softmax), every [dot] / [add]: Attention(input, Concat(Wq,Wk,Wv), bias; qkv_hidden_sizes)
   = MultiHeadAttention(input Wq, input Wk, input Wv, bias).  The only hypothesis is MultiHeadAttention's own operand
   constraint: the bias has Dq + Dk + Dv elements. *)
Theorem attention_fusion_identity : forall (A Out : Type) (dot : list A -> list A -> A) (add : A -> A -> A)
  (core : list (list A) -> list (list A) -> list (list A) -> Out) rows Wq Wk Wv bias,
  length bias = length Wq + length Wk + length Wv ->
  att_fused A dot add Out core rows (Wq ++ Wk ++ Wv) bias (length Wq) (length Wk) (length Wv)
  = att_pattern A dot add Out core rows Wq Wk Wv bias.
Proof.
  intros A Out dot add core rows Wq Wk Wv bias L. unfold att_fused, att_pattern, mha_with_bias, project, matmul.
  rewrite !map_map. f_equal; apply map_ext; intro row;
    destruct (packed_row A dot add row Wq Wk Wv bias L) as (Eq & Ek & Ev); assumption.
Qed.
Theorem attention_fusion_identity_past : forall (A Out : Type) (dot : list A -> list A -> A) (add : A -> A -> A)
  (core_past : list (list A) -> list (list A) -> list (list A) -> list A -> list A -> Out * list A * list A) rows Wq Wk Wv bias past,
  length bias = length Wq + length Wk + length Wv ->
  att_fused_past A dot add Out core_past rows (Wq ++ Wk ++ Wv) bias past (length Wq) (length Wk) (length Wv)
  = att_pattern_past A dot add Out core_past rows Wq Wk Wv bias past.
Proof.
  intros A Out dot add core_past rows Wq Wk Wv bias past L. unfold att_fused_past, att_pattern_past, project, matmul.
  rewrite !map_map.
  assert (E1 : map (fun x => firstn (length Wq) (map2 add (map (dot x) (Wq ++ Wk ++ Wv)) bias)) rows
               = map (fun x => map2 add (map (dot x) Wq) (firstn (length Wq) bias)) rows)
    by (apply map_ext; intro row; destruct (packed_row A dot add row Wq Wk Wv bias L) as (Eq & Ek & Ev); assumption).
  assert (E2 : map (fun x => firstn (length Wk) (skipn (length Wq) (map2 add (map (dot x) (Wq ++ Wk ++ Wv)) bias))) rows
               = map (fun x => map2 add (map (dot x) Wk) (firstn (length Wk) (skipn (length Wq) bias))) rows)
    by (apply map_ext; intro row; destruct (packed_row A dot add row Wq Wk Wv bias L) as (Eq & Ek & Ev); assumption).
  assert (E3 : map (fun x => firstn (length Wv) (skipn (length Wq + length Wk) (map2 add (map (dot x) (Wq ++ Wk ++ Wv)) bias))) rows
               = map (fun x => map2 add (map (dot x) Wv) (skipn (length Wq + length Wk) bias)) rows)
    by (apply map_ext; intro row; destruct (packed_row A dot add row Wq Wk Wv bias L) as (Eq & Ek & Ev); assumption).
  rewrite E1, E2, E3. reflexivity.
Qed.
(* the packed-MatMul + Slice variant: Attention(input, qkv_weight, bias; qkv_hidden_sizes = [dq, dk, dv]) = MultiHeadAttention on
   the three slices of MatMul(input, qkv_weight), when the slices tile the projection (dq + dk + dv = hidden = number of weight
   columns) and the bias has hidden elements (MultiHeadAttention's own operand constraint) *)
Theorem attention_fusion_identity_slice : forall (A Out : Type) (dot : list A -> list A -> A) (add : A -> A -> A)
  (core : list (list A) -> list (list A) -> list (list A) -> Out) rows W bias dq dk dv,
  length bias = length W -> dq + dk + dv = length W ->
  att_fused A dot add Out core rows W bias dq dk dv = att_pattern_slice A dot add Out core rows W bias dq dk.
Proof.
  intros A Out dot add core rows W bias dq dk dv LB LS. unfold att_fused, att_pattern_slice, mha_with_bias, project, matmul.
  rewrite !map_map.
  assert (LR : forall row : list A, length (map (dot row) W) = length bias) by (intro; rewrite map_length; auto).
  f_equal; apply map_ext; intro row.
  - apply map2_firstn.
  - rewrite (map2_skipn A add dq _ _ (LR row)). apply map2_firstn.
  - rewrite (map2_skipn A add (dq + dk) _ _ (LR row)). apply firstn_all2.
    rewrite map2_length; rewrite !skipn_length, ?map_length; lia.
Qed.
Example attention_slice_identity_computes :
  att_pattern_slice nat (fun r c => fold_right plus 0 (map2 mult r c)) plus (list (list nat)) (fun q k v => q ++ k ++ v)
            [[1; 2]; [3; 4]] [[1; 0]; [0; 1]; [1; 1]] [10; 20; 30] 1 1 = [[11]; [13]; [22]; [24]; [33]; [37]].
Proof. vm_compute. reflexivity. Qed.

(* instance: [core] = the documented MultiHeadAttention on the packed layout, any B, S, T, H, Dh, Dv, any per-head attention *)
Corollary attention_equals_mha : forall (A : Type) (d0 : A) (dot : list A -> list A -> A) (add : A -> A -> A)
  (attn : list (list A) -> list (list A) -> list (list A) -> option (list (list A)) -> list (list A))
  B S T H Dh Dv mask rows Wq Wk Wv bias,
  length bias = length Wq + length Wk + length Wv ->
  let core := fun q k v => mha_spec A d0 attn B S T H Dh Dv (concat q) (concat k) (concat v) mask in
  att_fused A dot add (list A) core rows (Wq ++ Wk ++ Wv) bias (length Wq) (length Wk) (length Wv)
  = att_pattern A dot add (list A) core rows Wq Wk Wv bias.
Proof. intros. apply attention_fusion_identity. assumption. Qed.
Example attention_identity_computes :
  att_fused nat (fun r c => fold_right plus 0 (map2 mult r c)) plus (list (list nat)) (fun q k v => q ++ k ++ v)
            [[1; 2]; [3; 4]] ([[1; 0]] ++ [[0; 1]] ++ [[1; 1]]) [10; 20; 30] 1 1 1 = [[11]; [13]; [22]; [24]; [33]; [37]].
Proof. vm_compute. reflexivity. Qed.

(* check()-sufficiency (no_slice rules): an accepted match has input [B,S,D] and weights [D,Dq], [D,Dk], [D,Dv] with ONE D and
   static Dq, Dk, Dv, which are exactly the qkv_hidden_sizes the rewrite emits: the column counts of the identity *)
Theorem att_check_sufficient_noslice : forall i dq dk dv, ai_no_slice i = true -> att_check_rewrite i = Some (dq, dk, dv) ->
  exists b s d, ai_input i = Some [b; s; d] /\ ai_q i = Some [d; dq] /\ ai_k i = Some [d; dk] /\ ai_v i = Some [d; dv]
    /\ (0 <= dq /\ 0 <= dk /\ 0 <= dv)%Z.
Proof.
  intros i dq dk dv NS H. pose proof (att_check_sound _ _ _ _ H) as St. unfold att_check_rewrite in H. rewrite NS in H.
  destruct (ai_input i) as [[|b [|s [|d [|? ?]]]]|]; simpl in H; try discriminate.
  destruct (ai_q i) as [[|q0 [|q1 [|? ?]]]|]; simpl in H; try discriminate; split_eqb H.
  all: destruct (ai_k i) as [[|k0 [|k1 [|? ?]]]|]; simpl in H; try discriminate; split_eqb H.
  all: destruct (ai_v i) as [[|v0 [|v1 [|? ?]]]|]; simpl in H; try discriminate; split_eqb H.
  all: eqb_subst.
  all: match type of H with (if ?c then _ else _) = _ => destruct c; [|discriminate] end.
  all: inversion H; subst; exists b, s, d; repeat split; auto; apply St.
Qed.

(* check()-sufficiency (packed + Slice rules): the slices start at 0, are contiguous and reach the end of the projection, the
   weight is [D, Dh] with the input's D and Dh = Dq + Dk + Dv static: the slices tile the projection, the hypothesis
   dq + dk + dv = hidden of the identity *)
Theorem att_check_sufficient_slice : forall i dq dk dv, ai_no_slice i = false -> att_check_rewrite i = Some (dq, dk, dv) ->
  exists b s d p0 p1 hidden s1 e1 s2 e2 s3 e3,
    ai_input i = Some [b; s; d] /\ ai_qkv_weight i = Some [d; dq + dk + dv]%Z
    /\ ai_projected i = Some [p0; p1; hidden] /\ (0 <= hidden)%Z
    /\ ai_bounds i = [s1; e1; s2; e2; s3; Some e3] /\ s1 = Some 0%Z /\ oz_eq e1 s2 = true /\ oz_eq e2 s3 = true /\ (hidden <= e3)%Z
    /\ ai_q i = Some [b; s; dq] /\ ai_k i = Some [b; s; dk] /\ ai_v i = Some [b; s; dv]
    /\ (0 <= dq /\ 0 <= dk /\ 0 <= dv)%Z.
Proof.
  intros i dq dk dv NS H. pose proof (att_check_sound _ _ _ _ H) as St. unfold att_check_rewrite in H. rewrite NS in H.
  destruct (ai_projected i) as [[|p0 [|p1 [|hidden [|? ?]]]]|];
    destruct (ai_bounds i) as [|s1 [|e1 [|s2 [|e2 [|s3 [|e3 [|? ?]]]]]]]; try discriminate.
  match type of H with context [if ?c then _ else None] => destruct c eqn:C end.
  2:{ simpl in H. discriminate. }
  apply andb_prop in C. destruct C as [C Ce3]. apply andb_prop in C. destruct C as [C C23].
  apply andb_prop in C. destruct C as [C C12]. apply andb_prop in C. destruct C as [C C0].
  destruct e3 as [e3|]; [|discriminate].
  destruct s1 as [s1|]; [|discriminate]. simpl in C0. apply Z.eqb_eq in C0. subst s1.
  unfold is_static in C. apply Z.leb_le in C. apply Z.leb_le in Ce3.
  destruct (ai_input i) as [[|b [|s [|d [|? ?]]]]|]; simpl in H; try discriminate.
  destruct (ai_qkv_weight i) as [[|w0 [|w1 [|? ?]]]|]; simpl in H; try discriminate; split_eqb H.
  all: destruct (ai_q i) as [[|q0 [|q1 [|q2 [|? ?]]]]|]; simpl in H; try discriminate; split_eqb H.
  all: destruct (ai_k i) as [[|k0 [|k1 [|k2 [|? ?]]]]|]; simpl in H; try discriminate; split_eqb H.
  all: destruct (ai_v i) as [[|v0 [|v1 [|v2 [|? ?]]]]|]; simpl in H; try discriminate; split_eqb H.
  all: eqb_subst.
  all: match type of H with (if ?c then _ else _) = _ => destruct c eqn:CC; [|discriminate] end.
  all: inversion H; subst; repeat (apply andb_prop in CC; destruct CC as [CC ?]).
  all: repeat match goal with X : (_ && _) = true |- _ => apply andb_prop in X; destruct X end.
  all: try match goal with E : (_ =? _)%Z = true |- _ => apply Z.eqb_eq in E; subst end.
  all: try discriminate.
  all: exists b, s, d, p0, p1, hidden, (Some 0%Z), e1, s2, e2, s3, e3; repeat split; auto; apply St.
Qed.
