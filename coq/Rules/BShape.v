(* Multidirectional (NumPy) broadcasting of shapes, used by the C05 rule models (NoOp, MinMax, Expand).
   Shapes are lists of dims (Z, outermost first).  No proofs in this file. *)
From Coq Require Import ZArith List Bool.
Import ListNotations.
Local Open Scope Z_scope.

Definition bdim (a b : Z) : option Z :=
  if a =? b then Some a else if a =? 1 then Some b else if b =? 1 then Some a else None.

(* on reversed shapes (innermost dim first): missing leading dims count as 1 *)
Fixpoint brev (a b : list Z) : option (list Z) :=
  match a, b with
  | [], _ => Some b
  | _, [] => Some a
  | x :: a', y :: b' =>
      match bdim x y, brev a' b' with
      | Some d, Some r => Some (d :: r)
      | _, _ => None
      end
  end.

Definition bcast (a b : list Z) : option (list Z) := option_map (@rev Z) (brev (rev a) (rev b)).

(* result shape of a variadic elementwise op: fold over the operand shapes *)
Fixpoint bcast_all (x : list Z) (cs : list (list Z)) : option (list Z) :=
  match cs with
  | [] => Some x
  | c :: t => match bcast x c with Some r => bcast_all r t | None => None end
  end.

Definition size (sh : list Z) : Z := fold_right Z.mul 1 sh.
Definition all_ones (sh : list Z) : bool := forallb (Z.eqb 1) sh.
Definition nonneg (sh : list Z) : bool := forallb (Z.leb 0) sh.
Definition shape_eqb (a b : list Z) : bool :=
  (Nat.eqb (length a) (length b)) && forallb (fun p => Z.eqb (fst p) (snd p)) (combine a b).
