"""Decision-trace correspondence for FoldConstantsPass (C03 / C04).

observe(model_proto, limits) runs the real pass (onnx_shape_inference=False) on a deserialized copy with
`FoldConstantsPass.process_node` and the reference evaluator wrapped (module-level patching inside the harness
process, undone afterwards) and with the final NameFixPass disabled, and returns Coq text defining

    the initial state (which values are constants / have which declared element type and shape / are graph inputs,
    outputs, initializers), the table of reference-evaluator calls, the observed per-node decisions and the
    graph the pass produced,

so that `OV.Opt.FoldInst.verdict` can replay Opt/Fold.v on the same input inside Coq and compare.
"""
from __future__ import annotations

import hashlib

import numpy as np
import onnx

from harness import graphlit
from harness.common import cbool, clist, cnat, copt, cstr, cz


class Unmodelled(Exception):
    """The case uses something the Gallina model does not describe (strings, sparse tensors ...)."""


class _Names:
    """Names of ir.Value objects: their own name, a harness-assigned "%k" for values created by TapeBuilder without a
    name, and name~dup for the old holder of a name taken over by an output replacement."""

    def __init__(self):
        self.side = {}
        self.k = 0
        self.keep = {}

    def assign(self, v):
        if v.name is None and id(v) not in self.side:
            self.side[id(v)] = f"%{self.k}"
            self.keep[id(v)] = v
            self.k += 1

    def of(self, v):
        if v is None:
            return None
        if id(v) in self.side:          # also when the graph's name authority named it (val_k) on insertion
            return self.side[id(v)]
        if v.name is not None:
            return v.name
        return "?unnamed"


class _Tensors:
    def __init__(self):
        self.ids = {}

    def cval(self, t, tensor=True):
        """Coq `cval` literal of an ir tensor."""
        import onnx_ir as ir
        try:
            arr = t.numpy()
        except Exception as e:  # external data etc.
            raise Unmodelled(f"tensor without numpy value: {e!r}")
        if arr.dtype.kind in "OUS":
            raise Unmodelled("string tensor")
        dt = int(t.dtype.value)
        raw = np.ascontiguousarray(arr).tobytes()
        key = (dt, tuple(arr.shape), hashlib.sha1(raw).hexdigest())
        cid = self.ids.setdefault(key, len(self.ids) + 1)
        ints = None
        if arr.dtype.kind in "iub" and arr.size <= 64:
            ints = [int(x) for x in arr.reshape(-1)]
        zero = bool(arr.size == 1 and arr.reshape(-1)[0] == 0)
        ap = onnx.AttributeProto()
        ap.name = "value"
        ap.type = onnx.AttributeProto.TENSOR
        ap.t.CopyFrom(ir.serde.serialize_tensor(t))
        _, alit = graphlit.attr_lit(ap)
        self.last_attr = alit
        return (f"(mkCval {cz(cid)} {cz(dt)} {clist(arr.shape, cz)} {copt(ints, lambda l: clist(l, cz))} "
                f"{cbool(zero)} {cbool(tensor)} {alit})")

    def seq(self):
        return f"(mkCval 0%Z 0%Z [] None false false (AOther {cstr('sequence')}))"


def _attr_lits(node, names, printer):
    """(attrs literal list, subs literal list) of an ir.Node."""
    import onnx_ir as ir
    attrs, subs = [], []
    for name, a in node.attributes.items():
        if a.type == ir.AttributeType.GRAPH and not a.is_ref():
            subs.append(f"({cstr(name)}, {printer(a.as_graph())})")
        elif a.type == ir.AttributeType.GRAPHS and not a.is_ref():
            for i, g in enumerate(a.as_graphs()):
                subs.append(f"({cstr(name + '#' + str(i))}, {printer(g)})")
        elif a.is_ref():
            attrs.append(f"({cstr(name)}, (ARef {cstr(a.ref_attr_name)}))")
        else:
            ap = ir.serde.serialize_attribute(a)
            _, txt = graphlit.attr_lit(ap)
            attrs.append(f"({cstr(name)}, {txt})")
    return attrs, subs


def _only_attrs(node):
    import onnx_ir as ir
    res = []
    for name, a in node.attributes.items():
        if a.is_ref():
            res.append(f"({cstr(name)}, (ARef {cstr(a.ref_attr_name)}))")
            continue
        if a.type in (ir.AttributeType.GRAPH, ir.AttributeType.GRAPHS):
            continue
        _, txt = graphlit.attr_lit(ir.serde.serialize_attribute(a))
        res.append(f"({cstr(name)}, {txt})")
    return clist(res)


class _Printer:
    def __init__(self, names, final=False):
        self.names = names
        self.dup = {}

    def resolve_duplicates(self, model):
        """Two value objects with one name (after an output replacement): the graph output keeps it."""
        by_name = {}
        for v in _all_values(model):
            if v.name is not None:
                by_name.setdefault(v.name, [])
                if all(v is not w for w in by_name[v.name]):
                    by_name[v.name].append(v)
        for name, vs in by_name.items():
            if len(vs) > 1:
                if not any(v.is_graph_output() for v in vs):
                    # not the renaming of a replaced graph output: the pass itself created two values with one name
                    raise Unmodelled("duplicate value names created by the pass")
                keep = [v for v in vs if v.is_graph_output()] or vs[:1]
                for v in vs:
                    if v is not keep[0]:
                        self.dup[id(v)] = name + "~dup"

    def name(self, v):
        if v is None:
            return None
        if id(v) in self.dup:
            return self.dup[id(v)]
        return self.names.of(v)

    def node(self, n):
        ins = clist(list(n.inputs), lambda v: "None" if v is None else f"(Some {cstr(self.name(v))})")
        outs = clist([self.name(o) for o in n.outputs], cstr)
        attrs, subs = _attr_lits(n, self.names, self.graph)
        dom = "" if n.domain == "ai.onnx" else n.domain
        return f"(Node {cstr(dom)} {cstr(n.op_type)} {ins} {outs} {clist(attrs)} {clist(subs)})"

    def graph(self, g):
        ins = clist([self.name(v) for v in g.inputs], cstr)
        inits = clist([self.name(v) for v in g.initializers.values()], cstr)
        nodes = clist([self.node(n) for n in g])
        outs = clist([self.name(v) for v in g.outputs], cstr)
        return f"(Graph {ins} {inits} {nodes} {outs})"

    def function(self, f):
        ins = clist([self.name(v) for v in f.inputs], cstr)
        nodes = clist([self.node(n) for n in f])
        outs = clist([self.name(v) for v in f.outputs], cstr)
        return f"(Graph {ins} [] {nodes} {outs})"


def _graphs_deep(g):
    import onnx_ir as ir
    yield g
    for n in g:
        for a in n.attributes.values():
            if a.is_ref():
                continue
            if a.type == ir.AttributeType.GRAPH:
                yield from _graphs_deep(a.as_graph())
            elif a.type == ir.AttributeType.GRAPHS:
                for sg in a.as_graphs():
                    yield from _graphs_deep(sg)


def _all_values(model):
    for g in _graphs_deep(model.graph):
        yield from g.inputs
        yield from g.initializers.values()
        for n in g:
            yield from n.outputs
        yield from g.outputs
    for f in model.functions.values():
        yield from f.inputs
        for n in f:
            yield from n.outputs
            for a in n.attributes.values():
                pass


def _dim_lit(d):
    import onnx_ir as ir
    if isinstance(d, int):
        return f"(DInt {cz(d)})"
    if isinstance(d, ir.SymbolicDim):
        return "DUnk" if d.value is None else f"(DSym {cstr(str(d.value))})"
    return "DUnk"


def count_nodes(model):
    n = 0
    for g in _graphs_deep(model.graph):
        n += len(g)
    for f in model.functions.values():
        n += len(f)
    return n


def observe(model_proto, in_limit=8192, out_limit=512 * 512):
    """Returns (coq_text_defining_one_case, info) ; raises Unmodelled."""
    import onnx_ir as ir
    import onnxscript.optimizer._constant_folding as cf

    for f in model_proto.functions:
        pass
    mp = onnx.ModelProto()
    mp.CopyFrom(model_proto)       # the pass renames initializers through the tensors shared with the proto
    mi = ir.serde.deserialize_model(mp)
    names = _Names()
    tens = _Tensors()
    # functions whose bodies contain subgraphs with functions inside are fine; nothing special
    # ---- initial facts
    consts, dtypes, shapes, ginputs, goutputs, inits = [], [], [], [], [], []
    seen = set()

    def fact(v):
        if v is None or id(v) in seen or v.name is None:
            return
        seen.add(id(v))
        if v.const_value is not None:
            consts.append(f"({cstr(v.name)}, {tens.cval(v.const_value)})")
        if v.type is not None:
            try:
                dtypes.append(f"({cstr(v.name)}, {cz(int(v.type.dtype.value))})")
            except Exception:
                pass
        if v.shape is not None:
            shapes.append(f"({cstr(v.name)}, {clist(list(v.shape), _dim_lit)})")
        if v.is_graph_input():
            ginputs.append(v.name)
        if v.is_graph_output():
            goutputs.append(v.name)
        if v.is_initializer():
            inits.append(v.name)

    all_names = []
    for v in _all_values(mi):
        fact(v)
        if v.name is not None:
            all_names.append(v.name)
    for g in _graphs_deep(mi.graph):
        for n in g:
            for v in n.inputs:
                fact(v)
    # the name-keyed model needs unique value names across the whole model
    defs = []
    for g in _graphs_deep(mi.graph):
        defs += [v.name for v in g.inputs] + [v.name for v in g.initializers.values() if not v.is_graph_input()]
        for n in g:
            defs += [o.name for o in n.outputs]
    for f in mi.functions.values():
        defs += [v.name for v in f.inputs]
        for n in f:
            defs += [o.name for o in n.outputs]
    if len(defs) != len(set(defs)) or any(d is None or d.startswith("%") or d.endswith("~dup") for d in defs):
        raise Unmodelled("value names not unique across graphs / functions")
    # Constant nodes: the tensor their attribute denotes (computed by the real helper on the node, then undone)
    const_table = []
    for g in list(_graphs_deep(mi.graph)) + list(mi.functions.values()):
        for n in g:
            if n.op_type == "Constant" and n.domain in ("", "ai.onnx") and len(n.outputs) == 1:
                o = n.outputs[0]
                old = (o.const_value, o.shape, o.type)
                cf._process_constant_node(n)
                if o.const_value is not None and old[0] is None:
                    const_table.append(f"({_only_attrs(n)}, {tens.cval(o.const_value)})")
                o.const_value = old[0]
                o.shape = old[1]
                o.type = old[2]
    p0 = _Printer(names)
    g0 = p0.graph(mi.graph)
    funs0 = [p0.function(f) for f in mi.functions.values()]
    n_nodes = count_nodes(mi)
    opsets = clist([f"({cstr(d)}, {cz(v)})" for d, v in mi.opset_imports.items()])

    # ---- run the real pass with the wrappers
    trace, evals = [], []
    raised = [False]
    cur = [None]
    orig_pn = cf.FoldConstantsPass.process_node
    orig_eval = cf._reference_evaluator.evaluate
    orig_namefix = cf.ir_passes_common.NameFixPass

    def wrapped_pn(self, node, is_function):
        nsub = sum(1 for v in node.inputs if v is not None and isinstance(self._state.get_sym_value(v), ir.Value))
        op, nid = node.op_type, names.of(node.outputs[0]) if node.outputs else ""
        cur[0] = node
        try:
            r = orig_pn(self, node, is_function)
        except RuntimeError:
            raised[0] = True
            raise
        finally:
            cur[0] = None
        if r is None:
            trace.append((0, op, nid, nsub, []))
            return r
        new_nodes = list(r.new_nodes)
        finals = {id(v) for v in r.new_outputs if v is not None}
        for old, new in zip(node.outputs, r.new_outputs):
            if new is not None and id(old) in names.side:      # the new value takes over the (harness) name of the old one
                names.side[id(new)] = names.side[id(old)]
                names.keep[id(new)] = new
        for nn in new_nodes:
            for o in nn.outputs:
                if id(o) not in finals:
                    names.assign(o)
        if not new_nodes:
            kind = 1
        elif op == "If" and node.domain in ("", "ai.onnx"):
            kind = 3
        else:
            kind = 2
        trace.append((kind, op, nid, nsub, [x.op_type for x in new_nodes]))
        return r

    def wrapped_eval(domain, op, version, *args, **kwargs):
        out = orig_eval(domain, op, version, *args, **kwargs)
        node = cur[0]
        if node is not None:
            ins = clist([("None" if v is None else f"(Some {tens.cval(v.const_value)})") for v in node.inputs])
            if out is None:
                res = "None"
            elif isinstance(out, (list, tuple)):
                res = f"(Some [{tens.seq()}])"
            elif isinstance(out, np.ndarray):
                if out.dtype.kind in "OUS":
                    raise Unmodelled("string result")
                cv = tens.cval(ir.tensor(out))
                res = f"(Some [{cv}])"
                const_table.append(f"([({cstr('value')}, {tens.last_attr})], {cv})")
            else:
                res = f"(Some [{tens.seq()}])"
            dom = "" if node.domain == "ai.onnx" else node.domain
            evals.append(f"({cstr(dom)}, {cstr(node.op_type)}, {_only_attrs(node)}, {ins}, {res})")
        return out

    class _NoNameFix:
        def __call__(self, model):
            return ir.passes.PassResult(model, False)

    cf.FoldConstantsPass.process_node = wrapped_pn
    cf._reference_evaluator.evaluate = wrapped_eval
    cf.ir_passes_common.NameFixPass = _NoNameFix
    err = None
    try:
        cf.fold_constants(mi, onnx_shape_inference=False, input_size_limit=in_limit, output_size_limit=out_limit)
    except Unmodelled:
        raise
    except Exception as e:  # RuntimeError from an evaluator (recorded) or anything else
        err = e
        if not raised[0]:
            raise
    finally:
        cf.FoldConstantsPass.process_node = orig_pn
        cf._reference_evaluator.evaluate = orig_eval
        cf.ir_passes_common.NameFixPass = orig_namefix
    p1 = _Printer(names)
    if err is None:
        p1.resolve_duplicates(mi)
        g1 = p1.graph(mi.graph)
        funs1 = [p1.function(f) for f in mi.functions.values()]
    else:
        g1, funs1 = "(Graph [] [] [] [])", []
    fuel = min(4000, 6 * n_nodes + 60)
    obs = clist([f"({cz(k)}, {cstr(op)}, {cstr(nid)}, {cnat(ns)}, {clist(ops, cstr)})" for k, op, nid, ns, ops in trace])
    cfg = (f"(mkConfig {opsets} {cz(in_limit)} {cz(out_limit)} [] {clist(sorted(set(ginputs)), cstr)} "
           f"{clist(sorted(set(goutputs)), cstr)})")
    defs_txt = {
        "et": f"({clist(evals)} : eval_table)",
        "ct": f"({clist(const_table)} : const_table)",
        "cfg": cfg,
        "g": g0,
        "funs": clist(funs0),
        "st": (f"(mkState cval {clist(consts)} [] {clist(dtypes)} {clist(shapes)} (inst_uses G FUNS) 0%nat "
               f"{clist(sorted(set(inits)), cstr)} "
               f"(if numpy_value_guards_graph_inputs then {clist(sorted(set(ginputs)), cstr)} else []))"),
        "fuel": cnat(fuel),
        "depth": cnat(8),
        "raised": cbool(err is not None),
        "obs": obs,
        "og": g1,
        "ofuns": clist(funs1),
    }
    info = {"nodes": n_nodes, "visited": len(trace), "kinds": [k for k, *_ in trace], "raised": err is not None,
            "evals": len(evals)}
    return defs_txt, info


def case_text(i, d):
    t = f"Definition g_{i} : graph := {d['g']}.\nDefinition funs_{i} : list graph := {d['funs']}.\n"
    st = d["st"].replace("inst_uses G FUNS", f"inst_uses g_{i} funs_{i}")
    t += f"Definition v_{i} := verdict {d['et']} {d['ct']} {d['depth']} {d['fuel']} {d['cfg']} {st} g_{i} funs_{i} {d['raised']} {d['obs']} {d['og']} {d['ofuns']}.\n"
    return t


REQUIRES = ["OV.Graph.Syntax", "OV.Gen.FoldTables", "OV.Opt.Fold", "OV.Opt.FoldInst"]


def batch_text(cases):
    body = "".join(case_text(i, d) for i, d in enumerate(cases))
    body += "Eval vm_compute in " + clist([f"v_{i}" for i in range(len(cases))]) + ".\n"
    return body


def parse_verdicts(value):
    import re
    res = []
    for m in re.finditer(r"\((\d+)%Z,\s*(None|Some (\d+)(?:%nat)?)\)", value):
        res.append((int(m.group(1)), None if m.group(2) == "None" else int(m.group(3))))
    return res
