From Coq Require Import ZArith List Bool Arith Lia.
Require Import OV.Rules.ScatterND.
Import ListNotations.

Lemma set_nth_app : forall (A : Type) (pre : list A) d ds u, set_nth (length pre) u (pre ++ d :: ds) = pre ++ u :: ds.
Proof. induction pre as [|x pre IH]; intros; cbn; [reflexivity|]. now rewrite IH. Qed.

Lemma nth_error_app_mid : forall (A : Type) (pre : list A) d ds, nth_error (pre ++ d :: ds) (length pre) = Some d.
Proof. induction pre as [|x pre IH]; intros; cbn; auto. Qed.

Lemma scatter_cons : forall (A : Type) (f : A -> A -> A) data i idx u upd,
  scatter f data (i :: idx) (u :: upd) =
  scatter f (match nth_error data i with Some old => set_nth i (f old u) data | None => data end) idx upd.
Proof. reflexivity. Qed.

Lemma scatter_prefix : forall (A : Type) (upd pre data : list A), length data = length upd ->
  scatter take_update (pre ++ data) (seq (length pre) (length upd)) upd = pre ++ upd.
Proof.
  induction upd as [|u upd IH]; intros pre data Hl.
  - destruct data; [reflexivity|discriminate].
  - destruct data as [|d data]; [discriminate|]. cbn [length seq]. rewrite scatter_cons.
    rewrite nth_error_app_mid. unfold take_update at 2. rewrite set_nth_app.
    replace (pre ++ u :: data) with ((pre ++ [u]) ++ data) by (rewrite <- app_assoc; reflexivity).
    replace (S (length pre)) with (length (pre ++ [u])) by (rewrite app_length; cbn; lia).
    rewrite IH by (cbn in Hl; lia). rewrite <- app_assoc. reflexivity.
Qed.

(* ScatterAllStatic: with indices [[0],..,[n-1]] and as many update rows as data rows, the result is `updates` *)
Theorem scatter_all_static_sound : forall (A : Type) (data upd : list A),
  length data = length upd -> scatter take_update data (seq 0 (length upd)) upd = upd.
Proof. intros A data upd H. apply (scatter_prefix A upd [] data H). Qed.

(* the pattern does not pin the `reduction` attribute: with reduction = "add" the result is data + updates *)
Theorem scatter_all_static_reduction_refuted : exists data upd : list Z,
  length data = length upd /\ scatter Z.add data (seq 0 (length upd)) upd <> upd.
Proof. exists [1; 1; 1]%Z, [0; 2; 4]%Z. split; [reflexivity|]. vm_compute. discriminate. Qed.

Example sa_example :
  sa_check (Some [St 3; St 2]) (Some [St 3; St 2]) (Some [[0]; [1]; [2]]%Z) = Fire /\
  sa_check (Some [St 3; St 2]) (Some [St 3; St 2]) (Some [[0]; [2]; [1]]%Z) = NoFire /\
  sa_check (Some [Sy 0; St 2]) (Some [Sy 0; St 2]) (Some [[0]]%Z) = Raises.
Proof. repeat split; reflexivity. Qed.
