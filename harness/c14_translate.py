"""C14 translators (python `ast`, fail-closed) -- see DESIGN.md 4.1 and section 5 (C14).

1. converter_sites(repo): every place in onnxscript/_internal/converter.py (and irbuilder.py) where a
   set-typed expression is turned into a sequence or iterated -> Gen/ConverterSites.v
2. rule_cfgs(repo): check()/rewrite() of every RewriteRuleClassBase subclass under rewriter/rules and
   rewriter/ort_fusions, and FoldConstantsPass.call, reduced to the mini language of
   coq/Determinism/MustDef.v -> Gen/RuleCfgs.v

Both return (text, info, problems); a non-empty `problems` list means the source has a shape the
translator does not recognise (the harness reports a broken translator tie).
"""
from __future__ import annotations

import ast
import os

from harness.common import cstr

# =============================================================================================
# 1. set -> sequence sites in the converter
# =============================================================================================

SET_METHODS = {"intersection", "union", "difference", "symmetric_difference", "copy"}
SET_CTORS = {"set", "frozenset"}
ORDER_FREE_CONSUMERS = {"len", "set", "frozenset", "min", "max", "bool", "isinstance", "sum"}
SEQ_MAKERS = {"list", "tuple", "enumerate", "iter", "zip", "reversed", "next", "map", "filter", "dict"}
NONEMIT_CALLS = {"_lookup", "_source_of", "_fail", "msg"}


def _analysis_set_functions(repo):
    """Names of functions/methods of _internal/analysis.py whose return annotation is a set; and all names."""
    path = os.path.join(repo, "onnxscript/_internal/analysis.py")
    tree = ast.parse(open(path).read())
    setf, allf = set(), set()
    for n in ast.walk(tree):
        if isinstance(n, ast.ClassDef):
            allf.add(n.name)
        if isinstance(n, ast.FunctionDef):
            allf.add(n.name)
            if n.returns is not None:
                ann = ast.unparse(n.returns)
                if "Set[" in ann or "set[" in ann or ann in ("set", "Set", "frozenset"):
                    setf.add(n.name)
    return setf, allf


class _SetSites:
    def __init__(self, relpath, tree, set_funcs, all_analysis_funcs):
        self.relpath = relpath
        self.tree = tree
        self.set_funcs = set_funcs
        self.all_funcs = all_analysis_funcs
        self.sites = []
        self.problems = []
        self.set_attrs = set()   # self.X annotated as set in the class

    def run(self):
        for cls in [n for n in ast.walk(self.tree) if isinstance(n, ast.ClassDef)]:
            for n in ast.walk(cls):
                if isinstance(n, ast.AnnAssign) and isinstance(n.target, ast.Attribute) and _is_self(n.target.value):
                    ann = ast.unparse(n.annotation)
                    if ann.startswith(("set", "Set", "frozenset", "AbstractSet", "MutableSet")):
                        self.set_attrs.add(n.target.attr)
        for fn in [n for n in ast.walk(self.tree) if isinstance(n, (ast.FunctionDef, ast.AsyncFunctionDef))]:
            self.scan_function(fn)
        return self.sites, self.problems

    # ---- which expressions are sets
    def is_set(self, e, setvars):
        if isinstance(e, ast.Name):
            return e.id in setvars
        if isinstance(e, ast.Attribute) and _is_self(e.value):
            return e.attr in self.set_attrs
        if isinstance(e, (ast.Set, ast.SetComp)):
            return True
        if isinstance(e, ast.BinOp) and isinstance(e.op, (ast.BitOr, ast.BitAnd, ast.Sub, ast.BitXor)):
            return self.is_set(e.left, setvars) or self.is_set(e.right, setvars)
        if isinstance(e, ast.IfExp):
            return self.is_set(e.body, setvars) or self.is_set(e.orelse, setvars)
        if isinstance(e, ast.NamedExpr):
            return self.is_set(e.value, setvars)
        if isinstance(e, ast.Call):
            f = e.func
            if isinstance(f, ast.Name) and f.id in SET_CTORS:
                return True
            if isinstance(f, ast.Attribute):
                if f.attr in SET_METHODS and self.is_set(f.value, setvars):
                    return True
                if self._is_analysis_call(f):
                    return f.attr in self.set_funcs
        return False

    def _escape_followed(self, call, arg):
        return False

    def _is_analysis_call(self, f):
        """self.analyzer.m(...), self._analyzer.m(...), analysis.m(...)"""
        v = f.value
        if isinstance(v, ast.Attribute) and _is_self(v.value) and v.attr in ("analyzer", "_analyzer"):
            return True
        if isinstance(v, ast.Name) and v.id == "analysis":
            return True
        return False

    def scan_function(self, fn):
        # nested functions are scanned on their own (ast.walk reaches them); here only this body
        setvars = set()
        for a in fn.args.args + fn.args.kwonlyargs:
            if a.annotation is not None:
                ann = ast.unparse(a.annotation)
                if ann.startswith(("set", "Set", "frozenset", "AbstractSet", "MutableSet")):
                    setvars.add(a.arg)
        own = list(_own_nodes(fn))
        changed = True
        while changed:  # flow-insensitive closure
            changed = False
            for n in own:
                tgt_val = []
                if isinstance(n, ast.Assign):
                    tgt_val = [(t, n.value) for t in n.targets]
                elif isinstance(n, ast.AnnAssign) and n.value is not None:
                    tgt_val = [(n.target, n.value)]
                elif isinstance(n, ast.AugAssign):
                    tgt_val = [(n.target, n.value)]
                elif isinstance(n, ast.NamedExpr):
                    tgt_val = [(n.target, n.value)]
                for t, v in tgt_val:
                    if isinstance(t, ast.Name) and t.id not in setvars and self.is_set(v, setvars):
                        setvars.add(t.id)
                        changed = True
        # unknown analyzer calls: fail closed
        for n in own:
            if isinstance(n, ast.Call) and isinstance(n.func, ast.Attribute) and self._is_analysis_call(n.func):
                if n.func.attr not in self.all_funcs:
                    self.problems.append(f"{self.relpath}:{n.lineno}: call to unknown analysis function {n.func.attr}")
        parents = {}
        for n in own:
            for c in ast.iter_child_nodes(n):
                parents[c] = n

        def add(node, kind, is_sorted, emits):
            self.sites.append({"file": self.relpath, "func": fn.name, "line": node.lineno, "kind": kind,
                               "sorted": bool(is_sorted), "emits": bool(emits), "expr": ast.unparse(node)[:80]})

        for n in own:
            # for x in S:
            if isinstance(n, (ast.For, ast.AsyncFor)) and self.is_set(n.iter, setvars):
                add(n.iter, "for", False, self._loop_emits(n.body))
            # comprehensions
            if isinstance(n, (ast.ListComp, ast.GeneratorExp, ast.DictComp, ast.SetComp)):
                for g in n.generators:
                    if self.is_set(g.iter, setvars):
                        if isinstance(n, ast.SetComp):
                            continue  # result is a set again
                        p = parents.get(n)
                        inside_anyall = isinstance(p, ast.Call) and isinstance(p.func, ast.Name) and p.func.id in ("any", "all", "set", "frozenset", "sum", "min", "max")
                        emits = not inside_anyall and self._comp_emits(n, parents)
                        add(g.iter, "comprehension", False, emits)
            if isinstance(n, ast.Starred) and self.is_set(n.value, setvars):
                add(n.value, "starred", False, True)
            if isinstance(n, ast.Call):
                f = n.func
                fname = f.id if isinstance(f, ast.Name) else None
                for a in list(n.args) + [k.value for k in n.keywords]:
                    if not self.is_set(a, setvars):
                        continue
                    if fname == "sorted":
                        add(a, "sorted", True, True)
                    elif fname in SEQ_MAKERS:
                        add(a, fname, False, True)
                    elif fname in ORDER_FREE_CONSUMERS or fname in ("any", "all"):
                        pass
                    elif isinstance(f, ast.Attribute) and f.attr in (SET_METHODS | {"update", "issubset", "issuperset", "isdisjoint", "intersection_update", "difference_update"}):
                        pass  # set algebra
                    elif isinstance(f, ast.Attribute) and f.attr == "join":
                        add(a, "join", False, True)
                    elif self._escape_followed(n, a):
                        pass
                    else:
                        self.problems.append(f"{self.relpath}:{n.lineno}: set-typed value escapes into call {ast.unparse(f)}(...) -- cannot tell whether it is iterated")
                if isinstance(f, ast.Attribute) and f.attr == "pop" and self.is_set(f.value, setvars):
                    add(n, "pop", False, True)
            if isinstance(n, ast.FormattedValue) and self.is_set(n.value, setvars):
                add(n.value, "format", False, not self._inside_message(n, parents))
            if isinstance(n, (ast.Return, ast.Yield)) and n.value is not None and self.is_set(n.value, setvars):
                # returning a set to a caller we do not see: only fine for the analysis helpers themselves
                self.problems.append(f"{self.relpath}:{n.lineno}: function {fn.name} returns a set-typed value")
            if isinstance(n, ast.Assign) and self.is_set(n.value, setvars):
                for t in n.targets:
                    if isinstance(t, (ast.Tuple, ast.List)):
                        add(n.value, "unpack", False, True)

    def _inside_message(self, n, parents):
        p = parents.get(n)
        while p is not None:
            if isinstance(p, ast.Raise):
                return True
            if isinstance(p, ast.Call) and isinstance(p.func, ast.Attribute) and p.func.attr in ("_fail", "msg", "debug", "info", "warning", "_message"):
                return True
            if isinstance(p, ast.Call) and isinstance(p.func, ast.Name) and p.func.id in ("warn", "fail"):
                return True
            p = parents.get(p)
        return False

    def _only_nonemit_calls(self, nodes):
        for x in nodes:
            for c in ast.walk(x):
                if isinstance(c, ast.Call):
                    f = c.func
                    if isinstance(f, ast.Attribute) and f.attr in NONEMIT_CALLS:
                        continue
                    return False
        return True

    def _loop_emits(self, body):
        """A `for` over a set is harmless only if its body does nothing order-sensitive: lookups,
        comparisons and failing the translation."""
        for s in body:
            for c in ast.walk(s):
                if isinstance(c, (ast.Assign, ast.AugAssign, ast.AnnAssign)):
                    tg = c.targets if isinstance(c, ast.Assign) else [c.target]
                    if not all(isinstance(t, ast.Name) for t in tg):
                        return True
                if isinstance(c, (ast.Return, ast.Yield, ast.Break)):
                    return True
        return not self._only_nonemit_calls(body)

    def _comp_emits(self, comp, parents):
        """[(v, self._lookup(v, ..)) for v in S] assigned to `<x>.outer_scope_variables` is consumed only by
        order-insensitive loops (checked by outer_scope_consumers_ok)."""
        elts = [comp.elt] if not isinstance(comp, ast.DictComp) else [comp.key, comp.value]
        if not self._only_nonemit_calls(elts):
            return True
        p = parents.get(comp)
        if isinstance(p, ast.Assign) and len(p.targets) == 1 and isinstance(p.targets[0], ast.Attribute) \
                and p.targets[0].attr == "outer_scope_variables":
            return False
        return True


def _is_self(e):
    return isinstance(e, ast.Name) and e.id == "self"


def _own_nodes(fn):
    """All nodes of fn's body that are not inside a nested function/lambda/class."""
    stack = list(fn.body)
    while stack:
        n = stack.pop()
        yield n
        for c in ast.iter_child_nodes(n):
            if isinstance(c, (ast.FunctionDef, ast.AsyncFunctionDef, ast.ClassDef)):
                continue
            stack.append(c)


def outer_scope_consumers_ok(repo):
    """Every read of `.outer_scope_variables` is the iterable of a `for` whose body only looks up / compares /
    fails / fills a dict.  Returns list of problems."""
    problems = []
    base = os.path.join(repo, "onnxscript")
    for d, _dirs, fs in os.walk(base):
        if os.sep + "rewriter" in d or os.sep + "function_libs" in d:
            continue
        for f in sorted(fs):
            if not f.endswith(".py") or f.endswith("_test.py"):
                continue
            p = os.path.join(d, f)
            src = open(p).read()
            if "outer_scope_variables" not in src:
                continue
            tree = ast.parse(src)
            parents = {}
            for n in ast.walk(tree):
                for c in ast.iter_child_nodes(n):
                    parents[c] = n
            for n in ast.walk(tree):
                if isinstance(n, ast.Attribute) and n.attr == "outer_scope_variables" and isinstance(n.ctx, ast.Load):
                    par = parents.get(n)
                    ok = False
                    if isinstance(par, ast.Call) and par.func is n:
                        continue  # the analysis method of the same name, not the attribute
                    if isinstance(par, ast.For) and par.iter is n:
                        ok = True
                        for s in par.body:
                            for c in ast.walk(s):
                                if isinstance(c, ast.Call):
                                    fn_ = c.func
                                    if not (isinstance(fn_, ast.Attribute) and fn_.attr in NONEMIT_CALLS):
                                        ok = False
                                if isinstance(c, (ast.Return, ast.Break, ast.Yield)):
                                    ok = False
                                if isinstance(c, ast.Assign):
                                    for t in c.targets:
                                        if not isinstance(t, (ast.Name, ast.Subscript)):
                                            ok = False
                    if not ok:
                        problems.append(f"{os.path.relpath(p, repo)}:{n.lineno}: outer_scope_variables consumed in an order-sensitive way")
    return problems


CONVERTER_FILES = ["onnxscript/_internal/converter.py", "onnxscript/_internal/irbuilder.py"]
MUST_HAVE_SITES = {"_translate_if_stmt", "_translate_loop_stmt"}


def converter_sites(repo):
    setf, allf = _analysis_set_functions(repo)
    sites, problems = [], []
    if not setf:
        problems.append("analysis.py: no set-returning function recognised")
    for rel in CONVERTER_FILES:
        path = os.path.join(repo, rel)
        tree = ast.parse(open(path).read())
        s, p = _SetSites(rel, tree, setf, allf).run()
        sites += s
        problems += p
    sites.sort(key=lambda s: (s["file"], s["line"], s["kind"], s["expr"]))
    funcs = {s["func"] for s in sites}
    for f in sorted(MUST_HAVE_SITES - funcs):
        problems.append(f"converter.py: no set->sequence site recognised in {f} (the interface of If/Loop nodes is built "
                        f"from sets there; the source has a shape this translator does not know)")
    if any(not s["emits"] for s in sites):
        problems += outer_scope_consumers_ok(repo)
    lines = ["(* generated by harness/c14_translate.py (converter_sites) from " + ", ".join(CONVERTER_FILES) + " -- do not edit *)",
             "From Coq Require Import List String.", "Require Import OV.Determinism.Perm.", "Import ListNotations.",
             "Local Open Scope string_scope.", "", "Definition sites : list site := ["]
    rows = []
    for s in sites:
        rows.append(f"  {{| s_func := {cstr(s['func'])}; s_line := {s['line']}; s_kind := {cstr(s['kind'])}; "
                    f"s_sorted := {'true' if s['sorted'] else 'false'}; s_emits := {'true' if s['emits'] else 'false'} |}}"
                    f"  (* {s['expr'].replace('*)', '* )')} *)")
    lines.append(";\n".join(rows))
    lines.append("].")
    return "\n".join(lines) + "\n", sites, problems


# =============================================================================================
# 2. check()/rewrite() -> MustDef mini language
# =============================================================================================

RULE_ROOTS = ["onnxscript/rewriter/rules", "onnxscript/rewriter/ort_fusions"]
BASE_FILES = ["onnxscript/rewriter/_rewrite_rule.py"]
PASS_FILE = "onnxscript/optimizer/_constant_folding.py"

MUTATORS = {"append", "extend", "add", "update", "clear", "pop", "popitem", "remove", "discard", "insert",
            "setdefault", "sort", "reverse", "fill", "resize", "put", "itemset", "appendleft", "popleft",
            "intersection_update", "difference_update", "__setitem__", "__delitem__"}


# ---------------------------------------------------------------------------------------------
# 1b. the same question for the other modules on the way from a model / a script to serialized bytes
#     (rewriter core, optimizer, version converter, values, builders, inliner).  These modules hand sets
#     to helpers, so the scan is not fail-closed there: a set-typed value whose use cannot be followed
#     is counted (`unresolved`), a set that is definitely iterated into something emitted and is not
#     wrapped in sorted(...) is a site that breaks the obligation.
# ---------------------------------------------------------------------------------------------

WIDE_FILES = [
    "onnxscript/rewriter/_rewrite_rule.py", "onnxscript/rewriter/_basics.py", "onnxscript/rewriter/_matcher.py",
    "onnxscript/rewriter/_pattern_ir.py", "onnxscript/rewriter/__init__.py", "onnxscript/rewriter/_ir_utils.py",
    "onnxscript/rewriter/_fusion_utils.py", "onnxscript/rewriter/_rewrite_rule.py",
    "onnxscript/optimizer/_constant_folding.py", "onnxscript/optimizer/_optimizer.py", "onnxscript/optimizer/__init__.py",
    "onnxscript/version_converter/__init__.py", "onnxscript/version_converter/_version_converter.py",
    "onnxscript/version_converter/_c_api_utils.py",
    "onnxscript/_internal/values.py", "onnxscript/_internal/tape_builder.py", "onnxscript/_internal/builder.py",
    "onnxscript/_internal/_inliner.py", "onnxscript/_internal/autocast.py", "onnxscript/_internal/main.py",
    "onnxscript/utils/metadata_merger.py", "onnxscript/utils/replace.py",
    "onnxscript/rewriter/rules/common/_basic_rules.py", "onnxscript/rewriter/rules/common/_fuse_pad_into_conv.py",
    "onnxscript/rewriter/rules/common/_materialize_reshape_shape.py", "onnxscript/rewriter/rules/fusion/_rms_normalization.py",
]
_SET_ANN = ("set", "Set", "frozenset", "AbstractSet", "MutableSet", "typing.Set", "typing.AbstractSet")
# bodies made only of such calls do not emit (membership bookkeeping, logging)
WIDE_NONEMIT = NONEMIT_CALLS | {"add", "discard", "remove", "update", "debug", "info", "warning", "append_to_log"}


class _SetSitesWide(_SetSites):
    def __init__(self, relpath, tree):
        super().__init__(relpath, tree, set(), set())
        self.unresolved = []
        self.followed = []
        self.module_sets = set()
        for n in tree.body:
            tv = []
            if isinstance(n, ast.Assign):
                tv = [(t, n.value, None) for t in n.targets]
            elif isinstance(n, ast.AnnAssign):
                tv = [(n.target, n.value, n.annotation)]
            for t, v, ann in tv:
                if not isinstance(t, ast.Name):
                    continue
                if (ann is not None and ast.unparse(ann).startswith(_SET_ANN)) or (v is not None and self.is_set(v, set())):
                    self.module_sets.add(t.id)

    def is_set(self, e, setvars):
        if isinstance(e, ast.Name) and e.id in getattr(self, "module_sets", ()):
            return True
        return super().is_set(e, setvars)

    def _is_analysis_call(self, f):
        return False

    def _escape_followed(self, call, arg):
        """One level of following for a set that is passed to a call:
        (a) the callee is a function of the same module and the parameter that receives the set is annotated as a set: the
            callee's body is scanned with that parameter as a set (scan_function seeds annotated parameters), so every
            iteration of it is a site of its own;
        (b) the set is the default of `<mapping>.get(key, set())`: the result is again a set-typed value (is_set knows
            `.get(.., set())`), the call itself does not iterate."""
        f = call.func
        if isinstance(f, ast.Name):
            callee = next((n for n in self.tree.body if isinstance(n, (ast.FunctionDef, ast.AsyncFunctionDef)) and n.name == f.id), None)
            if callee is None:
                return False
            params = callee.args.posonlyargs + callee.args.args
            target = None
            for i, a in enumerate(call.args):
                if a is arg and i < len(params) and not isinstance(a, ast.Starred):
                    target = params[i]
            for k in call.keywords:
                if k.value is arg and k.arg is not None:
                    target = next((p for p in params + callee.args.kwonlyargs if p.arg == k.arg), None)
            ok = target is not None and target.annotation is not None and ast.unparse(target.annotation).startswith(_SET_ANN)
            if ok:
                self.followed.append(f"{self.relpath}:{call.lineno}: {f.id}(.. {target.arg}: {ast.unparse(target.annotation)[:40]} ..) -- callee scanned with the parameter as a set")
            return ok
        if isinstance(f, ast.Attribute) and f.attr == "get" and len(call.args) == 2 and call.args[1] is arg \
                and isinstance(arg, ast.Call) and isinstance(arg.func, ast.Name) and arg.func.id in ("set", "frozenset") and not arg.args:
            self.followed.append(f"{self.relpath}:{call.lineno}: {ast.unparse(f)}(key, set()) -- default of a mapping lookup, the call does not iterate; "
                                 "the looked-up value is treated as a set where it is used")
            return True
        return False

    def _only_nonemit_calls(self, nodes):
        for x in nodes:
            for c in ast.walk(x):
                if isinstance(c, ast.Call):
                    f = c.func
                    if isinstance(f, ast.Attribute) and f.attr in WIDE_NONEMIT:
                        continue
                    if isinstance(f, ast.Name) and f.id in ORDER_FREE_CONSUMERS | {"any", "all"}:
                        continue
                    return False
        return True

    def scan_function(self, fn):
        # local variables annotated as sets count as sets even when their initial value is opaque
        before = len(self.problems)
        extra = set()
        for n in _own_nodes(fn):
            if isinstance(n, ast.AnnAssign) and isinstance(n.target, ast.Name) and ast.unparse(n.annotation).startswith(_SET_ANN):
                extra.add(n.target.id)
        if extra:
            # re-enter with the annotated names pre-seeded: wrap the arguments mechanism
            fn = _with_set_args(fn, extra)
        super().scan_function(fn)
        self.unresolved += self.problems[before:]
        del self.problems[before:]


def _with_set_args(fn, names):
    """a shallow copy of fn whose argument list also declares `names` as set-annotated (scan only)."""
    import copy
    f2 = copy.copy(fn)
    f2.args = copy.copy(fn.args)
    f2.args.kwonlyargs = list(fn.args.kwonlyargs) + [ast.arg(arg=n, annotation=ast.Name(id="set", ctx=ast.Load())) for n in sorted(names)]
    return f2


def wide_sites(repo):
    sites, unresolved, problems = [], [], []
    followed = []
    wide_sites.followed = followed
    seen = set()
    for rel in WIDE_FILES:
        if rel in seen:
            continue
        seen.add(rel)
        path = os.path.join(repo, rel)
        if not os.path.exists(path):
            problems.append(f"{rel}: file is gone (the list of modules scanned for set->sequence sites is out of date)")
            continue
        try:
            tree = ast.parse(open(path).read())
        except SyntaxError as e:
            problems.append(f"{rel}: {e}")
            continue
        w = _SetSitesWide(rel, tree)
        s, _p = w.run()
        sites += s
        unresolved += w.unresolved
        followed += _dedupe(w.followed)
    sites.sort(key=lambda s: (s["file"], s["line"], s["kind"], s["expr"]))
    rows = []
    for s in sites:
        rows.append(f"  {{| s_func := {cstr(s['file'].rsplit('/', 1)[-1] + ':' + s['func'])}; s_line := {s['line']}; s_kind := {cstr(s['kind'])}; "
                    f"s_sorted := {'true' if s['sorted'] else 'false'}; s_emits := {'true' if s['emits'] else 'false'} |}}"
                    f"  (* {s['expr'].replace('*)', '* )')} *)")
    text = "\nDefinition sites_wide : list site := [\n" + ";\n".join(rows) + "\n].\n"
    return text, sites, unresolved, problems


class Problem(Exception):
    pass


class ClassInfo:
    def __init__(self, rel, node):
        self.rel = rel
        self.node = node
        self.name = node.name
        self.methods = {}
        self.props_get = {}
        self.props_set = {}
        self.class_attrs = set()
        for m in node.body:
            if isinstance(m, ast.FunctionDef):
                decos = [ast.unparse(d) for d in m.decorator_list]
                if "property" in decos or any(d.endswith("cached_property") for d in decos):
                    self.props_get[m.name] = m
                elif any(d.endswith(".setter") for d in decos):
                    self.props_set[m.name] = m
                else:
                    self.methods[m.name] = m
            elif isinstance(m, ast.Assign):
                for t in m.targets:
                    if isinstance(t, ast.Name):
                        self.class_attrs.add(t.id)
            elif isinstance(m, ast.AnnAssign) and isinstance(m.target, ast.Name):
                self.class_attrs.add(m.target.id)
        self.base_names = [ast.unparse(b) for b in node.bases]


class Table:
    def __init__(self, repo, files):
        self.repo = repo
        self.classes = {}     # (rel, name) -> ClassInfo
        self.by_name = {}
        self.imports = {}     # rel -> {local name -> module suffix}
        for rel in files:
            src = open(os.path.join(repo, rel)).read()
            tree = ast.parse(src)
            imp = {}
            for n in tree.body:
                if isinstance(n, ast.ImportFrom):
                    for a in n.names:
                        imp[a.asname or a.name] = ((n.module or "") + "." + a.name)
            self.imports[rel] = imp
            for n in tree.body:
                if isinstance(n, ast.ClassDef):
                    ci = ClassInfo(rel, n)
                    self.classes[(rel, n.name)] = ci
                    self.by_name.setdefault(n.name, []).append(ci)

    def resolve_base(self, ci, bname):
        last = bname.split(".")[-1]
        if last in ("ABC", "object", "Generic") or bname.startswith("Generic["):
            return None
        if (ci.rel, last) in self.classes and last != ci.name:
            return self.classes[(ci.rel, last)]
        cands = self.by_name.get(last, [])
        if len(cands) == 1:
            return cands[0]
        if not cands:
            return "external"
        # ambiguous: use the import of the head name
        head = bname.split(".")[0]
        target = self.imports[ci.rel].get(head, "")
        for c in cands:
            mod = c.rel[:-3].replace("/", ".")
            if target and (mod.endswith(target) or target.endswith(mod.split(".")[-1])):
                return c
        raise Problem(f"{ci.rel}: base class {bname} of {ci.name} is ambiguous")

    def mro(self, ci):
        out = [ci]
        real = []
        for b in ci.base_names:
            r = self.resolve_base(ci, b)
            if r is None:
                continue
            real.append(r)
        if len(real) > 1:
            raise Problem(f"{ci.rel}: class {ci.name} has several non-trivial bases")
        if real:
            if real[0] == "external":
                out.append("external")
            else:
                out += self.mro(real[0])
        return out


def _fields_loaded(e):
    """self.X loads inside expression e (not descending into lambdas / nested defs)."""
    res = []
    stack = [e]
    while stack:
        n = stack.pop()
        if isinstance(n, (ast.Lambda, ast.FunctionDef)):
            continue
        if isinstance(n, ast.Attribute) and _is_self(n.value):
            res.append(n)
            continue
        stack.extend(ast.iter_child_nodes(n))
    return res


class Translator:
    """Translate methods of one class (through its MRO) into the MustDef mini language.

    Python IR: ("Skip",) ("Seq",[..]) ("Read",[f]) ("Write",f,[f]) ("If",[f],a,b) ("Loop",[f],body)
               ("Call",body) ("Ret",may,[f]) ("Abort",)
    """

    def __init__(self, table, ci, cache_fields=()):
        self.t = table
        self.ci = ci
        self.mro = table.mro(ci)
        self.cache_fields = set(cache_fields)
        self.recursive = set()
        self.souped = []

    # ---- lookup through the MRO
    def find(self, name, kind="methods", after=None):
        seen_after = after is None
        for c in self.mro:
            if c == "external":
                continue
            if not seen_after:
                if c is after:
                    seen_after = True
                continue
            d = getattr(c, kind)
            if name in d:
                return c, d[name]
        return None, None

    def is_class_attr(self, name):
        return any(c != "external" and name in c.class_attrs for c in self.mro)

    # ---- expressions
    def expr_effects(self, e, env, cond=False):
        """-> list of IR statements for evaluating e: direct field reads first, then inlined calls."""
        if e is None:
            return [], []
        reads, pre = [], []
        self._walk_expr(e, env, cond, reads, pre)
        reads = _dedupe(reads)
        return reads, pre

    def _walk_expr(self, n, env, cond, reads, pre):
        if isinstance(n, ast.Lambda):
            if any(_is_self(x) for x in ast.walk(n)):
                raise Problem(f"{self.where(n)}: lambda touching self")
            return
        if isinstance(n, (ast.ListComp, ast.SetComp, ast.DictComp, ast.GeneratorExp)):
            for g in n.generators:
                self._walk_expr(g.iter, env, cond, reads, pre)
            inner = []
            for g in n.generators:
                inner += g.ifs
            inner += [n.elt] if not isinstance(n, ast.DictComp) else [n.key, n.value]
            for x in inner:
                self._walk_expr(x, env, "loop", reads, pre)
            return
        if isinstance(n, ast.BoolOp):
            self._walk_expr(n.values[0], env, cond, reads, pre)
            for v in n.values[1:]:
                self._walk_expr(v, env, cond or "if", reads, pre)
            return
        if isinstance(n, ast.IfExp):
            self._walk_expr(n.test, env, cond, reads, pre)
            self._walk_expr(n.body, env, cond or "if", reads, pre)
            self._walk_expr(n.orelse, env, cond or "if", reads, pre)
            return
        if isinstance(n, ast.Compare) and len(n.comparators) > 1:
            self._walk_expr(n.left, env, cond, reads, pre)
            self._walk_expr(n.comparators[0], env, cond, reads, pre)
            for c in n.comparators[1:]:
                self._walk_expr(c, env, cond or "if", reads, pre)
            return
        if isinstance(n, ast.Call):
            f = n.func
            body = None
            # self.m(...)
            if isinstance(f, ast.Attribute) and _is_self(f.value):
                c, m = self.find(f.attr)
                if m is not None:
                    body = self.inline(c, m, env)
                else:
                    self._field_read(f, reads, pre, env, cond)   # callable attribute (configuration)
            elif isinstance(f, ast.Attribute) and isinstance(f.value, ast.Call) and isinstance(f.value.func, ast.Name) \
                    and f.value.func.id == "super":
                cur = env["defclass"]
                c, m = self.find(f.attr, after=cur)
                if m is not None:
                    body = self.inline(c, m, env)
                elif "external" not in self.mro:
                    raise Problem(f"{self.where(n)}: super().{f.attr} not found")
            elif isinstance(f, ast.Name) and f.id in env["local_funcs"]:
                body = self.inline_local(f.id, env)
            elif isinstance(f, ast.Attribute):
                # method call on an object: mutation of a field's object?
                root = _field_root(f.value, env)
                if root is not None and f.attr in MUTATORS:
                    self._mutate(root, pre, cond)
                self._walk_expr(f.value, env, cond, reads, pre)
            else:
                self._walk_expr(f, env, cond, reads, pre)
            for a in n.args:
                self._walk_expr(a, env, cond, reads, pre)
            for k in n.keywords:
                self._walk_expr(k.value, env, cond, reads, pre)
            if body is not None:
                if cond == "loop":
                    pre.append(("Loop", [], ("Call", body)))
                elif cond:
                    pre.append(("If", [], ("Call", body), ("Skip",)))
                else:
                    pre.append(("Call", body))
            return
        if isinstance(n, ast.Attribute) and _is_self(n.value):
            if not isinstance(n.ctx, ast.Load):
                raise Problem(f"{self.where(n)}: unexpected store/del of self.{n.attr} inside an expression")
            self._field_read(n, reads, pre, env, cond)
            return
        if isinstance(n, ast.Name):
            if _is_self(n):
                raise Problem(f"{self.where(n)}: bare use of self")
            if n.id in env["local_funcs"] and isinstance(n.ctx, ast.Load):
                if env["local_funcs"][n.id]["touches_self"]:
                    raise Problem(f"{self.where(n)}: local function {n.id} that touches self is used as a value")
            if n.id in ("setattr", "vars", "delattr"):
                raise Problem(f"{self.where(n)}: {n.id}")
            return
        for c in ast.iter_child_nodes(n):
            if isinstance(c, (ast.expr, ast.keyword, ast.comprehension)):
                self._walk_expr(c, env, cond, reads, pre)
            elif isinstance(c, ast.FormattedValue):
                self._walk_expr(c, env, cond, reads, pre)

    def _field_read(self, n, reads, pre, env, cond):
        name = n.attr
        if name in ("__class__", "__dict__"):
            if name == "__dict__":
                raise Problem(f"{self.where(n)}: self.__dict__")
            return
        c, g = self.find(name, "props_get")
        if g is not None:
            body = self.inline(c, g, env)
            pre.append(("If", [], ("Call", body), ("Skip",)) if cond else ("Call", body))
            return
        c, m = self.find(name)
        if m is not None:
            # bound method used as a value (passed as a callback): its effects happen whenever it is called
            body = self.inline(c, m, env)
            pre.append(("Loop", [], ("Call", body)))
            return
        if name in self.cache_fields:
            return
        reads.append(name)

    def _mutate(self, field, pre, cond):
        if field in self.cache_fields:
            return
        st = ("Write", field, [field])
        if cond == "loop":
            pre.append(("Loop", [], st))
        elif cond:
            pre.append(("If", [], st, ("Skip",)))
        else:
            pre.append(st)

    # ---- inlining
    def inline(self, c, m, env):
        key = (c.name, m.name, m.lineno)
        if key in env["stack"]:
            self.recursive.add(key)
            return self.soup(c, m)
        env2 = {"stack": env["stack"] + [key], "defclass": c, "local_funcs": {}, "aliases": {}, "file": c.rel}
        try:
            return self.block(m.body, env2)
        except Problem as e:
            # a helper with a shape the precise translation does not know: fall back to the flow-insensitive
            # over-approximation (no definite writes claimed; every read must already be defined at the call)
            self.souped.append((c.name, m.name, str(e)))
            return self.soup(c, m)

    def inline_local(self, name, env):
        info = env["local_funcs"][name]
        key = ("<local>", name, info["node"].lineno)
        if key in env["stack"]:
            raise Problem(f"{env['file']}:{info['node'].lineno}: recursive local function {name}")
        env2 = dict(env)
        env2["stack"] = env["stack"] + [key]
        env2["local_funcs"] = dict(env["local_funcs"])
        env2["aliases"] = dict(env["aliases"])
        return self.block(info["node"].body, env2)

    def soup(self, c, m):
        """Recursive method: every atomic effect of every method reachable from it, any number of times in
        any order (no definite writes claimed)."""
        seen, order = set(), []

        def reach(cc, mm):
            k = (cc.name, mm.name, mm.lineno)
            if k in seen:
                return
            seen.add(k)
            order.append((cc, mm))
            for n in ast.walk(mm):
                if isinstance(n, ast.Attribute) and _is_self(n.value):
                    c2, m2 = self.find(n.attr)
                    if m2 is not None:
                        reach(c2, m2)
                    c2, g2 = self.find(n.attr, "props_get")
                    if g2 is not None:
                        reach(c2, g2)
                if isinstance(n, ast.Call) and isinstance(n.func, ast.Attribute) and isinstance(n.func.value, ast.Call) \
                        and isinstance(n.func.value.func, ast.Name) and n.func.value.func.id == "super":
                    c2, m2 = self.find(n.func.attr, after=cc)
                    if m2 is not None:
                        reach(c2, m2)

        reach(c, m)
        atoms = []
        for cc, mm in order:
            aliases = {}
            for n in ast.walk(mm):
                if isinstance(n, (ast.Try, ast.With, ast.Global, ast.Nonlocal)) and False:
                    pass
                if isinstance(n, ast.Attribute) and _is_self(n.value):
                    if self.find(n.attr)[1] is not None or self.find(n.attr, "props_get")[1] is not None:
                        continue
                    if n.attr in self.cache_fields:
                        continue
                    if isinstance(n.ctx, ast.Store):
                        atoms.append(("Write", n.attr, []))
                    elif isinstance(n.ctx, ast.Del):
                        raise Problem(f"{cc.rel}:{n.lineno}: del self.{n.attr}")
                    else:
                        atoms.append(("Read", [n.attr]))
                if isinstance(n, ast.Name) and n.id in ("setattr", "vars", "delattr"):
                    raise Problem(f"{cc.rel}:{n.lineno}: {n.id}")
                if isinstance(n, ast.Name) and _is_self(n):
                    pass
            # bare self (passed away) is checked separately
            for n in ast.walk(mm):
                for ch in ast.iter_child_nodes(n):
                    if isinstance(ch, ast.Name) and ch.id == "self" and not isinstance(n, ast.Attribute):
                        raise Problem(f"{cc.rel}:{ch.lineno}: bare use of self in {mm.name}")
            # mutation of field objects: subscript stores / mutator calls rooted at self.f
            for n in ast.walk(mm):
                if isinstance(n, (ast.Subscript, ast.Attribute)) and isinstance(n.ctx, ast.Store) and not (isinstance(n, ast.Attribute) and _is_self(n.value)):
                    r = _field_root(n.value, {"aliases": aliases})
                    if r is not None and r not in self.cache_fields:
                        atoms.append(("Write", r, [r]))
                if isinstance(n, ast.Call) and isinstance(n.func, ast.Attribute) and n.func.attr in MUTATORS:
                    r = _field_root(n.func.value, {"aliases": aliases})
                    if r is not None and r not in self.cache_fields:
                        atoms.append(("Write", r, [r]))
        uniq = []
        for a in atoms:
            if a not in uniq:
                uniq.append(a)
        uniq.append(("Abort",))
        return ("Loop", [], ("Seq", [("If", [], a, ("Skip",)) for a in uniq]))

    # ---- statements
    def where(self, n):
        return f"{self.ci.rel}:{getattr(n, 'lineno', '?')} ({self.ci.name})"

    def block(self, stmts, env):
        out = []
        # local function definitions are visible in the whole block (they are defined before use in practice)
        for s in stmts:
            if isinstance(s, ast.FunctionDef):
                env["local_funcs"][s.name] = {"node": s, "touches_self": any(_is_self(x) for x in ast.walk(s))}
        i = 0
        while i < len(stmts):
            s = stmts[i]
            nxt = stmts[i + 1] if i + 1 < len(stmts) else None
            chk = self._callchk(s, nxt, env)
            if chk is not None:
                out += chk
                i += 2
                continue
            out += self.stmt(s, env)
            i += 1
        return ("Seq", out)

    def _callchk(self, s, nxt, env):
        """r = self.helper(..) | super().m(..) ;  if not r: <block>   ->  CallChk helper-body block"""
        if not (isinstance(s, ast.Assign) and len(s.targets) == 1 and isinstance(s.targets[0], ast.Name)
                and isinstance(s.value, ast.Call) and isinstance(nxt, ast.If) and not nxt.orelse
                and isinstance(nxt.test, ast.UnaryOp) and isinstance(nxt.test.op, ast.Not)
                and isinstance(nxt.test.operand, ast.Name) and nxt.test.operand.id == s.targets[0].id):
            return None
        reads, pre = self.expr_effects(s.value, env)
        if len(pre) != 1 or pre[0][0] != "Call":
            return None
        out = [("Read", reads)] if reads else []
        env2 = dict(env)
        env2["falsy_names"] = set(env.get("falsy_names", ())) | {s.targets[0].id}   # inside `if not r:` r is falsy
        if any(isinstance(x, (ast.Assign, ast.AugAssign, ast.AnnAssign, ast.NamedExpr)) and
               any(isinstance(t, ast.Name) and t.id == s.targets[0].id for t in ast.walk(x)) for b in nxt.body for x in ast.walk(b)):
            env2["falsy_names"].discard(s.targets[0].id)
        out.append(("CallChk", pre[0][1], self.block(nxt.body, env2)))
        return out

    def emit_eval(self, e, env):
        reads, pre = self.expr_effects(e, env)
        out = []
        if reads:
            out.append(("Read", reads))
        out += pre
        return out, reads

    def store_target(self, t, env, out):
        if isinstance(t, ast.Name):
            return
        if isinstance(t, (ast.Tuple, ast.List)):
            for x in t.elts:
                self.store_target(x, env, out)
            return
        if isinstance(t, ast.Starred):
            self.store_target(t.value, env, out)
            return
        if isinstance(t, ast.Attribute) and _is_self(t.value):
            c, setter = self.find(t.attr, "props_set")
            if setter is not None:
                out.append(("Call", self.inline(c, setter, env)))
                return
            if self.find(t.attr, "props_get")[1] is not None or self.find(t.attr)[1] is not None:
                raise Problem(f"{self.where(t)}: assignment to property/method self.{t.attr}")
            if t.attr in self.cache_fields:
                raise Problem(f"{self.where(t)}: cache field self.{t.attr} re-assigned")
            out.append(("Write", t.attr, []))
            return
        if isinstance(t, (ast.Subscript, ast.Attribute)):
            root = _field_root(t.value, env)
            ev, _ = self.emit_eval(t.value, env)
            out += ev
            if isinstance(t, ast.Subscript):
                ev, _ = self.emit_eval(t.slice, env)
                out += ev
            if root is not None and root not in self.cache_fields:
                out.append(("Write", root, [root]))
            return
        raise Problem(f"{self.where(t)}: unsupported assignment target {type(t).__name__}")

    def stmt(self, s, env):
        out = []
        if isinstance(s, (ast.Assign, ast.AnnAssign)):
            value = s.value
            targets = s.targets if isinstance(s, ast.Assign) else [s.target]
            if value is None:
                return []
            ev, _ = self.emit_eval(value, env)
            out += ev
            # alias tracking: name = self.f
            if isinstance(value, ast.Attribute) and _is_self(value.value):
                for t in targets:
                    if isinstance(t, ast.Name):
                        env["aliases"][t.id] = value.attr
            for t in targets:
                self.store_target(t, env, out)
            return out
        if isinstance(s, ast.AugAssign):
            ev, _ = self.emit_eval(s.value, env)
            out += ev
            t = s.target
            if isinstance(t, ast.Attribute) and _is_self(t.value):
                out.append(("Write", t.attr, [t.attr]))
            else:
                if not isinstance(t, ast.Name):
                    ev, _ = self.emit_eval(t.value, env)
                    out += ev
                    root = _field_root(t.value, env)
                    if root is not None and root not in self.cache_fields:
                        out.append(("Write", root, [root]))
                elif t.id in env["aliases"]:
                    out.append(("Write", env["aliases"][t.id], [env["aliases"][t.id]]))
            return out
        if isinstance(s, ast.Expr):
            if isinstance(s.value, ast.Constant):
                return []
            ev, _ = self.emit_eval(s.value, env)
            return ev
        if isinstance(s, ast.If):
            reads, pre = self.expr_effects(s.test, env)
            a = self.block(s.body, env)
            b = self.block(s.orelse, env)
            if pre:
                return ([("Read", reads)] if reads else []) + pre + [("If", [], a, b)]
            return [("If", reads, a, b)]
        if isinstance(s, ast.For):
            ev, _ = self.emit_eval(s.iter, env)
            out += ev
            tmp = []
            self.store_target(s.target, env, tmp)
            body = self.block(s.body, env)
            self._no_break(s)
            out.append(("Loop", [], ("Seq", tmp + [body])))
            if s.orelse:
                out.append(self.block(s.orelse, env))
            return out
        if isinstance(s, ast.While):
            reads, pre = self.expr_effects(s.test, env)
            if pre:
                raise Problem(f"{self.where(s)}: while-condition with helper calls")
            self._no_break(s)
            out.append(("Loop", reads, self.block(s.body, env)))
            if s.orelse:
                out.append(self.block(s.orelse, env))
            return out
        if isinstance(s, ast.Return):
            reads, pre = self.expr_effects(s.value, env)
            may = not (_certainly_falsy(s.value) or (isinstance(s.value, ast.Name) and s.value.id in env.get("falsy_names", ())))
            if pre:
                return ([("Read", reads)] if reads else []) + pre + [("Ret", may, [])]
            return [("Ret", may, reads)]
        if isinstance(s, ast.Raise):
            ev, _ = self.emit_eval(s.exc, env)
            return ev + [("Abort",)]
        if isinstance(s, ast.Assert):
            reads, pre = self.expr_effects(s.test, env)
            if pre:
                return ([("Read", reads)] if reads else []) + pre + [("If", [], ("Skip",), ("Abort",))]
            return [("If", reads, ("Skip",), ("Abort",))]
        if isinstance(s, ast.Pass):
            return []
        if isinstance(s, ast.Delete):
            for t in s.targets:
                if not isinstance(t, ast.Name):
                    raise Problem(f"{self.where(s)}: del of a non-local")
            return []
        if isinstance(s, ast.FunctionDef):
            return []
        if isinstance(s, (ast.Import, ast.ImportFrom)):
            return []
        raise Problem(f"{self.where(s)}: unsupported statement {type(s).__name__}")

    def _no_break(self, loop):
        for n in ast.walk(loop):
            if isinstance(n, (ast.Break, ast.Continue)):
                raise Problem(f"{self.where(n)}: break/continue")

    # ---- whole methods
    def method_cfg(self, name):
        c, m = self.find(name)
        if m is None:
            if "external" in self.mro:
                raise Problem(f"{self.ci.rel}: {self.ci.name}.{name} is defined outside the translated files")
            return ("Seq", [])
        env = {"stack": [(c.name, m.name, m.lineno)], "defclass": c, "local_funcs": {}, "aliases": {}, "file": c.rel}
        return self.block(m.body, env)

    def init_fields(self):
        """Fields assigned while constructing the object (the __init__ chain through super()) and class attributes."""
        fields = set()
        for c in self.mro:
            if c != "external":
                fields |= c.class_attrs
        c, m = self.find("__init__")
        if m is not None:
            env = {"stack": [(c.name, m.name, m.lineno)], "defclass": c, "local_funcs": {}, "aliases": {}, "file": c.rel}
            saved = self.cache_fields
            self.cache_fields = set()
            try:
                cfg = self.block(m.body, env)
            finally:
                self.cache_fields = saved
            fields |= set(ir_writes(cfg))
        return fields


def _dedupe(xs):
    out = []
    for x in xs:
        if x not in out:
            out.append(x)
    return out


def _field_root(e, env):
    """If expression e denotes (part of) the object held by self.f -- self.f, self.f[i], self.f.a, or a local
    alias of self.f -- return f."""
    while isinstance(e, (ast.Subscript, ast.Attribute)):
        if isinstance(e, ast.Attribute) and _is_self(e.value):
            return e.attr
        e = e.value
    if isinstance(e, ast.Name) and e.id in env.get("aliases", {}):
        return env["aliases"][e.id]
    return None


def _certainly_falsy(v):
    if v is None:
        return True
    if isinstance(v, ast.Constant) and (v.value is None or v.value is False):
        return True
    if isinstance(v, ast.Call) and isinstance(v.func, ast.Attribute) and v.func.attr == "fail":
        return True
    return False


def ir_writes(p):
    k = p[0]
    if k == "Seq":
        return [w for x in p[1] for w in ir_writes(x)]
    if k == "Write":
        return [p[1]]
    if k == "If":
        return ir_writes(p[2]) + ir_writes(p[3])
    if k == "Loop":
        return ir_writes(p[2])
    if k == "Call":
        return ir_writes(p[1])
    if k == "CallChk":
        return ir_writes(p[1]) + ir_writes(p[2])
    return []


def ir_reads(p):
    k = p[0]
    if k == "Seq":
        return [w for x in p[1] for w in ir_reads(x)]
    if k == "Read":
        return list(p[1])
    if k == "Write":
        return list(p[2])
    if k == "If":
        return list(p[1]) + ir_reads(p[2]) + ir_reads(p[3])
    if k == "Loop":
        return list(p[1]) + ir_reads(p[2])
    if k == "Call":
        return ir_reads(p[1])
    if k == "CallChk":
        return ir_reads(p[1]) + ir_reads(p[2])
    if k == "Ret":
        return list(p[2])
    return []


def simplify(p):
    k = p[0]
    if k == "Seq":
        xs = []
        for x in p[1]:
            x = simplify(x)
            if x[0] == "Skip":
                continue
            if x[0] == "Seq":
                xs += x[1]
            else:
                xs.append(x)
        if not xs:
            return ("Skip",)
        if len(xs) == 1:
            return xs[0]
        return ("Seq", xs)
    if k == "If":
        a, b = simplify(p[2]), simplify(p[3])
        if a[0] == "Skip" and b[0] == "Skip":
            return ("Read", p[1]) if p[1] else ("Skip",)
        return ("If", p[1], a, b)
    if k == "Loop":
        b = simplify(p[2])
        if b[0] == "Skip":
            return ("Read", p[1]) if p[1] else ("Skip",)
        return ("Loop", p[1], b)
    if k == "Call":
        b = simplify(p[1])
        if b[0] == "Skip":
            return ("Skip",)
        if not _has_ret(b):
            return b
        return ("Call", b)
    if k == "CallChk":
        return ("CallChk", simplify(p[1]), simplify(p[2]))
    return p


def _has_ret(p):
    k = p[0]
    if k == "Ret":
        return True
    if k == "Seq":
        return any(_has_ret(x) for x in p[1])
    if k == "If":
        return _has_ret(p[2]) or _has_ret(p[3])
    if k == "Loop":
        return _has_ret(p[2])
    if k == "CallChk":
        return _has_ret(p[2])
    return False


def to_coq(p, ind=4):
    k = p[0]
    fl = lambda fs: "[" + "; ".join(cstr(f).replace("%string", "") for f in fs) + "]"
    pad = " " * ind
    if k == "Skip":
        return "Skip"
    if k == "Abort":
        return "Abort"
    if k == "Read":
        return f"Read {fl(p[1])}"
    if k == "Write":
        return f"Write {cstr(p[1]).replace('%string', '')} {fl(p[2])}"
    if k == "Ret":
        return f"Ret {'true' if p[1] else 'false'} {fl(p[2])}"
    if k == "Seq":
        return "seq [" + (";\n" + pad).join(to_coq(x, ind + 2) for x in p[1]) + "]"
    if k == "If":
        return f"If {fl(p[1])}\n{pad}  ({to_coq(p[2], ind + 4)})\n{pad}  ({to_coq(p[3], ind + 4)})"
    if k == "Loop":
        return f"Loop {fl(p[1])}\n{pad}  ({to_coq(p[2], ind + 4)})"
    if k == "Call":
        return f"Call ({to_coq(p[1], ind + 2)})"
    if k == "CallChk":
        return f"CallChk\n{pad}  ({to_coq(p[1], ind + 4)})\n{pad}  ({to_coq(p[2], ind + 4)})"
    raise AssertionError(k)


def ir_size(p):
    k = p[0]
    if k == "Seq":
        return 1 + sum(ir_size(x) for x in p[1])
    if k == "If":
        return 1 + ir_size(p[2]) + ir_size(p[3])
    if k == "Loop":
        return 1 + ir_size(p[2])
    if k == "Call":
        return 1 + ir_size(p[1])
    if k == "CallChk":
        return 1 + ir_size(p[1]) + ir_size(p[2])
    return 1


# ---- identity-keyed per-graph caches --------------------------------------------------------------

def find_cache_fields(table, ci):
    """A field f is a per-graph cache when: __init__ sets self.f = {} ; setup() or cleanup() calls
    self.f.clear(); and every other use in the class is `k in self.f`, `self.f[k]` (load) or
    `self.f[k] = v` with k a parameter of the enclosing method (an object of the model being rewritten)."""
    tr = Translator(table, ci)
    caches = []
    c, init = tr.find("__init__")
    if init is None:
        return []
    cands = []
    for n in ast.walk(init):
        tgt = None
        if isinstance(n, ast.Assign) and len(n.targets) == 1:
            tgt, val = n.targets[0], n.value
        elif isinstance(n, ast.AnnAssign) and n.value is not None:
            tgt, val = n.target, n.value
        if tgt is not None and isinstance(tgt, ast.Attribute) and _is_self(tgt.value) and isinstance(val, ast.Dict) and not val.keys:
            cands.append(tgt.attr)
    for f in cands:
        cleared = False
        ok = True
        for cls in tr.mro:
            if cls == "external":
                continue
            for mname, m in list(cls.methods.items()) + list(cls.props_get.items()) + list(cls.props_set.items()):
                params = {a.arg for a in m.args.args + m.args.kwonlyargs}
                parents = {}
                for n in ast.walk(m):
                    for ch in ast.iter_child_nodes(n):
                        parents[ch] = n
                for n in ast.walk(m):
                    if isinstance(n, ast.Attribute) and _is_self(n.value) and n.attr == f:
                        if mname == "__init__":
                            continue
                        p = parents.get(n)
                        if isinstance(p, ast.Attribute) and p.attr == "clear" and isinstance(parents.get(p), ast.Call) and mname in ("setup", "cleanup"):
                            cleared = True
                        elif isinstance(p, ast.Subscript) and p.value is n and isinstance(p.slice, ast.Name) and p.slice.id in params:
                            pass
                        elif isinstance(p, ast.Compare) and len(p.ops) == 1 and isinstance(p.ops[0], (ast.In, ast.NotIn)) \
                                and p.comparators[0] is n and isinstance(p.left, ast.Name) and p.left.id in params:
                            pass
                        else:
                            ok = False
        if ok and cleared:
            caches.append(f)
    return caches


def rule_cfgs(repo):
    problems = []
    files = list(BASE_FILES)
    for r in RULE_ROOTS:
        for d, _dirs, fs in sorted(os.walk(os.path.join(repo, r))):
            for f in sorted(fs):
                if f.endswith(".py") and not f.endswith("_test.py"):
                    files.append(os.path.relpath(os.path.join(d, f), repo))
    table = Table(repo, files)
    base = table.by_name.get("RewriteRuleClassBase", [None])[0]
    if base is None:
        return "", [], ["RewriteRuleClassBase not found in " + BASE_FILES[0]]
    rules = []
    abstract = []
    covered_by = {}
    for (rel, name), ci in sorted(table.classes.items()):
        if ci is base or rel in BASE_FILES:
            continue
        try:
            mro = table.mro(ci)
        except Problem as e:
            problems.append(str(e))
            continue
        if base not in mro:
            # classes that merely look like rules but derive from something we cannot see: fail closed
            if "external" in mro and any(m in ci.methods for m in ("check", "rewrite")) and "pattern" in ci.methods:
                problems.append(f"{rel}: class {name} has pattern/check/rewrite but an untranslated base class")
            continue
        try:
            caches = find_cache_fields(table, ci)
            tr = Translator(table, ci, caches)
            pc, pm = tr.find("pattern")
            if pm is None or pc.rel in BASE_FILES:
                abstract.append(f"{rel}:{name}")   # PatternBase.pattern is abstract: the class cannot be instantiated
                continue
            for anc in mro:
                if anc != "external" and anc is not ci:
                    covered_by.setdefault(f"{anc.rel}:{anc.name}", []).append(name)
            check = simplify(tr.method_cfg("check"))
            rewrite = simplify(tr.method_cfg("rewrite"))
            setup = simplify(tr.method_cfg("setup"))
            cleanup = simplify(tr.method_cfg("cleanup"))
            for nm, cfg in (("setup", setup), ("cleanup", cleanup)):
                if ir_writes(cfg) or ir_reads(cfg):
                    problems.append(f"{rel}: {name}.{nm} touches fields {sorted(set(ir_writes(cfg) + ir_reads(cfg)))} other than a recognised per-graph cache")
            init = tr.init_fields()
            written = set(ir_writes(check)) | set(ir_writes(rewrite))
            config = sorted(init - written)
            rules.append({"name": f"{rel[len('onnxscript/rewriter/'):-3]}:{name}", "ident": _ident(rel, name), "config": config,
                          "check": check, "rewrite": rewrite, "caches": caches,
                          "mutable": sorted(written), "reads": sorted(set(ir_reads(check) + ir_reads(rewrite)))})
        except Problem as e:
            problems.append(str(e))
    # a base class without pattern() is analysed through its concrete subclasses (inherited check/rewrite are inlined there)
    for a in abstract:
        if not covered_by.get(a):
            problems.append(f"{a}: rule base class without pattern() and without a translated concrete subclass: its check/rewrite are never analysed")
    rule_cfgs.abstract_covered_by = {a: sorted(set(covered_by.get(a, []))) for a in abstract}
    # the constant folding pass object
    try:
        ptable = Table(repo, [PASS_FILE])
        pci = ptable.by_name["FoldConstantsPass"][0]
        ptr = Translator(ptable, pci)
        call = simplify(ptr.method_cfg("call"))
        init = ptr.init_fields()
        written = set(ir_writes(call))
        pass_rule = {"name": "optimizer/_constant_folding:FoldConstantsPass.call", "ident": "pass_fold_constants",
                     "config": sorted(init - written), "check": call, "rewrite": ("Skip",), "caches": [],
                     "mutable": sorted(written), "reads": sorted(set(ir_reads(call)))}
    except (Problem, KeyError, IndexError) as e:
        problems.append(f"{PASS_FILE}: {e}")
        pass_rule = None
    # the rule-set object (the default rule set is a module-level object shared by every rewriter.rewrite call)
    set_rule = None
    try:
        stable = Table(repo, [BASE_FILES[0]])
        sci = stable.by_name["RewriteRuleSet"][0]
        strn = Translator(stable, sci)
        call = simplify(strn.method_cfg("apply_to_model"))
        init = strn.init_fields()
        written = set(ir_writes(call))
        set_rule = {"name": "rewriter/_rewrite_rule:RewriteRuleSet.apply_to_model", "ident": "pass_rule_set",
                    "config": sorted(init - written), "check": call, "rewrite": ("Skip",), "caches": [],
                    "mutable": sorted(written), "reads": sorted(set(ir_reads(call)))}
        if "rules" not in set_rule["config"]:
            problems.append(f"{BASE_FILES[0]}: RewriteRuleSet: `rules` is not a configuration field any more")
    except (Problem, KeyError, IndexError) as e:
        problems.append(f"{BASE_FILES[0]}: RewriteRuleSet.apply_to_model: {e}")
    rule_cfgs.set_rule = set_rule
    out = ["(* generated by harness/c14_translate.py (rule_cfgs) from onnxscript/rewriter/{rules,ort_fusions}/**.py, "
           "_rewrite_rule.py and optimizer/_constant_folding.py -- do not edit *)",
           "From Coq Require Import List String.", "Require Import OV.Determinism.MustDef.", "Import ListNotations.",
           "Local Open Scope string_scope.", ""]
    fl = lambda fs: "[" + "; ".join('"' + f + '"' for f in fs) + "]"
    for r in rules + ([pass_rule] if pass_rule else []) + ([set_rule] if set_rule else []):
        out.append(f"Definition {r['ident']} : rule :=\n  {{| r_name := \"{r['name']}\";\n     r_config := {fl(r['config'])};\n"
                   f"     r_check :=\n      {to_coq(r['check'], 6)};\n     r_rewrite :=\n      {to_coq(r['rewrite'], 6)} |}}.\n")
    out.append("Definition all : list rule := [" + ";\n  ".join(r["ident"] for r in rules) + "].\n")
    if pass_rule:
        out.append("Definition passes : list rule := [pass_fold_constants].\n")
    else:
        out.append("Definition passes : list rule := [].\n")
    out.append("(* kept apart from `passes`: whether it passes the must-definition check is decided (and reported) by the harness *)")
    out.append("Definition ruleset_passes : list rule := [" + ("pass_rule_set" if set_rule else "") + "].\n")
    rule_cfgs.abstract = abstract
    return "\n".join(out), rules + ([pass_rule] if pass_rule else []), problems


def _ident(rel, name):
    mod = rel[len("onnxscript/rewriter/"):-3].replace("/", "_").replace(".", "_")
    return f"r_{mod}__{name}".replace("__", "_x_") if False else f"r_{mod}_{name}"


# =============================================================================================
# 3. memo tables of module-level objects (ReferenceEvaluator) -> Gen/EvaluatorCache.v
# =============================================================================================

MEMO_CLASS_FILE = "onnxscript/optimizer/_constant_folding.py"
MEMO_CLASSES = ["ReferenceEvaluator"]
MEMO_DECORATOR_FILES = ["onnxscript/optimizer/_constant_folding.py", "onnxscript/rewriter/_rewrite_rule.py",
                        "onnxscript/rewriter/_pattern_ir.py", "onnxscript/rewriter/_basics.py",
                        "onnxscript/version_converter/_version_converter.py", "onnxscript/_internal/values.py"]


def _params_of(fn):
    a = fn.args
    names = [x.arg for x in a.posonlyargs + a.args + a.kwonlyargs]
    if a.vararg:
        names.append(a.vararg.arg)
    if a.kwarg:
        names.append(a.kwarg.arg)
    return [n for n in names if n not in ("self", "cls")]


def _is_cache_decorator(d):
    t = ast.unparse(d)
    return any(x in t for x in ("lru_cache", "functools.cache", "cached_property")) or t == "cache"


def evaluator_memos(repo):
    """Every memo table of the classes in MEMO_CLASSES: which parameters of the memoizing method form the key and
    which parameters the method uses at all (what is computed on a miss can depend on any of them)."""
    memos, problems = [], []
    path = os.path.join(repo, MEMO_CLASS_FILE)
    tree = ast.parse(open(path).read())
    classes = {n.name: n for n in tree.body if isinstance(n, ast.ClassDef)}
    for cname in MEMO_CLASSES:
        cls = classes.get(cname)
        if cls is None:
            problems.append(f"{MEMO_CLASS_FILE}: class {cname} not found")
            continue
        if len([b for b in cls.bases if ast.unparse(b) not in ("object",)]) > 0:
            problems.append(f"{MEMO_CLASS_FILE}: class {cname} has base classes (state may live there)")
        for m in cls.body:
            if isinstance(m, (ast.Assign, ast.AnnAssign)):
                v = m.value
                if v is not None and not isinstance(v, ast.Constant):
                    problems.append(f"{MEMO_CLASS_FILE}:{m.lineno}: class-level state in {cname}")
                continue
            if not isinstance(m, ast.FunctionDef):
                if not (isinstance(m, ast.Expr) and isinstance(m.value, ast.Constant)) and not isinstance(m, ast.Pass):
                    problems.append(f"{MEMO_CLASS_FILE}:{m.lineno}: unrecognised member of {cname}")
                continue
            params = _params_of(m)
            for d in m.decorator_list:
                if _is_cache_decorator(d):
                    memos.append({"owner": cname, "field": m.name + "@" + ast.unparse(d).split("(")[0].split(".")[-1], "key": params, "fun": params})
                elif ast.unparse(d) not in ("staticmethod", "classmethod", "property"):
                    problems.append(f"{MEMO_CLASS_FILE}:{m.lineno}: unknown decorator {ast.unparse(d)} on {cname}.{m.name}")
            used = [n.id for n in ast.walk(m) if isinstance(n, ast.Name) and n.id in params]
            used = _dedupe(used)
            local_assign = {}
            for n in ast.walk(m):
                if isinstance(n, (ast.Global, ast.Nonlocal)):
                    problems.append(f"{MEMO_CLASS_FILE}:{n.lineno}: {cname}.{m.name} uses global/nonlocal state")
                if isinstance(n, ast.Assign) and len(n.targets) == 1 and isinstance(n.targets[0], ast.Name):
                    local_assign.setdefault(n.targets[0].id, []).append(n.value)
            for n in ast.walk(m):
                # self.F = ... outside __init__
                if isinstance(n, ast.Attribute) and _is_self(n.value) and isinstance(n.ctx, (ast.Store, ast.Del)) and m.name != "__init__":
                    problems.append(f"{MEMO_CLASS_FILE}:{n.lineno}: {cname}.{m.name} assigns self.{n.attr} (state of a shape this translator does not know)")
                key_expr, fld = None, None
                if isinstance(n, ast.Subscript) and isinstance(n.ctx, ast.Store):
                    root = _field_root(n.value, {})
                    if root is not None:
                        if not (isinstance(n.value, ast.Attribute) and _is_self(n.value.value)):
                            problems.append(f"{MEMO_CLASS_FILE}:{n.lineno}: nested store into self.{root}")
                            continue
                        key_expr, fld = n.slice, root
                if isinstance(n, ast.Call) and isinstance(n.func, ast.Attribute) and n.func.attr in MUTATORS:
                    root = _field_root(n.func.value, {})
                    if root is not None and m.name != "__init__":
                        if n.func.attr == "setdefault" and n.args and isinstance(n.func.value, ast.Attribute) and _is_self(n.func.value.value):
                            key_expr, fld = n.args[0], root
                        else:
                            problems.append(f"{MEMO_CLASS_FILE}:{n.lineno}: {cname}.{m.name} mutates self.{root} with .{n.func.attr}()")
                if key_expr is None:
                    continue
                if m.name == "__init__":
                    problems.append(f"{MEMO_CLASS_FILE}:{n.lineno}: {cname}.__init__ fills self.{fld}")
                    continue
                if isinstance(key_expr, ast.Name) and key_expr.id not in params:
                    vals = local_assign.get(key_expr.id, [])
                    if len(vals) != 1:
                        problems.append(f"{MEMO_CLASS_FILE}:{n.lineno}: key variable {key_expr.id} of self.{fld} is not assigned exactly once")
                        continue
                    key_expr = vals[0]
                kp = []
                okk = True
                for x in ast.walk(key_expr):
                    if isinstance(x, ast.Name):
                        if x.id in params:
                            kp.append(x.id)
                        elif x.id not in ("str", "int", "tuple", "id", "type", "repr", "len", "float", "bool", "frozenset", "sorted"):
                            okk = False
                    if isinstance(x, (ast.Attribute, ast.Lambda, ast.ListComp, ast.GeneratorExp)) and _is_self(getattr(x, "value", None)):
                        okk = False
                if not okk:
                    problems.append(f"{MEMO_CLASS_FILE}:{n.lineno}: key expression {ast.unparse(key_expr)} of self.{fld} mentions names other than the method's parameters")
                    continue
                rec = {"owner": cname, "field": f"{fld}@{m.name}", "key": _dedupe(kp), "fun": used}
                if rec not in memos:
                    memos.append(rec)
    # cached functions elsewhere in the anchored files: functools keys on all arguments
    for rel in MEMO_DECORATOR_FILES:
        pth = os.path.join(repo, rel)
        if not os.path.exists(pth):
            problems.append(f"{rel}: file not found")
            continue
        t = ast.parse(open(pth).read())
        for n in ast.walk(t):
            if isinstance(n, (ast.FunctionDef, ast.AsyncFunctionDef)):
                for d in n.decorator_list:
                    if _is_cache_decorator(d):
                        ps = _params_of(n)
                        rec = {"owner": os.path.basename(rel)[:-3], "field": n.name + "@" + ast.unparse(d).split("(")[0].split(".")[-1], "key": ps, "fun": ps}
                        if rec not in memos and not (rel == MEMO_CLASS_FILE and any(r["field"] == rec["field"] for r in memos)):
                            memos.append(rec)
    fl = lambda fs: "[" + "; ".join('"' + f + '"' for f in fs) + "]"
    out = ["(* generated by harness/c14_translate.py (evaluator_memos) from " + MEMO_CLASS_FILE + " and cache decorators in the anchored files -- do not edit *)",
           "From Coq Require Import List String.", "Require Import OV.Determinism.KeyedCache.", "Import ListNotations.",
           "Local Open Scope string_scope.", "", "Definition memos : list memo_site := ["]
    out.append(";\n".join(f'  {{| m_owner := "{r["owner"]}"; m_field := "{r["field"]}"; m_key_params := {fl(r["key"])}; m_fun_params := {fl(r["fun"])} |}}' for r in memos))
    out.append("].")
    return "\n".join(out) + "\n", memos, problems


if __name__ == "__main__":
    import sys
    repo = sys.argv[1] if len(sys.argv) > 1 else "/repo"
    text, sites, probs = converter_sites(repo)
    print(text)
    print("PROBLEMS", probs)
    text, memos, probs = evaluator_memos(repo)
    print(text)
    print("PROBLEMS", probs)
    text, rules, probs = rule_cfgs(repo)
    print(text[:300])
    print("PROBLEMS", probs)
    print(len(rules), "rules;", sum(ir_size(r["check"]) + ir_size(r["rewrite"]) for r in rules), "nodes")
    for r in rules:
        if r["mutable"] or r["caches"]:
            print(r["name"], "mutable", r["mutable"], "config", r["config"], "caches", r["caches"])


# =============================================================================================
# 4. process-wide mutable state of the anchored modules -> Gen/ProcessStateSites.v
# =============================================================================================

STATE_FILES = [
    "onnxscript/_internal/converter.py", "onnxscript/_internal/values.py", "onnxscript/_internal/main.py",
    "onnxscript/_internal/irbuilder.py", "onnxscript/_internal/analysis.py", "onnxscript/_internal/autocast.py",
    "onnxscript/optimizer/_constant_folding.py", "onnxscript/optimizer/_optimizer.py", "onnxscript/optimizer/__init__.py",
    "onnxscript/rewriter/_pattern_ir.py", "onnxscript/rewriter/_rewrite_rule.py", "onnxscript/rewriter/_basics.py",
    "onnxscript/rewriter/_matcher.py", "onnxscript/rewriter/__init__.py", "onnxscript/rewriter/_ir_utils.py",
    "onnxscript/rewriter/rules/common/_basic_rules.py", "onnxscript/rewriter/rules/common/_fuse_pad_into_conv.py",
    "onnxscript/rewriter/rules/common/_materialize_reshape_shape.py", "onnxscript/rewriter/rules/fusion/_rms_normalization.py",
    "onnxscript/version_converter/__init__.py", "onnxscript/version_converter/_version_converter.py",
]
IMMUTABLE_CALLS = {"frozenset", "TypeVar", "ParamSpec", "object", "logging.getLogger", "tuple", "re.compile", "typing.TypeVar",
                   "NewType", "typing.NewType", "namedtuple", "collections.namedtuple"}
CONTAINER_CALLS = {"dict", "list", "set", "collections.defaultdict", "defaultdict", "collections.OrderedDict", "OrderedDict",
                   "collections.Counter", "Counter", "collections.deque", "deque", "bytearray", "weakref.WeakValueDictionary",
                   "weakref.WeakKeyDictionary"}
COUNTER_CALLS = {"itertools.count", "count"}


def _name_mutations(tree, name):
    """(lineno, inside a function?) of every statement that mutates / rebinds the module-level object `name`."""
    out = []

    def visit(n, infn):
        for c in ast.iter_child_nodes(n):
            inner = infn or isinstance(c, (ast.FunctionDef, ast.AsyncFunctionDef, ast.Lambda))
            is_n = lambda e: isinstance(e, ast.Name) and e.id == name
            if isinstance(c, ast.Subscript) and isinstance(c.ctx, (ast.Store, ast.Del)) and is_n(c.value):
                out.append((c.lineno, infn))
            if isinstance(c, ast.AugAssign) and (is_n(c.target) or (isinstance(c.target, ast.Subscript) and is_n(c.target.value))):
                out.append((c.lineno, infn))
            if isinstance(c, ast.Call) and isinstance(c.func, ast.Attribute) and c.func.attr in MUTATORS and is_n(c.func.value):
                out.append((c.lineno, infn))
            if isinstance(c, ast.Global) and name in c.names:
                out.append((c.lineno, True))
            visit(c, inner)
    visit(tree, False)
    return out


# ---- where does a module-level container GO inside function bodies (aliases, call arguments, returns ...)
READ_METHODS = {"get", "items", "keys", "values", "copy", "index", "count", "__contains__", "__getitem__", "__len__", "__iter__",
                "issubset", "issuperset", "isdisjoint", "union", "intersection", "difference", "symmetric_difference"}
READ_CONSUMERS = {"len", "sorted", "list", "tuple", "set", "frozenset", "dict", "iter", "enumerate", "zip", "any", "all", "min", "max", "sum",
                  "bool", "isinstance", "reversed", "map", "filter", "repr", "str", "type", "id", "print"}
_FN_TYPES = (ast.FunctionDef, ast.AsyncFunctionDef)
_ESC_DEPTH = 4


def _parents(tree):
    par = {}
    for p in ast.walk(tree):
        for c in ast.iter_child_nodes(p):
            par[c] = p
    return par


def _own_walk(fn):
    """nodes of the body of fn, nested function bodies included (closures see the same binding)"""
    for st in fn.body if isinstance(fn.body, list) else [fn.body]:
        yield from ast.walk(st)


def _binds_locally(fn, name):
    """does the function bind `name` itself (parameter / assignment without `global`): then the name is not the module-level one"""
    if isinstance(fn, ast.Lambda):
        return name in [a.arg for a in fn.args.posonlyargs + fn.args.args + fn.args.kwonlyargs]
    if any(isinstance(n, ast.Global) and name in n.names for n in ast.walk(fn)):
        return False
    a = fn.args
    if name in [x.arg for x in a.posonlyargs + a.args + a.kwonlyargs + ([a.vararg] if a.vararg else []) + ([a.kwarg] if a.kwarg else [])]:
        return True
    stack = list(fn.body)
    while stack:
        n = stack.pop()
        if isinstance(n, _FN_TYPES + (ast.Lambda, ast.ClassDef)):
            continue
        if isinstance(n, ast.Name) and n.id == name and isinstance(n.ctx, (ast.Store, ast.Del)):
            return True
        stack.extend(ast.iter_child_nodes(n))
    return False


class _Escapes:
    """Follows an object bound to a name through the function bodies that can see it.  `hits` collects (file, line, what) for every use that
    writes the object or hands it to code this analysis cannot follow (fail-closed); plain reads are dropped."""

    def __init__(self, repo):
        self.repo = repo
        self.hits = []
        self._trees = {}
        self._seen = set()

    def tree(self, rel):
        if rel not in self._trees:
            t = ast.parse(open(os.path.join(self.repo, rel)).read())
            self._trees[rel] = (t, _parents(t))
        return self._trees[rel]

    def hit(self, rel, n, what):
        self.hits.append((rel, getattr(n, "lineno", 0), what))

    # -- resolve a callee expression to (rel, FunctionDef, number of leading parameters bound implicitly)
    def resolve(self, rel, func, depth=0):
        tree, _p = self.tree(rel)
        if isinstance(func, ast.Name):
            return self.lookup(rel, func.id, depth)
        if isinstance(func, ast.Attribute) and isinstance(func.value, ast.Name):
            imp = _imports_of(tree, rel)
            if func.value.id in imp:
                f = _module_file(self.repo, imp[func.value.id])
                if f:
                    return self.lookup(os.path.relpath(f, self.repo), func.attr, depth)
        return None

    def lookup(self, rel, name, depth=0):
        if depth > 4:
            return None
        tree, _p = self.tree(rel)
        for n in tree.body:
            if isinstance(n, _FN_TYPES) and n.name == name:
                return rel, n, 0, None
            if isinstance(n, ast.ClassDef) and n.name == name:
                init = [m for m in n.body if isinstance(m, _FN_TYPES) and m.name == "__init__"]
                post = [m for m in n.body if isinstance(m, _FN_TYPES) and m.name == "__post_init__"]
                if init and not post:
                    return rel, init[0], 1, n
                return None
        imp = _imports_of(tree, rel)
        if name in imp:
            dotted = imp[name]
            f = _module_file(self.repo, dotted)
            if f:                                              # `from x import module`
                return None
            mod, _dot, attr = dotted.rpartition(".")
            f = _module_file(self.repo, mod)
            if f:
                return self.lookup(os.path.relpath(f, self.repo), attr, depth + 1)
        return None

    # -- every use of `name` inside the function `fn` of module `rel`
    def follow_in_function(self, rel, fn, name, depth, cls=None, via=""):
        key = (rel, getattr(fn, "lineno", 0), name)
        if key in self._seen:
            return
        self._seen.add(key)
        _t, par = self.tree(rel)
        for n in _own_walk(fn):
            if isinstance(n, ast.Name) and n.id == name:
                self.use(rel, fn, n, par, depth, cls, via)

    def use(self, rel, fn, n, par, depth, cls, via):
        name = n.id
        p = par.get(n)
        g = par.get(p)
        tag = f"{name}{via}"
        if isinstance(n.ctx, (ast.Store, ast.Del)):
            if isinstance(p, ast.AugAssign) and p.target is n:
                self.hit(rel, n, f"{tag}: augmented assignment (in-place for containers)")
            return                                             # rebinding a local name: the uses stay attributed to the container (over-approximation)
        if isinstance(p, ast.AugAssign) and p.target is n:
            self.hit(rel, n, f"{tag}: augmented assignment (in-place for containers)")
            return
        if isinstance(p, ast.Subscript) and p.value is n:
            if isinstance(p.ctx, (ast.Store, ast.Del)) or (isinstance(g, ast.AugAssign) and g.target is p):
                self.hit(rel, n, f"{tag}: item store")
            return
        if isinstance(p, ast.Attribute) and p.value is n:
            if isinstance(g, ast.Call) and g.func is p:
                if p.attr in READ_METHODS:
                    return
                self.hit(rel, n, f"{tag}: method .{p.attr}(...)" + (" mutates it" if p.attr in MUTATORS else " is not a known read"))
                return
            self.hit(rel, n, f"{tag}: attribute .{p.attr} taken")
            return
        if isinstance(p, ast.Compare):
            return
        if isinstance(p, (ast.For, ast.AsyncFor, ast.comprehension)) and p.iter is n:
            return
        if isinstance(p, (ast.BoolOp, ast.UnaryOp, ast.BinOp, ast.FormattedValue, ast.Assert)):
            return
        if isinstance(p, (ast.If, ast.While, ast.IfExp)) and p.test is n:
            return
        if isinstance(p, ast.Starred) and isinstance(g, ast.Call):
            return
        if isinstance(p, ast.keyword) and p.arg is None and isinstance(g, ast.Call):
            return                                             # f(**d): unpacked into a fresh dict
        if (isinstance(p, ast.Assign) and p.value is n and len(p.targets) == 1) or (isinstance(p, ast.AnnAssign) and p.value is n):
            t = p.targets[0] if isinstance(p, ast.Assign) else p.target
            if isinstance(t, ast.Name):                        # local alias
                if t.id != name:
                    self.follow_in_function(rel, fn, t.id, depth, cls, via + f" (as {t.id})")
                return
            if isinstance(t, ast.Attribute) and _is_self(t.value) and cls is not None and getattr(fn, "name", "") in CTOR_NAMES:
                lw = _later_written(cls).get(t.attr)
                if lw:
                    self.hit(rel, n, f"{tag}: kept as self.{t.attr} of {cls.name}, which {sorted(lw)} write")
                return
            self.hit(rel, n, f"{tag}: stored into {ast.unparse(t)}")
            return
        call, kw = (p, None) if isinstance(p, ast.Call) else ((g, p.arg) if isinstance(p, ast.keyword) and isinstance(g, ast.Call) else (None, None))
        if call is not None and (n in call.args or kw is not None):
            ftxt = ast.unparse(call.func)
            if ftxt in READ_CONSUMERS or ftxt.split(".")[-1] in ("isinstance",):
                return
            r = self.resolve(rel, call.func) if depth < _ESC_DEPTH else None
            if r is None:
                self.hit(rel, n, f"{tag}: passed to {ftxt}(...), which this analysis cannot follow")
                return
            crel, cfn, skip, ccls = r
            a = cfn.args
            pos = [x.arg for x in a.posonlyargs + a.args][skip:]
            if kw is not None:
                pname = kw if kw in pos + [x.arg for x in a.kwonlyargs] else None
            else:
                i = call.args.index(n)
                pname = pos[i] if i < len(pos) and not any(isinstance(x, ast.Starred) for x in call.args[:i]) else None
            if pname is None:
                self.hit(rel, n, f"{tag}: passed to {ftxt}(...) in a position this analysis cannot name")
                return
            self.follow_in_function(crel, cfn, pname, depth + 1, ccls, via + f" -> {cfn.name if ccls is None else ccls.name}({pname})")
            return
        self.hit(rel, n, f"{tag}: escapes through <{type(p).__name__}> {ast.unparse(p)[:60]!r}")


def _container_escapes(repo, rel, name):
    """(file, line, what) for every in-function use of the module-level container `name` of module `rel` that writes it through an alias /
    a callee, or lets it escape to code that is not followed.  Direct writes are reported by _name_mutations."""
    e = _Escapes(repo)
    tree, par = e.tree(rel)

    def visit(n, fns):
        for c in ast.iter_child_nodes(n):
            if isinstance(c, _FN_TYPES + (ast.Lambda,)):
                if _binds_locally(c, name):
                    continue
                visit(c, fns + [c])
                continue
            if fns and isinstance(c, ast.Name) and c.id == name and isinstance(c.ctx, ast.Load):
                cls = None
                q = fns[0]
                if isinstance(par.get(q), ast.ClassDef):
                    cls = par[q]
                e.use(rel, fns[-1], c, par, 0, cls, "")
            visit(c, fns)
    visit(tree, [])
    direct = ("item store", "augmented assignment", "mutates it")
    return [(r, l, w) for r, l, w in e.hits if not (r == rel and " (as " not in w and " -> " not in w and any(d in w for d in direct))]


def _foreign_container_writes(repo, trees, rel, name):
    """uses of the module-level container `name` of module `rel` from the OTHER scanned modules (`from mod import NAME`, `mod.NAME`)
    that are not plain reads"""
    dotted = rel[:-3].replace("/", ".")
    if dotted.endswith(".__init__"):
        dotted = dotted[:-len(".__init__")]
    out = []
    for rel2, tree2 in trees.items():
        if rel2 == rel:
            continue
        imp = _imports_of(tree2, rel2)
        for local, target in imp.items():
            if target == dotted + "." + name:                  # from mod import NAME [as local]
                out += [(rel2, l, f"{local}: direct write") for l, _i in _name_mutations(tree2, local)]
                out += _container_escapes(repo, rel2, local)
        mods = {local for local, target in imp.items() if target == dotted}
        if not mods:
            continue
        par = _parents(tree2)
        for n in ast.walk(tree2):
            if isinstance(n, ast.Attribute) and n.attr == name and isinstance(n.value, ast.Name) and n.value.id in mods:
                p = par.get(n)
                g = par.get(p)
                if isinstance(n.ctx, (ast.Store, ast.Del)):
                    out.append((rel2, n.lineno, f"{ast.unparse(n)} rebound"))
                elif isinstance(p, ast.Subscript) and p.value is n and isinstance(p.ctx, ast.Load) and not (isinstance(g, ast.AugAssign) and g.target is p):
                    continue
                elif isinstance(p, ast.Attribute) and isinstance(g, ast.Call) and g.func is p and p.attr in READ_METHODS:
                    continue
                elif isinstance(p, ast.Compare) or (isinstance(p, (ast.For, ast.comprehension)) and p.iter is n):
                    continue
                elif isinstance(p, ast.Call) and n in p.args and ast.unparse(p.func) in READ_CONSUMERS:
                    continue
                else:
                    out.append((rel2, n.lineno, f"{ast.unparse(n)} used as <{type(p).__name__}> {ast.unparse(p)[:50]!r}"))
    return out


def _class_mutators(cls):
    """names of the methods (other than constructors) that store into / mutate fields of self"""
    res = set()
    for m in cls.body:
        if not isinstance(m, (ast.FunctionDef, ast.AsyncFunctionDef)) or m.name in ("__init__", "__new__", "__post_init__"):
            continue
        for n in ast.walk(m):
            if isinstance(n, ast.Attribute) and _is_self(n.value) and isinstance(n.ctx, (ast.Store, ast.Del)):
                res.add(m.name)
            if isinstance(n, ast.Subscript) and isinstance(n.ctx, (ast.Store, ast.Del)) and _field_root(n.value, {}) is not None:
                res.add(m.name)
            if isinstance(n, ast.Call) and isinstance(n.func, ast.Attribute) and n.func.attr in MUTATORS and _field_root(n.func.value, {}) is not None:
                res.add(m.name)
            if isinstance(n, ast.AugAssign) and isinstance(n.target, ast.Attribute) and _is_self(n.target.value):
                res.add(m.name)
    return res


def _module_file(repo, dotted):
    p = os.path.join(repo, *dotted.split("."))
    if os.path.exists(p + ".py"):
        return p + ".py"
    if os.path.exists(os.path.join(p, "__init__.py")):
        return os.path.join(p, "__init__.py")
    return None


def _imports_of(tree, rel):
    """local name -> dotted onnxscript module it denotes"""
    pkg = rel[:-3].replace("/", ".").rsplit(".", 1)[0]
    out = {}
    for n in tree.body:
        if isinstance(n, ast.Import):
            for a in n.names:
                if a.name.startswith("onnxscript"):
                    out[a.asname or a.name] = a.name
        elif isinstance(n, ast.ImportFrom):
            base = n.module or ""
            if n.level:
                parts = (rel[:-3].replace("/", ".")).split(".")
                base = ".".join(parts[:len(parts) - n.level] + ([n.module] if n.module else []))
            if base.startswith("onnxscript"):
                for a in n.names:
                    out[a.asname or a.name] = base + "." + a.name
    return out


def process_state(repo, rule_names=(), memos=(), files=None, strict=None):
    """files: the modules to scan (default STATE_FILES); strict: those among them where an unknown shape is a translator problem
    (default: all) -- elsewhere an unknown shape only yields an Uncontrolled site."""
    sites, problems = [], []
    files = list(files) if files is not None else list(STATE_FILES)
    strict = set(files) if strict is None else set(strict)
    rule_by_class = {}
    for r in rule_names:          # "rules/common/_basic_rules:ReshapeReshape"
        mod, cls = r["name"].split(":") if isinstance(r, dict) else r.split(":")
        rule_by_class[("onnxscript/rewriter/" + mod + ".py", cls)] = r["ident"] if isinstance(r, dict) else None

    def add(rel, name, disc, why):
        sites.append({"module": rel[len("onnxscript/"):-3], "name": name, "disc": disc, "why": why})

    for rel in files:
        path = os.path.join(repo, rel)
        if not os.path.exists(path):
            problems.append(f"{rel}: file not found")
            continue
        tree = ast.parse(open(path).read())
        classes = {n.name: n for n in tree.body if isinstance(n, ast.ClassDef)}
        imports = _imports_of(tree, rel)
        local_fns = {n.name: n for n in tree.body if isinstance(n, (ast.FunctionDef, ast.AsyncFunctionDef))}

        def unknown(msg):
            if rel in strict:
                problems.append(msg)

        def find_class(func):
            """class node constructed by the call expression `func(...)`, or None"""
            if isinstance(func, ast.Name) and func.id in classes:
                return classes[func.id], rel
            dotted = None
            if isinstance(func, ast.Attribute) and isinstance(func.value, ast.Name) and func.value.id in imports:
                dotted, cname = imports[func.value.id], func.attr
            elif isinstance(func, ast.Name) and func.id in imports:
                dotted, cname = imports[func.id].rsplit(".", 1)
            if dotted:
                f = _module_file(repo, dotted)
                if f:
                    for n in ast.parse(open(f).read()).body:
                        if isinstance(n, ast.ClassDef) and n.name == cname:
                            return n, os.path.relpath(f, repo)
            return None, None

        def classify_value(name, v, lineno):
            txt = ast.unparse(v.func) if isinstance(v, ast.Call) else ""
            if isinstance(v, (ast.Constant, ast.Tuple, ast.Subscript, ast.BinOp, ast.UnaryOp, ast.JoinedStr, ast.Lambda)):
                return None
            if isinstance(v, (ast.Name, ast.Attribute)):
                return None                                   # alias of an object classified where it is created
            if isinstance(v, ast.Call) and (txt in IMMUTABLE_CALLS or txt.startswith("math.") or txt in ("float", "int", "str", "bool", "os.getenv")):
                return None
            if isinstance(v, (ast.Compare, ast.BoolOp, ast.IfExp)) and not any(isinstance(x, (ast.List, ast.Dict, ast.Set)) for x in ast.walk(v)):
                return None
            if isinstance(v, (ast.List, ast.Dict, ast.Set, ast.ListComp, ast.DictComp, ast.SetComp)) or txt in CONTAINER_CALLS:
                muts = [m for m in _name_mutations(tree, name)]
                if any(infn for _l, infn in muts):
                    return ("Uncontrolled", f"container mutated at run time (lines {[l for l, i in muts if i]})")
                # the object reached through a local alias (`c = NAME; c[k] = v`), a callee's parameter, a return value ...: every use inside a
                # function body that is not a plain read is followed (bounded depth) and is a write unless shown otherwise
                esc = _container_escapes(repo, rel, name)
                if esc:
                    return ("Uncontrolled", "container written through an alias / handed to code that may write it: "
                            + "; ".join(f"{r_}:{l_} {w_}" for r_, l_, w_ in esc[:3]))
                return ("WriteOnceAtImport", "container never mutated inside a function of its module (direct uses, local aliases and callees followed)")
            if txt in COUNTER_CALLS:
                return ("Uncontrolled", "process-wide counter")
            if isinstance(v, ast.Call):
                last = txt.split(".")[-1]
                rcls = None
                if last == "rule" and isinstance(v.func, ast.Attribute):
                    if isinstance(v.func.value, ast.Name) and v.func.value.id in classes:
                        rcls = v.func.value.id                              # Cls.rule(...)
                    elif isinstance(v.func.value, ast.Call) and isinstance(v.func.value.func, ast.Name) and v.func.value.func.id in classes:
                        rcls = v.func.value.func.id                         # Cls(...).rule(...)
                if rcls is not None:
                    ident = rule_by_class.get((rel, rcls))
                    if ident is None:
                        problems.append(f"{rel}:{lineno}: rule object {name} of class {rcls} which rule_cfgs did not translate")
                        return ("Uncontrolled", "rule class not translated")
                    return ("RuleObject:" + ident, "rule object: per-match fields, must-definition check of its class")
                if last == "RewriteRule" and txt in ("pattern.RewriteRule", "orp.RewriteRule", "RewriteRule", "_rewrite_rule.RewriteRule"):
                    rr = os.path.join(repo, BASE_FILES[0])
                    rrc = [c for c in ast.parse(open(rr).read()).body if isinstance(c, ast.ClassDef) and c.name == "RewriteRule"]
                    if rrc and not _class_mutators(rrc[0]):
                        return ("WriteOnceAtImport", "instance of RewriteRule: no method stores into self after construction")
                if isinstance(v.func, ast.Name) and v.func.id in local_fns:
                    # a module-level helper: classify what it returns (one level)
                    rets = [r.value for r in ast.walk(local_fns[v.func.id]) if isinstance(r, ast.Return) and r.value is not None]
                    inner = {d.name for d in ast.walk(local_fns[v.func.id]) if isinstance(d, (ast.FunctionDef, ast.AsyncFunctionDef))} - {v.func.id}
                    if rets and all(isinstance(r, (ast.Compare, ast.Constant, ast.Lambda)) or (isinstance(r, ast.Name) and r.id in inner) for r in rets):
                        return None                                        # a bool / a constant / a closure
                    fn_assign = {}
                    for a_ in ast.walk(local_fns[v.func.id]):
                        if isinstance(a_, ast.Assign) and len(a_.targets) == 1 and isinstance(a_.targets[0], ast.Name):
                            fn_assign.setdefault(a_.targets[0].id, []).append(a_.value)
                    rets = [fn_assign[r.id][0] if isinstance(r, ast.Name) and len(fn_assign.get(r.id, [])) == 1 else r for r in rets]
                    if rets and all(isinstance(r, ast.Call) and ast.unparse(r.func).split(".")[-1] == "RewriteRuleSet" for r in rets):
                        return ("RuleSet", "rule-set object built by a module-level helper: naming state re-initialised by apply_to_model")
                if last == "RewriteRuleSet" or last == "apply_fusion_rules":
                    return ("RuleSet", "rule-set object: naming state re-initialised by apply_to_model (must-definition check of RewriteRuleSet.apply_to_model)")
                cls, crel = find_class(v.func)
                if cls is not None:
                    mut = _class_mutators(cls)
                    if not mut:
                        return ("WriteOnceAtImport", f"instance of {cls.name}: no method stores into self after construction")
                    if mut <= {"register"}:
                        uses = [n for n in ast.walk(tree) if isinstance(n, ast.Attribute) and n.attr == "register" and isinstance(n.value, ast.Name) and n.value.id == name]
                        top_alias = [n for n in tree.body if isinstance(n, ast.Assign) and any(u is n.value for u in uses)]
                        if len(uses) == len(top_alias):
                            alias = {t.id for a in top_alias for t in a.targets if isinstance(t, ast.Name)}
                            infn = [n for f in ast.walk(tree) if isinstance(f, (ast.FunctionDef, ast.AsyncFunctionDef)) for b in f.body for n in ast.walk(b)
                                    if isinstance(n, ast.Call) and isinstance(n.func, ast.Name) and n.func.id in alias]
                            if not infn:
                                return ("WriteOnceAtImport", f"registry {cls.name}: filled by register decorators while the module is imported, only read afterwards")
                        return ("Uncontrolled", f"registry {cls.name} written at run time")
                    if cls.name in MEMO_CLASSES:
                        ms = [m for m in memos if m["owner"] == cls.name]
                        if ms and all(set(m["fun"]) <= set(m["key"]) for m in ms):
                            return ("KeyedBy:" + ",".join(ms[0]["key"]) + ":" + ",".join(ms[0]["fun"]), "memo tables of " + cls.name)
                    return ("Uncontrolled", f"instance of {cls.name}: methods {sorted(mut)} store into self")
                unknown(f"{rel}:{lineno}: module-level object {name} = {txt}(...) of a shape this translator does not know")
                return ("Uncontrolled", f"unknown constructor {txt}")
            unknown(f"{rel}:{lineno}: module-level assignment {name} = <{type(v).__name__}> of a shape this translator does not know")
            return ("Uncontrolled", "unknown shape")

        for n in tree.body:
            if isinstance(n, (ast.Assign, ast.AnnAssign)):
                if n.value is None:
                    continue
                tgts = n.targets if isinstance(n, ast.Assign) else [n.target]
                for t in tgts:
                    if not isinstance(t, ast.Name):
                        problems.append(f"{rel}:{n.lineno}: module-level store into {ast.unparse(t)}")
                        continue
                    r = classify_value(t.id, n.value, n.lineno)
                    if r is not None:
                        add(rel, t.id, r[0], r[1])
            elif isinstance(n, ast.AugAssign):
                problems.append(f"{rel}:{n.lineno}: module-level augmented assignment")
            elif isinstance(n, ast.ClassDef):
                for m in n.body:
                    if isinstance(m, (ast.Assign, ast.AnnAssign)) and m.value is not None:
                        tg = (m.targets[0] if isinstance(m, ast.Assign) else m.target)
                        v = m.value
                        txt = ast.unparse(v.func) if isinstance(v, ast.Call) else ""
                        if isinstance(v, (ast.Constant, ast.Tuple, ast.Name, ast.Attribute, ast.Subscript, ast.BinOp, ast.Lambda)) or txt in IMMUTABLE_CALLS \
                                or (isinstance(v, ast.Call) and txt.split(".")[-1] in ("field", "property", "staticmethod", "classmethod", "auto")):
                            continue
                        if not isinstance(tg, ast.Name):
                            problems.append(f"{rel}:{m.lineno}: class-level store into {ast.unparse(tg)}")
                            continue
                        if not (isinstance(v, (ast.Dict, ast.List, ast.Set)) or txt in CONTAINER_CALLS):
                            problems.append(f"{rel}:{m.lineno}: class attribute {n.name}.{tg.id} = {ast.unparse(v)[:40]} of a shape this translator does not know")
                            continue
                        # stores  <cls|self|ClassName>.<attr>[key] = value  in the methods of the class
                        stores = []
                        bad = []
                        for meth in n.body:
                            if not isinstance(meth, (ast.FunctionDef, ast.AsyncFunctionDef)):
                                continue
                            params = [a.arg for a in meth.args.posonlyargs + meth.args.args + meth.args.kwonlyargs if a.arg != "self"]
                            assigns = {}
                            for x in ast.walk(meth):
                                if isinstance(x, ast.Assign) and len(x.targets) == 1 and isinstance(x.targets[0], ast.Name):
                                    assigns.setdefault(x.targets[0].id, []).append(x.value)
                            for x in ast.walk(meth):
                                is_attr = lambda e: isinstance(e, ast.Attribute) and e.attr == tg.id and isinstance(e.value, ast.Name) and e.value.id in ("cls", "self", n.name)
                                if isinstance(x, ast.Subscript) and isinstance(x.ctx, ast.Store) and is_attr(x.value):
                                    key = x.slice
                                    if isinstance(key, ast.Name) and key.id not in params and len(assigns.get(key.id, [])) == 1:
                                        key = assigns[key.id][0]
                                    kn = [y.id for y in ast.walk(key) if isinstance(y, ast.Name)]
                                    if any(k not in params for k in kn):
                                        bad.append(x.lineno)
                                    stores.append((kn, params))
                                elif isinstance(x, ast.Subscript) and isinstance(x.ctx, ast.Del) and is_attr(x.value):
                                    bad.append(x.lineno)
                                elif isinstance(x, ast.Call) and isinstance(x.func, ast.Attribute) and x.func.attr in MUTATORS and is_attr(x.func.value):
                                    bad.append(x.lineno)
                                elif isinstance(x, ast.Attribute) and isinstance(x.ctx, ast.Store) and is_attr(x):
                                    bad.append(x.lineno)
                        if bad:
                            add(rel, f"{n.name}.{tg.id}", "Uncontrolled", f"class-level container mutated in a way that is not a keyed store (lines {bad})")
                        elif not stores:
                            add(rel, f"{n.name}.{tg.id}", "WriteOnceAtImport", "class-level container never written by the methods of the class")
                        else:
                            kn, params = stores[0]
                            if any(s != stores[0] for s in stores):
                                add(rel, f"{n.name}.{tg.id}", "Uncontrolled", "several differently keyed stores")
                            else:
                                add(rel, f"{n.name}.{tg.id}", "KeyedBy:" + ",".join(_dedupe(kn)) + ":" + ",".join(params),
                                    "class-level table: key names / parameters of the storing method")
        # cached functions
        for n in ast.walk(tree):
            if isinstance(n, (ast.FunctionDef, ast.AsyncFunctionDef)):
                for d in n.decorator_list:
                    if _is_cache_decorator(d):
                        ps = [a.arg for a in n.args.posonlyargs + n.args.args + n.args.kwonlyargs]
                        add(rel, n.name + "@" + ast.unparse(d).split("(")[0].split(".")[-1], "KeyedBy:" + ",".join(ps) + ":" + ",".join(ps),
                            "functools cache: keyed by all arguments")
                globs = [g for g in ast.walk(n) if isinstance(g, ast.Global)]
                for g in globs:
                    for gname in g.names:
                        is_cm = any("contextmanager" in ast.unparse(d) for d in n.decorator_list)
                        restored = any(isinstance(t, ast.Try) and any(isinstance(a, ast.Assign) and any(isinstance(tt, ast.Name) and tt.id == gname for tt in a.targets)
                                                                      for fb in t.finalbody for a in ast.walk(fb)) for t in ast.walk(n))
                        if is_cm and restored:
                            add(rel, gname + "@" + n.name, "ScopedRestore", "swapped by a context manager, restored in a finally clause")
                        elif is_cm:
                            add(rel, gname + "@" + n.name, "Uncontrolled", "swapped by a context manager that does not restore it when the body raises (no try/finally)")
                        else:
                            add(rel, gname + "@" + n.name, "Uncontrolled", "module global rebound by a function")
    fl = lambda fs: "[" + "; ".join('"' + f + '"' for f in fs if f) + "]"
    out = ["(* generated by harness/c14_translate.py (process_state) from the module-level / class-level assignments, cache decorators and "
           "`global` statements of " + str(len(files)) + " modules -- do not edit *)",
           "From Coq Require Import List String.", "Require Import OV.Determinism.MustDef OV.Determinism.ProcessState OV.Gen.RuleCfgs.",
           "Import ListNotations.", "Local Open Scope string_scope.", "", "Definition state_sites : list state_site := ["]
    rows = []
    for s in sites:
        d = s["disc"]
        if d.startswith("KeyedBy:"):
            _k, kp, fp = d.split(":")
            dc = f"KeyedBy {fl(kp.split(','))} {fl(fp.split(','))}"
        elif d.startswith("RuleObject:"):
            dc = f"(if rule_ok {d.split(':')[1]} then ResetPerOperation else Uncontrolled)"
        elif d == "RuleSet":
            dc = "(if forallb rule_ok RuleCfgs.ruleset_passes then ResetPerOperation else Uncontrolled)"
        else:
            dc = d
        rows.append(f'  {{| ps_module := "{s["module"]}"; ps_name := "{s["name"]}"; ps_discipline := {dc} |}}')
    out.append(";\n".join(rows))
    out.append("].")
    return "\n".join(out) + "\n", sites, problems


# =============================================================================================
# 5. what the decorator does with an array it evaluates as a script-time constant -> Gen/CapturePolicy.v
# =============================================================================================

CAPTURE_SITES = [
    # (file, class or None, function, variable holding the constant, what consumes it)
    ("onnxscript/_internal/converter.py", "Converter", "_emit_const", "pyvalue", "ir.tensor"),
    ("onnxscript/_internal/converter.py", "Converter", "_translate_attr", "val", "convert_attribute"),
    ("onnxscript/_internal/main.py", None, "_freeze_constant", "value", None),
]
TENSOR_MAKERS = ("ir.tensor", "ir.Tensor", "ir.convenience.convert_attribute", "convert_attribute", "ir.AttrTensor")


def _find_fn(tree, cls, fn):
    body = tree.body
    if cls is not None:
        c = [n for n in body if isinstance(n, ast.ClassDef) and n.name == cls]
        if not c:
            return None
        body = c[0].body
    f = [n for n in body if isinstance(n, (ast.FunctionDef, ast.AsyncFunctionDef)) and n.name == fn]
    return f[0] if f else None


def _isinstance_ndarray(e, var):
    """e is `isinstance(var, np.ndarray)` or `isinstance(var, (.., np.ndarray, ..))` -> list of type names, else None"""
    if not (isinstance(e, ast.Call) and isinstance(e.func, ast.Name) and e.func.id == "isinstance" and len(e.args) == 2):
        return None
    if not (isinstance(e.args[0], ast.Name) and e.args[0].id == var):
        return None
    t = e.args[1]
    names = [ast.unparse(x) for x in (t.elts if isinstance(t, ast.Tuple) else [t])]
    return names if any(n in ("np.ndarray", "numpy.ndarray") for n in names) else None


def capture_policy(repo):
    """For each place where a script-time constant becomes part of the function (tensor constant, attribute value, the
    namespace of the eager function): is an ndarray copied, and under which condition?  Recognised shapes:
        if isinstance(X, np.ndarray): X = X.copy()                          -> CopyAlways
        if isinstance(X, np.ndarray) and X.flags.writeable: X = X.copy()    -> CopyIfWriteable
        if isinstance(X, (.., np.ndarray)): ... return copy.deepcopy(X)     -> CopyAlways (for the listed types)
        no isinstance(X, np.ndarray) test at all                            -> NoCopy
    anything else is reported (fail-closed)."""
    problems, sites = [], []
    trees = {}
    for rel, cls, fn, var, consumer in CAPTURE_SITES:
        path = os.path.join(repo, rel)
        if not os.path.exists(path):
            problems.append(f"{rel}: file not found")
            continue
        tree = trees.setdefault(rel, ast.parse(open(path).read()))
        f = _find_fn(tree, cls, fn)
        name = f"{os.path.basename(rel)[:-3]}:{fn}"
        if f is None:
            problems.append(f"{rel}: function {fn} not found (where are script-time constants captured now?)")
            continue
        tests = []
        for n in ast.walk(f):
            if isinstance(n, ast.If):
                conj = n.test.values if isinstance(n.test, ast.BoolOp) and isinstance(n.test.op, ast.And) else [n.test]
                types = None
                for c in conj:
                    t = _isinstance_ndarray(c, var)
                    if t is not None:
                        types = t
                if types is None:
                    if any("ndarray" in ast.unparse(x) for x in ast.walk(n.test) if isinstance(x, ast.Attribute)):
                        problems.append(f"{rel}:{n.lineno}: {fn}: a test that mentions ndarray has a shape this translator does not know: {ast.unparse(n.test)[:80]}")
                    continue
                others = [c for c in conj if _isinstance_ndarray(c, var) is None]
                copies = [x for b in n.body for x in ast.walk(b)
                          if (isinstance(x, ast.Assign) and len(x.targets) == 1 and isinstance(x.targets[0], ast.Name) and x.targets[0].id == var
                              and ast.unparse(x.value) in (f"{var}.copy()", f"np.array({var}, copy=True)", f"copy.deepcopy({var})"))
                          or (isinstance(x, ast.Return) and x.value is not None and ast.unparse(x.value) in (f"copy.deepcopy({var})", f"{var}.copy()"))]
                if not copies:
                    problems.append(f"{rel}:{n.lineno}: {fn}: `if {ast.unparse(n.test)[:60]}` does not copy {var} in a recognised way")
                    continue
                if not others:
                    pol = "CopyAlways"
                elif len(others) == 1 and ast.unparse(others[0]) == f"{var}.flags.writeable":
                    pol = "CopyIfWriteable"
                else:
                    problems.append(f"{rel}:{n.lineno}: {fn}: the copy of {var} is guarded by a condition this translator does not know: "
                                    f"{' and '.join(ast.unparse(o) for o in others)[:100]}")
                    continue
                tests.append((n.lineno, pol, types))
        # the consumer must come after the copy
        cons = [x.lineno for x in ast.walk(f) if isinstance(x, ast.Call) and consumer and ast.unparse(x.func).endswith(consumer)
                and any(isinstance(a, ast.Name) and a.id == var for a in x.args)]
        if consumer and not cons:
            problems.append(f"{rel}: {fn}: no call {consumer}({var}) found (where does the constant go now?)")
        if len(tests) > 1:
            problems.append(f"{rel}: {fn}: several ndarray tests (lines {[t[0] for t in tests]})")
            continue
        if not tests:
            sites.append({"name": name, "policy": "NoCopy", "types": [], "line": f.lineno})
            continue
        line, pol, types = tests[0]
        if cons and min(cons) < line:
            problems.append(f"{rel}:{min(cons)}: {fn}: {consumer}({var}) is called before the copy at line {line}")
        sites.append({"name": name, "policy": pol, "types": types, "line": line})
    # no other place of the converter builds a tensor from a python value
    for rel in ("onnxscript/_internal/converter.py", "onnxscript/_internal/irbuilder.py"):
        path = os.path.join(repo, rel)
        if not os.path.exists(path):
            continue
        tree = trees.setdefault(rel, ast.parse(open(path).read()))
        allowed = {(r, fn) for r, _c, fn, _v, _k in CAPTURE_SITES}
        for top in ast.walk(tree):
            if isinstance(top, (ast.FunctionDef, ast.AsyncFunctionDef)):
                for x in ast.walk(top):
                    if isinstance(x, ast.Call) and ast.unparse(x.func) in TENSOR_MAKERS and (rel, top.name) not in allowed:
                        inner = [t for t in ast.walk(top) if isinstance(t, (ast.FunctionDef, ast.AsyncFunctionDef)) and t is not top
                                 and any(y is x for y in ast.walk(t))]
                        if not inner:
                            problems.append(f"{rel}:{x.lineno}: {top.name} builds a tensor/attribute from a python value ({ast.unparse(x.func)}) outside the "
                                            "functions whose copy policy is translated")
    out = ["(* generated by harness/c14_translate.py (capture_policy) from converter.py (_emit_const, _translate_attr) and main.py (_freeze_constant) "
           "-- do not edit *)", "From Coq Require Import List String.", "Require Import OV.Determinism.Alias.", "Import ListNotations.",
           "Local Open Scope string_scope.", "", "Definition capture_policies : list (string * policy) := ["]
    out.append(";\n".join(f'  ("{s["name"]}", {s["policy"]})' for s in sites))
    out.append("].")
    return "\n".join(out) + "\n", sites, problems


# =============================================================================================
# 6. inventory of EVERY piece of state that outlives one operation -> Gen/StateInventory.v, Gen/ObjectCfgs.v
# =============================================================================================

INV_EXCLUDE = ("onnx_opset", "function_libs", "tools", "rewriter/models", "testing", "backend", "nn", "_framework_apis")
# objects a user (or a module) keeps across operations: the property's "same decorator, pass and rule objects"
LONG_LIVED = {"FoldConstantsPass", "RewritePass", "ConvertVersionPass", "_ConvertVersionPassRequiresInline", "RewriteRuleSet", "RewriteRule",
              "PatternBase", "RewriteRuleClassBase", "PatternMatcher", "SimplePatternMatcher", "OpsetPatternBuilder", "ValuePattern",
              "NodePattern", "GraphPattern", "Opset", "Op", "OnnxFunction", "TracedOnnxFunction", "PartialEvaluatorRegistry",
              "AdapterRegistry", "Registry", "ORTEvaluator", "ORTMixedEvaluator", "ReferenceEvaluator", "BaseEvaluator"}
# (file, class, entry method, ident): objects whose entry method is reduced to the mini language of MustDef.v like the rule classes
OBJECT_ENTRIES = [
    ("onnxscript/rewriter/_matcher.py", "SimplePatternMatcher", "match", "obj_simple_pattern_matcher"),
    ("onnxscript/version_converter/_version_converter.py", "_VersionConverter", "visit_model", "obj_version_converter"),
]
CTOR_NAMES = ("__init__", "__new__", "__post_init__")


def inventory_files(repo):
    out = []
    root = os.path.join(repo, "onnxscript")
    for dp, _dn, fn in sorted(os.walk(root)):
        rel_dir = os.path.relpath(dp, root).replace(os.sep, "/") + "/"
        if any(("/" + rel_dir).find("/" + x + "/") >= 0 for x in INV_EXCLUDE):
            continue
        for f in sorted(fn):
            if f.endswith(".py") and not f.endswith("_test.py") and not f.endswith("_test_utils.py"):
                out.append(os.path.relpath(os.path.join(dp, f), repo))
    return out


def _later_written(cls):
    """attribute -> {method: [how]} for every store into / mutation of self.<attribute> outside the constructors"""
    later = {}
    for m in cls.body:
        if not isinstance(m, (ast.FunctionDef, ast.AsyncFunctionDef)) or m.name in CTOR_NAMES:
            continue
        if any(ast.unparse(d).endswith(".setter") for d in m.decorator_list):
            continue                                   # property setters: explicit configuration by the user, like the constructor
        for n in ast.walk(m):
            a = how = None
            if isinstance(n, ast.Attribute) and _is_self(n.value) and isinstance(n.ctx, (ast.Store, ast.Del)):
                a, how = n.attr, "store"
            elif isinstance(n, ast.Subscript) and isinstance(n.ctx, (ast.Store, ast.Del)) and isinstance(n.value, ast.Attribute) and _is_self(n.value.value):
                a, how = n.value.attr, "item"
            elif isinstance(n, ast.Call) and isinstance(n.func, ast.Attribute) and n.func.attr in MUTATORS and isinstance(n.func.value, ast.Attribute) \
                    and _is_self(n.func.value.value):
                a, how = n.func.value.attr, n.func.attr
            if a:
                later.setdefault(a, {}).setdefault(m.name, []).append(how)
    return later


def _lazy_memo(cls, attr):
    """every store to self.attr outside the constructors is `self.attr = e` directly under `if self.attr is None:` (or `if not self.attr`)"""
    ok, n_st = True, 0
    for m in cls.body:
        if not isinstance(m, (ast.FunctionDef, ast.AsyncFunctionDef)) or m.name in CTOR_NAMES:
            continue
        if any(ast.unparse(d).endswith(".setter") for d in m.decorator_list):
            continue                                   # an explicit configuration call by the user, like the constructor
        guarded = set()
        early = None
        for st in m.body:                              # `if self.x is not None: return self.x` at the top of the method
            if isinstance(st, ast.If) and ast.unparse(st.test) == f"self.{attr} is not None" and len(st.body) == 1 \
                    and isinstance(st.body[0], ast.Return) and st.body[0].value is not None and ast.unparse(st.body[0].value) == f"self.{attr}":
                early = st.lineno
        if early is not None:
            for n in ast.walk(m):
                if getattr(n, "lineno", 0) > early:
                    guarded.add(id(n))
        for n in ast.walk(m):
            if isinstance(n, ast.If):
                t = ast.unparse(n.test)
                if t in (f"self.{attr} is None", f"not self.{attr}", f"not hasattr(self, '{attr}')"):
                    for b in n.body:
                        for x in ast.walk(b):
                            guarded.add(id(x))
        for n in ast.walk(m):
            if isinstance(n, ast.Attribute) and _is_self(n.value) and n.attr == attr and isinstance(n.ctx, (ast.Store, ast.Del)):
                n_st += 1
                if id(n) not in guarded:
                    ok = False
            if isinstance(n, ast.Call) and isinstance(n.func, ast.Attribute) and n.func.attr in MUTATORS and isinstance(n.func.value, ast.Attribute) \
                    and _is_self(n.func.value.value) and n.func.value.attr == attr:
                ok = False
            if isinstance(n, ast.Subscript) and isinstance(n.ctx, (ast.Store, ast.Del)) and isinstance(n.value, ast.Attribute) and _is_self(n.value.value) \
                    and n.value.attr == attr:
                ok = False
    return ok and n_st > 0


def object_cfgs(repo):
    """entry methods of further long-lived objects in the mini language of MustDef.v -> Gen/ObjectCfgs.v"""
    problems, objs = [], []
    for rel, cname, entry, ident in OBJECT_ENTRIES:
        try:
            tb = Table(repo, [rel])
            ci = tb.by_name[cname][0]
            trn = Translator(tb, ci)
            cfg = simplify(trn.method_cfg(entry))
            init = trn.init_fields()
            written = set(ir_writes(cfg))
            objs.append({"name": f"{rel[len('onnxscript/'):-3]}:{cname}.{entry}", "ident": ident, "config": sorted(init - written), "check": cfg,
                         "rewrite": ("Skip",), "mutable": sorted(written), "reads": sorted(set(ir_reads(cfg))), "rel": rel, "cls": cname})
        except (Problem, KeyError, IndexError) as e:
            problems.append(f"{rel}: {cname}.{entry}: {e}")
    fl = lambda fs: "[" + "; ".join('"' + f + '"' for f in fs) + "]"
    out = ["(* generated by harness/c14_translate.py (object_cfgs): entry methods of long-lived objects other than rule classes -- do not edit *)",
           "From Coq Require Import List String.", "Require Import OV.Determinism.MustDef.", "Import ListNotations.", "Local Open Scope string_scope.", ""]
    for r in objs:
        out.append(f"Definition {r['ident']} : rule :=\n  {{| r_name := \"{r['name']}\";\n     r_config := {fl(r['config'])};\n"
                   f"     r_check :=\n      {to_coq(r['check'], 6)};\n     r_rewrite :=\n      {to_coq(r['rewrite'], 6)} |}}.\n")
    out.append("Definition objects : list rule := [" + "; ".join(r["ident"] for r in objs) + "].\n")
    return "\n".join(out), objs, problems


def state_inventory(repo, rules, memos, objs, experiments=None):
    """Every piece of mutable state that outlives one operation, with the class that makes it harmless (or the named experiments).
    rules: output of rule_cfgs (incl. the pass entries); objs: output of object_cfgs; experiments: {site key: [op ids]}."""
    experiments = experiments or {}
    files = inventory_files(repo)
    problems, sites = [], []
    rn = [r for r in rules if ":" in r["name"] and "." not in r["name"].split(":")[1]]
    _t, msites, mprobs = process_state(repo, rn, memos, files=files, strict=STATE_FILES)
    problems += mprobs

    def add(module, name, cls, why, kind):
        key = f"{module}:{name}"
        if cls == "SNone" and key in experiments:
            cls = "SExperiment [" + "; ".join('"' + o + '"' for o in experiments[key]) + "]"
        sites.append({"module": module, "name": name, "cls": cls, "why": why, "kind": kind})

    fl = lambda fs: "[" + "; ".join('"' + f + '"' for f in fs if f) + "]"
    all_trees = {rel: ast.parse(open(os.path.join(repo, rel)).read()) for rel in files}

    def touched_by_name(name):
        """is an object bound to the module-level name `name` mutated, rebound or used as a method receiver anywhere in the scanned modules"""
        is_n = lambda e: (isinstance(e, ast.Name) and e.id == name) or (isinstance(e, ast.Attribute) and e.attr == name)
        for rel_, t_ in all_trees.items():
            for n in ast.walk(t_):
                if isinstance(n, ast.Global) and name in n.names:
                    return f"{rel_}:{n.lineno}"
                if isinstance(n, (ast.Subscript, ast.Attribute)) and isinstance(n.ctx, (ast.Store, ast.Del)) and is_n(n.value):
                    return f"{rel_}:{n.lineno}"
                if isinstance(n, ast.AugAssign) and is_n(n.target):
                    return f"{rel_}:{n.lineno}"
                if isinstance(n, ast.Call) and isinstance(n.func, ast.Attribute) and is_n(n.func.value):
                    return f"{rel_}:{n.lineno}"
        return None

    for s in msites:
        d = s["disc"]
        if d == "Uncontrolled" and s["why"].startswith("unknown constructor "):
            callee = s["why"].split()[-1].split(".")[-1]
            if callee[:1].islower() or callee[:1] == "_" and callee[1:2].islower():
                where = touched_by_name(s["name"])
                if where is None:
                    add(s["module"], s["name"], "SImport", f"result of the function call {callee}(...) evaluated at import; the name is never rebound, the object never "
                        "stored into and never used as a method receiver in the scanned modules", "module-level")
                    continue
        if d.startswith("KeyedBy:"):
            _k, kp, fp = d.split(":")
            c = f"SKeyed {fl(kp.split(','))} {fl(fp.split(','))}"
        elif d.startswith("RuleObject:"):
            c = f"(if rule_ok {d.split(':')[1]} then SMustDef else SNone)"
        elif d == "RuleSet":
            c = "(if forallb rule_ok RuleCfgs.ruleset_passes then SReset else SNone)"
        elif d == "WriteOnceAtImport":
            c = "SImport"
            if s["why"].startswith("container never mutated") and s["name"] != "__all__":
                foreign = _foreign_container_writes(repo, all_trees, "onnxscript/" + s["module"] + ".py", s["name"])
                if foreign:
                    c = "SNone"
                    s = dict(s, why="container of this module written / handed on by another module: "
                             + "; ".join(f"{r_}:{l_} {w_}" for r_, l_, w_ in foreign[:3]))
        elif d in ("ResetPerOperation", "ScopedRestore"):
            c = "SReset"
        else:
            c = "SNone"
        add(s["module"], s["name"], c, s["why"], "module-level")
    # ---- instance attributes written outside the constructors
    trees = all_trees
    ctor_sites = {}        # class name -> [(rel, lineno, at import?)]
    register_calls = []    # (rel, lineno) of X.register(...) evaluated inside a function body
    for rel, tree in trees.items():
        visit_stmt = None

        def visit(n, infn):
            for c in ast.iter_child_nodes(n):
                inner = infn or isinstance(c, (ast.FunctionDef, ast.AsyncFunctionDef, ast.Lambda))
                if isinstance(c, (ast.FunctionDef, ast.AsyncFunctionDef)):
                    for dflt in c.args.defaults + [d for d in c.args.kw_defaults if d is not None]:
                        for x in ast.walk(dflt):
                            if isinstance(x, ast.Call):
                                ctor_sites.setdefault(ast.unparse(x.func).split(".")[-1], []).append((rel, x.lineno, True))
                    for dec in c.decorator_list:       # decorators run where the def statement runs
                        for x in ast.walk(dec):
                            if isinstance(x, ast.Call):
                                ctor_sites.setdefault(ast.unparse(x.func).split(".")[-1], []).append((rel, x.lineno, not infn))
                            if isinstance(x, ast.Attribute) and x.attr == "register" and infn:
                                register_calls.append((rel, x.lineno))
                    for part in c.body:
                        visit_stmt(part, True)
                    continue
                if isinstance(c, ast.Call):
                    ctor_sites.setdefault(ast.unparse(c.func).split(".")[-1], []).append((rel, c.lineno, not infn))
                    if isinstance(c.func, ast.Attribute) and c.func.attr == "register" and infn:
                        register_calls.append((rel, c.lineno))
                visit(c, inner)

        def visit_stmt(st, infn):
            visit(ast.Module(body=[st], type_ignores=[]), infn)      # a wrapper so that `st` itself is examined
        visit(tree, False)
    rule_by = {}
    for r in rules:
        if ":" in r["name"]:
            mod, cn = r["name"].split(":")
            rule_by[("onnxscript/rewriter/" + mod + ".py", cn)] = r
            rule_by[("onnxscript/" + mod + ".py", cn)] = r
    pass_by = {("onnxscript/optimizer/_constant_folding.py", "FoldConstantsPass"): ("pass_fold_constants", "forallb rule_ok RuleCfgs.passes"),
               ("onnxscript/rewriter/_rewrite_rule.py", "RewriteRuleSet"): ("pass_rule_set", "forallb rule_ok RuleCfgs.ruleset_passes")}
    obj_by = {(o["rel"], o["cls"]): o for o in objs}
    covered = getattr(rule_cfgs, "abstract_covered_by", {})
    all_classes = {}
    for rel, tree in trees.items():
        for cls in [n for n in ast.walk(tree) if isinstance(n, ast.ClassDef)]:
            all_classes.setdefault(cls.name, []).append((rel, cls))
    for rel, tree in trees.items():
        for cls in [n for n in ast.walk(tree) if isinstance(n, ast.ClassDef)]:
            later = _later_written(cls)
            if not later:
                continue
            module = rel[len("onnxscript/"):-3]
            at_import = [(r_, l_) for r_, l_, imp in ctor_sites.get(cls.name, []) if imp]
            subclasses_at_import = []
            for other, lst in all_classes.items():
                for (_r2, c2) in lst:
                    if any(ast.unparse(b).split(".")[-1] == cls.name for b in c2.bases):
                        subclasses_at_import += [(r_, l_) for r_, l_, imp in ctor_sites.get(other, []) if imp]
            for attr, meths in sorted(later.items()):
                name = f"{cls.name}.{attr}"
                how = sorted({h for hs in meths.values() for h in hs})
                r = rule_by.get((rel, cls.name))
                if r is not None:
                    if attr in r.get("caches", []):
                        add(module, name, 'SKeyed ["objects of the model"] ["objects of the model"]',
                            "per-graph cache keyed by objects of the model being rewritten (freshness assumption of the must-definition analysis)", "rule field")
                    elif attr in r["mutable"] or attr in r["reads"] or attr in r["config"]:
                        add(module, name, f"(if rule_ok {r['ident']} then SMustDef else SNone)", "per-match field of a rule class: must-definition check", "rule field")
                    else:
                        add(module, name, "SNone", f"field of rule class {cls.name} written in {sorted(meths)} outside check/rewrite", "rule field")
                    continue
                cov = covered.get(f"{rel}:{cls.name}")
                if cov:
                    ids = [rr["ident"] for rr in rules if ":" in rr["name"] and rr["name"].split(":")[1] in cov and rr["name"].split(":")[0] == module[len("rewriter/"):]]
                    if ids:
                        add(module, name, f"(if forallb rule_ok [{'; '.join(ids)}] then SMustDef else SNone)",
                            f"field of an abstract rule base: must-definition check of its concrete subclasses {cov}", "rule field")
                        continue
                if (rel, cls.name) in pass_by:
                    ident, cond = pass_by[(rel, cls.name)]
                    pr = [rr for rr in rules if rr.get("ident") == ident] or ([rule_cfgs.set_rule] if getattr(rule_cfgs, "set_rule", None) and ident == "pass_rule_set" else [])
                    if pr and (attr in pr[0]["mutable"] or attr in pr[0]["reads"]):
                        add(module, name, f"(if {cond} then SReset else SNone)", f"field of {cls.name}: re-initialised by its entry method (must-definition check)", "pass field")
                    else:
                        add(module, name, "SNone", f"field of {cls.name} written in {sorted(meths)}, not reached from the translated entry method", "pass field")
                    continue
                if (rel, cls.name) in obj_by:
                    o = obj_by[(rel, cls.name)]
                    scoped = not at_import and not subclasses_at_import and cls.name not in LONG_LIVED
                    fallback = "SReset" if scoped else "SNone"
                    if attr in o["mutable"] or attr in o["reads"]:
                        add(module, name, f"(if rule_ok {o['ident']} then SReset else {fallback})",
                            f"field of {cls.name}: written before read by its entry method (must-definition check)"
                            + ("; else: no instance is created at import, every instance belongs to one operation" if scoped else ""), "object field")
                        continue
                if _lazy_memo(cls, attr):
                    add(module, name, 'SKeyed ["self"] ["self"]', "lazily computed once from the object's configuration (`if self.x is None: self.x = ...`)", "lazy field")
                    continue
                if set(meths) == {"register"}:
                    if not register_calls:
                        add(module, name, "SImport", "filled by register(...) decorators / calls evaluated while modules are imported; no register call inside a function", "registry")
                    else:
                        add(module, name, "SNone", f"registry written by register(...) inside functions: {register_calls[:3]}", "registry")
                    continue
                if cls.name not in LONG_LIVED and not at_import and not subclasses_at_import:
                    add(module, name, "SReset", f"no instance of {cls.name} (or of a subclass) is created while a module is imported: every instance is created by, and "
                        f"belongs to, one operation (stores: {how} in {sorted(meths)})", "operation-scoped object")
                    continue
                add(module, name, "SNone", f"attribute of long-lived class {cls.name} written outside the constructor ({how} in {sorted(meths)})"
                    + (f"; instances created at import: {at_import[:2]}" if at_import else ""), "long-lived object")
    out = ["(* generated by harness/c14_translate.py (state_inventory) over " + str(len(files)) + " modules of onnxscript -- do not edit *)",
           "From Coq Require Import List String.",
           "Require Import OV.Determinism.MustDef OV.Determinism.StateClasses OV.Gen.RuleCfgs OV.Gen.ObjectCfgs.",
           "Import ListNotations.", "Local Open Scope string_scope.", "", "Definition inventory : list inv_site := ["]
    out.append(";\n".join(f'  {{| iv_module := "{s["module"]}"; iv_name := "{s["name"]}"; iv_class := {s["cls"]} |}}' for s in sites))
    out.append("].")
    return "\n".join(out) + "\n", sites, problems, files
