(* operator_tables_agree: the converter's primop_map and the Tensor operator methods of eager mode
   (both regenerated from the source into Gen/ScriptTables.v) denote the same ONNX operator for every
   Python operator -- decided by computation over the finite tables.  `%` is the exception (refuted). *)
From Coq Require Import List String Bool.
Require Import OV.Graph.Syntax OV.Script.Syntax OV.Gen.ScriptTables OV.Script.Translate.
Import ListNotations.
Local Open Scope string_scope.

(* Python's data model: which method implements an operator (hand-written: language definition, not onnxscript) *)
Definition dunder : list (string * string) :=
  [("Add", "__add__"); ("Sub", "__sub__"); ("Mult", "__mul__"); ("Div", "__truediv__"); ("Mod", "__mod__");
   ("Pow", "__pow__"); ("MatMult", "__matmul__"); ("BitAnd", "__and__"); ("BitOr", "__or__");
   ("Lt", "__lt__"); ("LtE", "__le__"); ("Gt", "__gt__"); ("GtE", "__ge__"); ("Eq", "__eq__"); ("NotEq", "__ne__");
   ("USub", "__neg__")].

(* reflected methods: `2 + x` calls x.__radd__(2), which must apply the same operator with the operands swapped back *)
Definition reflected : list (string * string) :=
  [("__radd__", "__add__"); ("__rsub__", "__sub__"); ("__rmul__", "__mul__"); ("__rand__", "__and__")].

(* Python operators the converter accepts but no Tensor method can implement (`and`, `or`, `not` are not overloadable) *)
Definition not_overloadable : list string := ["And"; "Or"; "Not"].

Inductive verdict := Agree | Disagree | NoEagerMethod | NoConverterEntry.

Definition compare_op (pyop : string) : verdict :=
  match lookup_assoc pyop primop_map, lookup_assoc pyop dunder with
  | None, _ => NoConverterEntry
  | Some _, None => NoEagerMethod
  | Some onnx, Some m =>
    match lookup_assoc m tensor_methods with
    | None => NoEagerMethod
    | Some (TPlain o swapped) => if String.eqb onnx o && negb swapped then Agree else Disagree
    | Some TNotEqual => if String.eqb onnx "NotEqual" then Agree else Disagree      (* both sides: Equal, then Not *)
    | Some TModByDtype =>
      (* eager: fmod=1 iff the left operand is a float tensor; converter: iff the right operand is a float literal *)
      Disagree
    end
  end.

Definition agrees (pyop : string) : bool := match compare_op pyop with Agree => true | _ => false end.

Definition reflected_ok (p : string * string) : bool :=
  match lookup_assoc (fst p) tensor_methods, lookup_assoc (snd p) tensor_methods with
  | Some (TPlain o1 true), Some (TPlain o2 false) => String.eqb o1 o2
  | _, _ => false
  end.

(* every operator of the converter's table other than `%` and the non-overloadable ones agrees with eager mode *)
Lemma operator_tables_agree_but_mod :
  forallb (fun p => agrees (fst p) || String.eqb (fst p) "Mod" || mem (fst p) not_overloadable) primop_map = true
  /\ forallb reflected_ok reflected = true.
Proof. vm_compute. split; reflexivity. Qed.

(* ... and for `%` the two front ends decide fmod by different criteria: a float tensor on the left with a
   non-literal right operand gets fmod=1 eagerly and no fmod in the graph *)
Definition eager_fmod (left_is_float_tensor : bool) : bool := left_is_float_tensor.
Definition converter_fmod (rule : mod_rule) (right_is_float_literal : bool) : bool :=
  match rule with MFloatLiteralRhs => right_is_float_literal end.

Lemma operator_tables_mod_refuted :
  compare_op "Mod" = Disagree /\
  exists left_is_float right_is_literal,
    eager_fmod left_is_float <> converter_fmod converter_mod_rule right_is_literal
    /\ binop_attrs "Mod" (EVar "y") = [].
Proof.
  split; [vm_compute; reflexivity|]. exists true, false. split; [vm_compute; discriminate | reflexivity].
Qed.
