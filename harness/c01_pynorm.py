"""Sound source-level normalisations shared by the AST translators of C01 / C02
(c01_analysis_py2v.py, c01_tables_py2v.py).

A translator that compares the source with a fixed shape must not raise an alarm on a rewrite that cannot change
what the function computes.  Every rewrite below maps a function to one with the same behaviour (argument given at
each function); anything they do not recognise is left alone, so the translators stay fail-closed.

  flatten(stmts)        `if A: B else: C` where B always leaves the function (return / raise on every path)
                        == `if A: B` followed by C;  statements after a statement that always leaves are dead.
                        (`elif` is already `else: if` in the Python ast.)
  merge_nested_ifs      `if A: (if B: S)` without any else  ==  `if A and B: S`
  split_isinstance      isinstance(x, (A, B))  ==  isinstance(x, A) or isinstance(x, B)   (x a name / attribute chain)
  inline_single_use     `v = E; S` where v is bound once in the function, read once, and that read happens in S before
                        anything but name / attribute / constant loads is evaluated  ==  S[v := E]
  rename_params         positional parameters renamed to given canonical names (no capture; keyword call sites are
                        not followed: a caller passing the old keyword would raise TypeError, which the correspondence
                        streams see)
  alpha_dump(fn)        ast.dump after all of the above plus renaming of every parameter / local by binding position
"""
from __future__ import annotations

import ast
import copy
import re


class NotNormalisable(Exception):
    pass


# ----------------------------------------------------------------------------- control flow

def strip_doc(body):
    if body and isinstance(body[0], ast.Expr) and isinstance(body[0].value, ast.Constant) and isinstance(body[0].value.value, str):
        return body[1:]
    return body


def terminates(stmts):
    """Every path through the statement list ends in return / raise (never falls out of its end)."""
    if not stmts:
        return False
    last = stmts[-1]
    if isinstance(last, (ast.Return, ast.Raise)):
        return True
    if isinstance(last, ast.If):
        return bool(last.orelse) and terminates(last.body) and terminates(last.orelse)
    return False


def flatten(stmts):
    """Early-return chain form (new nodes; the input is not modified)."""
    out = []
    for st in stmts:
        if isinstance(st, ast.If):
            body = flatten(st.body)
            orelse = flatten(st.orelse)
            if orelse and terminates(body):
                out.append(ast.copy_location(ast.If(test=st.test, body=body, orelse=[]), st))
                out.extend(orelse)
            else:
                out.append(ast.copy_location(ast.If(test=st.test, body=body, orelse=orelse), st))
        elif isinstance(st, (ast.For, ast.While)):
            n = copy.copy(st)
            n.body = flatten(st.body)
            n.orelse = flatten(st.orelse)
            out.append(n)
        elif isinstance(st, ast.With):
            n = copy.copy(st)
            n.body = flatten(st.body)
            out.append(n)
        elif isinstance(st, ast.FunctionDef):
            n = copy.copy(st)
            n.body = flatten(st.body)
            out.append(n)
        else:
            out.append(st)
        if terminates(out):
            break       # what follows is unreachable
    return out


def merge_nested_ifs(stmts):
    out = []
    for st in stmts:
        if isinstance(st, ast.If):
            body = merge_nested_ifs(st.body)
            orelse = merge_nested_ifs(st.orelse)
            test = st.test
            while not orelse and len(body) == 1 and isinstance(body[0], ast.If) and not body[0].orelse:
                inner = body[0]
                parts = []
                for t in (test, inner.test):
                    parts.extend(t.values if isinstance(t, ast.BoolOp) and isinstance(t.op, ast.And) else [t])
                test = ast.BoolOp(op=ast.And(), values=parts)
                body = inner.body
            out.append(ast.copy_location(ast.If(test=test, body=body, orelse=orelse), st))
        elif isinstance(st, (ast.For, ast.While, ast.With, ast.FunctionDef)):
            n = copy.copy(st)
            n.body = merge_nested_ifs(st.body)
            if hasattr(st, "orelse") and not isinstance(st, ast.FunctionDef):
                n.orelse = merge_nested_ifs(st.orelse)
            out.append(n)
        else:
            out.append(st)
    return out


def _pure_ref(e):
    while isinstance(e, ast.Attribute):
        e = e.value
    return isinstance(e, ast.Name)


class _SplitIsinstance(ast.NodeTransformer):
    def visit_Call(self, node):
        self.generic_visit(node)
        if (isinstance(node.func, ast.Name) and node.func.id == "isinstance" and len(node.args) == 2 and not node.keywords
                and isinstance(node.args[1], ast.Tuple) and node.args[1].elts and _pure_ref(node.args[0])):
            calls = [ast.Call(func=ast.Name(id="isinstance", ctx=ast.Load()), args=[copy.deepcopy(node.args[0]), c], keywords=[])
                     for c in node.args[1].elts]
            return calls[0] if len(calls) == 1 else ast.BoolOp(op=ast.Or(), values=calls)
        return node

    def visit_BoolOp(self, node):
        self.generic_visit(node)
        vals = []
        for v in node.values:       # or is associative: flatten
            if isinstance(v, ast.BoolOp) and type(v.op) is type(node.op):
                vals.extend(v.values)
            else:
                vals.append(v)
        node.values = vals
        return node


def split_isinstance(node):
    return ast.fix_missing_locations(_SplitIsinstance().visit(node))


def disjuncts(test):
    """The alternatives of a dispatch test: `T1 or T2`, isinstance(x, (A, B))."""
    test = split_isinstance(copy.deepcopy(test))
    if isinstance(test, ast.BoolOp) and isinstance(test.op, ast.Or):
        return list(test.values)
    return [test]


# ----------------------------------------------------------------------------- names

_SCOPES = (ast.FunctionDef, ast.AsyncFunctionDef, ast.Lambda, ast.ClassDef)


def _params(fn):
    a = fn.args
    res = list(a.posonlyargs) + list(a.args)
    if a.vararg:
        res.append(a.vararg)
    res += list(a.kwonlyargs)
    if a.kwarg:
        res.append(a.kwarg)
    return res


def _local_bindings(fn):
    """Names bound in the body of fn (not in nested scopes), in source order; parameters first."""
    names = [p.arg for p in _params(fn)]
    body = fn.body if isinstance(fn.body, list) else [fn.body]

    def walk(n):
        if isinstance(n, (ast.Global, ast.Nonlocal)):
            raise NotNormalisable("global / nonlocal declaration")
        if isinstance(n, _SCOPES):
            return
        if isinstance(n, ast.Name) and isinstance(n.ctx, (ast.Store, ast.Del)):
            if n.id not in names:
                names.append(n.id)
        if isinstance(n, ast.ExceptHandler) and n.name and n.name not in names:
            names.append(n.name)
        for c in ast.iter_child_nodes(n):
            walk(c)
    for st in body:
        walk(st)
    return names


def _binds(scope, name):
    if isinstance(scope, ast.ClassDef):
        return False
    try:
        return name in _local_bindings(scope)
    except NotNormalisable:
        return True


def _params_of_arguments(a):
    res = list(a.posonlyargs) + list(a.args) + list(a.kwonlyargs)
    if a.vararg:
        res.append(a.vararg)
    if a.kwarg:
        res.append(a.kwarg)
    return res


def _rename_free(node, mapping):
    """Rename the occurrences of the names of `mapping` that are free in node (in place): a nested function that
    binds a name itself keeps it."""
    if not mapping:
        return
    if isinstance(node, ast.ClassDef):
        raise NotNormalisable("class definition inside a function")
    if isinstance(node, (ast.FunctionDef, ast.AsyncFunctionDef, ast.Lambda)):
        # defaults and decorators are evaluated in the enclosing scope
        for d in list(node.args.defaults) + [d for d in node.args.kw_defaults if d is not None]:
            _rename_free(d, mapping)
        for d in getattr(node, "decorator_list", []):
            _rename_free(d, mapping)
        inner = {k: v for k, v in mapping.items() if not _binds(node, k)}
        for c in (node.body if isinstance(node.body, list) else [node.body]):
            _rename_free(c, inner)
        return
    if isinstance(node, ast.Name) and node.id in mapping:
        node.id = mapping[node.id]
    elif isinstance(node, ast.ExceptHandler) and node.name in mapping:
        node.name = mapping[node.name]
    for c in ast.iter_child_nodes(node):
        _rename_free(c, mapping)


def _rename_in(fn, mapping, _top=True):
    """Rename parameters / locals of the scope fn itself (in place)."""
    for a in _params_of_arguments(fn.args):
        if a.arg in mapping:
            a.arg = mapping[a.arg]
    for c in (fn.body if isinstance(fn.body, list) else [fn.body]):
        _rename_free(c, mapping)


def _all_identifiers(fn):
    ids = set()
    for n in ast.walk(fn):
        if isinstance(n, ast.Name):
            ids.add(n.id)
        elif isinstance(n, ast.arg):
            ids.add(n.arg)
        elif isinstance(n, (ast.FunctionDef, ast.ClassDef)):
            ids.add(n.name)
    return ids


def _region_ids(fn, old):
    """Every identifier occurring where a renaming of fn's own name `old` reaches: the body of fn and the nested
    functions that do not bind `old` themselves (with their parameters)."""
    ids = set()

    def go(n):
        if isinstance(n, (ast.FunctionDef, ast.AsyncFunctionDef, ast.Lambda)) and n is not fn:
            if isinstance(n, ast.FunctionDef):
                ids.add(n.name)
            for d in list(n.args.defaults) + [d for d in n.args.kw_defaults if d is not None]:
                go(d)
            if _binds(n, old) or not any(isinstance(m, ast.Name) and m.id == old for m in ast.walk(n)):
                return      # the renaming does not enter / changes nothing there
        if isinstance(n, ast.Name):
            ids.add(n.id)
        elif isinstance(n, ast.arg):
            ids.add(n.arg)
        elif isinstance(n, ast.ExceptHandler) and n.name:
            ids.add(n.name)
        elif isinstance(n, ast.ClassDef):
            ids.add(n.name)
        for c in ast.iter_child_nodes(n):
            go(c)
    go(fn)
    return ids


def rename_params(fn, canon):
    """Copy of fn whose first len(canon) positional parameters are called canon[i] (None = leave)."""
    fn = copy.deepcopy(fn)
    pos = list(fn.args.posonlyargs) + list(fn.args.args)
    if len(pos) < len(canon):
        raise NotNormalisable(f"`{fn.name}` has fewer than {len(canon)} positional parameters")
    mapping = {}
    for p, c in zip(pos, canon):
        if c is not None and p.arg != c:
            mapping[p.arg] = c
    if not mapping:
        return fn
    for old, new in mapping.items():
        if new in _region_ids(fn, old) and new not in mapping:
            raise NotNormalisable(f"`{fn.name}`: cannot rename a parameter to `{new}`: the name is in use")
    # simultaneous renaming through fresh intermediates (a swap of two parameter names is a legal rewrite)
    tmp = {old: f"__pn{i}__" for i, old in enumerate(mapping)}
    _rename_in(fn, tmp, True)
    _rename_in(fn, {tmp[old]: new for old, new in mapping.items()}, True)
    return fn


def alpha(fn, depth=0):
    """fn (modified in place) with every parameter / local renamed to _v<depth>_<i> by binding position."""
    names = _local_bindings(fn)
    nested_names = {n.name for n in ast.walk(fn) if isinstance(n, (ast.FunctionDef, ast.ClassDef)) and n is not fn}
    names = [n for n in names if n not in nested_names and n != "self"]
    for n in _all_identifiers(fn):
        if re.fullmatch(r"_v\d+_\d+", n):
            raise NotNormalisable("source uses a canonical name")
    _rename_in(fn, {old: f"_v{depth}_{i}" for i, old in enumerate(names)}, True)

    def nested(n):
        for c in ast.iter_child_nodes(n):
            if isinstance(c, (ast.FunctionDef, ast.Lambda)):
                alpha(c, depth + 1)
            elif not isinstance(c, ast.ClassDef):
                nested(c)
    for st in (fn.body if isinstance(fn.body, list) else [fn.body]):
        if isinstance(st, (ast.FunctionDef, ast.Lambda)):
            alpha(st, depth + 1)
        else:
            nested(st)
    return fn


# ----------------------------------------------------------------------------- single-use locals

def _eval_order(n):
    """Sub-expressions of n in evaluation order, as (node, kind); kind 'leaf' for loads that cannot run user code
    in a way that matters here (names, attribute chains, constants), 'op' for everything else.  Returns None when the
    order is conditional or unknown (and / or, if-expressions, comprehensions, lambdas...)."""
    out = []

    def go(e):
        if isinstance(e, ast.Name):
            out.append((e, "leaf"))
            return True
        if isinstance(e, ast.Constant):
            return True
        if isinstance(e, ast.Attribute):
            if not go(e.value):
                return False
            out.append((e, "leaf"))
            return True
        if isinstance(e, ast.Call):
            if not go(e.func):
                return False
            for a in e.args:
                if isinstance(a, ast.Starred) or not go(a):
                    return False
            for k in e.keywords:
                if k.arg is None or not go(k.value):
                    return False
            out.append((e, "op"))
            return True
        if isinstance(e, ast.BinOp):
            ok = go(e.left) and go(e.right)
            out.append((e, "op"))
            return ok
        if isinstance(e, ast.UnaryOp):
            ok = go(e.operand)
            out.append((e, "op"))
            return ok
        if isinstance(e, ast.Compare) and len(e.ops) == 1:
            ok = go(e.left) and go(e.comparators[0])
            out.append((e, "op"))
            return ok
        if isinstance(e, (ast.Tuple, ast.List, ast.Set)):
            for x in e.elts:
                if isinstance(x, ast.Starred) or not go(x):
                    return False
            out.append((e, "op"))
            return True
        if isinstance(e, ast.Subscript):
            ok = go(e.value) and go(e.slice)
            out.append((e, "op"))
            return ok
        return False
    return out if go(n) else None


def _stmt_expr(st):
    """The expression a simple statement evaluates first (before any store)."""
    if isinstance(st, ast.Return) and st.value is not None:
        return st.value
    if isinstance(st, ast.Expr):
        return st.value
    if isinstance(st, ast.Assign) and all(isinstance(t, ast.Name) for t in st.targets):
        return st.value
    return None


class _Subst(ast.NodeTransformer):
    def __init__(self, name, expr):
        self.name, self.expr = name, expr

    def visit_Name(self, node):
        if node.id == self.name and isinstance(node.ctx, ast.Load):
            return copy.deepcopy(self.expr)
        return node


def inline_single_use(fn, only_returned=False):
    """fn (copy) with `v = E; S` rewritten to S[v := E] wherever the rule of the module docstring applies.
    only_returned: restrict to `v = E; return v`."""
    fn = copy.deepcopy(fn)
    changed = True
    while changed:
        changed = False
        stores, loads = {}, {}
        for n in ast.walk(fn):
            if isinstance(n, ast.Name):
                d = loads if isinstance(n.ctx, ast.Load) else stores
                d[n.id] = d.get(n.id, 0) + 1
            elif isinstance(n, ast.arg):
                stores[n.arg] = stores.get(n.arg, 0) + 2
            elif isinstance(n, (ast.Global, ast.Nonlocal)):
                return fn

        def block(stmts):
            nonlocal changed
            i = 0
            while i + 1 < len(stmts):
                st, nx = stmts[i], stmts[i + 1]
                if (isinstance(st, ast.Assign) and len(st.targets) == 1 and isinstance(st.targets[0], ast.Name)
                        and stores.get(st.targets[0].id) == 1 and loads.get(st.targets[0].id) == 1):
                    v = st.targets[0].id
                    e = _stmt_expr(nx)
                    ok = False
                    if e is not None:
                        if only_returned:
                            ok = isinstance(nx, ast.Return) and isinstance(e, ast.Name) and e.id == v
                        else:
                            order = _eval_order(e)
                            if order is not None:
                                for node, kind in order:
                                    if isinstance(node, ast.Name) and node.id == v:
                                        ok = True
                                        break
                                    if kind != "leaf":
                                        break
                    if ok:
                        stmts[i + 1] = ast.fix_missing_locations(_Subst(v, st.value).visit(nx))
                        del stmts[i]
                        changed = True
                        return
                i += 1
            for st in stmts:
                for fld in ("body", "orelse", "finalbody"):
                    sub = getattr(st, fld, None)
                    if isinstance(sub, list) and sub and isinstance(sub[0], ast.stmt):
                        block(sub)
                        if changed:
                            return
        block(fn.body)
    return fn


# ----------------------------------------------------------------------------- canonical dump

class _DropLocalAnnotations(ast.NodeTransformer):
    """`x: T = E` inside a function is `x = E` (annotations of locals are not evaluated)."""

    def visit_AnnAssign(self, node):
        if node.value is not None and isinstance(node.target, ast.Name):
            return ast.copy_location(ast.Assign(targets=[node.target], value=node.value), node)
        return node


def canonical(fn):
    """Copy of a FunctionDef in canonical form (all rewrites; names by position)."""
    fn = ast.parse(ast.unparse(fn)).body[0]      # fresh tree, normalised positions
    for n in ast.walk(fn):
        if isinstance(n, (ast.FunctionDef, ast.ClassDef)):
            n.body = strip_doc(n.body) or [ast.Pass()]
    for n in ast.walk(fn):      # annotations cannot change what is computed
        if isinstance(n, ast.arg):
            n.annotation = None
        elif isinstance(n, ast.FunctionDef):
            n.returns = None
    fn = _DropLocalAnnotations().visit(fn)
    fn = split_isinstance(fn)
    fn.body = merge_nested_ifs(flatten(fn.body))
    try:
        fn = inline_single_use(fn)
        fn.body = merge_nested_ifs(flatten(fn.body))
        fn = alpha(fn)
    except NotNormalisable:
        pass
    return ast.fix_missing_locations(fn)


def alpha_dump(fn):
    return ast.dump(canonical(fn))


def alpha_dump_stmts(stmts):
    """Canonical dump of a statement list (wrapped into a parameterless function)."""
    f = ast.parse("def _wrapper_():\n    pass").body[0]
    f.body = [copy.deepcopy(s) for s in stmts]
    return alpha_dump(f)
