(* C10 -- the attribute / input readers the adapters are written with (_get_input, _get_int_attribute, _get_str_attribute of
   onnxscript/version_converter/_version_converter.py) and what the three adapters EMIT for the attributes they read.
   Models: Version/Helpers.v (a tiny Python subset + evaluator), Version/Adapters.v; proofs: Version/HelpersProofs.v.
   Tie: harness/c10_helpers.py translates the CURRENT bodies of the three readers (Python ast, fail-closed) and every call the
   module makes to them (caller, attribute name / input index, default) into Gen/VersionHelpers.v; the theorems below are
   re-proved against it on every run.  The attribute grid runs the real converter on every attribute value the adapters read
   (falsy ones included: DFT axis 0 / -r, align_corners 0, epsilon 0.0, empty strings) and compares what was emitted with
   Adapters.v inside Coq (Helpers.emit_disagreeing) next to the before/after onnxruntime / onnx.reference oracle. *)
From Coq Require Import ZArith List Bool String.
Import ListNotations.
Require Import OV.Version.Model OV.Version.Adapters OV.Version.Helpers OV.Gen.VersionHelpers OV.Version.HelpersProofs.
Local Open Scope string_scope.
Local Open Scope Z_scope.

(* ---- the readers as they are written NOW compute the readers of the model, for every node, attribute name and default:
   present and of the right type -> the value (whatever it is: 0 and "" are values); present, other type -> None; absent ->
   the default.  Not covered: attribute objects other than ir.Attr (onnx_ir builds reference attributes as Attr too). *)
Theorem C10_get_int_attribute_translated : forall n name d,
  call n gen_get_int (int_args name d) = Some (of_oz (get_int n name d)).
Proof. exact gen_get_int_exact. Qed.
Print Assumptions C10_get_int_attribute_translated.

Theorem C10_get_str_attribute_translated : forall n name d,
  call n gen_get_str (str_args name d) = Some (of_os (get_str n name d)).
Proof. exact gen_get_str_exact. Qed.
Print Assumptions C10_get_str_attribute_translated.

(* _get_input never raises and yields a value exactly when the input is listed and not None *)
Theorem C10_get_input_translated : forall n i,
  option_map is_value (call n gen_get_input (input_args i)) = Some (present i n).
Proof. exact gen_get_input_exact. Qed.
Print Assumptions C10_get_input_translated.

(* falsy values are kept by the translated readers: explicit 0 / "" whatever the caller's default *)
Theorem C10_readers_keep_falsy_values : forall n name d,
  (lookup name (n_attrs n) = Some (AInt 0) -> call n gen_get_int (int_args name d) = Some (PInt 0)) /\
  (lookup name (n_attrs n) = Some (AStr "") -> call n gen_get_str (str_args name (option_map (fun _ => "x") d)) = Some (PStr "")).
Proof. exact gen_readers_keep_falsy. Qed.
Print Assumptions C10_readers_keep_falsy_values.

(* the hypothesis is not vacuous, and a reader written `attr.value or default` is told apart: it differs from the model's
   reader (witness: axis = 0, default 1) although it agrees on every non-zero value *)
Theorem C10_falsy_reader_refuted : exists n name d,
  call n falsy_reader (int_args name d) <> Some (of_oz (get_int n name d)).
Proof. exact falsy_reader_differs. Qed.
Print Assumptions C10_falsy_reader_refuted.

Theorem C10_falsy_reader_agrees_off_zero : forall n name d z,
  lookup name (n_attrs n) = Some (AInt z) -> z <> 0 ->
  call n falsy_reader (int_args name d) = Some (of_oz (get_int n name d)).
Proof. exact falsy_reader_agrees_off_zero. Qed.
Print Assumptions C10_falsy_reader_agrees_off_zero.

(* ---- every call of the readers in the module, with attribute name and default, is the one the adapter models use
   (the default of DFT `axis` in either variant: Some 1 = repaired, None = before the default-axis repair) *)
Theorem C10_adapter_reads_exact : exists dflt, (dflt = Some 1 \/ dflt = None) /\ reads_eqb gen_reads (model_reads dflt) = true.
Proof. exact gen_reads_exact. Qed.
Print Assumptions C10_adapter_reads_exact.

(* ---- DFT 19 -> 20: the Constant feeding the new axis input holds the attribute when it is present -- 0 included -- and 1
   (the DFT-17 default) only when it is absent *)
Theorem C10_dft_axis_adapter_exact : forall fx n,
  fx_dft_axis fx = true -> n_ins n <> [] ->
  match lookup "axis" (n_attrs n) with
  | Some (AInt a) => emitted_axis (dft_19_20 fx n) = Some a
  | None => emitted_axis (dft_19_20 fx n) = Some 1
  | Some _ => dft_19_20 fx n = ANone
  end.
Proof. exact dft_axis_adapter_exact. Qed.
Print Assumptions C10_dft_axis_adapter_exact.

Theorem C10_dft_axis_one_only_if_one_or_absent : forall fx n,
  fx_dft_axis fx = true -> n_ins n <> [] ->
  (emitted_axis (dft_19_20 fx n) = Some 1 <->
   lookup "axis" (n_attrs n) = Some (AInt 1) \/ lookup "axis" (n_attrs n) = None).
Proof. exact dft_axis_one_only_if. Qed.
Print Assumptions C10_dft_axis_one_only_if_one_or_absent.

(* inverse / onesided: the attribute when present (0 included), 0 when absent *)
Theorem C10_dft_flags_exact : forall fx n a,
  n_ins n <> [] -> get_int n "axis" (dft_axis_default fx) = Some a ->
  emitted_attr "inverse" (dft_19_20 fx n) = option_map AInt (get_int n "inverse" (Some 0)) /\
  emitted_attr "onesided" (dft_19_20 fx n) = option_map AInt (get_int n "onesided" (Some 0)).
Proof. exact dft_flags_exact. Qed.
Print Assumptions C10_dft_flags_exact.

Theorem C10_dft_axis_zero_example :
  let n := Node "DFT" true None false [("axis", AInt 0)] [true] [] [] in
  emitted_axis (dft_19_20 flags_fixed n) = Some 0 /\ dft20_axis 4 (dft_19_20 flags_fixed n) n = Some 0 /\ dft19_axis 4 n = Some 0.
Proof. exact dft_axis_zero_example. Qed.
Print Assumptions C10_dft_axis_zero_example.

(* ---- GridSample 19 -> 20: align_corners / padding_mode of the new node are the attributes when present (0 and the empty
   string included) and the GridSample-16 defaults only when absent; the node is replaced exactly for the two renamed modes;
   an empty mode string is a string, not "absent" *)
Theorem C10_gridsample_attrs_exact : forall n m,
  gridsample_19_20 n = AReplace [m] ->
  lookup "align_corners" (n_attrs m) = option_map AInt (get_int n "align_corners" (Some 0)) /\
  (match lookup "align_corners" (n_attrs n) with
   | Some (AInt z) => lookup "align_corners" (n_attrs m) = Some (AInt z)
   | None => lookup "align_corners" (n_attrs m) = Some (AInt 0)
   | Some _ => lookup "align_corners" (n_attrs m) = None
   end) /\
  (match lookup "padding_mode" (n_attrs n) with
   | Some (AStr s) => lookup "padding_mode" (n_attrs m) = Some (AStr s)
   | None => lookup "padding_mode" (n_attrs m) = Some (AStr "zeros")
   | Some _ => lookup "padding_mode" (n_attrs m) = None
   end).
Proof. exact gridsample_attrs_exact. Qed.
Print Assumptions C10_gridsample_attrs_exact.

Theorem C10_gridsample_replaced_iff : forall n,
  (exists a b r, n_ins n = a :: b :: r) ->
  (replaced (gridsample_19_20 n) = true <->
   get_str n "mode" (Some "linear") = Some "bilinear" \/ get_str n "mode" (Some "linear") = Some "bicubic").
Proof. exact gridsample_replaced_iff. Qed.
Print Assumptions C10_gridsample_replaced_iff.

Theorem C10_gridsample_empty_mode_left_alone : forall n a b r,
  n_ins n = a :: b :: r -> lookup "mode" (n_attrs n) = Some (AStr "") -> gridsample_19_20 n = ANone.
Proof. exact gridsample_empty_mode. Qed.
Print Assumptions C10_gridsample_empty_mode_left_alone.

(* ---- GroupNormalization 20 -> 21 (when the adapter expands): num_groups of the new node is the attribute; epsilon is
   present exactly when it was, with the same payload (0.0 included) -- in the variant with the epsilon repair *)
Theorem C10_groupnorm_attrs_exact : forall fx n g d,
  gn_decide n = GnExpand g d ->
  lookup "num_groups" (n_attrs n) = Some (AInt g) /\
  emitted_attr "num_groups" (groupnormalization_20_21 fx n) = Some (AInt g) /\
  (fx_gn_eps fx = true ->
   emitted_attr "epsilon" (groupnormalization_20_21 fx n) = lookup "epsilon" (n_attrs n)).
Proof. exact groupnorm_attrs_exact. Qed.
Print Assumptions C10_groupnorm_attrs_exact.

Theorem C10_groupnorm_eps_zero_example :
  let n := Node "GroupNormalization" true None false [("epsilon", AFlt 0); ("num_groups", AInt 2)] [true; true; true]
                [DStatic 4; DStatic 2; DStatic 2] [] in
  emitted_attr "epsilon" (groupnormalization_20_21 flags_fixed n) = Some (AFlt 0) /\
  emitted_attr "num_groups" (groupnormalization_20_21 flags_fixed n) = Some (AInt 2).
Proof. exact groupnorm_eps_zero_example. Qed.
Print Assumptions C10_groupnorm_eps_zero_example.
