(* C07: the hypotheses of the soundness theorems are satisfiable on non-trivial instances, for ARBITRARY
   kernel semantics: a non-contiguous match in the main graph, the same match inside an If branch, and a rule
   that keeps the matched nodes (remove_nodes=False). *)
From Coq Require Import List String ZArith Bool Arith Lia.
Require Import OV.Graph.Syntax OV.Graph.Sem OV.Graph.Names OV.Graph.SemProofs.
Require Import OV.Rewrite.Apply OV.Rewrite.ApplyProofs OV.Rewrite.KeepProofs OV.Rewrite.PassProofs.
Import ListNotations.
Local Open Scope string_scope.
Local Open Scope list_scope.

Definition nAbs (x t : string) := Node "" "Abs" [Some x] [t] [] [].
Definition nNeg (x t : string) := Node "" "Neg" [Some x] [t] [] [].
Definition nRelu (x t : string) := Node "" "Relu" [Some x] [t] [] [].
Definition nAdd (x y t : string) := Node "" "Add" [Some x; Some y] [t] [] [].

(* host: the matched Abs and Neg are separated by an unrelated node *)
Definition ex_nodes := [nAbs "x" "t"; nRelu "y" "u"; nNeg "t" "a"; nAdd "a" "u" "o"].
Definition ex_app := App [true; false; true] [nAbs "x" "t2"; nNeg "t2" "a"] true [].
Definition ex_after := [nRelu "y" "u"; nAbs "x" "t2"; nNeg "t2" "a"; nAdd "a" "u" "o"].
Definition ex_X := ["t"; "t2"].

Example ex_apply : apply_nodes ex_app ex_nodes = Some ex_after.
Proof. reflexivity. Qed.

(* keeping rule: the old Neg survives under a dead name, the intermediate t stays available *)
Definition ex_app_keep := App [true; false; true] [nAbs "x" "t2"; nNeg "t2" "a"] false [("a", "a_dead")].
Definition ex_after_keep :=
  [nAbs "x" "t"; nRelu "y" "u"; nNeg "t" "a_dead"; nAbs "x" "t2"; nNeg "t2" "a"; nAdd "a" "u" "o"].
Definition ex_X_keep := ["a_dead"; "t2"].

Example ex_apply_keep : apply_nodes ex_app_keep ex_nodes = Some ex_after_keep.
Proof. reflexivity. Qed.

(* keeping rule where an unmatched node INSIDE the window consumes the intermediate of the kept match: the kept
   nodes cannot be commuted to the end of the window; covered by the keeping theorem (re-execution argument) *)
Definition ex_nodes_k2 := [nAbs "x" "t"; nRelu "t" "w"; nNeg "t" "a"; nAdd "a" "w" "o"].
Definition ex_after_k2 :=
  [nAbs "x" "t"; nRelu "t" "w"; nNeg "t" "a_dead"; nAbs "x" "t2"; nNeg "t2" "a"; nAdd "a" "w" "o"].

Example ex_apply_k2 : apply_nodes ex_app_keep ex_nodes_k2 = Some ex_after_k2.
Proof. reflexivity. Qed.

Example ex_k2_not_movable : movableb (a_mask ex_app_keep) (firstn 3 ex_nodes_k2) = false.
Proof. reflexivity. Qed.

(* the same host inside the then-branch of an If *)
Definition ex_branch := Graph [] [] ex_nodes ["o"].
Definition ex_else := Graph [] [] [nRelu "y" "o2"] ["o2"].
Definition ex_host := Graph ["x"; "y"; "c"] []
  [Node "" "If" [Some "c"] ["r"] [] [("then_branch", ex_branch); ("else_branch", ex_else)]] ["r"].
Definition ex_path : path := [(0, "then_branch")].

Example ex_apply_nested : apply_at ex_path ex_app ex_host =
  Some (Graph ["x"; "y"; "c"] []
    [Node "" "If" [Some "c"] ["r"] [] [("then_branch", Graph [] [] ex_after ["o"]); ("else_branch", ex_else)]] ["r"]).
Proof. reflexivity. Qed.

Definition ex_host_after := Graph ["x"; "y"; "c"] []
    [Node "" "If" [Some "c"] ["r"] [] [("then_branch", Graph [] [] ex_after ["o"]); ("else_branch", ex_else)]] ["r"].

Definition ex_host_k2 := Graph ["x"] [] ex_nodes_k2 ["o"].
Definition ex_host_k2_after := Graph ["x"] [] ex_after_k2 ["o"].

Example ex_check_k2 : check_host [([], ex_app_keep, ["a"])] ex_host_k2 ex_host_k2_after = (0, 1, 0).
Proof. vm_compute. reflexivity. Qed.

(* the replay checker accepts the logged application (what the harness evaluates on the real data) *)
Example ex_check : check_host [(ex_path, ex_app, ["a"])] ex_host ex_host_after = (0, 1, 0).
Proof. vm_compute. reflexivity. Qed.

Example ex_check_X : app_X ex_app ex_nodes ["a"] = ["t"; "t2"].
Proof. reflexivity. Qed.

Section Ex.
  Variable V : Type.
  Variable sem : string -> string -> list (string * attrv) -> list (option V) -> option (list V).
  Variable truth : V -> option bool.
  Variable trip : V -> option nat.
  Variable of_nat : nat -> V.
  Variable of_bool : bool -> V.
  Variable limit : nat.
  Notation eval_graph := (eval_graph V sem truth trip of_nat of_bool limit).
  Notation seg_equiv := (seg_equiv V sem truth trip of_nat of_bool limit).

  Ltac names_neq x :=
    repeat match goal with
           | |- context [String.eqb x ?s] =>
             let E := fresh "E" in destruct (String.eqb x s) eqn:E;
             [apply String.eqb_eq in E; subst x; exfalso; cbn in *; tauto|]
           end.

  (* re-emission of a two-node chain with a fresh intermediate name *)
  Lemma ex_seg : forall ev, seg_equiv ex_X ev [nAbs "x" "t"; nNeg "t" "a"] [nAbs "x" "t2"; nNeg "t2" "a"].
  Proof.
    intros ev e. cbn.
    destruct (lookup e "x") as [v|]; cbn; [|exact I].
    destruct (sem "" "Abs" [] [Some v]) as [[|r [|? ?]]|]; cbn; try exact I.
    destruct (sem "" "Neg" [] [Some r]) as [[|r2 [|? ?]]|]; cbn; try exact I.
    intros x Hx. cbn. unfold ex_X in Hx.
    destruct (String.eqb x "a"); [reflexivity|].
    names_neq x. reflexivity.
  Qed.

  Lemma ex_seg_keep : forall ev, seg_equiv ex_X_keep ev [nAbs "x" "t"; nNeg "t" "a"]
      ([nAbs "x" "t"; nNeg "t" "a_dead"] ++ [nAbs "x" "t2"; nNeg "t2" "a"]).
  Proof.
    intros ev e. cbn.
    destruct (lookup e "x") as [v|] eqn:L; cbn; [|exact I].
    destruct (sem "" "Abs" [] [Some v]) as [[|r [|? ?]]|] eqn:SA; cbn; try exact I.
    destruct (sem "" "Neg" [] [Some r]) as [[|r2 [|? ?]]|] eqn:SN; cbn; try exact I.
    rewrite ?L. cbn. rewrite ?SA. cbn. rewrite ?SN. cbn.
    intros x Hx. cbn. unfold ex_X_keep in Hx.
    destruct (String.eqb x "a"); [reflexivity|].
    names_neq x. reflexivity.
  Qed.

  Example ex_sound_hyps : app_sound_at V sem truth trip of_nat of_bool limit ex_nodes ["o"] ex_app ex_X.
  Proof.
    apply side_okb_sound; [reflexivity|]. intro f. apply ex_seg.
  Qed.

  Example ex_sound_hyps_keep :
    app_sound_at V sem truth trip of_nat of_bool limit ex_nodes ["o"] ex_app_keep ex_X_keep.
  Proof.
    apply side_okb_sound; [reflexivity|]. intro f. apply ex_seg_keep.
  Qed.

  Example ex_keep_hyps :
    keep_sound_at V sem truth trip of_nat of_bool limit ex_nodes ["o"] ex_app_keep ex_X.
  Proof. split; [reflexivity|]. intro f. apply ex_seg. Qed.

  Example ex_keep_hyps_k2 :
    keep_sound_at V sem truth trip of_nat of_bool limit ex_nodes_k2 ["o"] ex_app_keep ex_X.
  Proof. split; [reflexivity|]. intro f. apply ex_seg. Qed.

  Example ex_ok_nested : ok_at V sem truth trip of_nat of_bool limit ex_path ex_app ex_X ex_host.
  Proof. cbn. left. apply ex_sound_hyps. Qed.

  Example ex_pass_ok : pass_ok V sem truth trip of_nat of_bool limit [(ex_path, ex_app, ex_X)] ex_host.
  Proof. cbn. split; [left; apply ex_sound_hyps|exact I]. Qed.

  Example ex_equiv_hyps : equiv_hyps V sem truth trip of_nat of_bool limit [(ex_path, ex_app, ["a"])] ex_host.
  Proof. cbn. split; [intro f; apply ex_seg|exact I]. Qed.

  Example ex_equiv_hyps_k2 :
    equiv_hyps V sem truth trip of_nat of_bool limit [([], ex_app_keep, ["a"])] ex_host_k2.
  Proof. cbn. split; [intro f; apply ex_seg|exact I]. Qed.
End Ex.
