"""C13 generators: tensor-typed ONNX models over standard-domain ops with nested If/Loop (no scan outputs),
function protos, and script-function sources (the documented round trip).

Every generated case is a dict
    {"id", "kind": "model"|"function", "proto", "feeds": [dict...], "profile", "origin", ...}
The structural features the round trip is sensitive to are *not* taken from the generator's book-keeping but
recomputed from the proto by harness/c13.py (`analyze`).  All randomness comes from the rng passed in.

Profiles (what may appear):
  clean     names plain or dirty; while-loops and Ifs; constants never used directly as the source of an emitted
            assignment; initializers plainly named; non-finite values only in constants that are not inlinable
  straight  no control flow                 scollide  straight + planted collisions     sfn  straight, for a FunctionProto
  collide   names planted to coincide after clean-up
  consts    constants everywhere: as loop-carried initial values, trip counts, branch outputs, graph outputs;
            non-finite 0-d/1-d constants; initializers with names needing clean-up
  forloop   counted loops (trip count only)           forcond  trip count + condition / iteration number in a while
  swap      loop bodies returning their own inputs permuted
  fn        like clean, counted loops allowed; meant to be wrapped as a FunctionProto
"""
from __future__ import annotations

import random as _random

import numpy as np
import onnx
from onnx import TensorProto as TP
from onnx import helper as h
from onnx import numpy_helper as nh

OPSET = 18
KEYWORDS_USED = ["if", "for", "lambda", "None", "class", "in", "is", "not", "def", "True", "while", "pass"]


# ------------------------------------------------------------------------------------------------ names

class Names:
    """Fresh raw ONNX value names under a policy: plain | dirty | collide."""

    def __init__(self, rng, policy):
        self.rng = rng
        self.policy = policy
        self.used = set()
        self.k = 0
        self.kw = list(KEYWORDS_USED)
        rng.shuffle(self.kw)
        self.history = []

    def _decorate(self, hint):
        r = self.rng
        self.k += 1
        k = self.k
        if self.policy == "plain":
            return r.choice([f"{hint}{k}", f"{hint}_{k}", f"_{hint}{k}", f"{hint.upper()}{k}"])
        forms = [
            f"layer.{k}.{hint}", f"/model/{hint}/{k}", f"{k}", f"{k}{hint}", f"{hint}:{k}", f"{hint}-{k}",
            f"{hint} {k}", f"__{hint}{k}", f"{hint}_{k}", f"{hint}{k}", f"onnx::{hint}_{k}", f"{hint}.{k}",
            f"{hint}[{k}]", f"%{hint}{k}", f"{hint}{k}'", f"_{hint}_{k}", f"{hint}${k}", f"{hint}@{k}",
        ]
        if self.kw and r.random() < 0.2:
            return self.kw.pop()
        return r.choice(forms)

    def fresh_plain(self, hint="w"):
        for _ in range(50):
            self.k += 1
            name = f"{hint}_{self.k}"
            if name not in self.used:
                self.used.add(name)
                return name
        raise RuntimeError("name generation exhausted")

    def fresh(self, hint="t"):
        r = self.rng
        for _ in range(50):
            name = None
            if self.policy == "collide" and self.history and r.random() < 0.35:
                # plant a name that cleans up to the same identifier as an earlier one
                base = r.choice(self.history)
                cands = []
                for ch in "./:- ":
                    if ch in base:
                        cands.append(base.replace(ch, "_"))
                        cands.append(base.replace(ch, "+"))
                if base[0].isdigit():
                    cands.append("__" + base)
                if "_" in base:
                    cands.append(base.replace("_", ".", 1))
                if base in KEYWORDS_USED:
                    cands.append("r_" + base)
                cands = [c for c in cands if c not in self.used and c != ""]
                if cands:
                    name = r.choice(cands)
            if name is None:
                name = self._decorate(hint)
            if name not in self.used and name != "":
                self.used.add(name)
                self.history.append(name)
                return name
        raise RuntimeError("name generation exhausted")


# ------------------------------------------------------------------------------------------------ builder

def _tensor(arr, name="t"):
    return nh.from_array(np.asarray(arr), name)


def _inlinable(value):
    return value.dtype in (np.float32, np.int64) and (value.ndim == 0 or (value.ndim == 1 and value.shape[0] < 5))


class Builder:
    """Emits the nodes of one (sub)graph; `env` maps kind -> visible value names (outer scope included).
    kinds: v = float tensor of the model's base shape, s = float scalar, b = bool scalar, n = int64 scalar."""

    def __init__(self, gen, env, depth, top=False):
        self.gen = gen
        self.rng = gen.rng
        self.env = {k: list(v) for k, v in env.items()}
        self.depth = depth
        self.top = top
        self.nodes = []
        self.inits = []

    def add(self, kind, name):
        self.env[kind].append(name)
        return name

    def pick(self, kind):
        vals = self.env[kind]
        if not vals:
            return self.emit_scalar() if kind == "s" else (self.emit_bool() if kind == "b" else self.const(kind))
        r = self.rng
        if r.random() < 0.6:
            return vals[-1 - r.randrange(min(3, len(vals)))]
        return r.choice(vals)

    def node(self, op, ins, outs, **attrs):
        n = h.make_node(op, ins, outs, **attrs)
        if op == "Constant":
            self.gen.const_names.add(outs[0])
        if self.rng.random() < self.gen.node_name_p:
            n.name = f"n{len(self.nodes)}_{op}"
        self.nodes.append(n)
        return n

    def source(self, name):
        """`name` is about to become the right-hand side of an emitted Python assignment (loop-carried initial
        value, trip count, start condition, branch output, graph output).  In clean profiles a constant is
        never used there directly."""
        g = self.gen
        if g.clean_consts and (name in g.const_names or name in g.init_names):
            o = g.names.fresh("cp")
            self.node("Identity", [name], [o])
            return o
        return name

    # -- constants
    def const(self, kind, value=None, force=None):
        g, r = self.gen, self.rng
        if kind == "v":
            value = np.asarray(g.rand_vec() if value is None else value, dtype=np.float32)
        elif kind == "s":
            value = np.asarray(r.choice(g.float_pool()) if value is None else value, dtype=np.float32)
        elif kind == "b":
            value = np.asarray(r.random() < 0.5 if value is None else value, dtype=np.bool_)
        else:
            value = np.asarray(r.choice([0, 1, 2, 3, -1, 5]) if value is None else value, dtype=np.int64)
        if g.clean_consts and value.dtype == np.float32 and _inlinable(value) and not np.all(np.isfinite(value)):
            value = np.nan_to_num(value, nan=7.0, posinf=8.0, neginf=-8.0)
        how = force or r.choice(["node", "node", "init", "scalar_attr"])
        if how == "init" and not (self.top and g.allow_inits):
            how = "node"
        if how == "init":
            name = g.names.fresh_plain("w") if g.clean_consts else g.names.fresh("w")
            self.inits.append(_tensor(value, name))
            g.init_names.add(name)
            if value.size > 4 and value.dtype == np.float32:
                g.large_inits.append((name, value))
        else:
            name = g.names.fresh("c")
            if how == "scalar_attr" and value.ndim == 0 and value.dtype == np.float32 and np.isfinite(value):
                self.node("Constant", [], [name], value_float=float(value))
            elif how == "scalar_attr" and value.ndim == 0 and value.dtype == np.int64:
                self.node("Constant", [], [name], value_int=int(value))
            elif how == "scalar_attr" and value.ndim == 1 and value.dtype == np.float32 and np.all(np.isfinite(value)):
                self.node("Constant", [], [name], value_floats=[float(x) for x in value])
            else:
                self.node("Constant", [], [name], value=_tensor(value, name if r.random() < 0.5 else "value"))
        return self.add(kind, name)

    def small_1d(self):
        """a rank-1 constant of the last dimension's length (printed as a Python list when inlined)"""
        g, r = self.gen, self.rng
        k = g.names.fresh("c")
        val = np.array([r.choice(g.float_pool()) for _ in range(g.shape[-1])], dtype=np.float32)
        if g.clean_consts and _inlinable(val):
            val = np.nan_to_num(val, nan=7.0, posinf=8.0, neginf=-8.0)
        self.node("Constant", [], [k], value=_tensor(val, "value"))
        return k

    # -- straight-line nodes
    def emit_vec(self):
        g, r = self.gen, self.rng
        out = g.names.fresh(r.choice(["t", "h", "y", "act"]))
        square = len(g.shape) == 2 and g.shape[0] == g.shape[1]
        choices = ["un", "un", "bin", "bin", "bin", "sc", "clip", "attr", "pow", "where", "opt_out", "bc1d"]
        if square:
            choices += ["matmul", "transpose", "gemm"]
        c = r.choice(choices)
        if c == "un":
            self.node(r.choice(["Neg", "Abs", "Relu", "Tanh", "Identity", "Sigmoid", "Floor"]), [self.pick("v")], [out])
        elif c == "bin":
            self.node(r.choice(["Add", "Sub", "Mul", "Div", "Max", "Min", "Add", "Mul", "Sub"]), [self.pick("v"), self.pick("v")], [out])
        elif c == "bc1d":
            self.node(r.choice(["Add", "Mul", "Sub"]), [self.pick("v"), self.small_1d()], [out])
        elif c == "sc":
            a, b = self.pick("v"), self.pick("s")
            self.node(r.choice(["Add", "Mul", "Sub", "Div"]), [a, b] if r.random() < 0.7 else [b, a], [out])
        elif c == "clip":
            lo = self.const("s", r.choice([-1.0, 0.0, -2.5]), force="node") if r.random() < 0.6 else ""
            hi = self.const("s", r.choice([1.0, 2.0, 6.0]), force="node") if (r.random() < 0.6 or lo == "") else ""
            ins = [self.pick("v"), lo, hi]
            while ins and ins[-1] == "":
                ins.pop()
            self.node("Clip", ins, [out])
        elif c == "attr":
            k = r.choice(["softmax", "leaky", "cast", "hardsig", "elu"])
            if k == "softmax":
                self.node("Softmax", [self.pick("v")], [out], axis=r.choice([-1, 0]))
            elif k == "leaky":
                self.node("LeakyRelu", [self.pick("v")], [out], alpha=r.choice([0.1, 0.25, 0.5]))
            elif k == "cast":
                mid = g.names.fresh("i")
                self.node("Cast", [self.pick("v")], [mid], to=TP.DOUBLE)
                self.node("Cast", [mid], [out], to=TP.FLOAT)
            elif k == "hardsig":
                self.node("HardSigmoid", [self.pick("v")], [out], alpha=0.25, beta=0.5)
            else:
                self.node("Elu", [self.pick("v")], [out], alpha=1.5)
        elif c == "pow":
            e = self.const("n", r.choice([2, 3, 1]), force=r.choice(["node", "init"]))
            base = g.names.fresh("p")
            self.node("Abs", [self.pick("v")], [base])
            self.node("Pow", [base, e], [out])
        elif c == "where":
            m = g.names.fresh("m")
            self.node(r.choice(["Greater", "Less", "Equal"]), [self.pick("v"), self.pick("v")], [m])
            self.node("Where", [m, self.pick("v"), self.pick("v")], [out])
        elif c == "opt_out":
            self.node("Dropout", [self.pick("v")], [out, ""])
        elif c == "matmul":
            self.node("MatMul", [self.pick("v"), self.pick("v")], [out])
        elif c == "transpose":
            self.node("Transpose", [self.pick("v")], [out], perm=[1, 0])
        elif c == "gemm":
            self.node("Gemm", [self.pick("v"), self.pick("v"), self.pick("v")], [out], alpha=0.5, beta=2.0, transB=r.choice([0, 1]))
        return self.add("v", out)

    def emit_scalar(self):
        g, r = self.gen, self.rng
        out = g.names.fresh(r.choice(["s", "sum", "mx"]))
        c = r.choice(["reduce", "reduce", "arith", "fromint"])
        if c == "arith" and self.env["s"]:
            self.node(r.choice(["Add", "Mul", "Sub"]), [self.pick("s"), self.pick("s")], [out])
        elif c == "fromint" and self.env["n"]:
            self.node("Cast", [self.pick("n")], [out], to=TP.FLOAT)
        else:
            self.node(r.choice(["ReduceSum", "ReduceMax", "ReduceMin"]), [self.pick("v")], [out], keepdims=0)
        return self.add("s", out)

    def emit_bool(self):
        g, r = self.gen, self.rng
        out = g.names.fresh(r.choice(["cond", "b", "flag"]))
        c = r.choice(["cmp", "cmp", "cmp", "logic", "not"])
        if c == "logic" and len(self.env["b"]) >= 1:
            self.node(r.choice(["And", "Or"]), [self.pick("b"), self.pick("b")], [out])
        elif c == "not" and self.env["b"]:
            self.node("Not", [self.pick("b")], [out])
        else:
            a = self.pick("s")
            b = self.pick("s") if r.random() < 0.4 else self.const("s", r.choice([0.0, 1.0, -1.0, 10.0]))
            self.node(r.choice(["Greater", "Less", "GreaterOrEqual", "LessOrEqual", "Equal"]), [a, b], [out])
        return self.add("b", out)

    def emit_int(self):
        g, r = self.gen, self.rng
        out = g.names.fresh("k")
        self.node(r.choice(["Add", "Mul", "Sub"]), [self.pick("n"), self.const("n", r.choice([1, 2]))], [out])
        return self.add("n", out)

    # -- control flow
    def emit_if(self):
        g, r = self.gen, self.rng
        cond = self.pick("b") if (self.env["b"] and r.random() < 0.7) else self.emit_bool()
        kinds = [r.choice(["v", "v", "s"]) for _ in range(r.choice([1, 1, 2]))]
        outs = [g.names.fresh("r") for _ in kinds]
        branches = []
        for tag in ("then", "else"):
            b = Builder(g, self.env, self.depth + 1)
            b.block(r.randint(0, 3))
            bouts = []
            for kd in kinds:
                style = r.choice(["computed", "computed", "copy", "const"])
                if style == "const" and not g.clean_consts:
                    o = b.const(kd, force="node")  # a Constant node whose output is directly the branch output
                    b.env[kd].remove(o)
                elif style in ("copy", "const"):
                    o = g.names.fresh("o")
                    b.node("Identity", [b.pick(kd)], [o])
                else:
                    o = b.emit_vec() if kd == "v" else b.emit_scalar()
                bouts.append(o)
            branches.append(h.make_graph(b.nodes, f"{tag}_{g.names.k}", [],
                                         [h.make_tensor_value_info(o, g.elem(kd), g.dims(kd)) for o, kd in zip(bouts, kinds)]))
        if r.random() < 0.5:
            self.node("If", [cond], outs, then_branch=branches[0], else_branch=branches[1])
        else:  # the order of the two attributes is not fixed by ONNX
            self.node("If", [cond], outs, else_branch=branches[1], then_branch=branches[0])
        for o, kd in zip(outs, kinds):
            self.add(kd, o)
        # keep the If alive: onnxscript's converter only creates outputs for variables used afterwards
        use = g.names.fresh("u")
        self.node("Identity", [outs[0]], [use])
        self.add(kinds[0], use)
        return outs

    def emit_loop(self, kind=None):
        """kind: for (trip count only) | while (condition only) | forcond (trip count, condition computed in the
        body) | forpass (trip count + constant-true condition input, passed through) | whileiter (condition only,
        body reads the iteration number)"""
        g, r = self.gen, self.rng
        kind = kind or r.choice(g.loop_kinds)
        nstate = r.choice([1, 1, 2])
        skinds = [r.choice(["v", "v", "s"]) for _ in range(nstate)]
        swap = g.swap_loops and r.random() < 0.7
        if swap:
            skinds = [r.choice(["v", "s"])] * 2
        if kind in ("while", "whileiter"):
            skinds = ["n"] + skinds  # a counter drives termination
        actual = []
        for kd in skinds:
            if kd == "n":
                a = self.const("n", 0, force=r.choice(["node", "node", "init"]))
            elif r.random() < 0.2:
                a = self.const(kd, force="node")
            else:
                a = self.pick(kd)
            actual.append(self.source(a))
        it = g.names.fresh("i")
        cin = g.names.fresh("cond_in")
        formal = [g.names.fresh(r.choice(["st", "acc", "carry"])) for _ in skinds]
        b = Builder(g, self.env, self.depth + 1)
        if kind == "whileiter" or (kind in ("for", "forcond", "forpass") and r.random() < 0.5):
            b.env["n"].append(it)
        for f, kd in zip(formal, skinds):
            b.env[kd].append(f)
        b.block(r.randint(0, 2), allow_loop=self.depth < 1)
        if kind == "whileiter":
            tmp = g.names.fresh("it")
            b.node("Add", [it, b.const("n", 1, force="node")], [tmp])
        fouts = []
        for idx, (f, kd) in enumerate(zip(formal, skinds)):
            o = g.names.fresh("nx")
            if kd == "n":
                b.node("Add", [f, b.const("n", 1, force="node")], [o])
            elif swap:
                o = formal[-1] if idx == len(formal) - 2 else formal[-2]  # the body returns its own inputs, permuted
            else:
                x = b.pick(kd)
                if kd == "v":
                    b.node(r.choice(["Add", "Mul", "Sub", "Max"]), [f, x if x != f else b.const("v")], [o])
                else:
                    b.node(r.choice(["Add", "Mul"]), [f, b.const("s", r.choice([0.5, 1.0, 2.0]))], [o])
            fouts.append(o)
        cout = g.names.fresh("cond_out")
        if kind in ("for", "forpass"):
            b.node("Identity", [cin], [cout])
        elif kind in ("while", "whileiter"):
            lim = b.const("n", r.choice([1, 2, 4]), force="node")
            b.node("Less", [fouts[0], lim], [cout])
        else:  # forcond: stop early when a reduction passes a threshold
            sc = g.names.fresh("chk")
            if skinds[-1] == "v":
                b.node("ReduceSum", [fouts[-1]], [sc], keepdims=0)
            else:
                b.node("Identity", [fouts[-1]], [sc])
            b.node("Less", [sc, b.const("s", r.choice([5.0, 50.0, 1000.0]), force="node")], [cout])
        body = h.make_graph(
            b.nodes, f"body_{g.names.k}",
            [h.make_tensor_value_info(it, TP.INT64, []), h.make_tensor_value_info(cin, TP.BOOL, [])]
            + [h.make_tensor_value_info(f, g.elem(kd), g.dims(kd)) for f, kd in zip(formal, skinds)],
            [h.make_tensor_value_info(cout, TP.BOOL, [])]
            + [h.make_tensor_value_info(o, g.elem(kd), g.dims(kd)) for o, kd in zip(fouts, skinds)])
        if kind in ("while", "whileiter"):
            trip = ""
        elif g.trip_input is not None and r.random() < 0.6:
            trip = g.trip_input
        else:
            trip = self.source(self.const("n", r.choice([0, 1, 2, 3]), force=r.choice(["node", "scalar_attr", "init"])))
        if kind in ("for", "forcond"):
            cnd = ""
        elif kind in ("while", "whileiter") and r.random() < 0.4:
            cnd = self.source(self.emit_bool())
        else:
            cnd = self.source(self.const("b", True, force="node"))
        outs = [g.names.fresh("fin") for _ in skinds]
        self.node("Loop", [trip, cnd] + actual, outs, body=body)
        for o, kd in zip(outs, skinds):
            self.add(kd, o)
        return outs

    def block(self, n, allow_loop=True):
        g, r = self.gen, self.rng
        for _ in range(n):
            w = [("vec", 6), ("scalar", 2), ("bool", 1), ("int", 0.5), ("const", 1)]
            if self.depth < g.max_depth and g.budget_cf > 0:
                w.append(("if", g.w_if))
                if allow_loop and g.loop_kinds:
                    w.append(("loop", g.w_loop))
            p = r.random() * sum(x for _, x in w)
            for c, x in w:
                p -= x
                if p <= 0:
                    break
            if c == "vec":
                self.emit_vec()
            elif c == "scalar":
                self.emit_scalar()
            elif c == "bool":
                self.emit_bool()
            elif c == "int":
                self.emit_int() if self.env["n"] else self.const("n")
            elif c == "const":
                self.const(r.choice(["v", "s", "v"]))
            elif c == "if":
                g.budget_cf -= 1
                self.emit_if()
            elif c == "loop":
                g.budget_cf -= 1
                self.emit_loop()


class ModelGen:
    def __init__(self, rng, profile):
        self.rng = r = rng
        self.profile = profile
        self.const_names = set()
        self.init_names = set()
        self.large_inits = []
        self.shape = r.choice([[3], [2, 2], [5], [2, 3], [1, 4], [2, 3], [5]])
        policy = {"collide": "collide", "scollide": "collide", "forloop": "plain", "forcond": "plain", "swap": "plain"}.get(profile, r.choice(["plain", "dirty", "dirty"]))
        self.names = Names(rng, policy)
        self.clean_consts = profile != "consts"
        self.special = profile in ("consts", "clean", "straight", "fn", "scollide", "sfn")
        self.swap_loops = profile == "swap"
        self.allow_inits = profile not in ("fn", "sfn")
        self.node_name_p = r.choice([0.0, 0.0, 0.5])
        self.max_depth = 2
        self.budget_cf = 0 if profile in ("straight", "scollide", "sfn") else r.choice([0, 1, 2, 3])
        self.w_if = 1.5
        self.w_loop = 1.5
        self.loop_kinds = {
            "clean": ["while"], "straight": [], "collide": ["while"], "consts": ["while"],
            "forloop": ["for"], "forcond": ["forcond", "forpass", "whileiter"], "swap": ["while"],
            "fn": ["for", "while", "for"], "scollide": [], "sfn": [],
        }[profile]
        self.trip_input = None

    def float_pool(self):
        pool = [0.0, 1.0, -1.0, 2.0, 0.5, -2.5, 3.0, 10.0, 0.1, 1e-3, -0.0, 100.0]
        if self.special:
            pool += [float("nan"), float("inf"), float("-inf"), 1e30, -1e-30]
        return pool

    def rand_vec(self):
        r = self.rng
        return np.array([r.choice(self.float_pool()) for _ in range(int(np.prod(self.shape)))], dtype=np.float32).reshape(self.shape)

    def elem(self, kd):
        return {"v": TP.FLOAT, "s": TP.FLOAT, "b": TP.BOOL, "n": TP.INT64}[kd]

    def dims(self, kd):
        return list(self.shape) if kd == "v" else []

    def build(self):
        r = self.rng
        inputs, env = [], {"v": [], "s": [], "b": [], "n": []}
        dim_style = r.choice(["static", "static", "param", "unknown"])
        for _ in range(r.choice([1, 2, 2, 3])):
            nm = self.names.fresh(r.choice(["x", "input", "a"]))
            env["v"].append(nm)
            dims = list(self.shape)
            if dim_style == "param":
                dims[0] = r.choice(["N", "batch", "B"])
            elif dim_style == "unknown":
                dims[0] = None
            inputs.append(h.make_tensor_value_info(nm, TP.FLOAT, dims))
        if self.profile in ("forloop", "forcond", "fn") or r.random() < 0.2:
            nm = self.names.fresh("n")
            self.trip_input = nm
            env["n"].append(nm)
            inputs.append(h.make_tensor_value_info(nm, TP.INT64, []))
        if r.random() < 0.25:
            nm = self.names.fresh("scale")
            env["s"].append(nm)
            inputs.append(h.make_tensor_value_info(nm, TP.FLOAT, []))
        b = Builder(self, env, 0, top=True)
        b.block(r.randint(1, 3))
        if self.profile in ("forloop", "forcond", "swap"):
            b.emit_loop()
        if self.profile in ("clean", "consts", "collide") and r.random() < 0.5 and int(np.prod(self.shape)) > 4:
            # a large initializer (moved to a parameter of make_model under skip_initializers)
            w = b.const("v", force="init")
            o = self.names.fresh("y")
            b.node(r.choice(["Add", "Mul"]), [b.pick("v"), w], [o])
            b.add("v", o)
        b.block(r.randint(1, 5))
        nout = r.choice([1, 1, 2, 3])
        produced = {o for n in b.nodes for o in n.output if o}
        cands = [(kd, v) for kd in ("v", "s", "b", "n") for v in b.env[kd] if v in produced]
        outs = [("v", v) for v in b.env["v"] if v in produced][-1:]
        r.shuffle(cands)
        for kd, v in cands:
            if len(outs) >= nout:
                break
            if (kd, v) not in outs:
                outs.append((kd, v))
        if not outs:
            o = self.names.fresh("y")
            b.node("Identity", [b.pick("v")], [o])
            outs = [("v", o)]
        outs = [(kd, b.source(v)) for kd, v in outs]
        outputs = []
        for kd, v in outs:
            dims = self.dims(kd)
            if kd == "v" and dim_style != "static" and r.random() < 0.7:
                dims = [None] + dims[1:]
            outputs.append(h.make_tensor_value_info(v, self.elem(kd), dims))
        gname = r.choice(["g", "main_graph", "torch-jit-export", "model.1", "graph"])
        graph = h.make_graph(b.nodes, gname, inputs, outputs, initializer=b.inits)
        if r.random() < 0.2:
            graph.doc_string = "generated model"
        model = h.make_model(graph, opset_imports=[h.make_opsetid("", OPSET)], ir_version=9)
        return model, self.feeds(inputs)

    def feeds(self, inputs, n=4):
        r = self.rng
        out = []
        tie = np.array([r.choice([-1.0, 0.0, 1.0, 2.0]) for _ in range(int(np.prod(self.shape)))], dtype=np.float32).reshape(self.shape)
        for k in range(n):
            f = {}
            if k == n - 1:
                # every tensor input equal (comparisons tie), scalars at the thresholds used by the generator
                for vi in inputs:
                    et = vi.type.tensor_type.elem_type
                    if et == TP.INT64:
                        f[vi.name] = np.asarray(2, dtype=np.int64)
                    elif len(vi.type.tensor_type.shape.dim) == 0:
                        f[vi.name] = np.asarray(1.0, dtype=np.float32)
                    else:
                        f[vi.name] = tie.copy()
                out.append(f)
                continue
            for vi in inputs:
                et = vi.type.tensor_type.elem_type
                if et == TP.INT64:
                    f[vi.name] = np.asarray([3, 0, 1, 2][k % 4], dtype=np.int64)
                elif len(vi.type.tensor_type.shape.dim) == 0:
                    f[vi.name] = np.asarray(r.choice([0.5, -1.0, 2.0]), dtype=np.float32)
                else:
                    scale = [1.0, 4.0, 0.25][k % 3]
                    f[vi.name] = (np.array([r.choice([-2.0, -1.0, -0.5, 0.0, 0.5, 1.0, 2.0, 3.0]) for _ in range(int(np.prod(self.shape)))],
                                           dtype=np.float32).reshape(self.shape) * np.float32(scale))
            out.append(f)
        return out


def all_names(proto):
    """Every value name occurring in a model / function, nested graphs included (what the exporter renames)."""
    names = []

    def graph(g):
        names.extend(x.name for x in g.input)
        names.extend(x.name for x in g.output)
        names.extend(x.name for x in g.initializer)
        for n in g.node:
            node(n)

    def node(n):
        names.extend(n.input)
        names.extend(n.output)
        for a in n.attribute:
            if a.HasField("g"):
                graph(a.g)
            for gg in a.graphs:
                graph(gg)

    if isinstance(proto, onnx.ModelProto):
        graph(proto.graph)
    else:
        names.extend(proto.input)
        names.extend(proto.output)
        for n in proto.node:
            node(n)
    seen, out = set(), []
    for x in names:
        if x != "" and x not in seen:
            seen.add(x)
            out.append(x)
    return out


MODEL_PROFILES = (["clean"] * 8 + ["straight"] * 2 + ["collide"] * 3 + ["consts"] * 2 + ["forloop"] * 2 + ["forcond"] * 1 + ["swap"] * 1)


def random_models(rng, count, profiles=MODEL_PROFILES):
    """-> (cases, number of generated-but-invalid models skipped)"""
    cases, rejected, attempts = [], 0, 0
    while len(cases) < count and attempts < count * 6:
        attempts += 1
        profile = profiles[len(cases) % len(profiles)]
        mg = ModelGen(_random.Random(rng.getrandbits(64)), profile)
        try:
            model, feeds = mg.build()
            onnx.checker.check_model(model, full_check=True)
        except Exception:  # noqa: BLE001  the generator produced an invalid model: skipped and counted
            rejected += 1
            continue
        cases.append({"id": f"gen{len(cases)}:{profile}", "kind": "model", "origin": "generated", "profile": profile,
                      "proto": model, "feeds": feeds, "large_inits": list(mg.large_inits)})
    return cases, rejected


def random_functions(rng, count, profile="fn"):
    cases, rejected, attempts = [], 0, 0
    while len(cases) < count and attempts < count * 6:
        attempts += 1
        sub = _random.Random(rng.getrandbits(64))
        mg = ModelGen(sub, profile)
        try:
            model, feeds = mg.build()
            onnx.checker.check_model(model, full_check=True)
        except Exception:  # noqa: BLE001
            rejected += 1
            continue
        g = model.graph
        fname = sub.choice(["f", "fn.1", "my-func", "Block", "def"])
        fp = h.make_function("this", fname, [i.name for i in g.input], [o.name for o in g.output], list(g.node),
                             opset_imports=[h.make_opsetid("", OPSET)])
        cases.append({"id": f"fn{len(cases)}", "kind": "function", "origin": "generated", "profile": profile, "proto": fp,
                      "feeds": feeds, "iface": (list(g.input), list(g.output))})
    return cases, rejected


# ------------------------------------------------------------------------------------------------ script sources

SCRIPT_HEADER = """from onnxscript import script, FLOAT, INT64, BOOL
from onnxscript.onnx_opset import opset18 as op
from onnxscript.values import Opset
"""

# name -> (source, feed kind)
SCRIPT_SOURCES = {
    "s_affine": ("""
@script()
def s_affine(x: FLOAT[3], w: FLOAT[3]) -> FLOAT[3]:
    t = op.Mul(x, w)
    u = op.Add(t, op.Constant(value_float=1.5))
    return op.Relu(u)
""", "xw"),
    "s_operators": ("""
@script()
def s_operators(x: FLOAT[3], w: FLOAT[3]) -> FLOAT[3]:
    t = x * w + 2.0
    u = (t - x) / 4.0
    return op.Abs(u) ** 2.0
""", "xw"),
    "s_only_operators": ("""
@script(default_opset=op)
def s_only_operators(x: FLOAT[3], w: FLOAT[3]) -> FLOAT[3]:
    return x * w - x
""", "xw"),
    "s_compare": ("""
@script()
def s_compare(x: FLOAT[3], w: FLOAT[3]) -> BOOL[3]:
    a = x > w
    b = x <= 1.0
    return op.Or(op.And(a, b), x == w)
""", "xw"),
    "s_if": ("""
@script()
def s_if(x: FLOAT[3], w: FLOAT[3]) -> FLOAT[3]:
    s = op.ReduceSum(x, keepdims=0)
    if s > 1.0:
        r = x * w
    else:
        r = x - w
    return r
""", "xw"),
    "s_if_nested": ("""
@script()
def s_if_nested(x: FLOAT[3], w: FLOAT[3]) -> FLOAT[3]:
    s = op.ReduceSum(x, keepdims=0)
    m = op.ReduceMax(w, keepdims=0)
    if s > 1.0:
        if m > 0.0:
            r = op.Add(x, w)
        else:
            r = op.Neg(x)
    else:
        r = op.Sub(x, w)
    return op.Tanh(r)
""", "xw"),
    "s_while": ("""
@script()
def s_while(x: FLOAT[3], w: FLOAT[3]) -> FLOAT[3]:
    acc = op.Abs(x) + 1.0
    c = op.ReduceSum(acc, keepdims=0) < 100.0
    while c:
        acc = acc * 2.0 + op.Abs(w)
        c = op.ReduceSum(acc, keepdims=0) < 100.0
    return acc
""", "xw"),
    "s_while_if": ("""
@script()
def s_while_if(x: FLOAT[3], w: FLOAT[3]) -> FLOAT[3]:
    acc = op.Abs(x) + 1.0
    c = op.ReduceSum(acc, keepdims=0) < 50.0
    while c:
        big = op.ReduceMax(acc, keepdims=0) > 8.0
        if big:
            acc = acc + 10.0
        else:
            acc = acc * 3.0
        c = op.ReduceSum(acc, keepdims=0) < 50.0
    return acc
""", "xw"),
    "s_for": ("""
@script()
def s_for(x: FLOAT[3], n: INT64) -> FLOAT[3]:
    acc = op.Identity(x)
    for i in range(n):
        acc = acc + x
    return acc
""", "xn"),
    "s_for_iter": ("""
@script()
def s_for_iter(x: FLOAT[3], n: INT64) -> FLOAT[3]:
    acc = op.Identity(x)
    for i in range(n):
        acc = acc * op.Cast(i, to=1)
    return acc
""", "xn"),
    "s_for_const_init": ("""
@script()
def s_for_const_init(x: FLOAT[3], n: INT64) -> FLOAT[3]:
    acc = op.Constant(value_floats=[0.0, 0.0, 0.0])
    for i in range(n):
        acc = acc + x
    return acc
""", "xn"),
    "s_for_break": ("""
@script()
def s_for_break(x: FLOAT[3], n: INT64) -> FLOAT[3]:
    acc = op.Abs(x) + 1.0
    for i in range(n):
        acc = acc * 2.0
        stop = op.ReduceSum(acc, keepdims=0) > 40.0
        if stop:
            break
    return acc
""", "xn"),
    "s_attrs": ("""
@script()
def s_attrs(x: FLOAT[2, 2], w: FLOAT[2, 2]) -> FLOAT[2, 2]:
    t = op.Softmax(x, axis=-1)
    u = op.Gemm(t, w, x, alpha=0.5, beta=2.0, transB=1)
    v = op.Transpose(u, perm=[1, 0])
    return op.LeakyRelu(v, alpha=0.25)
""", "xw22"),
    "s_optional": ("""
@script()
def s_optional(x: FLOAT[3], w: FLOAT[3]) -> FLOAT[3]:
    hi = op.Constant(value_float=1.0)
    t = op.Clip(x, None, hi)
    return op.Add(t, w)
""", "xw"),
    "s_consts": ("""
@script()
def s_consts(x: FLOAT[3], w: FLOAT[3]) -> FLOAT[3]:
    k = op.Constant(value_floats=[1.0, -2.0, 0.5])
    j = op.Constant(value_ints=[0])
    s = op.ReduceSum(x * k, j, keepdims=1)
    return op.Add(s, w) * -3.0
""", "xw"),
}

SCRIPT_FUNCTION_SOURCES = {
    "f_attr": ("""
@script(Opset("this", 1))
def f_attr(x, alpha: float, axis: int):
    a = op.Constant(value_float=alpha)
    t = op.Mul(x, a)
    return op.Softmax(t, axis=axis)
""", "x22", {"alpha": 0.5, "axis": 1}),
    "f_for": ("""
@script(Opset("this", 1))
def f_for(x, n):
    acc = op.Identity(x)
    for i in range(n):
        acc = acc + x
    return acc
""", "xn", {}),
    "f_while": ("""
@script(Opset("this", 1))
def f_while(x, w):
    acc = op.Abs(x) + 1.0
    c = op.ReduceSum(acc, keepdims=0) < 100.0
    while c:
        acc = acc * 2.0 + op.Abs(w)
        c = op.ReduceSum(acc, keepdims=0) < 100.0
    return acc
""", "xw", {}),
}

FEEDS = {
    "xw": lambda: ([("x", TP.FLOAT, [3]), ("w", TP.FLOAT, [3])],
                   [{"x": np.array(a, dtype=np.float32), "w": np.array(b, dtype=np.float32)}
                    for a, b in [([1, -2, 3], [0.5, 2, -1]), ([0, 0, 0], [1, 1, 1]), ([4, 5, 6], [-1, 0.25, 3]), ([-3, -1, 0.5], [2, 2, 2])]]),
    "xn": lambda: ([("x", TP.FLOAT, [3]), ("n", TP.INT64, [])],
                   [{"x": np.array(a, dtype=np.float32), "n": np.array(n, dtype=np.int64)}
                    for a, n in [([1, -2, 3], 3), ([0.5, 0.5, 2], 0), ([4, 5, 6], 1), ([1, 1, 1], 6)]]),
    "xw22": lambda: ([("x", TP.FLOAT, [2, 2]), ("w", TP.FLOAT, [2, 2])],
                     [{"x": np.array(a, dtype=np.float32).reshape(2, 2), "w": np.array(b, dtype=np.float32).reshape(2, 2)}
                      for a, b in [([1, -2, 3, 0], [0.5, 2, -1, 1]), ([0, 0, 0, 0], [1, 1, 1, 1]), ([4, 5, 6, 7], [-1, 0.25, 3, 2])]]),
    "x22": lambda: ([("x", TP.FLOAT, [2, 2])],
                    [{"x": np.array(a, dtype=np.float32).reshape(2, 2)} for a in [[1, -2, 3, 0], [0, 0, 0, 0], [4, 5, 6, 7]]]),
}


def script_cases(workdir, loader):
    """Materialise the script sources as a module (so inspect.getsource works) and build model / function cases."""
    src = SCRIPT_HEADER + "".join(s for s, _ in SCRIPT_SOURCES.values()) + "".join(s for s, _, _ in SCRIPT_FUNCTION_SOURCES.values())
    mod, modname = loader(src, workdir)
    cases = []
    for name, (_, fk) in SCRIPT_SOURCES.items():
        fn = getattr(mod, name)
        m = fn.to_model_proto()
        _, feeds = FEEDS[fk]()
        cases.append({"id": f"script:{name}", "kind": "model", "origin": "script", "profile": "script", "proto": m,
                      "feeds": feeds, "large_inits": []})
        sig, feeds = FEEDS[fk]()
        fp = fn.to_function_proto()
        ins = [h.make_tensor_value_info(n, t, d) for (n, t, d), _ in zip(sig, fp.input)]
        outs = []
        for src_o, nm in zip(m.graph.output, fp.output):
            o = onnx.ValueInfoProto()
            o.CopyFrom(src_o)
            o.name = nm
            outs.append(o)
        cases.append({"id": f"script:{name}:fn", "kind": "function", "origin": "script", "profile": "script", "proto": fp,
                      "feeds": feeds, "iface": (ins, outs)})
    for name, (_, fk, attrs) in SCRIPT_FUNCTION_SOURCES.items():
        fn = getattr(mod, name)
        fp = fn.to_function_proto()
        sig, feeds = FEEDS[fk]()
        ins = [h.make_tensor_value_info(n, t, d) for (n, t, d) in sig]
        outs = [h.make_tensor_value_info(o, TP.FLOAT, None) for o in fp.output]
        cases.append({"id": f"script:{name}", "kind": "function", "origin": "script", "profile": "script", "proto": fp,
                      "feeds": feeds, "iface": (ins, outs), "call_attrs": attrs})
    return cases, modname


def attr_conflict_cases():
    """Hand-written FunctionProtos whose value names equal (or are adjacent to) attribute-parameter names."""
    out = []
    fp = onnx.parser.parse_function('''
    <domain: "this", opset_import: ["" : 18]>
    f_conf <alpha, axis> (x, axis_0) => (y) {
       alpha2 = Constant <value_float: float = @alpha> ()
       axis = Mul (x, alpha2)
       axis_1 = Add (axis, axis_0)
       y = Softmax <axis: int = @axis> (axis_1)
    }''')
    _, feeds = FEEDS["xw22"]()
    feeds = [{"x": f["x"], "axis_0": f["w"]} for f in feeds]
    ins = [h.make_tensor_value_info("x", TP.FLOAT, [2, 2]), h.make_tensor_value_info("axis_0", TP.FLOAT, [2, 2])]
    outs = [h.make_tensor_value_info("y", TP.FLOAT, [2, 2])]
    out.append({"id": "hand:attr_eq_value", "kind": "function", "origin": "hand", "profile": "attr-conflict", "proto": fp,
                "feeds": feeds, "iface": (ins, outs), "call_attrs": {"alpha": 0.5, "axis": 0}})
    fp = onnx.parser.parse_function('''
    <domain: "this", opset_import: ["" : 18]>
    f_conf2 <alpha> (x, w) => (y, alpha_0) {
       a = Constant <value_float: float = @alpha> ()
       alpha = Mul (x, a)
       alpha_0 = Neg (alpha)
       y = LeakyRelu <alpha: float = @alpha> (w)
    }''')
    _, feeds = FEEDS["xw22"]()
    ins = [h.make_tensor_value_info("x", TP.FLOAT, [2, 2]), h.make_tensor_value_info("w", TP.FLOAT, [2, 2])]
    outs = [h.make_tensor_value_info("y", TP.FLOAT, [2, 2]), h.make_tensor_value_info("alpha_0", TP.FLOAT, [2, 2])]
    out.append({"id": "hand:attr_eq_value2", "kind": "function", "origin": "hand", "profile": "attr-conflict", "proto": fp,
                "feeds": feeds, "iface": (ins, outs), "call_attrs": {"alpha": 0.25}})
    return out
