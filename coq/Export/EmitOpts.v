(* C13, export options and refusals on top of Export/EmitCF.v (session 6).  Definitions only, no proofs.

   1. Which Loop nodes the exporter refuses (`loop_refused`): _translate_loop raises "no stop condition" when neither
      the iteration number nor the condition is used (form FNone); a counted loop outside a remapping scope
      (infun = false, the IndexError of the tree before 4b585b4; with the scope the harness passes infun = true for
      model graphs as well) has no remapping dictionary to write into.
   2. skip_initializers as a transformation of the GRAPH: the program printed with skip_initializers for (ivals, g) is the
      program printed without it for `lift_skipped ivals g` (the skipped initializers become leading graph inputs, the
      others stay initializers), its parameters preceded by the parameters of the enclosing make_model
      (`closure_params`: a free variable of the inner function that the inner function never assigns is read from the
      enclosing call, i.e. it is a parameter that is bound when make_model is called). *)
From Coq Require Import List String Bool Arith ZArith.
Require Import OV.Export.Cleanup.
Require Import OV.Graph.Syntax OV.Graph.Names OV.Graph.Sem OV.Script.Syntax OV.Script.Translate OV.Gen.ScriptTables
               OV.Gen.ExportTables OV.Export.Emit OV.Export.EmitCF.
Import ListNotations.
Local Open Scope string_scope.

(* ---- 1. Loop refusal --------------------------------------------------------------------------------------- *)
Definition loop_refused (infun : bool) (ins : list (option vname)) (body : graph) : bool :=
  match loop_form_of ins body with
  | None => true                       (* a body with fewer than two inputs or without outputs: IndexError *)
  | Some FNone => true                 (* RuntimeError: no stop condition *)
  | Some FFor => negb infun
  | Some _ => false
  end.

(* ---- 2. skip_initializers ---------------------------------------------------------------------------------- *)
Definition skipped_ivals (ivals : list (vname * attrv)) : list (vname * attrv) := filter (skipped true) ivals.
Definition kept_ivals (ivals : list (vname * attrv)) : list (vname * attrv) := filter (fun iv => negb (skipped true iv)) ivals.

Definition lift_skipped (ivals : list (vname * attrv)) (g : graph) : graph :=
  Graph (map fst (skipped_ivals ivals) ++ g_ins g)%list (map fst (kept_ivals ivals)) (g_nodes g) (g_outs g).

Definition closure_params (f : func) (sk : list string) : func :=
  {| f_name := f_name f; f_tparams := (sk ++ f_tparams f)%list; f_aparams := f_aparams f; f_body := f_body f |}.

(* the side conditions of the soundness theorem for a program printed with skip_initializers: those of the lifted graph,
   and the initializer list is the graph's, without a repeated name *)
Definition nested_skip_ops_okb (kw : list string) (prename rename : vname -> string) (infun brk : bool) (use_ops : option bool)
                               (ivals : list (vname * attrv)) (g : graph) : bool :=
  nested_ops_okb kw prename rename infun brk use_ops (kept_ivals ivals) (lift_skipped ivals g) &&
  list_eqb (map fst ivals) (g_inits g) && nodupb (g_ins g ++ g_inits g)%list.
Definition nested_skip_okb (kw : list string) (prename rename : vname -> string) (infun brk : bool) :=
  nested_skip_ops_okb kw prename rename infun brk None.
