From Coq Require Import ZArith List Bool Lia.
Require Import OV.Rules.BShape OV.Rules.BShapeProofs OV.Rules.Expand.
Import ListNotations.
Local Open Scope Z_scope.

(* check => the runtime shape of x (which agrees with the static annotation) is exactly the requested shape *)
Lemma check_shape : forall ds s xs,
  check (Some ds) (Some s) = true ->
  length xs = length ds -> (forall i d, nth i ds None = Some d -> nth i xs 0 = d) ->
  xs = s.
Proof.
  induction ds as [|d ds IH]; intros s xs Hc Hl Ht.
  - destruct s; [|discriminate]. destruct xs; [reflexivity|discriminate].
  - destruct s as [|z s]; [discriminate|]. destruct xs as [|x xs]; [discriminate|].
    cbn in Hc. apply andb_true_iff in Hc as [Hlen Hc]. apply andb_true_iff in Hc as [Hd Hc].
    destruct d as [d|]; [|discriminate]. apply Z.eqb_eq in Hd. subst z.
    f_equal.
    + apply (Ht O d). reflexivity.
    + apply IH.
      * cbn. rewrite Hlen. exact Hc.
      * cbn in Hl. lia.
      * intros i d' Hi. apply (Ht (S i) d'). exact Hi.
Qed.

Lemma src_index_id : forall xs ix, in_range xs ix -> src_index xs ix = ix.
Proof.
  intros xs ix [Hl Hr]. unfold src_index. rewrite Hl, Nat.sub_diag. cbn [skipn].
  revert ix Hl Hr. induction xs as [|d xs IH]; intros ix Hl Hr.
  - destruct ix; [reflexivity|discriminate].
  - destruct ix as [|c ix]; [discriminate|]. cbn in *. inversion Hr as [|? ? Hc Hr']; subst. cbn in Hc.
    f_equal.
    + destruct (d =? 1) eqn:E; [apply Z.eqb_eq in E; lia|reflexivity].
    + apply IH; auto.
Qed.

(* ExpandIdentity: same shape and the same element at every in-range index, for every rank and all dims (0, 1 included) *)
Theorem expand_identity_sound : forall (V : Type) (t : tensor V) ds s,
  check (Some ds) (Some s) = true ->
  length (fst t) = length ds -> (forall i d, nth i ds None = Some d -> nth i (fst t) 0 = d) ->
  exists out, expand t s = Some out /\ fst out = fst t /\
    forall ix, in_range (fst t) ix -> snd out ix = snd t ix.
Proof.
  intros V [xs f] ds s Hc Hl Ht. cbn [fst snd] in *.
  assert (xs = s) by (eapply check_shape; eauto). subst s.
  unfold expand. cbn [fst snd]. rewrite bcast_same. eexists. split; [reflexivity|]. cbn [fst snd]. split; [reflexivity|].
  intros ix Hix. now rewrite src_index_id.
Qed.

(* near misses: a different constant really changes the result *)
Theorem expand_near_miss : exists xs s, xs <> s /\ bcast xs s <> Some xs.
Proof. exists [1; 3], [2; 3]. split; [discriminate|]. vm_compute. discriminate. Qed.

Example expand_example : check (Some [Some 2; Some 0; Some 1]) (Some [2; 0; 1]) = true
  /\ check (Some [Some 2; None]) (Some [2; 3]) = false /\ check (Some [Some 3]) (Some [1; 3]) = false.
Proof. repeat split; reflexivity. Qed.
