(* C19 proofs: the rotate-half formulation is the non-interleaved RotaryEmbedding for even head sizes. *)
From Coq Require Import List Field Ring Bool Arith Lia ZArith.
Require Import OV.Fusion.Field OV.Fusion.Rotary.
Import ListNotations.

Section Laws.
  Variable F : Type.
  Variable o : fops F.
  Hypothesis Fth : is_field o.
  Add Field FF : (Fth : field_theory (f0 o) (f1 o) (fadd o) (fmul o) (fsub o) (fopp o) (fdiv o) (finv o) (@eq F)).

  Lemma map2_app : forall f (a b c d : list F), length a = length c ->
    map2 f (a ++ b) (c ++ d) = map2 f a c ++ map2 f b d.
  Proof.
    induction a as [|x a IH]; intros b [|y c] d H; simpl in *; try discriminate; auto.
    f_equal. apply IH. lia.
  Qed.
  Lemma map2_length : forall f (a b : list F), length a = length b -> length (map2 f a b) = length a.
  Proof. induction a as [|x a IH]; intros [|y b] H; simpl in *; try discriminate; auto. Qed.

  Lemma slice_left : forall (a b : list F), slice F (a ++ b) 0 (length a) = a.
  Proof.
    intros. unfold slice. simpl. rewrite app_length, Nat.sub_0_r.
    replace (Nat.min (length a) (length a + length b)) with (length a) by lia.
    rewrite firstn_app, Nat.sub_diag, firstn_all. simpl. apply app_nil_r.
  Qed.
  Lemma slice_right : forall (a b : list F) e, length a + length b <= e -> slice F (a ++ b) (length a) e = b.
  Proof.
    intros. unfold slice. rewrite app_length.
    replace (Nat.min e (length a + length b)) with (length a + length b) by lia.
    rewrite skipn_app, skipn_all, Nat.sub_diag. simpl.
    replace (length a + length b - length a) with (length b) by lia. apply firstn_all.
  Qed.

  Lemma firstn_len_app : forall a b : list F, firstn (length a) (a ++ b) = a.
  Proof. intros. rewrite firstn_app, Nat.sub_diag, firstn_all. simpl. apply app_nil_r. Qed.
  Lemma skipn_len_app : forall a b : list F, skipn (length a) (a ++ b) = b.
  Proof. intros. rewrite skipn_app, skipn_all, Nat.sub_diag. reflexivity. Qed.

  (* element-wise algebra of the two halves *)
  Lemma real_part : forall x1 x2 c s : list F,
    vadd o (vmul o x1 c) (vmul o (map (fopp o) x2) s) = map2 (fsub o) (vmul o c x1) (vmul o s x2).
  Proof.
    unfold vadd, vmul. induction x1 as [|a x1 IH]; intros [|b x2] [|cc c] [|ss s]; simpl; auto.
    rewrite IH. f_equal. ring.
  Qed.
  Lemma imag_part : forall x1 x2 c s : list F,
    vadd o (vmul o x2 c) (vmul o x1 s) = vadd o (vmul o s x1) (vmul o c x2).
  Proof.
    unfold vadd, vmul. induction x1 as [|a x1 IH]; intros [|b x2] [|cc c] [|ss s]; simpl; auto.
    rewrite IH. f_equal. ring.
  Qed.

  (* RotaryEmbedding23Fusion: for every half size h, x = x1 ++ x2 with |x1| = |x2| = |c| = |s| = h (head size D = 2h),
     slice bounds as `check` requires (start1 = 0, end1 = start2 = D/2, end2 >= D). *)
  Theorem rotary_half_rotation : forall (x1 x2 c s : list F) e2,
    let x := x1 ++ x2 in let h := length c in
    length x1 = h -> length x2 = h -> length s = h -> length x <= e2 ->
    rope23_pattern F o x c s 0 (length x / 2) (length x / 2) e2 = rope_spec F o x c s.
  Proof.
    intros x1 x2 c s e2 x h H1 H2 Hs He. unfold x in *.
    assert (Hhalf : length (x1 ++ x2) / 2 = length x1).
    { rewrite app_length, H1, H2. replace (h + h) with (h * 2) by lia. rewrite Nat.div_mul by lia. reflexivity. }
    unfold rope23_pattern, rope_pattern, rotate_half. rewrite Hhalf.
    rewrite slice_left. rewrite slice_right by (rewrite app_length in He; lia).
    unfold rope_spec.
    assert (Hc : length c = length x1) by (unfold h in *; lia). rewrite Hc.
    rewrite firstn_len_app, skipn_len_app.
    rewrite (firstn_all2 x2) by lia.
    replace (2 * length x1) with (length (x1 ++ x2)) by (rewrite app_length; unfold h in *; lia).
    rewrite skipn_all, app_nil_r.
    unfold h in *.
    assert (L1 : vmul o (x1 ++ x2) (c ++ c) = vmul o x1 c ++ vmul o x2 c) by (apply map2_app; lia).
    assert (L2 : vmul o (map (fopp o) x2 ++ x1) (s ++ s) = vmul o (map (fopp o) x2) s ++ vmul o x1 s)
      by (apply map2_app; rewrite map_length; lia).
    rewrite L1, L2. unfold vadd at 1.
    rewrite map2_app by (unfold vmul; rewrite !map2_length; rewrite ?map_length; lia).
    f_equal; [apply real_part | apply imag_part].
  Qed.

  (* odd head sizes cannot reach the fused operator through this rule: the cos operand is Concat(f, f), of even
     length, and must have the length of the x row (or 1) for the pattern's Mul to be defined. *)
  Lemma concat_twice_even : forall c : list F, Nat.even (length (c ++ c)) = true.
  Proof. intros. rewrite app_length. replace (length c + length c) with (2 * length c) by lia. apply Nat.even_mul. Qed.

  (* Partial rotary: rotating the first r = 2|c| elements and concatenating the rest is the same operator with
     rotary_embedding_dim = r applied to all of x (end1 = start2 = r <= D). *)
  Theorem partial_rotary_identity : forall (x c s : list F) r,
    r = 2 * length c -> r <= length x ->
    partial_pattern F o x c s r r = rope_spec F o x c s.
  Proof.
    intros x c s r Hr Hx. unfold partial_pattern, rope_spec, slice. set (h := length c) in *.
    change (skipn 0 x) with x. rewrite Nat.sub_0_r. replace (Nat.min r (length x)) with r by lia.
    replace (Nat.min (length x) (length x)) with (length x) by lia.
    rewrite (firstn_all2 (skipn r x)) by (rewrite skipn_length; lia).
    rewrite !firstn_firstn. replace (Nat.min h r) with h by lia.
    assert (E2 : firstn h (skipn h (firstn r x)) = firstn h (skipn h x)).
    { rewrite skipn_firstn_comm, firstn_firstn. f_equal. lia. }
    rewrite E2.
    assert (E3 : skipn (2 * h) (firstn r x) = []).
    { apply skipn_all2. rewrite firstn_length. lia. }
    rewrite E3, app_nil_r, <- !app_assoc. rewrite Hr. reflexivity.
  Qed.
End Laws.

(* the side condition: when `check` accepts, the bounds are those of the theorem, for every head size *)
Lemma rot_check_bounds : forall r d1 d3 s1 e1 s2 e2 nh,
  rot_check r d1 d3 s1 e1 s2 e2 = Some nh ->
  r = 4%nat /\ d1 = Some nh /\ exists hs, d3 = Some hs /\ s1 = 0%Z /\ e1 = (hs / 2)%Z /\ s2 = (hs / 2)%Z /\ (hs <= e2)%Z.
Proof.
  intros r d1 d3 s1 e1 s2 e2 nh. unfold rot_check.
  destruct r as [|[|[|[|[|r]]]]]; try discriminate.
  destruct d1 as [n|]; try discriminate. destruct d3 as [hs|]; try discriminate.
  destruct ((s1 =? 0)%Z) eqn:A; simpl; try discriminate.
  destruct ((e1 =? hs / 2)%Z) eqn:B; simpl; try discriminate.
  destruct ((s2 =? hs / 2)%Z) eqn:C; simpl; try discriminate.
  destruct ((hs <=? e2)%Z) eqn:D; simpl; try discriminate.
  intro H; inversion H; subst.
  apply Z.eqb_eq in A, B, C. apply Z.leb_le in D. repeat split; auto. exists hs; auto.
Qed.

(* ---- the batch of the cos / sin caches of RotaryEmbedding-23 (fix c0398a5 / ready C19_07) --------------------------- *)
(* repaired rewrite: whenever the pattern's broadcast is well-formed, the cache the fused node receives has x's batch.
   Hypothesis Hsame: dims that _ir_utils.same_dim identifies (equal static sizes, or one NAMED symbol) are equal at run time. *)
Theorem rope23_expand_fixed : forall freqs xb fb_rt xb_rt,
  (0 < xb_rt)%Z -> rope23_pattern_ok fb_rt xb_rt = true ->
  (forall fb a b, freqs = Some [fb; a; b] -> same_dim fb xb = true -> fb_rt = xb_rt) ->
  rope23_operator_ok (cache_batch_after (rope23_expands true freqs xb) fb_rt xb_rt) xb_rt = true.
Proof.
  intros freqs xb fb_rt xb_rt Hx Hp Hsame. unfold rope23_operator_ok, cache_batch_after, rope23_expands. simpl.
  unfold rope23_pattern_ok in Hp. apply orb_prop in Hp.
  assert (M : Z.max fb_rt xb_rt = xb_rt) by (destruct Hp as [E|E]; apply Z.eqb_eq in E; lia).
  destruct freqs as [[|fb [|a [|b [|? ?]]]]|]; simpl; rewrite ?M; try apply Z.eqb_refl.
  destruct (same_dim fb xb) eqn:E; simpl; rewrite ?M; try apply Z.eqb_refl.
  rewrite (Hsame fb a b eq_refl E). apply Z.eqb_refl.
Qed.
(* as read (no Expand): the fused node is acceptable iff freqs already has x's batch *)
Theorem rope23_as_read_ok_iff : forall freqs xb fb_rt xb_rt,
  rope23_operator_ok (cache_batch_after (rope23_expands false freqs xb) fb_rt xb_rt) xb_rt = true <-> fb_rt = xb_rt.
Proof. intros. unfold rope23_operator_ok, cache_batch_after, rope23_expands. simpl. apply Z.eqb_eq. Qed.
(* FINDING (fixed): freqs [1,S,E] against x of batch 2 -- the pattern broadcasts, the operator does not *)
Theorem rope23_as_read_refuted : exists freqs xb fb_rt xb_rt,
  rope23_pattern_ok fb_rt xb_rt = true
  /\ rope23_operator_ok (cache_batch_after (rope23_expands false freqs xb) fb_rt xb_rt) xb_rt = false
  /\ rope23_operator_ok (cache_batch_after (rope23_expands true freqs xb) fb_rt xb_rt) xb_rt = true.
Proof. exists (Some [1; 3; 4]%Z), 2%Z, 1%Z, 2%Z. repeat split; vm_compute; reflexivity. Qed.
(* the Expand is omitted only for provably equal batch dims (static or one named symbol), never for unnamed dims *)
Theorem rope23_no_expand_iff : forall freqs xb, rope23_expands true freqs xb = false <->
  exists fb a b, freqs = Some [fb; a; b] /\ fb = xb /\ fb <> (-1)%Z.
Proof.
  intros freqs xb. unfold rope23_expands, same_dim. simpl. rewrite negb_false_iff. split.
  - destruct freqs as [[|fb [|a [|b [|? ?]]]]|]; try discriminate. intro E. apply andb_prop in E. destruct E as [E1 E2].
    apply Z.eqb_eq in E1. apply negb_true_iff in E2. apply Z.eqb_neq in E2. eauto 6.
  - intros (fb & a & b & -> & -> & N). rewrite Z.eqb_refl. simpl. apply negb_true_iff. apply Z.eqb_neq. exact N.
Qed.
