(* The syntactic class of the theorem "eager = plain-Python reading" (EagerProofs.eager_eq_script).  It is a
   decidable check on the program text and on the tables regenerated from tensor.py / converter.py; every clause names
   a place where eager mode differs from the reading BY CONSTRUCTION (each difference is witnessed on the real code by
   harness/c01_eager.py, stream "by-construction", and by the refuted statements in EagerProofs.v):

     S : names that may hold a plain Python value at run time (literal variables, module constants, attribute
         parameters, loop variables): any set closed under the assignments of the program (checked here);
     D : the `for` loop variables of the program; A : its attribute parameters.

   (e1) a `for` loop variable is never read and never assigned (eager: a Python int promoted to the dtype of whatever
        tensor it meets; reading and graph: an INT64 tensor that is never cast);
   (e2) `%` does not occur (eager picks fmod by the dtype of the left tensor, the converter by the right operand being
        a float literal); `and` / `or` / `not` do not occur (Python evaluates them on bool(tensor));
   (e3) an operator whose left operand may be a Python value needs the reflected Tensor method (`2.0 / x` is a TypeError
        eagerly: Tensor has __radd__ __rsub__ __rmul__ __rand__ only); a comparison needs a left operand that is a tensor;
   (e4) no Python value is returned (evaluator._adapt_to_user_mode raises TypeError) and none is passed as a tensor
        argument to another script function (_adapt_to_eager_mode makes a float64 tensor of a Python float);
   (e5) a name used as keyword value is an attribute parameter, and attribute parameters are never assigned.
   No proofs in this file. *)
From Coq Require Import List String ZArith Bool.
Require Import OV.Graph.Syntax OV.Script.Syntax OV.Script.Sets OV.Gen.ScriptTables OV.Script.Translate OV.Script.Eager.
Import ListNotations.
Local Open Scope string_scope.

(* forward method of a binary arithmetic operator: Tensor.__op__ applies the converter's operator to (self, other) *)
Definition bin_fwd_ok (op : string) : bool :=
  negb (String.eqb op "Mod") &&
  match lookup_assoc op primop_map, lookup_assoc op py_dunder with
  | Some o, Some m => match lookup_assoc m tensor_methods with
                      | Some (TPlain o' false) => String.eqb o o'
                      | _ => false
                      end
  | _, _ => false
  end.

(* reflected method: Tensor.__rop__ applies the same operator to (other, self) *)
Definition bin_refl_ok (op : string) : bool :=
  match lookup_assoc op primop_map, lookup_assoc op py_dunder with
  | Some o, Some m => match lookup_assoc m py_reflected with
                      | Some r => match lookup_assoc r tensor_methods with
                                  | Some (TPlain o' true) => String.eqb o o'
                                  | _ => false
                                  end
                      | None => false
                      end
  | _, _ => false
  end.

(* a call of `op` on one tensor gets through dynamic_cast_inputs: the signature has a first formal input *)
Definition unary_ok (op : string) : bool :=
  match lookup_assoc op op_typevars with
  | None => true
  | Some tvs => match typevar_at tvs 0 with Some _ => true | None => false end
  end.

Definition cmp_fwd_ok (op : string) : bool :=
  match lookup_assoc op primop_map, lookup_assoc op py_dunder with
  | Some o, Some m => match lookup_assoc m tensor_methods with
                      | Some (TPlain o' false) => String.eqb o o' && negb (String.eqb o "NotEqual")
                      | Some TNotEqual => String.eqb o "NotEqual" && unary_ok "Not"
                      | _ => false
                      end
  | _, _ => false
  end.

Definition neg_ok : bool :=
  match lookup_assoc "USub" primop_map, lookup_assoc "USub" py_dunder with
  | Some o, Some m => match lookup_assoc m tensor_methods with
                      | Some (TPlain o' _) => String.eqb o o' && unary_ok o
                      | _ => false
                      end
  | _, _ => false
  end.

Section Class.
  Variable S D A : list string.

  Definition may_scalar (e : expr) : bool :=
    match e with
    | ELit _ => true
    | EVar x => mem x S
    | _ => false
    end.

  Definition kws_ok (kws : list (string * kwarg)) : bool :=
    forallb (fun kw => match snd kw with KLit _ => true | KName x => mem x A end) kws.

  Fixpoint expr_eok (e : expr) : bool :=
    match e with
    | EVar x => negb (mem x D)
    | ELit _ => true
    | EUn op a => String.eqb op "USub" && neg_ok && expr_eok a
    | EBin op a b => expr_eok a && expr_eok b && bin_fwd_ok op && (negb (may_scalar a) || bin_refl_ok op)
    | ECmp op a b => expr_eok a && expr_eok b && cmp_fwd_ok op && negb (may_scalar a)
    | ECall f args kws =>
      (fix go (l : list (option expr)) : bool :=
         match l with
         | [] => true
         | None :: t => go t
         | Some a :: t => expr_eok a && (match f with COp _ => true | CFun _ => negb (may_scalar a) end) && go t
         end) args && kws_ok kws
    end.

  Definition target_ok (x : string) : bool := negb (mem x D) && negb (mem x A).

  Fixpoint stmt_eok (s : stmt) : bool :=
    match s with
    | SAssign x e => expr_eok e && target_ok x && (negb (may_scalar e) || mem x S)
    | STuple xs e => expr_eok e && forallb target_ok xs
    | SIf c t f =>
      expr_eok c &&
      (fix go (l : list stmt) : bool := match l with [] => true | s0 :: r => stmt_eok s0 && go r end) t &&
      (fix go (l : list stmt) : bool := match l with [] => true | s0 :: r => stmt_eok s0 && go r end) f
    | SFor i b body =>
      expr_eok b && mem i D && mem i S && negb (mem i A) &&
      (fix go (l : list stmt) : bool := match l with [] => true | s0 :: r => stmt_eok s0 && go r end) body
    | SWhile c body =>
      negb (mem c D) &&
      (fix go (l : list stmt) : bool := match l with [] => true | s0 :: r => stmt_eok s0 && go r end) body
    | SBreak => true
    | SReturn es => forallb (fun e => expr_eok e && negb (may_scalar e)) es
    end.

  Definition block_eok (ss : list stmt) : bool := forallb stmt_eok ss.
End Class.

(* ---- the sets, computed from the program (for the harness: class membership of every generated program) *)

Fixpoint loop_vars (fuel : nat) (ss : list stmt) : list string :=
  match fuel with
  | O => []
  | S fu =>
    flat_map (fun s => match s with
                       | SIf _ t f => (loop_vars fu t ++ loop_vars fu f)%list
                       | SFor i _ body => i :: loop_vars fu body
                       | SWhile _ body => loop_vars fu body
                       | _ => []
                       end) ss
  end.

(* targets of assignments whose right-hand side may be a Python value, given the names S already known to hold one *)
Fixpoint scalar_targets (fuel : nat) (S : list string) (ss : list stmt) : list string :=
  match fuel with
  | O => []
  | S fu =>
    flat_map (fun s => match s with
                       | SAssign x e => if may_scalar S e then [x] else []
                       | SIf _ t f => (scalar_targets fu S t ++ scalar_targets fu S f)%list
                       | SFor _ _ body => scalar_targets fu S body
                       | SWhile _ body => scalar_targets fu S body
                       | _ => []
                       end) ss
  end.

Fixpoint close_scalars (n : nat) (S : list string) (ss : list stmt) : list string :=
  match n with
  | O => S
  | S k => close_scalars k (sunion S (scalar_targets 40 S ss)) ss
  end.

Definition attr_names (f : func) : list string := map (fun a => fst (fst a)) (f_aparams f).

Definition scalar_names (globals : list (string * lit)) (f : func) : list string :=
  close_scalars 12 (map fst globals ++ attr_names f ++ loop_vars 40 (f_body f))%list (f_body f).

Definition globals_in (S : list string) (globals : list (string * lit)) : bool := forallb (fun g => mem (fst g) S) globals.

(* the whole check, with the sets computed from the program *)
Definition eager_class (globals : list (string * lit)) (f : func) : bool :=
  let S := scalar_names globals f in
  block_eok S (loop_vars 40 (f_body f)) (attr_names f) (f_body f) && globals_in S globals.
