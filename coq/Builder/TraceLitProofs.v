(* Proofs about TraceLit.v: the Trace operands `promote_call` derives for a typed call are the ones C12's
   specification assigns (reusing AutocastProofs.builder_eq_spec / spec_fn_correct / spec_dtype_unique), the
   like-value of a CastLike is the FIRST binding occurrence, and the composition with
   TraceCFProofs.build_computes_trace_cf_checked. *)
From Coq Require Import String List Bool Arith ZArith NArith Lia.
Require OV.Autocast.Autocast OV.Autocast.AutocastProofs OV.Gen.Schemas.
Require Import OV.Graph.Syntax OV.Graph.Sem.
Require Import OV.Builder.Trace OV.Builder.TraceProofs OV.Builder.TraceCF OV.Builder.TraceCFProofs OV.Builder.TraceLit.
Import ListNotations.
Local Open Scope list_scope.

Module AP := OV.Autocast.AutocastProofs.

(* ------------------------------------------------------------------ first binding wins (builder) *)
Section FirstWins.
  Variable I : Type.
  Variable ksel : A.pinfo -> option string.
  Variable info : A.arg -> option I.

  Definition contribb (sl : A.slot) (k : string) : option I :=
    match ksel (snd sl) with
    | Some k0 => if String.eqb k k0 && negb (A.has_paren k0) then info (fst sl) else None
    | None => None
    end.

  Fixpoint first_contrib (slots : list A.slot) (k : string) : option I :=
    match slots with
    | [] => None
    | sl :: r => match contribb sl k with Some v => Some v | None => first_contrib r k end
    end.

  Lemma bind1_first : forall b sl k,
    A.lookup I (A.bind1 I ksel info true b sl) k =
    match A.lookup I b k with Some v => Some v | None => contribb sl k end.
  Proof.
    intros b sl k. unfold A.bind1, contribb.
    destruct (ksel (snd sl)) as [k0|]; [|destruct (A.lookup I b k); reflexivity].
    destruct (A.has_paren k0); cbn [negb].
    - rewrite andb_false_r. destruct (A.lookup I b k); reflexivity.
    - rewrite andb_true_r. destruct (info (fst sl)) as [v|].
      + destruct (A.lookup I b k0) eqn:E0.
        * destruct (String.eqb k k0) eqn:E.
          -- apply String.eqb_eq in E; subst. rewrite E0. reflexivity.
          -- destruct (A.lookup I b k); reflexivity.
        * cbn [A.lookup]. destruct (String.eqb k k0) eqn:E.
          -- apply String.eqb_eq in E; subst. rewrite E0. reflexivity.
          -- destruct (A.lookup I b k); reflexivity.
      + destruct (String.eqb k k0); destruct (A.lookup I b k); reflexivity.
  Qed.

  Lemma fold_first : forall slots b k,
    A.lookup I (fold_left (A.bind1 I ksel info true) slots b) k =
    match A.lookup I b k with Some v => Some v | None => first_contrib slots k end.
  Proof.
    induction slots as [|a t IH]; intros b k; simpl.
    - destruct (A.lookup I b k); reflexivity.
    - rewrite IH, bind1_first. destruct (A.lookup I b k); [reflexivity|].
      destruct (contribb a k); reflexivity.
  Qed.

  (* type_bindings.get(k) after the first pass = the first operand that contributes to k *)
  Lemma bindings_first : forall slots k,
    A.lookup I (A.bindings I ksel info true slots) k = first_contrib slots k.
  Proof. intros. unfold A.bindings. rewrite fold_first. reflexivity. Qed.
End FirstWins.

Definition proj_binder (x : nat * A.dtype * bool) : A.dtype * bool := (snd (fst x), snd x).

Lemma first_contrib_binder : forall tps k,
  first_contrib (A.dtype * bool) A.p_bkey A.info_builder (map erase tps) k =
  option_map proj_binder (first_binder k tps).
Proof.
  induction tps as [|[ta p] r IH]; intros k; [reflexivity|].
  cbn [map first_contrib first_binder]. unfold contribb, erase. cbn [fst snd].
  destruct (A.p_bkey p) as [k0|].
  - destruct (String.eqb k k0 && negb (A.has_paren k0)); destruct ta; cbn [arg_of A.info_builder]; try apply IH.
    reflexivity.
  - destruct ta; apply IH.
Qed.

(* the value _cast_inputs binds to a position's type_str is the first occurrence *)
Lemma first_binder_first : forall k tps id d kn,
  first_binder k tps = Some (id, d, kn) ->
  exists pre q post, tps = pre ++ (TVal id d kn, q) :: post /\ A.p_bkey q = Some k /\ A.has_paren k = false /\
    forall id' d' kn' q', In (TVal id' d' kn', q') pre -> A.p_bkey q' <> Some k.
Proof.
  induction tps as [|[ta p] r IH]; intros id d kn H; [discriminate|].
  cbn [first_binder fst snd] in H.
  assert (Hrec : first_binder k r = Some (id, d, kn) ->
          (forall id' d' kn', ta = TVal id' d' kn' -> A.p_bkey p <> Some k) ->
          exists pre q post, (ta, p) :: r = pre ++ (TVal id d kn, q) :: post /\ A.p_bkey q = Some k /\
            A.has_paren k = false /\ forall id' d' kn' q', In (TVal id' d' kn', q') pre -> A.p_bkey q' <> Some k).
  { intros Hr Hne. destruct (IH id d kn Hr) as [pre [q [post [E [Hq [Hp Hall]]]]]].
    exists ((ta, p) :: pre), q, post. subst r. repeat split; auto.
    intros id' d' kn' q' [Hin|Hin]; [inversion Hin; subst; eapply Hne; eauto|eapply Hall; eauto]. }
  destruct ta as [id0 d0 kn0|t|].
  - destruct (A.p_bkey p) as [k0|] eqn:Hk.
    + destruct (String.eqb k k0) eqn:E; cbn [andb] in H.
      * apply String.eqb_eq in E; subst k0.
        destruct (A.has_paren k) eqn:Hp; cbn [negb] in H.
        -- (* a type_str with a parenthesis never binds: no later operand binds it either *)
           exfalso. clear - H Hp. induction r as [|[tb q] r IHr]; [discriminate|].
           cbn [first_binder fst snd] in H. destruct tb; try (apply IHr; exact H).
           destruct (A.p_bkey q) as [k1|]; [|apply IHr; exact H].
           destruct (String.eqb k k1) eqn:E1; cbn [andb] in H; [|apply IHr; exact H].
           apply String.eqb_eq in E1; subst k1. rewrite Hp in H. cbn [negb] in H. apply IHr; exact H.
        -- inversion H; subst. exists [], p, r. repeat split; auto; intros ? ? ? ? [].
      * apply Hrec; [exact H|]. intros ? ? ? _ Hc. inversion Hc; subst. rewrite String.eqb_refl in E. discriminate.
    + apply Hrec; [exact H|]. intros ? ? ? _ Hc; discriminate.
  - apply Hrec; [exact H|]. intros ? ? ? Hc; discriminate.
  - apply Hrec; [exact H|]. intros ? ? ? Hc; discriminate.
Qed.

(* ------------------------------------------------------------------ list plumbing *)
Lemma conv_all_spec : forall T l outs ops,
  conv_all T l outs = Some ops ->
  List.length ops = List.length l /\
  forall i tp, nth_error l i = Some tp ->
    exists o op, nth_error outs i = Some o /\ nth_error ops i = Some op /\ conv T tp o = Some op.
Proof.
  induction l as [|a l IH]; destruct outs as [|o outs]; cbn [conv_all]; intros ops H; try discriminate.
  - inversion H; subst. split; [reflexivity|]. intros [|i] tp Hn; discriminate.
  - destruct (conv T a o) as [x|] eqn:Ec; [|discriminate].
    destruct (conv_all T l outs) as [rest|] eqn:Er; [|discriminate].
    inversion H; subst. destruct (IH outs rest Er) as [Hl Hn]. split; [cbn; f_equal; exact Hl|].
    intros [|i] tp Hi; cbn in *.
    + inversion Hi; subst. eauto.
    + apply Hn; exact Hi.
Qed.

Lemma combine_erase : forall (targs : list toperand) (ps : list A.pinfo),
  map erase (combine targs ps) = combine (map arg_of targs) ps.
Proof. induction targs; destruct ps; cbn; auto. f_equal; auto. Qed.

Lemma nth_error_combine {X Y} : forall (l1 : list X) (l2 : list Y) i a,
  nth_error l1 i = Some a -> List.length l2 = List.length l1 ->
  exists b, nth_error (combine l1 l2) i = Some (a, b).
Proof.
  induction l1 as [|x l1 IH]; intros l2 [|i] a H Hl; try discriminate;
    destruct l2 as [|y l2]; try discriminate; cbn in *.
  - inversion H; subst; eauto.
  - apply IH; auto.
Qed.

Lemma nth_error_combine_fst {X Y} : forall (l1 : list X) (l2 : list Y) i a b,
  nth_error (combine l1 l2) i = Some (a, b) -> nth_error l1 i = Some a.
Proof.
  induction l1 as [|x l1 IH]; intros [|y l2] [|i] a b H; cbn in *; try discriminate.
  - inversion H; reflexivity.
  - eapply IH; eauto.
Qed.

(* what promote_call computes, unfolded once *)
Lemma promote_call_inv : forall named c ops,
  promote_call named c = Some ops ->
  exists ps slots tps,
    A.positions (tc_schema c) (List.length (tc_args c)) = A.OK ps /\
    List.length ps = List.length (tc_args c) /\
    slots_of c = A.OK slots /\ map snd slots = ps /\
    tps = combine (tc_args c) (map snd slots) /\ map erase tps = slots /\
    A.promote_builder_v named (tc_schema c) (map arg_of (tc_args c)) =
      A.OK (A.cast_inputs (A.dtype * bool) A.out A.p_bkey A.info_builder (A.cast_builder_v named) true slots) /\
    conv_all tps tps (A.cast_inputs (A.dtype * bool) A.out A.p_bkey A.info_builder (A.cast_builder_v named) true slots) = Some ops.
Proof.
  intros named c ops H. unfold promote_call in H. rewrite map_length in H.
  destruct (A.positions (tc_schema c) (List.length (tc_args c))) as [ps|] eqn:Hpos; [|discriminate].
  destruct (A.promote_builder_v named (tc_schema c) (map arg_of (tc_args c))) as [outs|] eqn:Hpb; [|discriminate].
  pose proof (AP.positions_length _ _ _ Hpos) as Hlen.
  assert (Hann : slots_of c = A.OK (combine (map arg_of (tc_args c)) ps)).
  { unfold slots_of, A.annotate. rewrite map_length, Hpos. reflexivity. }
  assert (Hsnd : map snd (combine (map arg_of (tc_args c)) ps) = ps).
  { apply AP.combine_snd. rewrite map_length. exact Hlen. }
  exists ps, (combine (map arg_of (tc_args c)) ps), (combine (tc_args c) ps).
  unfold A.promote_builder_v in Hpb. unfold slots_of in Hann. rewrite Hann in Hpb. cbn [A.bind] in Hpb.
  inversion Hpb; subst outs.
  repeat split; auto.
  - rewrite Hsnd. reflexivity.
  - apply combine_erase.
Qed.

(* ------------------------------------------------------------------ (a) the derived operands *)
Theorem promoted_constant_dtype_by_spec : forall named c ops,
  A.schema_okb (tc_schema c) = true ->
  promote_call named c = Some ops ->
  exists slots tps,
    slots_of c = A.OK slots /\ tps = combine (tc_args c) (map snd slots) /\
    List.length ops = List.length (tc_args c) /\
    (forall i id d kn, nth_error (tc_args c) i = Some (TVal id d kn) -> nth_error ops i = Some (OVal id)) /\
    (forall i, nth_error (tc_args c) i = Some TNone -> nth_error ops i = Some ONone) /\
    (forall i t, nth_error (tc_args c) i = Some (TLit t) -> A.plainb (tl_lit t) = true ->
       exists pre p post,
         slots = pre ++ (A.ALit (tl_lit t), p) :: post /\ List.length pre = i /\
         match binder tps p with
         | Some (id, d, true) =>
             nth_error ops i = Some (OLit (mk_lit t d)) /\ A.spec_dtype (pre ++ post) (tl_lit t) p d
         | Some (id, d, false) =>
             nth_error ops i = Some (OLitCast (mk_lit t (A.default_dtype (tl_lit t))) id) /\
             A.spec_dtype (pre ++ post) (tl_lit t) p d
         | None =>
             nth_error ops i = Some (OLit (mk_lit t (A.default_dtype (tl_lit t)))) /\
             A.spec_dtype (pre ++ post) (tl_lit t) p (A.default_dtype (tl_lit t))
         end).
Proof.
  intros named c ops Hs Hp.
  destruct (promote_call_inv named c ops Hp) as [ps [slots [tps [Hpos [Hlen [Hann [Hsnd [Htps [Her [Hpb Hconv]]]]]]]]]].
  destruct (conv_all_spec _ _ _ _ Hconv) as [Hl Hn].
  assert (Hlt : List.length tps = List.length (tc_args c)).
  { subst tps. rewrite Hsnd, combine_length, Hlen. apply Nat.min_id. }
  exists slots, tps. split; [exact Hann|]. split; [exact Htps|]. split; [rewrite Hl; exact Hlt|].
  assert (Hat : forall i ta, nth_error (tc_args c) i = Some ta -> exists p, nth_error tps i = Some (ta, p)).
  { intros i ta Hi. subst tps. apply nth_error_combine; [exact Hi|]. rewrite Hsnd. exact Hlen. }
  split; [|split].
  - intros i id d kn Hi. destruct (Hat i _ Hi) as [p Hp']. destruct (Hn i _ Hp') as [o [op [_ [Hop Hc]]]].
    unfold conv in Hc; cbn [fst] in Hc. destruct o; try discriminate. inversion Hc; subst. exact Hop.
  - intros i Hi. destruct (Hat i _ Hi) as [p Hp']. destruct (Hn i _ Hp') as [o [op [_ [Hop Hc]]]].
    unfold conv in Hc; cbn [fst] in Hc. destruct o; try discriminate. inversion Hc; subst. exact Hop.
  - intros i t Hi Hplain. destruct (Hat i _ Hi) as [p Hp']. destruct (Hn i _ Hp') as [o [op [Ho [Hop Hc]]]].
    assert (Hsl : nth_error slots i = Some (A.ALit (tl_lit t), p)).
    { rewrite <- Her. apply (map_nth_error erase) in Hp'. exact Hp'. }
    destruct (nth_error_split _ _ Hsl) as [pre [post [Esl Hpre]]].
    exists pre, p, post. split; [exact Esl|]. split; [exact Hpre|].
    (* what C12's model returns at this position *)
    assert (Ho' : o = A.cast_builder_v named (A.ALit (tl_lit t)) (option_map proj_binder (binder tps p))).
    { unfold A.cast_inputs in Ho. rewrite Esl in Ho at 2. rewrite <- Hpre in Ho.
      rewrite AP.nth_error_map_mid in Ho. inversion Ho as [Ho2]. unfold A.cast_slot. cbn [fst snd].
      unfold binder. destruct (A.p_bkey p) as [k|]; [|reflexivity].
      rewrite bindings_first. rewrite <- Her. rewrite first_contrib_binder. reflexivity. }
    (* what the specification says about it *)
    destruct (AP.builder_eq_spec named (tc_schema c) (map arg_of (tc_args c)) slots pre post (tl_lit t) p _ Hs Hplain Hann Esl Hpb)
      as [o2 [Ho2 [_ [d2 [Hd2 Hspec]]]]].
    assert (Eo : Some o = Some o2) by (rewrite <- Ho, <- Ho2, <- Hpre; reflexivity).
    inversion Eo; subst o2. clear Eo Ho2.
    unfold conv in Hc. cbn [fst snd] in Hc.
    unfold A.cast_builder_v in Ho'. rewrite (AP.plainb_ok _ Hplain), (AP.plainb_builder_default _ Hplain) in Ho'. cbn [orb] in Ho'.
    destruct (binder tps p) as [[[id d] kn]|] eqn:Hb; cbn [option_map proj_binder fst snd] in Ho'.
    + destruct kn; subst o; cbn in Hd2; inversion Hd2; subst d2; cbn in Hc; try rewrite Hb in Hc; cbn in Hc;
        inversion Hc; subst op; split; assumption.
    + subst o. cbn in Hd2; inversion Hd2; subst d2. cbn in Hc. inversion Hc; subst op. split; assumption.
Qed.

(* the like-value of a CastLike / the sibling whose type the constant takes is the FIRST ir.Value operand
   whose position carries the literal's (identifier) type_str *)
Theorem binder_is_first_occurrence : forall tps p id d kn,
  binder tps p = Some (id, d, kn) ->
  exists k pre q post, A.p_bkey p = Some k /\ A.has_paren k = false /\
    tps = pre ++ (TVal id d kn, q) :: post /\ A.p_bkey q = Some k /\
    forall id' d' kn' q', In (TVal id' d' kn', q') pre -> A.p_bkey q' <> Some k.
Proof.
  intros tps p id d kn H. unfold binder in H. destruct (A.p_bkey p) as [k|]; [|discriminate].
  destruct (first_binder_first k tps id d kn H) as [pre [q [post [E [Hq [Hp Hall]]]]]].
  exists k, pre, q, post. repeat split; auto.
Qed.

(* ------------------------------------------------------------------ the typed reading of the operands *)
Section Read.
  Variable V : Type.
  Variable sem : string -> string -> list (string * attrv) -> list (option V) -> option (list V).
  Variable tensor : A.dtype -> string -> V.
  Variable lit_val : string -> V.
  Hypothesis lit_val_tag : forall d p, lit_val (lit_tag d p) = tensor d p.

  Definition carg1 (E : venv V) (a : operand) : option (option V) :=
    match a with
    | OVal id => match vlook V E id with Some v => Some (Some v) | None => None end
    | ONone => Some None
    | OLit l => Some (Some (lit_val (l_val l)))
    | OLitCast l like =>
      match vlook V E like with
      | Some lv =>
        match sem "" "CastLike" [] [Some (lit_val (l_val l)); Some lv] with
        | Some [cv] => Some (Some cv)
        | _ => None
        end
      | None => None
      end
    end.

  Lemma cargs_cons : forall E a r,
    cargs V sem lit_val E (a :: r) =
    match carg1 E a, cargs V sem lit_val E r with Some v, Some vs => Some (v :: vs) | _, _ => None end.
  Proof.
    intros E a r. destruct a as [id|l|l like|]; cbn [cargs carg1].
    - destruct (vlook V E id); [|reflexivity]. destruct (cargs V sem lit_val E r); reflexivity.
    - destruct (cargs V sem lit_val E r); reflexivity.
    - destruct (vlook V E like) as [lv|]; [|reflexivity].
      destruct (sem "" "CastLike" [] [Some (lit_val (l_val l)); Some lv]) as [[|cv [|x y]]|]; try reflexivity;
        destruct (cargs V sem lit_val E r); reflexivity.
    - destruct (cargs V sem lit_val E r); reflexivity.
  Qed.

  Lemma cargs_tread : forall E slots T l ops,
    List.length ops = List.length l ->
    (forall i tp, nth_error l i = Some tp ->
       exists op, nth_error ops i = Some op /\ carg1 E op = tread1 V sem tensor E slots T tp) ->
    cargs V sem lit_val E ops = tread_all V sem tensor E slots T l.
  Proof.
    induction l as [|tp l IH]; intros [|op ops] Hl H; try discriminate; [reflexivity|].
    rewrite cargs_cons. cbn [tread_all].
    destruct (H 0 tp eq_refl) as [op' [E0 E1]]. cbn in E0. inversion E0; subst op'. rewrite E1.
    rewrite (IH ops); [reflexivity|cbn in Hl; lia|].
    intros i tp' Hi. apply (H (S i) tp' Hi).
  Qed.

  (* the operands creplay reads at a derived call = the typed reading: each literal is the constant of the
     element type C12's specification assigns (spec_fn), or that constant's Python-typed twin cast at run
     time to the binding sibling when the sibling's type is unknown at construction time *)
  Lemma derived_reads_typed : forall named c slots ops,
    A.schema_okb (tc_schema c) = true -> slots_of c = A.OK slots -> A.uniform slots ->
    all_plain c = true ->
    promote_call named c = Some ops ->
    forall E, cargs V sem lit_val E ops = targs V sem tensor E c.
  Proof.
    intros named c slots ops Hs Hann Hu Hpl Hp E.
    destruct (promoted_constant_dtype_by_spec named c ops Hs Hp) as [slots' [tps [Hann' [Htps [Hl [Hv [Hnn Hlit]]]]]]].
    rewrite Hann in Hann'. inversion Hann'; subst slots'. clear Hann'.
    unfold targs. rewrite Hann. cbv zeta. rewrite <- Htps.
    destruct (promote_call_inv named c ops Hp) as [ps [slots2 [tps2 [_ [Hlen [Hann2 [Hsnd [Htps2 _]]]]]]]].
    rewrite Hann in Hann2. inversion Hann2; subst slots2. clear Hann2.
    assert (Hlt : List.length tps = List.length (tc_args c)).
    { subst tps. rewrite Hsnd, combine_length, Hlen. apply Nat.min_id. }
    apply cargs_tread; [transitivity (List.length (tc_args c)); [exact Hl|symmetry; exact Hlt]|].
    intros i [ta p] Hi.
    assert (Hta : nth_error (tc_args c) i = Some ta).
    { subst tps. eapply nth_error_combine_fst; eauto. }
    destruct ta as [id d kn|t|]; unfold tread1; cbn [fst snd].
    - exists (OVal id). split; [eapply Hv; eauto|]. reflexivity.
    - assert (Hplain : A.plainb (tl_lit t) = true).
      { unfold all_plain in Hpl. rewrite forallb_forall in Hpl. apply (Hpl (TLit t)). eapply nth_error_In; eauto. }
      destruct (Hlit i t Hta Hplain) as [pre [p' [post [Esl [Hpre Hm]]]]].
      assert (p' = p).
      { assert (Hs1 : nth_error (map snd slots) i = Some p').
        { rewrite Esl, map_app, <- Hpre, <- (map_length snd pre), nth_error_app2, Nat.sub_diag; [reflexivity|lia]. }
        assert (Hs2 : nth_error (map snd slots) i = Some p).
        { subst tps. clear - Hi. revert i Hi. generalize (map snd slots) as ps. generalize (tc_args c) as l.
          induction l as [|x l IH]; intros [|q ps] [|i] H; cbn in *; try discriminate.
          - inversion H; reflexivity.
          - eapply IH; eauto. }
        congruence. }
      subst p'.
      pose proof (AP.spec_fn_correct slots pre post (tl_lit t) p Esl) as Hfn.
      destruct (binder tps p) as [[[id d] kn]|].
      + destruct kn; destruct Hm as [Hop Hsp].
        * exists (OLit (mk_lit t d)). split; [exact Hop|]. cbn [carg1 mk_lit l_val]. rewrite lit_val_tag.
          rewrite (AP.spec_dtype_unique slots pre post (tl_lit t) p _ _ Hu Esl Hfn Hsp). reflexivity.
        * exists (OLitCast (mk_lit t (A.default_dtype (tl_lit t))) id). split; [exact Hop|].
          cbn [carg1 mk_lit l_val]. rewrite lit_val_tag. reflexivity.
      + destruct Hm as [Hop Hsp]. exists (OLit (mk_lit t (A.default_dtype (tl_lit t)))). split; [exact Hop|].
        cbn [carg1 mk_lit l_val]. rewrite lit_val_tag.
        rewrite (AP.spec_dtype_unique slots pre post (tl_lit t) p _ _ Hu Esl Hfn Hsp). reflexivity.
    - exists ONone. split; [eapply Hnn; eauto|]. reflexivity.
  Qed.

  Definition reads_typed (args : list operand) : Prop :=
    exists named c slots, A.schema_okb (tc_schema c) = true /\ slots_of c = A.OK slots /\ A.uniform slots /\
                    all_plain c = true /\ promote_call named c = Some args /\
                    forall E, cargs V sem lit_val E args = targs V sem tensor E c.

  Lemma derived_reads : forall args, derived args -> reads_typed args.
  Proof.
    intros args [named [c [slots [Hs [Ha [Hu [Hpl Hp]]]]]]]. exists named, c, slots. repeat split; auto.
    eapply derived_reads_typed; eauto.
  Qed.
End Read.

(* ------------------------------------------------------------------ every call, at every depth *)
Lemma every_call_mono : forall (P Q : list operand -> Prop), (forall a, P a -> Q a) ->
  forall c, every_call P c -> every_call Q c.
Proof.
  intros P Q HPQ.
  apply (call_ind2 (fun c => every_call P c -> every_call Q c) (fun sb => every_sub P sb -> every_sub Q sb)).
  - intros st dom op args attrs subs outs HF [Ha Hs]. split; [auto|].
    induction HF as [|ks r Hk HF IH]; [exact I|]. destruct Hs as [H1 H2]. split; [apply Hk; exact H1|apply IH; exact H2].
  - intros; exact I.
  - intros ins body rets decl HF Hb. cbn [every_sub] in *.
    induction HF as [|c r Hc HF IH]; [exact I|]. destruct Hb as [H1 H2]. split; [apply Hc; exact H1|apply IH; exact H2].
Qed.

Lemma every_calls_mono : forall (P Q : list operand -> Prop), (forall a, P a -> Q a) ->
  forall tr, every_calls P tr -> every_calls Q tr.
Proof.
  intros P Q HPQ. induction tr as [|c r IH]; [auto|]. intros [H1 H2]. split; [eapply every_call_mono; eauto|auto].
Qed.

(* ------------------------------------------------------------------ (b) composition with C18's trace theorem *)
(* For a trace whose every operator call, at every nesting depth (If / Loop bodies), has the operands the C12
   model derives for a well-typed call of a well-formed schema: whenever the reading of the trace is defined,
   the graph GraphBuilder builds evaluates to it, AND that reading reads, at every call, each literal operand as
   the constant of the element type C12's specification assigns (`targs`). *)
Theorem build_computes_typed_trace_partial :
  forall V sem truth trip of_nat of_bool lim (tensor : A.dtype -> string -> V) lit_val cf fuel ins tr outs args r,
  (forall d p, lit_val (lit_tag d p) = tensor d p) ->
  every_calls derived tr ->
  cf_hypsb cf ins tr = true ->
  List.length args = List.length ins ->
  creplay V sem truth trip of_nat of_bool lim lit_val fuel tr args outs = Some r ->
  eval_graph V sem truth trip of_nat of_bool lim (S fuel)
             (init_env V lit_val (b_cache (fst (build_state cf ins tr)))) (build cf ins tr outs) args = Some r /\
  every_calls (reads_typed V sem tensor lit_val) tr.
Proof.
  intros V sem truth trip of_nat of_bool lim tensor lit_val cf fuel ins tr outs args r Htag Hd Hh Hl Hr.
  split.
  - eapply build_computes_trace_cf_checked; eauto.
  - eapply every_calls_mono; [|exact Hd]. intros a Ha. apply derived_reads; auto.
Qed.

(* the full statement: the typed reading as a function of the typed trace alone (a `treplay` over typed calls
   with nested typed bodies, equal to `creplay` of the derived trace), and the converse direction *)
Definition build_computes_typed_trace_full : Prop :=
  forall V sem truth trip of_nat of_bool lim (tensor : A.dtype -> string -> V) lit_val cf fuel ins tr outs args,
  (forall d p, lit_val (lit_tag d p) = tensor d p) ->
  every_calls derived tr ->
  cf_hypsb cf ins tr = true ->
  List.length args = List.length ins ->
  eval_graph V sem truth trip of_nat of_bool lim (S fuel)
             (init_env V lit_val (b_cache (fst (build_state cf ins tr)))) (build cf ins tr outs) args =
  creplay V sem truth trip of_nat of_bool lim lit_val fuel tr args outs /\
  every_calls (reads_typed V sem tensor lit_val) tr.

(* straight-line traces: both directions (from Trace's build_computes_trace) *)

(* ------------------------------------------------------------------ the registry *)
Lemma find_schema_in : forall name opset all best s,
  find_schema name opset best all = Some s -> best = Some s \/ In s all.
Proof.
  induction all as [|x r IH]; cbn [find_schema]; intros best s H; [auto|].
  destruct (String.eqb (A.s_name x) name && N.leb (A.s_ver x) opset).
  - apply IH in H. destruct H as [H|H]; [|right; right; exact H].
    destruct best as [b|]; [destruct (N.ltb (A.s_ver b) (A.s_ver x))|]; inversion H; subst; auto; right; left; reflexivity.
  - apply IH in H. destruct H; auto. right; right; assumption.
Qed.

(* every schema the builder can look up satisfies the hypothesis of the theorems above *)
Theorem schema_at_ok : forall name opset s,
  find_schema name opset None OV.Gen.Schemas.all = Some s -> A.schema_okb s = true.
Proof.
  intros name opset s H.
  destruct (find_schema_in name opset OV.Gen.Schemas.all None s H) as [H'|H'].
  - discriminate H'.
  - exact (AP.registry_schema_ok s H').
Qed.

(* ------------------------------------------------------------------ non-vacuity *)
Definition s_of (name : string) : A.schema :=
  match schema_at name 21 with Some s => s | None => A.mkS "" 0 [] [] end.
Definition tl (l : A.literal) (key name payload : string) : tlit := TL l key (LNFixed name) payload.
Definition two := A.LScalar (A.SInt 2).
Definition half := A.LScalar (A.SFloat false 1 1).

(* Add(x: float known, 2) -> a float32 constant *)
Example ex_add_known :
  promote_call true (TC (s_of "Add") [TVal 0 A.FLOAT true; TLit (tl two "const_2_f32" "const_2_f32" "():00000040")]) =
  Some [OVal 0; OLit (Lit "const_2_f32" (LNFixed "const_2_f32") "float32:():00000040")].
Proof. vm_compute. reflexivity. Qed.

(* Add(x: unknown, 2) -> CastLike(int64 constant, x) *)
Example ex_add_unknown :
  promote_call true (TC (s_of "Add") [TVal 3 A.FLOAT false; TLit (tl two "const_2_i64" "const_2_i64" "():0200000000000000")]) =
  Some [OVal 3; OLitCast (Lit "const_2_i64" (LNFixed "const_2_i64") "int64:():0200000000000000") 3].
Proof. vm_compute. reflexivity. Qed.

(* Max (homogeneous variadic): literals at the first, a middle and a tail position; the FIRST value binds:
   v5 (unknown) before v1 (known) -> CastLike to v5; v1 before v5 -> float32 constants *)
Example ex_max_positions :
  promote_call true (TC (s_of "Max") [TLit (tl two "a" "a" "p"); TVal 5 A.FLOAT false; TLit (tl half "b" "b" "q"); TVal 1 A.FLOAT true;
                                 TLit (tl (A.LScalar (A.SBool true)) "c" "c" "r")]) =
  Some [OLitCast (Lit "a" (LNFixed "a") "int64:p") 5; OVal 5; OLitCast (Lit "b" (LNFixed "b") "float32:q") 5; OVal 1;
        OLitCast (Lit "c" (LNFixed "c") "bool:r") 5] /\
  promote_call true (TC (s_of "Max") [TLit (tl two "a" "a" "p"); TVal 1 A.FLOAT true; TVal 5 A.FLOAT false;
                                 TLit (tl (A.LScalar (A.SBool true)) "c" "c" "r")]) =
  Some [OLit (Lit "a" (LNFixed "a") "float32:p"); OVal 1; OVal 5; OLit (Lit "c" (LNFixed "c") "float32:r")].
Proof. split; vm_compute; reflexivity. Qed.

(* Loop (heterogeneous variadic v_initial): the trip count is int64, the carried literals keep their Python type *)
Example ex_loop_hetero :
  promote_call true (TC (s_of "Loop") [TLit (tl two "t" "t" "p"); TNone; TVal 0 A.FLOAT true; TLit (tl two "a" "a" "q");
                                  TLit (tl half "b" "b" "r"); TLit (tl (A.LList (A.SBool true) [A.SBool false]) "c" "c" "s")]) =
  Some [OLit (Lit "t" (LNFixed "t") "int64:p"); ONone; OVal 0; OLit (Lit "a" (LNFixed "a") "int64:q");
        OLit (Lit "b" (LNFixed "b") "float32:r"); OLit (Lit "c" (LNFixed "c") "bool:s")].
Proof. vm_compute. reflexivity. Qed.

(* no tensor sibling: Reshape's shape (concrete type string), Where with two literals *)
Example ex_no_sibling :
  promote_call true (TC (s_of "Reshape") [TVal 0 A.FLOAT true; TLit (tl (A.LList (A.SInt (-1)) []) "s" "s" "p")]) =
  Some [OVal 0; OLit (Lit "s" (LNFixed "s") "int64:p")] /\
  promote_call true (TC (s_of "Where") [TVal 0 A.BOOL true; TLit (tl half "a" "a" "p"); TLit (tl half "a" "a" "p")]) =
  Some [OVal 0; OLit (Lit "a" (LNFixed "a") "float32:p"); OLit (Lit "a" (LNFixed "a") "float32:p")].
Proof. split; vm_compute; reflexivity. Qed.

(* a literal that is NOT plain (a list mixing int and float leaves the builder's cached path): as read the builder
   raised (no derived operands), after repo fix 4f6059b it promotes it with the dtype ir.tensor infers; the two
   variants agree on plain literals, to which the theorems are restricted *)
Example ex_not_plain :
  let mixed := A.LList (A.SFloat false 3 1) [A.SInt 2] in
  A.plainb mixed = false /\
  promote_call false (TC (s_of "Add") [TVal 0 A.FLOAT true; TLit (tl mixed "k" "k" "p")]) = None /\
  promote_call true (TC (s_of "Add") [TVal 0 A.FLOAT true; TLit (tl mixed "k" "k" "p")]) =
  Some [OVal 0; OLit (Lit "k" (LNFixed "k") "float32:p")] /\
  promote_call false (TC (s_of "Add") [TVal 0 A.FLOAT true; TLit (tl two "k" "k" "p")]) =
  promote_call true (TC (s_of "Add") [TVal 0 A.FLOAT true; TLit (tl two "k" "k" "p")]).
Proof. vm_compute. repeat split; reflexivity. Qed.

(* the hypotheses of promoted_constant_dtype_by_spec / derived hold on these calls *)
Definition ex_call : tcall :=
  TC (s_of "Max") [TLit (tl two "a" "a" "p"); TVal 1 A.FLOAT true; TVal 5 A.FLOAT false; TLit (tl half "c" "c" "r")].
Definition ex_ops : list operand :=
  [OLit (Lit "a" (LNFixed "a") "float32:p"); OVal 1; OVal 5; OLit (Lit "c" (LNFixed "c") "float32:r")].

Lemma uniform_of_check : forall slots,
  (forall sl1 sl2, In sl1 slots -> In sl2 slots ->
     match fst sl1, fst sl2, A.p_skey (snd sl1), A.p_skey (snd sl2) with
     | A.ATensor d1 _, A.ATensor d2 _, Some k1, Some k2 => k1 = k2 -> d1 = d2
     | _, _, _, _ => True
     end) -> A.uniform slots.
Proof.
  intros slots H sl1 sl2 k d1 d2 k1 k2 I1 I2 S1 S2 T1 T2. specialize (H sl1 sl2 I1 I2).
  rewrite T1, T2, S1, S2 in H. auto.
Qed.

Example ex_derived : A.schema_okb (tc_schema ex_call) = true /\ derived ex_ops.
Proof.
  split; [vm_compute; reflexivity|].
  exists true, ex_call. eexists. split; [vm_compute; reflexivity|]. split; [vm_compute; reflexivity|]. split; [|split; vm_compute; reflexivity].
  apply uniform_of_check. intros sl1 sl2 I1 I2.
  cbn in I1, I2.
  destruct I1 as [I1|[I1|[I1|[I1|[]]]]]; destruct I2 as [I2|[I2|[I2|[I2|[]]]]]; subst; cbn; auto.
Qed.

(* x (float, known), u (element type unknown to the builder) = inputs;  a = op.Add(x, 2);  b = op.Mul(u, 2):
   every call is derived, the hypotheses of build_computes_typed_trace_partial hold, the reading is defined *)
Definition ex_add_call : tcall :=
  TC (s_of "Add") [TVal 0 A.FLOAT true; TLit (tl two "const_2_f32" "const_2_f32" "():00000040")].
Definition ex_mul_call : tcall :=
  TC (s_of "Mul") [TVal 1 A.FLOAT false; TLit (tl two "const_2_i64" "const_2_i64" "():0200000000000000")].
Definition ex_add_ops : list operand := [OVal 0; OLit (Lit "const_2_f32" (LNFixed "const_2_f32") "float32:():00000040")].
Definition ex_mul_ops : list operand :=
  [OVal 1; OLitCast (Lit "const_2_i64" (LNFixed "const_2_i64") "int64:():0200000000000000") 1].
Definition ex_lit_trace : list call :=
  [COp [] "" "Add" ex_add_ops [] [] (ODefault 1); COp [] "" "Mul" ex_mul_ops [] [] (ODefault 1)].
Definition zl (s : string) : Z := Z.of_nat (String.length s).

Local Open Scope string_scope.
Example ex_typed_trace_hyps :
  every_calls derived ex_lit_trace /\ cf_hypsb bcfg_fixed ["x"; "u"] ex_lit_trace = true /\
  (forall d p, zl (lit_tag d p) = (fun d p => zl (lit_tag d p)) d p) /\
  creplay Z zsem ztruth ztrip Z.of_nat zof_bool 100 zl 1 ex_lit_trace [5; 7]%Z [2; 3] = Some [24; 175]%Z.
Proof.
  split; [|split; [vm_compute; reflexivity|split; [reflexivity|vm_compute; reflexivity]]].
  cbn [ex_lit_trace every_calls every_call]. split; [split; [|exact I]|split; [split; [|exact I]|exact I]].
  - exists true, ex_add_call. eexists. split; [vm_compute; reflexivity|]. split; [vm_compute; reflexivity|]. split; [|split; vm_compute; reflexivity].
    apply uniform_of_check. intros sl1 sl2 I1 I2. cbn in I1, I2.
    destruct I1 as [I1|[I1|[]]]; destruct I2 as [I2|[I2|[]]]; subst; cbn; auto.
  - exists true, ex_mul_call. eexists. split; [vm_compute; reflexivity|]. split; [vm_compute; reflexivity|]. split; [|split; vm_compute; reflexivity].
    apply uniform_of_check. intros sl1 sl2 I1 I2. cbn in I1, I2.
    destruct I1 as [I1|[I1|[]]]; destruct I2 as [I2|[I2|[]]]; subst; cbn; auto.
Qed.
