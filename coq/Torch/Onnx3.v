(* C08 (third group of families) -- further ONNX operator semantics used by the torch_lib models, transcribed from the
   operator documents: ReduceMin / ReduceMax on an empty set, Cast to / from BOOL, ArgMax-13 / ArgMin-13 shapes,
   ScatterElements-18 shape rules, Conv-11 / ConvTranspose-11 attribute lengths and output extents.
   `None` = the operator document calls the node invalid / the runtime refuses it.  No proofs in this file. *)
From Coq Require Import ZArith List Bool.
Require Import OV.Torch.Onnx.
Import ListNotations.
Local Open Scope Z_scope.

(* Cast(x, to = BOOL): x != 0;  Cast(b, to = INT64): 1 / 0 *)
Definition cast_bool (v : Z) : bool := negb (v =? 0).
Definition cast_b2i (b : bool) : Z := if b then 1 else 0.
(* ReduceMin-18 / ReduceMax-18 on INT64 along one axis: "Reduction over an empty set of values yields plus infinity (if
   supported by the datatype) or the maximum value of the data type otherwise" resp. "minus infinity ... or the minimum value" *)
Definition reduce_min_i64 (l : list Z) : Z := fold_right Z.min INT64_MAX l.
Definition reduce_max_i64 (l : list Z) : Z := fold_right Z.max INT64_MIN l.

(* ArgMax-13 / ArgMin-13: axis in [-r, r-1] (so r >= 1); the reduced extent must not be 0 (onnxruntime refuses);
   the axis is removed or kept with extent 1 *)
Definition argmax_shape (s : list Z) (axis : Z) (keepdims : bool) : option (list Z) :=
  obind (norm_axis (zlen s) axis) (fun a =>
    match nthZ s a with
    | Some n => if n =? 0 then None else Some (reduce_dims s 0 [a] keepdims)
    | None => None
    end).

(* ScatterElements-18(data, indices, updates, axis): rank r >= 1; "indices: tensor of int32/int64 indices, of r >= 1
   (same rank as input)"; "updates: tensor of rank r >= 1 (same rank and shape as indices)"; onnxruntime also requires
   indices.dim(i) <= data.dim(i) for i != axis; the output has data's shape *)
Fixpoint le_except (skip i : Z) (a b : list Z) : bool :=
  match a, b with
  | [], [] => true
  | x :: a', y :: b' => ((i =? skip) || (x <=? y)) && le_except skip (i + 1) a' b'
  | _, _ => false
  end.
Fixpoint shape_eq (a b : list Z) : bool :=
  match a, b with
  | [], [] => true
  | x :: a', y :: b' => (x =? y) && shape_eq a' b'
  | _, _ => false
  end.
Definition scatter_elements_shape (data : list Z) (axis : Z) (idx upd : list Z) : option (list Z) :=
  if zlen data <? 1 then None
  else obind (norm_axis (zlen data) axis) (fun a =>
    if negb (zlen idx =? zlen data) then None
    else if negb (shape_eq idx upd) then None
    else if negb (le_except a 0 idx data) then None
    else Some data).

(* Conv-11 / ConvTranspose-11 with e spatial axes: strides, dilations, output_padding of length e, pads of length 2e
   ([x1_begin, x2_begin, ..., x1_end, x2_end, ...]); the bias B is 1-D *)
Definition conv_attrs_ok (e : Z) (strides pads dilations : list Z) (bias_rank : Z) : bool :=
  (zlen strides =? e) && (zlen pads =? 2 * e) && (zlen dilations =? e) && (bias_rank =? 1).
Definition convT_attrs_ok (e : Z) (strides pads dilations output_padding : list Z) (bias_rank : Z) : bool :=
  conv_attrs_ok e strides pads dilations bias_rank && (zlen output_padding =? e).
(* "output_spatial_shape[i] = floor((input + pad_begin + pad_end - ((kernel - 1) * dilation + 1)) / stride + 1)" *)
Definition conv_out (n k s pb pe d : Z) : Z := (n + pb + pe - ((k - 1) * d + 1)) / s + 1.
(* "output_shape[i] = stride[i] * (input_size[i] - 1) + output_padding[i] + ((kernel_shape[i] - 1) * dilations[i] + 1) - pads[start_i] - pads[end_i]" *)
Definition convT_out (n k s pb pe d op : Z) : Z := s * (n - 1) + op + ((k - 1) * d + 1) - pb - pe.
