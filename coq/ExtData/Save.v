(* Model of onnxscript/_framework_apis/torch_2_5.py `save_model_with_external_data` (C20) and of the
   step sequence of onnx_ir 1.0.0 `ir.save(model, path, external_data=...)` that it calls
   (onnx_ir/_io.py save, external_data.py unload_from_model / convert_tensors_to_external /
   _write_external_data).  No proofs in this file.

   In-memory model  = list of initializer slots (name, in-main-graph?, const_value); a const_value is a
                      tensor *object* (identity `tid`) that is either in memory or an external reference.
   File system      = total map path -> option file; a file is raw bytes or a serialised model, the latter
                      kept structured (the proto is not modelled at byte level: serde round trip is an
                      assumption listed by the harness and measured by ir.load on every successful save).
   Fault model      = the k-th instrumented file-system call (open / write / close, 0-based) raises OSError;
                      a failing call has no effect on the file system. *)
From Coq Require Import ZArith List Bool String.
Import ListNotations.
Open Scope Z_scope.

Definition bytes := list Z.
Definition path := (string * string)%type.          (* (directory, file name) *)
Definition path_eqb (a b : path) : bool := String.eqb (fst a) (fst b) && String.eqb (snd a) (snd b).

Inductive tensor :=
| InMem (tid : nat) (data : bytes)                    (* ir.Tensor / TensorProtoTensor / StringTensor ... *)
| Ext (tid : nat) (src : path) (off len : Z).         (* ir.ExternalTensor: (base_dir, location), offset, length *)

Definition t_id (t : tensor) : nat := match t with InMem i _ => i | Ext i _ _ _ => i end.
Definition Zlen {A} (l : list A) : Z := Z.of_nat (List.length l).
Definition nbytes (t : tensor) : Z := match t with InMem _ d => Zlen d | Ext _ _ _ l => l end.

Definition slot := (string * bool * option tensor)%type.
Definition s_name (s : slot) : string := fst (fst s).
Definition s_main (s : slot) : bool := snd (fst s).
Definition s_val (s : slot) : option tensor := snd s.

Inductive ptensor := PInline (d : bytes) | PExt (loc : string) (off len : Z).
Definition pentry := (string * bool * ptensor)%type.
Inductive file := FData (b : bytes) | FModel (es : list pentry).
Definition fsys := path -> option file.
Definition upd (fs : fsys) (p : path) (f : file) : fsys := fun q => if path_eqb p q then Some f else fs q.
Definition empty_fs : fsys := fun _ => None.

(* constants of onnx_ir: save(size_threshold_bytes=256), _ALIGN_THRESHOLD, _ALIGNMENT_FACTOR, tofile chunk *)
Definition size_threshold : Z := 256.
Definition align_threshold : Z := 1048576.
Definition align_factor : Z := 65536.
Definition chunk_size : Z := 1048576.

(* ---------------------------------------------------------------- reading *)
Definition in_range (off len : Z) (b : bytes) : bool := (0 <=? off) && (0 <=? len) && (off + len <=? Zlen b).
Definition slice (off len : Z) (b : bytes) : option bytes :=
  if in_range off len b then Some (firstn (Z.to_nat len) (skipn (Z.to_nat off) b)) else None.
Definition read_ext (fs : fsys) (src : path) (off len : Z) : option bytes :=
  match fs src with Some (FData b) => slice off len b | _ => None end.
Definition data_of (fs : fsys) (t : tensor) : bytes :=
  match t with
  | InMem _ d => d
  | Ext _ src off len => match read_ext fs src off len with Some b => b | None => [] end
  end.

(* ---------------------------------------------------------------- torch_2_5.py: guard and data file name *)
(* `all_graphs` = does the guard look at every graph of the model (true) or only at model.graph (false)?
   The value for the current source is regenerated into Gen/C20Guard.v by the harness. *)
Definition guard_fails (all_graphs : bool) (M : list slot) : bool :=
  existsb (fun s => match s_val s with None => all_graphs || s_main s | Some _ => false end) M.
(* data_path = f"{destination_path.name}.data", joined by ir.save with dirname(path) *)
Definition data_path (mp : path) : path := (fst mp, (snd mp ++ ".data")%string).

(* ---------------------------------------------------------------- unload_from_model: classification *)
Inductive action := Keep | Externalize (t : tensor) | LoadSmall (t : tensor).
Definition classify (s : slot) : action :=
  match s_val s with
  | None => Keep
  | Some t => if size_threshold <? nbytes t then Externalize t
              else match t with Ext _ _ _ _ => LoadSmall t | InMem _ _ => Keep end
  end.

Definition item := (nat * tensor)%type.                 (* slot index, tensor *)
Fixpoint index_from {A} (i : nat) (l : list A) : list (nat * A) :=
  match l with [] => [] | x :: r => (i, x) :: index_from (S i) r end.
Definition ext_items (M : list slot) : list item :=
  flat_map (fun p => match classify (snd p) with Externalize t => [(fst p, t)] | _ => [] end) (index_from 0 M).
Definition small_items (M : list slot) : list item :=
  flat_map (fun p => match classify (snd p) with LoadSmall t => [(fst p, t)] | _ => [] end) (index_from 0 M).

(* sorted(range(n), key=nbytes): stable, ascending *)
Fixpoint insert (x : item) (l : list item) : list item :=
  match l with
  | [] => [x]
  | y :: r => if nbytes (snd x) <=? nbytes (snd y) then x :: l else y :: insert x r
  end.
Definition sort_items (l : list item) : list item := fold_right insert [] l.

(* _compute_new_offset *)
Definition align_up (cur size : Z) : Z :=
  if align_threshold <? size then (cur + align_factor - 1) / align_factor * align_factor else cur.
(* offsets assigned in write order: (slot index, offset, length) *)
Fixpoint layout (cur : Z) (its : list item) : list (nat * Z * Z) :=
  match its with
  | [] => []
  | (i, t) :: r => let off := align_up cur (nbytes t) in (i, off, nbytes t) :: layout (off + nbytes t) r
  end.

(* _materialize_external_tensors_for_destination_paths: destination exists and tensor is backed by it *)
Definition exists_file (fs : fsys) (p : path) : bool := match fs p with Some _ => true | None => false end.
Definition materialised (fs0 : fsys) (dp : path) (t : tensor) : bool :=
  match t with Ext _ src _ _ => exists_file fs0 dp && path_eqb src dp | InMem _ _ => false end.

(* ---------------------------------------------------------------- file-system calls *)
Inductive op :=
| OpenR (p : path) (off len : Z) (inval : option nat)   (* open(p,"rb") + read of [off,off+len); afterwards tensor `inval` is invalidated *)
| OpenW (p : path)                                       (* open(p,"wb"): create / truncate *)
| WriteB (p : path) (b : bytes)                          (* file.write(bytes): append *)
| WriteM (p : path) (es : list pentry)                   (* file.write(serialised model) *)
| Close (p : path).

Definition zeros (n : Z) : bytes := repeat 0 (Z.to_nat n).
(* ExternalTensor.tofile copies in chunks of 1 MiB *)
Fixpoint chunks_fuel (fuel : nat) (b : bytes) : list bytes :=
  match fuel with
  | O => []
  | S f => match b with
           | [] => []
           | _ => let n := Z.to_nat (Z.min chunk_size (Zlen b)) in firstn n b :: chunks_fuel f (skipn n b)
           end
  end.
Definition chunks (b : bytes) : list bytes := chunks_fuel (List.length b) b.

Definition ops_small (its : list item) : list op :=
  flat_map (fun it => match snd it with
                      | Ext _ src off len => if 0 <? len then [OpenR src off len None] else []
                      | InMem _ _ => [] end) its.
Definition ops_mat (fs0 : fsys) (dp : path) (its : list item) : list op :=
  flat_map (fun it => match snd it with
                      | Ext id src off len => if materialised fs0 dp (snd it) then [OpenR src off len (Some id)] else []
                      | InMem _ _ => [] end) its.
Definition item_ops (fs0 : fsys) (dp : path) (cur : Z) (it : item) : list op :=
  let t := snd it in
  let off := align_up cur (nbytes t) in
  (if cur <? off then [WriteB dp (zeros (off - cur))] else []) ++
  match t with
  | InMem _ d => [WriteB dp d]
  | Ext _ src o l => if materialised fs0 dp t then [WriteB dp (data_of fs0 t)]
                     else OpenR src o l None :: map (WriteB dp) (chunks (data_of fs0 t))
  end.
Fixpoint items_ops (fs0 : fsys) (dp : path) (cur : Z) (its : list item) : list op :=
  match its with
  | [] => []
  | it :: r => item_ops fs0 dp cur it ++ items_ops fs0 dp (align_up cur (nbytes (snd it)) + nbytes (snd it)) r
  end.
Definition ops_unload (M : list slot) (mp : path) (fs0 : fsys) : list op :=
  let dp := data_path mp in
  ops_small (small_items M) ++ ops_mat fs0 dp (ext_items M) ++
  [OpenW dp] ++ items_ops fs0 dp 0 (sort_items (ext_items M)) ++ [Close dp].

(* ---------------------------------------------------------------- in-memory replacement and serialisation *)
Definition max_tid (M : list slot) : nat :=
  fold_right (fun s a => match s_val s with Some t => Nat.max (t_id t) a | None => a end) O M.
Definition new_val (fs0 : fsys) (mp : path) (lay : list (nat * Z * Z)) (base : nat) (i : nat) (s : slot) : option tensor :=
  match classify s with
  | Keep => s_val s
  | Externalize t =>
      match find (fun e => Nat.eqb (fst (fst e)) i) lay with
      | Some (_, off, n) => Some (Ext (base + i) (data_path mp) off n)
      | None => s_val s
      end
  | LoadSmall t => Some (InMem (base + i) (data_of fs0 t))
  end.
Definition replaced (M : list slot) (mp : path) (fs0 : fsys) : list slot :=
  let lay := layout 0 (sort_items (ext_items M)) in
  let base := S (max_tid M) in
  map (fun p => (fst (snd p), new_val fs0 mp lay base (fst p) (snd p))) (index_from 0 M).

Definition slot_entries (s : slot) : list pentry :=
  match s_val s with
  | None => []                                     (* serde drops an initializer without const_value *)
  | Some (InMem _ d) => [(s_name s, s_main s, PInline d)]
  | Some (Ext _ src off len) => [(s_name s, s_main s, PExt (snd src) off len)]
  end.
Definition ser (M : list slot) : list pentry := flat_map slot_entries M.
Definition ops_model (M1 : list slot) (mp : path) : list op := [OpenW mp; WriteM mp (ser M1); Close mp].

(* `finally`: initializer.const_value = tensor for zip(initialized_values, tensors) *)
Fixpoint restore (snap : list (option tensor)) (M : list slot) : list slot :=
  match snap, M with
  | v :: sr, s :: r => (fst s, v) :: restore sr r
  | _, _ => M
  end.

(* ---------------------------------------------------------------- execution with a fault *)
Inductive outcome := OK | ErrValue | ErrOS.
Definition step (o : op) (fs : fsys) : option fsys :=        (* None: the call itself raises OSError *)
  match o with
  | OpenR p off len _ => match fs p with Some (FData b) => if in_range off len b then Some fs else None | _ => None end
  | OpenW p => Some (upd fs p (FData []))
  | WriteB p bs => match fs p with Some (FData b) => Some (upd fs p (FData (b ++ bs)%list)) | _ => None end
  | WriteM p es => Some (upd fs p (FModel es))
  | Close _ => Some fs
  end.
Definition inval_of (o : op) : list nat := match o with OpenR _ _ _ (Some i) => [i] | _ => [] end.
Definition fault_at (k : option nat) (i : nat) : bool := match k with Some j => Nat.eqb j i | None => false end.

Fixpoint exec (ops : list op) (i : nat) (k : option nat) (fs : fsys) (inv : list nat)
  : outcome * fsys * list nat * nat :=
  match ops with
  | [] => (OK, fs, inv, i)
  | o :: r => if fault_at k i then (ErrOS, fs, inv, i)
              else match step o fs with
                   | None => (ErrOS, fs, inv, i)
                   | Some fs' => exec r (S i) k fs' (inv ++ inval_of o)%list
                   end
  end.

Record result := { r_out : outcome; r_mem : list slot; r_fs : fsys; r_inv : list nat; r_steps : nat }.

Definition run_save (all_graphs : bool) (M : list slot) (mp : path) (fs0 : fsys) (k : option nat) : result :=
  if guard_fails all_graphs M then {| r_out := ErrValue; r_mem := M; r_fs := fs0; r_inv := []; r_steps := O |}
  else
    let snap := map s_val M in
    let '(o1, fs1, inv, n1) := exec (ops_unload M mp fs0) O k fs0 [] in
    match o1 with
    | OK => let M1 := replaced M mp fs0 in
            let '(o2, fs2, _, n2) := exec (ops_model M1 mp) n1 k fs1 [] in
            {| r_out := o2; r_mem := restore snap M1; r_fs := fs2; r_inv := inv; r_steps := n2 |}
    | _ => {| r_out := o1; r_mem := restore snap M; r_fs := fs1; r_inv := inv; r_steps := n1 |}
    end.

(* ---------------------------------------------------------------- load *)
Fixpoint map_opt {A B} (f : A -> option B) (l : list A) : option (list B) :=
  match l with
  | [] => Some []
  | x :: r => match f x, map_opt f r with Some y, Some ys => Some (y :: ys) | _, _ => None end
  end.
Definition load (fs : fsys) (mp : path) : option (list (string * bool * bytes)) :=
  match fs mp with
  | Some (FModel es) =>
      map_opt (fun e : pentry => match snd e with
                        | PInline d => Some (fst e, d)
                        | PExt loc off len => match read_ext fs (fst mp, loc) off len with
                                              | Some d => Some (fst e, d) | None => None end
                        end) es
  | _ => None
  end.
(* what loading must give back: every initialised slot with the bytes it had before the save *)
Definition expected_of (fs0 : fsys) (s : slot) : list (string * bool * bytes) :=
  match s_val s with Some t => [(fst s, data_of fs0 t)] | None => [] end.
Definition expected (fs0 : fsys) (M : list slot) : list (string * bool * bytes) := flat_map (expected_of fs0) M.

(* tensors that the documented exception of ir.save concerns: over the threshold and backed by the destination *)
Definition overwritten_sources (M : list slot) (mp : path) (fs0 : fsys) : list nat :=
  flat_map (fun it => if materialised fs0 (data_path mp) (snd it) then [t_id (snd it)] else []) (ext_items M).

(* ---------------------------------------------------------------- correspondence helpers *)
Fixpoint bytes_eqb (a b : bytes) : bool :=
  match a, b with [], [] => true | x :: r, y :: s => Z.eqb x y && bytes_eqb r s | _, _ => false end.
Definition ptensor_eqb (a b : ptensor) : bool :=
  match a, b with
  | PInline x, PInline y => bytes_eqb x y
  | PExt l o n, PExt l' o' n' => String.eqb l l' && Z.eqb o o' && Z.eqb n n'
  | _, _ => false
  end.
Fixpoint entries_eqb (a b : list pentry) : bool :=
  match a, b with
  | [], [] => true
  | (n, m, t) :: r, (n', m', t') :: s => String.eqb n n' && Bool.eqb m m' && ptensor_eqb t t' && entries_eqb r s
  | _, _ => false
  end.
Definition ofile_eqb (a b : option file) : bool :=
  match a, b with
  | None, None => true
  | Some (FData x), Some (FData y) => bytes_eqb x y
  | Some (FModel x), Some (FModel y) => entries_eqb x y
  | _, _ => false
  end.
Definition outcome_eqb (a b : outcome) : bool :=
  match a, b with OK, OK | ErrValue, ErrValue | ErrOS, ErrOS => true | _, _ => false end.
Fixpoint nats_eqb (a b : list nat) : bool :=
  match a, b with [] , [] => true | x :: r, y :: s => Nat.eqb x y && nats_eqb r s | _, _ => false end.

(* observed after one real run: outcome, data file, model file, invalidated tensor ids (in slot order) *)
Definition observation := (outcome * option file * option file * list nat)%type.
Definition agrees (ag : bool) (M : list slot) (mp : path) (fs0 : fsys) (k : option nat) (obs : observation) : bool :=
  let r := run_save ag M mp fs0 k in
  let '(o, df, mf, inv) := obs in
  outcome_eqb (r_out r) o && ofile_eqb (r_fs r (data_path mp)) df && ofile_eqb (r_fs r mp) mf && nats_eqb (r_inv r) inv.
Fixpoint disagreeing (i : nat) (cs : list bool) : list nat :=
  match cs with [] => [] | c :: t => ((if c then [] else [i]) ++ disagreeing (S i) t)%list end.
Fixpoint mkfs (l : list (path * file)) : fsys :=
  match l with [] => empty_fs | (p, f) :: r => upd (mkfs r) p f end.
