(* Proofs about coq/Rules/MatmulGemm.v (C05: _matmul_add_to_gemm.py, _gemm_to_matmul_add.py, _broadcast_to_matmul.py). *)
From Coq Require Import ZArith List Bool Lia.
Require Import OV.Rules.MatmulGemm.
Import ListNotations.
Local Open Scope Z_scope.

(* ---------------------------------------------------------------- broadcasting *)
Lemma unidir_rev_bcast : forall c t, unidir_rev c t = true -> bcast_rev t c = Some t.
Proof.
  induction c as [|x c IH]; intros t H.
  - destruct t; reflexivity.
  - destruct t as [|y t]; [discriminate|]. simpl in H. apply andb_prop in H. destruct H as [H1 H2].
    simpl. rewrite (IH t H2).
    destruct (y =? x) eqn:E; [reflexivity|].
    apply orb_prop in H1. destruct H1 as [H1|H1].
    + apply Z.eqb_eq in H1. subst. rewrite E. reflexivity.
    + apply Z.eqb_eq in H1. subst. rewrite Z.eqb_refl in E. discriminate.
Qed.

Theorem unidir_bcast : forall c t, unidir c t = true -> bcast t c = Some t.
Proof.
  unfold unidir, bcast. intros c t H. rewrite (unidir_rev_bcast _ _ H). simpl. rewrite rev_involutive. reflexivity.
Qed.

(* ---------------------------------------------------------------- MatMulAddToGemm *)
(* Gemm(a, b, c; transA, transB) with default alpha = beta = 1 IS Add(MatMul(op a, op b), c), element by element *)
Theorem gemm_is_add_matmul : forall ta tb K a b c i j,
  gemm 1 1 ta tb K a b c i j = madd (matmul K (if ta then tr a else a) (if tb then tr b else b)) c i j.
Proof. intros. unfold gemm, madd. lia. Qed.

(* repaired check: the host's output shape is (M, N), which is Gemm's *)
Theorem mg_fixed_shape_sound : forall p, mg_check_fixed p = true ->
  mg_host_shape p = Some [mg_m p; mg_n p] /\ exists c, mg_c p = Some c /\ unidir c [mg_m p; mg_n p] = true.
Proof.
  intros p H. unfold mg_check_fixed in H. apply andb_prop in H. destruct H as [_ H].
  unfold mg_host_shape. destruct (mg_c p) as [c|]; [|discriminate].
  split; [apply unidir_bcast; exact H|]. exists c. auto.
Qed.

(* the check as read does not look at c: rank-3 c, and c that broadcasts the MatMul result up *)
Theorem mg_impl_refuted_rank3 : exists p, mg_check_impl p = true /\ mg_host_shape p = Some [1; 4; 5] /\ mg_m p = 4 /\ mg_n p = 5.
Proof.
  exists {| mg_rank_a := Some 2%nat; mg_rank_b := Some 2%nat; mg_m := 4; mg_n := 5; mg_c := Some [1; 4; 5] |}.
  repeat split.
Qed.

Theorem mg_impl_refuted_direction : exists p, mg_check_impl p = true /\ mg_host_shape p = Some [4; 5] /\ mg_m p = 1 /\ mg_n p = 5.
Proof.
  exists {| mg_rank_a := Some 2%nat; mg_rank_b := Some 2%nat; mg_m := 1; mg_n := 5; mg_c := Some [4; 5] |}.
  repeat split.
Qed.

(* ---------------------------------------------------------------- check_if_not_need_reshape vs the MatMul shape rule *)
Lemma lz_eqb_eq : forall a b, lz_eqb a b = true -> a = b.
Proof.
  induction a; destruct b; simpl; intros; try discriminate; auto.
  apply andb_prop in H. destruct H as [H1 H2]. apply Z.eqb_eq in H1. f_equal; auto.
Qed.

Lemma zipb_bcast : forall A B o, Forall (fun d => 1 <= d) A -> Forall (fun d => 1 <= d) B ->
  zipb A B = Some o -> bcast_rev A B = Some o.
Proof.
  induction A as [|da A IH]; intros B o FA FB H.
  - destruct B; simpl in *; exact H.
  - destruct B as [|db B]; [simpl in *; exact H|].
    simpl in H. inversion FA; subst. inversion FB; subst.
    destruct ((da =? 1) || (da =? db)) eqn:C; [|discriminate].
    destruct (zipb A B) as [o'|] eqn:HZ; [|discriminate]. simpl in H. inversion H; subst.
    simpl. rewrite (IH B o' H3 H5 HZ).
    destruct (da =? db) eqn:E.
    + apply Z.eqb_eq in E. subst. rewrite Z.max_id. reflexivity.
    + rewrite ?E in C. rewrite orb_false_r in C. rewrite C. apply Z.eqb_eq in C. subst.
      rewrite Z.max_r by lia. reflexivity.
Qed.

Definition positive_dims (s : list Z) : Prop := Forall (fun d => 1 <= d) s.

Lemma decompose_mat_pos : forall s b r c, positive_dims s -> decompose s = Some (Mat b r c) -> Forall (fun d => 1 <= d) b.
Proof.
  unfold decompose, positive_dims. intros s b r c P H.
  assert (P' : Forall (fun d => 1 <= d) (rev s)) by (apply Forall_rev; exact P).
  destruct (rev s) as [|x [|y l]]; try discriminate. inversion H; subst.
  inversion P'; subst. inversion H3; subst. assumption.
Qed.

(* inner dimensions of the two (un-reshaped) operands agree -- the conjunct the check as read tests only as "ka in {1, kb}" *)
Definition inner_agree (sa sb : list Z) : Prop :=
  match decompose sa, decompose sb with
  | Some (Mat _ _ ka), Some (Mat _ kb _) => ka = kb
  | _, _ => True
  end.

Lemma check_bcast_expected : forall strict sa sb sc, check_bcast strict sa sb sc = Some true ->
  exists out, expected_shape strict sa sb = Some (Some out) /\ sc = out.
Proof.
  unfold check_bcast. intros strict sa sb sc H.
  destruct (existsb (fun d => d <? 0) (sa ++ sb)); [discriminate|].
  destruct (expected_shape strict sa sb) as [[out|]|]; try discriminate.
  exists out. split; [reflexivity|]. inversion H. apply lz_eqb_eq. assumption.
Qed.

(* whenever the check accepts, shape_c is the shape of MatMul(input_a, input_b) -- provided the inner dims agree *)
Theorem check_bcast_shape_sound : forall sa sb sc,
  positive_dims sa -> positive_dims sb -> inner_agree sa sb ->
  check_bcast false sa sb sc = Some true -> matmul_shape sa sb = Some sc.
Proof.
  intros sa sb sc Pa Pb I H. apply check_bcast_expected in H. destruct H as (out & E & ->).
  unfold expected_shape in E. unfold matmul_shape. unfold inner_agree in I.
  destruct (decompose sa) as [[ka|A m ka]|] eqn:Da; destruct (decompose sb) as [[kb|B kb n]|] eqn:Db; try discriminate.
  - destruct (ka =? kb); congruence.
  - rewrite Z.eqb_sym. destruct (kb =? ka); congruence.
  - subst kb. rewrite Z.eqb_refl. rewrite Z.eqb_refl, orb_true_r in E.
    destruct (zipb A B) as [o|] eqn:HZ; [|discriminate].
    rewrite (zipb_bcast A B o); [congruence | eapply decompose_mat_pos; [exact Pa|exact Da] | eapply decompose_mat_pos; [exact Pb|exact Db] | exact HZ].
Qed.

(* the strict (repaired) variant needs no extra hypothesis *)
Theorem check_bcast_strict_shape_sound : forall sa sb sc,
  positive_dims sa -> positive_dims sb ->
  check_bcast true sa sb sc = Some true -> matmul_shape sa sb = Some sc.
Proof.
  intros sa sb sc Pa Pb H. apply check_bcast_expected in H. destruct H as (out & E & ->).
  unfold expected_shape in E. unfold matmul_shape.
  destruct (decompose sa) as [[ka|A m ka]|] eqn:Da; destruct (decompose sb) as [[kb|B kb n]|] eqn:Db; try discriminate.
  - destruct (ka =? kb); congruence.
  - rewrite Z.eqb_sym. destruct (kb =? ka); congruence.
  - destruct (ka =? kb); [|discriminate].
    destruct (zipb A B) as [o|] eqn:HZ; [|discriminate].
    rewrite (zipb_bcast A B o); [congruence | eapply decompose_mat_pos; [exact Pa|exact Da] | eapply decompose_mat_pos; [exact Pb|exact Db] | exact HZ].
Qed.

Theorem check_bcast_strict_total : forall sa sb sc, check_bcast true sa sb sc <> None.
Proof.
  intros. unfold check_bcast, expected_shape.
  destruct (existsb _ _); [discriminate|].
  destruct (decompose sa) as [[?|? ? ?]|]; destruct (decompose sb) as [[?|? ? ?]|];
    repeat match goal with |- context [if ?c then _ else _] => destruct c end;
    repeat match goal with |- context [match ?c with Some _ => _ | None => _ end] => destruct c end; discriminate.
Qed.

(* as read: inner dim 1 on the left passes against any kb -- MatMul(a, b) does not even exist *)
Theorem check_bcast_inner_dim_refuted : exists sa sb sc,
  positive_dims sa /\ positive_dims sb /\ check_bcast false sa sb sc = Some true /\ matmul_shape sa sb = None.
Proof.
  exists [2; 1], [2; 1], [2; 1]. repeat split; try (repeat constructor; lia).
Qed.

(* as read: a rank-0 operand next to a rank >= 2 operand raises IndexError *)
Theorem check_bcast_rank0_raises : check_bcast false [] [1; 1] [1] = None /\ check_bcast false [1; 1] [] [1] = None.
Proof. split; reflexivity. Qed.

(* the check never looks at shape_a / shape_b: with a = [2], b = [2,2] reshaped to [2,2,1] the host computes b.a, the
   rewritten model a.b *)
Theorem two_reshapes_layout_refuted :
  check_bcast false [2] [2; 2] [2] = Some true /\ check_bcast true [2] [2; 2] [2] = Some true /\
  exists a b, bmm_flat 2 1 2 1 a b <> mm_flat 1 2 2 a b.
Proof.
  split; [reflexivity|]. split; [reflexivity|].
  exists [1; 2], [1; 10; 100; 1000]. vm_compute. discriminate.
Qed.

(* ---------------------------------------------------------------- gemm_to_matmul_add: the bias operand *)
Theorem g2m_c_ok_sound : forall c sc, g2m_c_ok c sc = true -> bcast sc c = Some sc.
Proof. intros c sc H. apply unidir_bcast. exact H. Qed.

(* as read: c = [M', N] with M' the flattened row count is accepted by Gemm but cannot be added to [batch, m, N] *)
Theorem g2m_c_refuted : exists c M N batch m,
  unidir c [M; N] = true /\ check_bcast false (batch ++ [m; 4]) [4; N] (batch ++ [m; N]) = Some true /\
  bcast (batch ++ [m; N]) c = None.
Proof. exists [6; 5], 6, 5, [2], 3. repeat split. Qed.

(* as read the rule also fires on Gemm nodes with transA / transB set, which MatMul(a, b) does not reproduce *)
Theorem g2m_trans_refuted : exists a b c i j,
  gemm 1 1 false true 2 a b c i j <> madd (matmul 2 a b) c i j /\
  gemm 1 1 true false 2 a b c i j <> madd (matmul 2 a b) c i j.
Proof.
  exists (fun i k => i + 2 * k + 1), (fun k j => 3 * k + j), (fun _ _ => 0), 0, 1. split; vm_compute; discriminate.
Qed.

Theorem g2m_fixed_rule_conditions : forall sa sb sc c trans, g2m_rule true sa sb sc c trans = true ->
  check_bcast true sa sb sc = Some true /\ g2m_c_ok c sc = true /\ trans = false.
Proof.
  unfold g2m_rule. intros sa sb sc c trans H.
  destruct (check_bcast true sa sb sc) as [[|]|]; try discriminate.
  apply andb_prop in H. destruct H as [H1 H2]. destruct trans; [discriminate|]. auto.
Qed.

Example check_bcast_example : check_bcast false [2; 3; 4] [4; 5] [2; 3; 5] = Some true /\ matmul_shape [2; 3; 4] [4; 5] = Some [2; 3; 5]
  /\ check_bcast false [1; 3; 4] [2; 4; 5] [2; 3; 5] = Some true /\ matmul_shape [1; 3; 4] [2; 4; 5] = Some [2; 3; 5].
Proof. repeat split. Qed.
