(* C06 -- refutations for the pinned behaviour of the matcher (flags_as_pinned) and satisfiability examples. *)
From Coq Require Import List ZArith String Bool Arith Lia.
Require Import OV.Match.Pattern OV.Match.Matcher OV.Match.Spec OV.Match.SoundProofs OV.Match.CompleteProofs
  OV.Match.CommuteProofs OV.Match.Witness.
Import ListNotations.

(* the witness of `exists m, f = Ok m /\ ...` by evaluation *)
Ltac exists_result t :=
  let r := eval vm_compute in t in
  match r with Ok ?m => exists m end.

Ltac split_and :=
  repeat match goal with
         | H : _ && _ = true |- _ => apply andb_true_iff in H; destruct H
         end.

(* no sigma at all makes Add(Neg(r1), r2), r1 <> r2, an instance of Add(OrValue([Neg(t), Neg(Abs(t))]), t) *)
Lemma two_relus_not_instance : forall s, instanceb g_two_relus p_or [3] s = false.
Proof.
  intro s. destruct (instanceb g_two_relus p_or [3] s) eqn:I; auto. exfalso.
  unfold instanceb in I. apply andb_true_iff in I as [R Hok].
  change (output_nodes p_or) with [4] in R. cbn [roots_are] in R. rewrite andb_true_r in R.
  pose proof (node_ok_of _ _ _ Hok) as NO.
  assert (N4 := NO _ _ R). unfold node_ok in N4. cbn in N4. unfold nlocal, bin, hn in N4. cbn in N4. split_and.
  match goal with H : node_is s 0 1 = true |- _ => rename H into T2 end.
  match goal with H : _ || _ = true |- _ => rename H into ALT end.
  rewrite !andb_true_r, orb_false_r in ALT. apply orb_true_iff in ALT as [A1|A3].
  - (* first alternative Neg(t): t is the Relu node 0 as well *)
    assert (N1 := NO _ _ A1). unfold node_ok in N1. cbn in N1. unfold nlocal, un, hn in N1. cbn in N1. split_and.
    match goal with T1 : node_is s 0 0 = true |- _ => assert (E := node_is_fun _ _ _ _ T1 T2); discriminate end.
  - (* second alternative Neg(Abs(t)): the operand of Neg would have to be an Abs node *)
    assert (N3 := NO _ _ A3). unfold node_ok in N3. cbn in N3. unfold nlocal, un, hn in N3. cbn in N3. split_and.
    match goal with A2 : node_is s 2 0 = true |- _ =>
      assert (N2 := NO _ _ A2); unfold node_ok in N2; cbn in N2; unfold nlocal, un, hn in N2; cbn in N2; discriminate end.
Qed.

(* F16: with merge as pinned, the model reports a match there *)
Lemma merge_loses_bindings_witness :
  exists m, run flags_as_pinned p_or g_two_relus 3 true = Ok m /\
            m_nodes m = [3; 2; 0; 1] /\
            (forall s, instanceb g_two_relus p_or [3] s = false) /\
            run flags_fixed p_or g_two_relus 3 true = Fail.
Proof.
  exists_result (run flags_as_pinned p_or g_two_relus 3 true).
  split; [vm_compute; reflexivity|]. split; [reflexivity|]. split; [apply two_relus_not_instance|].
  vm_compute; reflexivity.
Qed.

(* pattern node with two outputs against a node with one output *)
Lemma one_out_not_instance : forall s, instanceb g_one_out p_two_outs [1] s = false.
Proof.
  intro s. destruct (instanceb g_one_out p_two_outs [1] s) eqn:I; auto. exfalso.
  unfold instanceb in I. apply andb_true_iff in I as [R Hok].
  change (output_nodes p_two_outs) with [1] in R. cbn [roots_are] in R. rewrite andb_true_r in R.
  pose proof (node_ok_of _ _ _ Hok) as NO.
  assert (N1 := NO _ _ R). unfold node_ok in N1. cbn in N1. unfold nlocal, un, hn in N1. cbn in N1. split_and.
  match goal with A : node_is s 0 0 = true |- _ =>
    assert (N0 := NO _ _ A); unfold node_ok in N0; cbn in N0; unfold nlocal, hn in N0; cbn in N0 end.
  rewrite !andb_false_r in N0. discriminate.
Qed.

Lemma output_count_witness :
  exists m, run flags_as_pinned p_two_outs g_one_out 1 true = Ok m /\
            m_outs m = [] /\ gp_outs p_two_outs <> [] /\
            (forall s, instanceb g_one_out p_two_outs [1] s = false) /\
            run flags_fixed p_two_outs g_one_out 1 true = Fail.
Proof.
  exists_result (run flags_as_pinned p_two_outs g_one_out 1 true).
  split; [vm_compute; reflexivity|]. split; [reflexivity|]. split; [discriminate|].
  split; [apply one_out_not_instance|]. vm_compute; reflexivity.
Qed.

(* ------------------------------------------------------------------ satisfiability of the hypotheses *)
Example sound_example :
  repaired flags_fixed = true /\ exists m, run flags_fixed p_or g_one_relu 2 true = Ok m /\ m_nodes m = [2; 1; 0].
Proof.
  split; [reflexivity|]. exists_result (run flags_fixed p_or g_one_relu 2 true). split; vm_compute; reflexivity.
Qed.

Lemma p_plain_outs_reachable : outs_reachable p_plain 2.
Proof.
  intros pv [E|[]]; subst. exists 2, 0, (bin "Sub" (POut 1 0) (POut 0 0)).
  repeat split; try constructor; simpl; try lia.
Qed.

Example complete_example :
  or_free p_plain = true /\ topo p_plain = true /\ output_nodes p_plain = [2] /\ outs_reachable p_plain 2 /\
  instanceb g_plain p_plain [2] s_plain = true /\
  exists m, run flags_fixed p_plain g_plain 2 false = Ok m /\ m_nb m = [(0, 0); (1, 1); (2, 2)].
Proof.
  repeat split; try (vm_compute; reflexivity). apply p_plain_outs_reachable.
  exists_result (run flags_fixed p_plain g_plain 2 false). split; vm_compute; reflexivity.
Qed.

Example removable_example :
  (exists m, run flags_fixed p_plain g_plain_used 2 false = Ok m) /\ run flags_fixed p_plain g_plain_used 2 true = Fail.
Proof.
  split; [|vm_compute; reflexivity]. exists_result (run flags_fixed p_plain g_plain_used 2 false). vm_compute; reflexivity.
Qed.

Example commute_example :
  run flags_fixed p_plain g_plain_swapped 2 true = Fail /\
  exists m, run_commute flags_fixed p_plain g_plain_swapped 2 true = Ok (1, m).
Proof.
  split; [vm_compute; reflexivity|].
  let r := eval vm_compute in (run_commute flags_fixed p_plain g_plain_swapped 2 true) in
  match r with Ok (_, ?m) => exists m end. vm_compute; reflexivity.
Qed.

(* completeness does not extend to OrValue: the committed choice *)
Lemma or_committed_choice_witness :
  topo p_choice = true /\ output_nodes p_choice = [3] /\
  instanceb g_choice p_choice [2] s_choice = true /\
  run flags_fixed p_choice g_choice 2 false = Fail /\ run flags_as_pinned p_choice g_choice 2 false = Fail.
Proof. repeat split; vm_compute; reflexivity. Qed.

Lemma p_two_roots_reachable : outs_reachable_multi p_two_roots.
Proof.
  intros pv [E|[E|[]]]; subst.
  - exists 0, 0, 0, (un "Relu" (PVar "x" false)). split; [vm_compute; auto|]. repeat split; try constructor.
  - exists 1, 1, 0, (un "Neg" (PVar "x" false)). split; [vm_compute; auto|]. repeat split; try constructor.
Qed.

Example multi_example :
  or_free p_two_roots = true /\ topo p_two_roots = true /\ outs_reachable_multi p_two_roots /\
  candidates flags_fixed p_two_roots g_two_roots 0 = [[0; 1]; [0; 2]] /\
  instanceb g_two_roots p_two_roots [0; 2] s_two_roots = true /\
  (forall c, In c (candidates flags_fixed p_two_roots g_two_roots 0) -> try_candidate flags_fixed g_two_roots p_two_roots false c <> Err) /\
  exists m, run flags_fixed p_two_roots g_two_roots 0 false = Ok m /\ m_nodes m = [0; 2].
Proof.
  split; [reflexivity|]. split; [reflexivity|]. split; [apply p_two_roots_reachable|].
  split; [reflexivity|]. split; [vm_compute; reflexivity|]. split.
  - intros c [E|[E|[]]]; subst; vm_compute; discriminate.
  - exists_result (run flags_fixed p_two_roots g_two_roots 0 false). split; vm_compute; reflexivity.
Qed.
