From Coq Require Import ZArith List Bool Lia ZifyBool.
Require Import OV.Torch.Onnx OV.Torch.Spec OV.Torch.Aten OV.Torch.Lemmas OV.Torch.ShapeProofs.
Import ListNotations.
Local Open Scope Z_scope.

Lemma shape_eqb_eq : forall a b, shape_eqb a b = true -> a = b.
Proof.
  induction a as [|x a IH]; intros [|y b] H; cbn in H; try discriminate; [reflexivity|].
  apply andb_prop in H. destruct H as [H1 H2]. f_equal; [lia | apply IH; assumption].
Qed.

Lemma nthZ_middle : forall (a b : list Z) x, nthZ (a ++ x :: b) (zlen a) = Some x.
Proof.
  intros a b x. unfold nthZ. pose proof (zlen_nonneg _ a). replace (zlen a <? 0) with false by lia.
  unfold zlen. rewrite Nat2Z.id. rewrite nth_error_app2 by lia. rewrite Nat.sub_diag. reflexivity.
Qed.

Lemma take_app_exact : forall (a b : list Z), take (zlen a) (a ++ b) = a.
Proof. intros. unfold take, zlen. rewrite Nat2Z.id. rewrite firstn_app, Nat.sub_diag, firstn_all. cbn. apply app_nil_r. Qed.
Lemma drop_app_exact : forall (a b : list Z) x, drop (zlen a + 1) (a ++ x :: b) = b.
Proof.
  intros. unfold drop, zlen. replace (Z.to_nat (Z.of_nat (length a) + 1)) with (length a + 1)%nat by lia.
  rewrite skipn_app. rewrite skipn_all2 by lia. replace (length a + 1 - length a)%nat with 1%nat by lia. reflexivity.
Qed.

Lemma stack_correct : forall ss dim out, torch_stack_shape ss dim = Some out -> aten_stack ss dim = Some out.
Proof.
  intros ss dim out. unfold torch_stack_shape, aten_stack.
  destruct ss as [|s0 rest]; [discriminate|].
  destruct (forallb (fun s => shape_eqb s s0) rest) eqn:Hall; [|discriminate].
  destruct (wrap_dim (zlen s0 + 1) dim) as [d|] eqn:Ed; [|discriminate]. cbn [obind].
  intro H; inversion H; subst out; clear H.
  pose proof (zlen_nonneg _ s0) as Hn.
  assert (Hd : 0 <= d <= zlen s0).
  { rewrite wrap_dim_norm_axis in Ed by lia. pose proof (norm_axis_range _ _ _ Ed). lia. }
  set (u := take d s0 ++ 1 :: drop d s0).
  assert (Hu : forall s, In s (s0 :: rest) -> unsqueeze_axes s [dim] = Some u).
  { intros s Hs. assert (s = s0) as ->.
    { destruct Hs as [<- | Hs]; [reflexivity|]. rewrite forallb_forall in Hall. apply shape_eqb_eq. apply Hall. assumption. }
    pose proof (unsqueeze_correct s0 dim) as Hq. unfold aten_unsqueeze, torch_unsqueeze in Hq. rewrite Hq, Ed. reflexivity. }
  rewrite (omap_all_map _ _ (fun s => unsqueeze_axes s [dim]) (fun _ => u) (s0 :: rest) Hu). cbn [obind map].
  unfold concat_shapes.
  assert (Hzu : zlen u = zlen s0 + 1).
  { unfold u. rewrite zlen_app, zlen_cons, zlen_take, zlen_drop by lia. lia. }
  rewrite Hzu. rewrite <- wrap_dim_norm_axis by lia. rewrite Ed. cbn [obind].
  assert (forallb (same_except d u) (u :: map (fun _ => u) rest) = true) as ->.
  { apply forallb_forall. intros x Hx. assert (x = u) as ->.
    { destruct Hx as [<- | Hx]; [reflexivity|]. apply in_map_iff in Hx. destruct Hx as [? [<- _]]. reflexivity. }
    apply same_except_refl. }
  assert (Hnu : nthZ u d = Some 1).
  { unfold u. rewrite <- (zlen_take _ d s0) at 3 by lia. apply nthZ_middle. }
  assert (Hsum : forall l : list (list Z), fold_right Z.add 0 (map (fun s => match nthZ s d with Some v => v | None => 0 end) (map (fun _ => u) l)) = zlen l).
  { induction l; [reflexivity|]. cbn [map fold_right]. rewrite IHl, Hnu, zlen_cons. reflexivity. }
  change (u :: map (fun _ => u) rest) with (map (fun _ : list Z => u) (s0 :: rest)). rewrite Hsum.
  f_equal. unfold replace_at, u.
  rewrite <- (zlen_take _ d s0) at 1 4 by lia.
  rewrite take_app_exact. rewrite drop_app_exact. reflexivity.
Qed.

Example ex_stack : torch_stack_shape [[2; 3]; [2; 3]; [2; 3]] (-2) = Some [2; 3; 3] /\ aten_stack [[2; 3]; [2; 3]; [2; 3]] (-2) = Some [2; 3; 3].
Proof. split; reflexivity. Qed.
