(* Proofs about coq/Rules/OptionalBias.v (C05, _remove_optional_bias.py). *)
From Coq Require Import ZArith QArith List Bool Lia Ring.
Require Import OV.Rules.OptionalBias.
Import ListNotations.
Local Open Scope Z_scope.

Section CRing.
  Variable F : Type.
  Variables (zero one : F) (add mul sub : F -> F -> F) (opp : F -> F).
  Hypothesis Rth : ring_theory zero one add mul sub opp (@eq F).
  Add Ring Rr : Rth.

  Theorem conv_zero_bias : forall ws xs, conv_b F zero add mul ws xs zero = conv_nob F zero add mul ws xs.
  Proof. intros. unfold conv_b, conv_nob. ring. Qed.

  (* any alpha, beta (also beta <> 1), any transA/transB (they only select which elements form ws/xs) *)
  Theorem gemm_zero_c : forall alpha beta ws xs, gemm_c F zero add mul alpha beta ws xs zero = gemm_noc F zero add mul alpha ws xs.
  Proof. intros. unfold gemm_c, gemm_noc. ring. Qed.

  Theorem qconv_zero_bias : forall requant ws xs, qconv_b F zero add mul requant ws xs zero = qconv_nob F zero add mul requant ws xs.
  Proof. intros. unfold qconv_b, qconv_nob. f_equal. ring. Qed.

  (* a non-zero bias cannot be dropped: the two sides differ by exactly b *)
  Theorem conv_bias_difference : forall ws xs b, conv_b F zero add mul ws xs b = add (conv_nob F zero add mul ws xs) b.
  Proof. intros. reflexivity. Qed.
End CRing.

Theorem conv_nonzero_bias_refuted : exists ws xs b, conv_b Z 0 Z.add Z.mul ws xs b <> conv_nob Z 0 Z.add Z.mul ws xs.
Proof. exists [1], [1], 1. vm_compute. discriminate. Qed.

(* all_zero: every element (hence every broadcast copy of it) is 0 *)
Theorem all_zero_nth : forall l i, all_zero l = true -> (nth i l 0%Q == 0)%Q.
Proof.
  intros l i H. unfold all_zero in H. rewrite forallb_forall in H.
  destruct (Nat.lt_ge_cases i (length l)) as [L|L].
  - apply Qeq_bool_iff. apply H. apply nth_In. exact L.
  - rewrite nth_overflow by lia. reflexivity.
Qed.

(* node.inputs[:-1] on a node matched by the pattern (bias last) keeps exactly the non-bias operands *)
Theorem inputs_without_bias : forall (A : Type) (ins : list A) (b : A), removelast (ins ++ [b]) = ins.
Proof. intros. apply removelast_last. Qed.

(* repaired rule: the emitted node satisfies the schema of the declared opset and the bias was a true constant *)
Theorem ob_fixed_valid : forall p n, ob_rule true p = Some n ->
  schema_valid (ob_op p) (ob_opset p) n = true /\ ob_bias_graph_input p = false /\
  exists l, ob_bias p = Some l /\ all_zero l = true.
Proof.
  unfold ob_rule, ob_check_fixed, ob_check_impl, schema_valid. intros p n H.
  destruct (ob_bias p) as [l|]; [|discriminate].
  destruct (all_zero l) eqn:Z; [|discriminate].
  destruct (ob_bias_graph_input p); [discriminate|]. cbn [negb andb] in H.
  destruct (min_inputs (ob_op p) (ob_opset p) <=? pattern_inputs (ob_op p) - 1)%nat eqn:V; [|discriminate].
  inversion H; subst. repeat split; auto. exists l. auto.
Qed.

(* as read: Gemm before opset 11 loses its mandatory C (finding C05:optbias:gemm-opset-lt-11-requires-C) *)
Theorem ob_impl_gemm_old_opset_refuted : exists p n, ob_rule false p = Some n /\ schema_valid (ob_op p) (ob_opset p) n = false.
Proof.
  exists {| ob_op := OGemm; ob_opset := 9; ob_bias := Some [0%Q; 0%Q]; ob_bias_graph_input := false |}, 2%nat.
  split; reflexivity.
Qed.

Theorem ob_impl_valid_from_opset_11 : forall p n, 11 <= ob_opset p -> ob_rule false p = Some n ->
  schema_valid (ob_op p) (ob_opset p) n = true.
Proof.
  unfold ob_rule, schema_valid, min_inputs, pattern_inputs. intros p n O H.
  destruct (ob_check_impl p); [|discriminate]. inversion H; subst.
  destruct (ob_op p); try reflexivity.
  destruct (ob_opset p <? 11) eqn:E; [apply Z.ltb_lt in E; lia|reflexivity].
Qed.
