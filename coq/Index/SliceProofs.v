(* C11 -- one axis: ONNX Slice with the operands each front end computes selects exactly the positions
   Python's slice selects, except in the `neg_start_hazard` corner, which is characterised. *)
From Coq Require Import ZArith List Bool Lia ZifyBool.
Import ListNotations.
Require Import OV.Index.NumpySpec OV.Index.OnnxSlice OV.Index.ConverterIdx OV.Index.EagerIdx.
Open Scope Z_scope.

(* ---- range_list ---------------------------------------------------------------------------- *)
Lemma range_list_empty_pos : forall a b st, 0 < st -> b <= a -> range_list a b st = [].
Proof.
  intros. unfold range_list, range_len.
  destruct (0 <? st) eqn:?; try lia. destruct (a <? b) eqn:?; try lia. reflexivity.
Qed.

Lemma range_list_empty_neg : forall a b st, st < 0 -> a <= b -> range_list a b st = [].
Proof.
  intros. unfold range_list, range_len.
  destruct (0 <? st) eqn:?; try lia. destruct (st <? 0) eqn:?; try lia.
  destruct (b <? a) eqn:?; try lia. reflexivity.
Qed.

Lemma range_len_nonneg : forall a b st, 0 <= range_len a b st.
Proof.
  intros. unfold range_len.
  destruct (0 <? st) eqn:?; [destruct (a <? b) eqn:?; [|lia] | destruct (st <? 0) eqn:?; [destruct (b <? a) eqn:?; [|lia] | lia]].
  - assert (0 <= (b - a - 1) / st) by (apply Z.div_pos; lia). lia.
  - assert (0 <= (a - b - 1) / - st) by (apply Z.div_pos; lia). lia.
Qed.

Lemma range_list_length : forall a b st, zlen (range_list a b st) = range_len a b st.
Proof.
  intros. unfold zlen, range_list. rewrite map_length, seq_length.
  apply Z2Nat.id, range_len_nonneg.
Qed.

Lemma range_list_single_neg : forall a b st, st < 0 -> b < a -> a - b <= - st -> range_list a b st = [a].
Proof.
  intros. unfold range_list, range_len.
  destruct (0 <? st) eqn:?; try lia. destruct (st <? 0) eqn:?; try lia.
  destruct (b <? a) eqn:?; try lia.
  replace ((a - b - 1) / - st) with 0 by (symmetry; apply Z.div_small; lia).
  change (Z.to_nat (0 + 1)) with 1%nat. cbn. f_equal. lia.
Qed.

Lemma range_list_unit : forall a, range_list a (a + 1) 1 = [a].
Proof.
  intros. unfold range_list, range_len. cbn [Z.ltb Z.compare].
  destruct (a <? a + 1) eqn:?; try lia.
  replace (a + 1 - a - 1) with 0 by lia. change (Z.to_nat (0 / 1 + 1)) with 1%nat. cbn. f_equal. lia.
Qed.

(* every selected position lies between the bounds *)
Lemma range_list_bounds : forall a b st x, In x (range_list a b st) ->
  (0 < st -> a <= x < b) /\ (st < 0 -> b < x <= a).
Proof.
  intros a b st x Hin. unfold range_list in Hin. apply in_map_iff in Hin.
  destruct Hin as [k [Hx Hk]]. apply in_seq in Hk. subst x.
  assert (Hlen : Z.of_nat k < range_len a b st) by lia.
  unfold range_len in Hlen. split; intro Hs.
  - destruct (0 <? st) eqn:?; try lia. destruct (a <? b) eqn:?; try lia.
    assert (Z.of_nat k <= (b - a - 1) / st) by lia.
    assert (st * ((b - a - 1) / st) <= b - a - 1) by (apply Z.mul_div_le; lia).
    assert (Z.of_nat k * st <= ((b - a - 1) / st) * st) by (apply Z.mul_le_mono_nonneg_r; lia).
    nia.
  - destruct (0 <? st) eqn:?; try lia. destruct (st <? 0) eqn:?; try lia. destruct (b <? a) eqn:?; try lia.
    assert (Z.of_nat k <= (a - b - 1) / - st) by lia.
    assert (- st * ((a - b - 1) / - st) <= a - b - 1) by (apply Z.mul_div_le; lia).
    assert (Z.of_nat k * - st <= ((a - b - 1) / - st) * - st) by (apply Z.mul_le_mono_nonneg_r; lia).
    nia.
Qed.

(* ---- the two clamping rules coincide where they should ------------------------------------- *)
Lemma adj_pos : forall d v, 0 <= d ->
  clamp 0 d (if v <? 0 then v + d else v) = (if v <? 0 then Z.max (v + d) 0 else Z.min v d).
Proof. intros. unfold clamp. destruct (v <? 0) eqn:?; lia. Qed.

Lemma adj_neg_stop : forall d v, 0 <= d ->
  clamp (-1) (d - 1) (if v <? 0 then v + d else v) = (if v <? 0 then Z.max (v + d) (-1) else Z.min v (d - 1)).
Proof. intros. unfold clamp. destruct (v <? 0) eqn:?; lia. Qed.

Lemma adj_neg_start : forall d v, 0 <= d -> (- d <= v \/ d = 0) ->
  clamp 0 (d - 1) (if v <? 0 then v + d else v) = (if v <? 0 then Z.max (v + d) (-1) else Z.min v (d - 1)).
Proof. intros. unfold clamp. destruct (v <? 0) eqn:?; lia. Qed.

(* ---- ONNX Slice fed with explicit bounds vs Python, the general statement ------------------- *)
(* sentinel s0/e0 stands for an omitted start/stop; it must behave like the Python default *)
Definition good_start_sentinel (d st s0 : Z) : Prop :=
  if 0 <? st then s0 = 0 else (d - 1 <= s0 /\ 0 <= s0) \/ s0 = d - 1.
Definition good_stop_sentinel (d st e0 : Z) : Prop :=
  if 0 <? st then d <= e0 else e0 < 0 /\ e0 + d <= -1.

Lemma onnx_slice_python : forall d start stop st s0 e0,
  0 <= d -> st <> 0 ->
  good_start_sentinel d st s0 -> good_stop_sentinel d st e0 ->
  neg_start_hazard d start stop (Some st) = false ->
  onnx_slice d (match start with None => s0 | Some s => s end)
               (match stop with None => e0 | Some e => e end) st
  = py_slice d start stop (Some st).
Proof.
  intros d start stop st s0 e0 Hd Hst Hs0 He0 Hhz.
  unfold onnx_slice, py_slice, step_of, py_adjust.
  destruct (st =? 0) eqn:?; try lia.
  unfold good_start_sentinel, good_stop_sentinel in *.
  destruct (0 <? st) eqn:Hpos.
  - (* positive step: the bounds coincide *)
    assert (st <? 0 = false) as -> by lia.
    f_equal. f_equal.
    + destruct start as [s|]; [apply adj_pos; lia|]. subst s0. unfold clamp. cbn. lia.
    + destruct stop as [e|]; [apply adj_pos; lia|].
      unfold clamp. destruct (e0 <? 0) eqn:?; lia.
  - (* negative step *)
    assert (st <? 0 = true) as -> by lia.
    assert (Hstop : clamp (-1) (d - 1) (if (match stop with None => e0 | Some e => e end) <? 0
                                         then (match stop with None => e0 | Some e => e end) + d
                                         else (match stop with None => e0 | Some e => e end))
                    = match stop with None => -1 | Some e => if e <? 0 then Z.max (e + d) (-1) else Z.min e (d - 1) end).
    { destruct stop as [e|]; [apply adj_neg_stop; lia|]. unfold clamp. destruct (e0 <? 0) eqn:?; lia. }
    rewrite Hstop. clear Hstop.
    destruct start as [s|].
    + destruct (Z_le_gt_dec (- d) s) as [Hin|Hout]; [|destruct (Z.eq_dec d 0) as [Hd0|Hd0]].
      * f_equal. f_equal. apply adj_neg_start; lia.
      * f_equal. f_equal. apply adj_neg_start; lia.
      * (* start below -d, d >= 1: ONNX starts at 0, Python at -1; both select nothing unless the hazard holds *)
        unfold neg_start_hazard in Hhz.
        assert (Hstop : match stop with None => False | Some e => - d <= e end).
        { destruct stop as [e|]; lia. }
        destruct stop as [e|]; [|contradiction].
        f_equal. rewrite !range_list_empty_neg; try reflexivity; try lia.
        all: unfold clamp; destruct (s <? 0) eqn:?; destruct (e <? 0) eqn:?; lia.
    + f_equal. f_equal. unfold clamp. destruct (s0 <? 0) eqn:?; lia.
Qed.

(* in the corner ONNX returns position 0 and Python nothing *)
Lemma onnx_slice_hazard : forall d start stop st s0 e0,
  0 <= d -> good_stop_sentinel d st e0 ->
  neg_start_hazard d start stop (Some st) = true ->
  onnx_slice d (match start with None => s0 | Some s => s end)
               (match stop with None => e0 | Some e => e end) st = Some [0]
  /\ py_slice d start stop (Some st) = Some [].
Proof.
  intros d start stop st s0 e0 Hd He0 Hhz.
  unfold neg_start_hazard in Hhz. destruct start as [s|]; [|discriminate].
  assert (Hst : st < 0) by lia. assert (Hd1 : 1 <= d) by lia. assert (Hs : s < - d) by lia.
  unfold good_stop_sentinel in He0. destruct (0 <? st) eqn:?; try lia.
  unfold onnx_slice, py_slice, step_of, py_adjust.
  destruct (st =? 0) eqn:?; try lia. assert (st <? 0 = true) as -> by lia.
  assert (0 <? st = false) as -> by lia.
  split; f_equal.
  - assert (Hc : clamp 0 (d - 1) (if s <? 0 then s + d else s) = 0) by (unfold clamp; destruct (s <? 0) eqn:?; lia).
    rewrite Hc.
    assert (He : clamp (-1) (d - 1) (if (match stop with None => e0 | Some e => e end) <? 0
                                     then (match stop with None => e0 | Some e => e end) + d
                                     else (match stop with None => e0 | Some e => e end)) = -1).
    { unfold clamp. destruct stop as [e|]; [destruct (e <? 0) eqn:?|destruct (e0 <? 0) eqn:?]; lia. }
    rewrite He. apply range_list_single_neg; lia.
  - apply range_list_empty_neg; try lia.
    destruct (s <? 0) eqn:?; destruct stop as [e|]; try destruct (e <? 0) eqn:?; lia.
Qed.

(* ---- converter ------------------------------------------------------------------------------ *)
Definition refused (a b s : bound) : Prop := conv_bounds a b s = None.

Lemma MAXI_MINI : MAXI = 9223372036854775807 /\ MINI = -9223372036854775808.
Proof. split; reflexivity. Qed.

Theorem conv_slice_eq_python : forall d a b s,
  0 <= d <= MAXI -> conv_bounds a b s <> None ->
  neg_start_hazard d (bval a) (bval b) (bval s) = false ->
  conv_slice d a b s = py_slice d (bval a) (bval b) (bval s).
Proof.
  intros d a b s Hd Hacc Hhz. destruct MAXI_MINI as [HM Hm].
  unfold conv_slice.
  destruct (Z.eq_dec (step_of (bval s)) 0) as [Hz|Hnz].
  { (* step 0: Slice fails, Python raises ValueError *)
    unfold py_slice. rewrite Hz. cbn.
    unfold conv_bounds, dflt in *. unfold step_of in Hz.
    destruct s as [|z|z]; cbn in *; try lia; subst z.
    - cbn. unfold onnx_slice. reflexivity.
    - destruct (bval a), (bval b); try congruence; unfold onnx_slice; reflexivity. }
  assert (Hpy : py_slice d (bval a) (bval b) (bval s) = py_slice d (bval a) (bval b) (Some (step_of (bval s)))).
  { unfold py_slice. reflexivity. }
  assert (Hhz' : neg_start_hazard d (bval a) (bval b) (Some (step_of (bval s))) = false).
  { destruct s; cbn in *; try assumption. unfold neg_start_hazard. cbn. destruct (bval a); reflexivity. }
  rewrite Hpy. set (st := step_of (bval s)) in *.
  destruct s as [|z|z]; unfold conv_bounds, dflt in *; cbn [bval] in *.
  - (* step omitted = 1 *)
    subst st; cbn [step_of]. cbn [Z.ltb Z.compare].
    rewrite <- (onnx_slice_python d (bval a) (bval b) 1 0 MAXI); try lia; try assumption.
    + destruct (bval a), (bval b); reflexivity.
    + unfold good_start_sentinel; cbn; lia.
    + unfold good_stop_sentinel; cbn; lia.
  - subst st; cbn [step_of] in *. destruct (0 <? z) eqn:Hp.
    + rewrite <- (onnx_slice_python d (bval a) (bval b) z 0 MAXI); try lia; try assumption.
      * destruct (bval a), (bval b); reflexivity.
      * unfold good_start_sentinel; rewrite Hp; lia.
      * unfold good_stop_sentinel; rewrite Hp; lia.
    + rewrite <- (onnx_slice_python d (bval a) (bval b) z MAXI MINI); try lia; try assumption.
      * destruct (bval a), (bval b); reflexivity.
      * unfold good_start_sentinel; rewrite Hp; lia.
      * unfold good_stop_sentinel; rewrite Hp; lia.
  - (* tensor-valued step: both bounds are given *)
    subst st; cbn [step_of] in *.
    destruct (bval a) as [x|] eqn:Ha; [|congruence]. destruct (bval b) as [y|] eqn:Hb; [|congruence].
    destruct (0 <? z) eqn:Hp.
    + rewrite <- (onnx_slice_python d (Some x) (Some y) z 0 d); try lia; try assumption; try reflexivity.
      * unfold good_start_sentinel; rewrite Hp; lia.
      * unfold good_stop_sentinel; rewrite Hp; lia.
    + rewrite <- (onnx_slice_python d (Some x) (Some y) z (d - 1) (- d - 1)); try lia; try assumption; try reflexivity.
      * unfold good_start_sentinel; rewrite Hp; lia.
      * unfold good_stop_sentinel; rewrite Hp; lia.
Qed.

Theorem conv_slice_hazard : forall d a b s,
  0 <= d <= MAXI -> conv_bounds a b s <> None ->
  neg_start_hazard d (bval a) (bval b) (bval s) = true ->
  conv_slice d a b s = Some [0] /\ py_slice d (bval a) (bval b) (bval s) = Some [].
Proof.
  intros d a b s Hd Hacc Hhz. destruct MAXI_MINI as [HM Hm].
  assert (Hs : exists z, bval s = Some z /\ z < 0).
  { unfold neg_start_hazard in Hhz. destruct (bval s) as [z|]; [|discriminate]. exists z. split; [reflexivity|].
    destruct (bval a); [lia|discriminate]. }
  destruct Hs as [z [Hs Hz]]. rewrite Hs in *.
  unfold conv_slice.
  assert (Hpy : py_slice d (bval a) (bval b) (Some z) = py_slice d (bval a) (bval b) (Some z)) by reflexivity.
  destruct s as [|z'|z']; cbn [bval] in Hs; try discriminate; injection Hs as ->;
    unfold conv_bounds, dflt in *; cbn [bval] in *.
  - assert (0 <? z = false) as -> by lia.
    pose proof (onnx_slice_hazard d (bval a) (bval b) z MAXI MINI) as H.
    destruct (bval a), (bval b); apply H; try lia; try assumption; unfold good_stop_sentinel;
      (assert (0 <? z = false) as -> by lia); lia.
  - destruct (bval a) as [x|] eqn:Ha; [|congruence]. destruct (bval b) as [y|] eqn:Hb; [|congruence].
    apply (onnx_slice_hazard d (Some x) (Some y) z 0 (- d - 1)); try lia; try assumption.
    unfold good_stop_sentinel. assert (0 <? z = false) as -> by lia. lia.
Qed.

(* the corner is not empty, and outside it lies everything the documentation lists *)
Example conv_hazard_witness :
  conv_slice 4 (BConst (-6)) BNone (BConst (-1)) = Some [0] /\ py_slice 4 (Some (-6)) None (Some (-1)) = Some [].
Proof. split; reflexivity. Qed.
Example conv_neg_step_ok :
  conv_slice 4 BNone BNone (BConst (-1)) = Some [3; 2; 1; 0] /\ py_slice 4 None None (Some (-1)) = Some [3; 2; 1; 0].
Proof. split; reflexivity. Qed.

(* ---- eager ---------------------------------------------------------------------------------- *)
Theorem eager_slice_eq_python : forall d a b s,
  0 <= d ->
  neg_start_hazard d (bval a) (bval b) (bval s) = false ->
  eager_slice d a b s = py_slice d (bval a) (bval b) (bval s).
Proof.
  intros d a b s Hd Hhz. unfold eager_slice, eager_bounds, dflt.
  destruct (bval s) as [z|] eqn:Hs.
  - destruct (Z.eq_dec z 0) as [->|Hnz].
    { cbn. unfold onnx_slice, py_slice. reflexivity. }
    destruct (0 <? z) eqn:Hp.
    + rewrite <- (onnx_slice_python d (bval a) (bval b) z 0 d); try lia; try assumption.
      * destruct (bval a), (bval b); reflexivity.
      * unfold good_start_sentinel; rewrite Hp; lia.
      * unfold good_stop_sentinel; rewrite Hp; lia.
    + rewrite <- (onnx_slice_python d (bval a) (bval b) z (d - 1) (- (d + 1))); try lia; try assumption.
      * destruct (bval a), (bval b); reflexivity.
      * unfold good_start_sentinel; rewrite Hp; lia.
      * unfold good_stop_sentinel; rewrite Hp; lia.
  - assert (Hpy : py_slice d (bval a) (bval b) None = py_slice d (bval a) (bval b) (Some 1)) by reflexivity.
    rewrite Hpy.
    rewrite <- (onnx_slice_python d (bval a) (bval b) 1 0 d); try lia.
    + destruct (bval a), (bval b); reflexivity.
    + unfold good_start_sentinel; cbn; lia.
    + unfold good_stop_sentinel; cbn; lia.
    + unfold neg_start_hazard. destruct (bval a); reflexivity.
Qed.

Theorem eager_slice_hazard : forall d a b s,
  0 <= d ->
  neg_start_hazard d (bval a) (bval b) (bval s) = true ->
  eager_slice d a b s = Some [0] /\ py_slice d (bval a) (bval b) (bval s) = Some [].
Proof.
  intros d a b s Hd Hhz. unfold eager_slice, eager_bounds, dflt.
  assert (Hs : exists z, bval s = Some z /\ z < 0).
  { unfold neg_start_hazard in Hhz. destruct (bval s) as [z|]; [|discriminate]. exists z. split; [reflexivity|].
    destruct (bval a); [lia|discriminate]. }
  destruct Hs as [z [Hs Hz]]. rewrite Hs in *.
  assert (0 <? z = false) as -> by lia.
  pose proof (onnx_slice_hazard d (bval a) (bval b) z (d - 1) (- (d + 1))) as H.
  destruct (bval a), (bval b); apply H; try lia; try assumption; unfold good_stop_sentinel;
    (assert (0 <? z = false) as -> by lia); lia.
Qed.

(* ---- a scalar index i routed through Slice(i, i+1) + Squeeze --------------------------------- *)
Lemma scalar_as_slice : forall d i, 0 <= d ->
  onnx_slice d i (i + 1) 1 =
    Some (if (0 <=? i) && (i <? d) then [i]
          else if (- d <=? i) && (i <? -1) then [i + d]
          else []).
Proof.
  intros d i Hd. unfold onnx_slice. cbn [Z.eqb Z.ltb Z.compare]. f_equal.
  destruct ((0 <=? i) && (i <? d)) eqn:H1.
  - assert (i <? 0 = false) as -> by lia. assert (i + 1 <? 0 = false) as -> by lia.
    unfold clamp. replace (Z.min d (Z.max 0 i)) with i by lia.
    replace (Z.min d (Z.max 0 (i + 1))) with (i + 1) by lia. apply range_list_unit.
  - destruct ((- d <=? i) && (i <? -1)) eqn:H2.
    + assert (i <? 0 = true) as -> by lia. assert (i + 1 <? 0 = true) as -> by lia.
      unfold clamp. replace (Z.min d (Z.max 0 (i + d))) with (i + d) by lia.
      replace (Z.min d (Z.max 0 (i + 1 + d))) with (i + d + 1) by lia. apply range_list_unit.
    + apply range_list_empty_pos; try lia. unfold clamp.
      destruct (i <? 0) eqn:?; destruct (i + 1 <? 0) eqn:?; lia.
Qed.

(* ... so it yields NumPy's element for every valid index except -1, where the slice -1:0 is empty
   (Squeeze then fails: an error, which the property allows) *)
Corollary scalar_as_slice_ok : forall d i p, 0 <= d -> py_int d i = Some p -> i <> -1 ->
  onnx_slice d i (i + 1) 1 = Some [p].
Proof.
  intros d i p Hd Hp Hi. rewrite scalar_as_slice by assumption. unfold py_int in Hp.
  destruct ((- d <=? i) && (i <? d)) eqn:Hb; [|discriminate]. injection Hp as <-.
  destruct ((0 <=? i) && (i <? d)) eqn:H1.
  - assert (i <? 0 = false) as -> by lia. reflexivity.
  - assert ((- d <=? i) && (i <? -1) = true) as -> by lia.
    assert (i <? 0 = true) as -> by lia. reflexivity.
Qed.

Corollary scalar_as_slice_minus1 : forall d, 0 <= d -> onnx_slice d (-1) 0 1 = Some [].
Proof.
  intros d Hd. change 0 with (-1 + 1) at 1. rewrite scalar_as_slice by assumption.
  destruct ((0 <=? -1) && (-1 <? d)) eqn:?; try lia.
  destruct ((- d <=? -1) && (-1 <? -1)) eqn:?; try lia. reflexivity.
Qed.

Corollary scalar_as_slice_out_of_bounds : forall d i, 0 <= d -> py_int d i = None ->
  onnx_slice d i (i + 1) 1 = Some [].
Proof.
  intros d i Hd Hp. rewrite scalar_as_slice by assumption. unfold py_int in Hp.
  destruct ((- d <=? i) && (i <? d)) eqn:Hb; [discriminate|].
  destruct ((0 <=? i) && (i <? d)) eqn:?; try lia.
  destruct ((- d <=? i) && (i <? -1)) eqn:?; try lia. reflexivity.
Qed.

(* Gather's index rule is Python's *)
Lemma gather_index_py_int : forall d i, gather_index d i = py_int d i.
Proof. reflexivity. Qed.

(* every position a Slice selects exists *)
Lemma onnx_slice_in_range : forall d s e st l x, 0 <= d ->
  onnx_slice d s e st = Some l -> In x l -> 0 <= x < d.
Proof.
  intros d s e st l x Hd H Hin. unfold onnx_slice in H.
  destruct (st =? 0) eqn:?; [discriminate|].
  destruct (0 <? st) eqn:Hp; injection H as <-; apply range_list_bounds in Hin; destruct Hin as [H1 H2].
  - specialize (H1 ltac:(lia)). unfold clamp in H1. lia.
  - specialize (H2 ltac:(lia)). unfold clamp in H2. lia.
Qed.
