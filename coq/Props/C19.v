(* C19 property theorems: statements only, each closed by `exact`, Print Assumptions beneath.
   F, o range over EVERY type with operations satisfying Coq's [field_theory] (hypothesis [is_field o], never an
   axiom); sqrt / erf / tanh / softmax are arbitrary functions; vectors are lists of arbitrary length.
   What these theorems do not say: anything about rounding (the fused kernels evaluate in a different order), NaN /
   infinities, the constant-matching tolerance of the matcher, and the attention-family index algebra (direct oracle only). *)
From Coq Require Import List ZArith Bool.
Require Import OV.Fusion.Field OV.Fusion.Norm OV.Fusion.NormProofs OV.Fusion.Gelu OV.Fusion.GeluProofs
               OV.Fusion.MatMul OV.Fusion.MatMulProofs OV.Fusion.Rotary OV.Fusion.RotaryProofs
               OV.Fusion.Sdpa OV.Fusion.SdpaProofs OV.Fusion.Softmax OV.Fusion.SoftmaxProofs.
Import ListNotations.

(* ---- normalisation ------------------------------------------------------------------------------------ *)
Theorem C19_rms_norm_identity : forall F (o : fops F), is_field o -> forall (sqrt : F -> F)
  (mul_order : bool) (x scale : list F) (eps : F),
  rms_pattern F o sqrt mul_order x scale eps = rms_spec F o sqrt x scale eps.
Proof. exact rms_norm_identity. Qed.
Print Assumptions C19_rms_norm_identity.

Theorem C19_layer_norm_identity : forall F (o : fops F), is_field o -> forall (sqrt : F -> F)
  sq nm (x scale : list F) (eps : F),
  ln_pattern F o sqrt sq nm x scale eps = ln_spec F o sqrt x scale None eps.
Proof. exact layer_norm_identity. Qed.
Print Assumptions C19_layer_norm_identity.

Theorem C19_layer_norm_bias_identity : forall F (o : fops F) (sqrt : F -> F) x scale b eps,
  ln_bias_pattern F o sqrt x scale b eps = ln_spec F o sqrt x scale (Some b) eps.
Proof. exact layer_norm_bias_identity. Qed.
Print Assumptions C19_layer_norm_bias_identity.

(* both outputs (normalised, sum), three bias modes, both Add orders *)
Theorem C19_skip_rms_norm_identity : forall F (o : fops F), is_field o -> forall (sqrt : F -> F)
  bm sf input skip gamma bias eps,
  skip_rms_pattern F o sqrt bm sf input skip gamma bias eps
  = skip_rms_spec F o sqrt input skip gamma (bias_arg F bm bias) eps.
Proof. exact skip_rms_norm_identity. Qed.
Print Assumptions C19_skip_rms_norm_identity.

Theorem C19_skip_layer_norm_identity : forall F (o : fops F), is_field o -> forall (sqrt : F -> F)
  bm sf input skip gamma beta bias eps,
  skip_ln_pattern F o sqrt bm sf input skip gamma beta bias eps
  = skip_ln_spec F o sqrt input skip gamma beta (bias_arg F bm bias) eps.
Proof. exact skip_layer_norm_identity. Qed.
Print Assumptions C19_skip_layer_norm_identity.

(* side conditions: RmsNormFusion fires only with a float/double stash type; Skip* only on [B,S,D] / [D] shapes *)
Theorem C19_rms_check_sound : forall g x s c e rx re rs ax st,
  rms_check_rewrite g x s c e rx re rs = Some (ax, st) -> ax = (-1)%Z /\ (st = 1 \/ st = 11)%Z /\ e = true
  /\ is_float_type x = true /\ is_float_type s = true.
Proof. exact rms_check_sound. Qed.
Print Assumptions C19_rms_check_sound.

(* rank side condition (rank_guard = true: the repair fix 4146a4e; the harness probes which variant each rule
   file is): an accepted match cannot gain dimensions by broadcasting epsilon / scale / bias, so the pattern's result has the
   rank of x = the rank of the fused operator's output *)
Theorem C19_rms_rank_guard_sufficient : forall x s c e rx re rs n a b r,
  rms_check_rewrite true x s c e rx re rs = Some r -> rx = Some n -> re = Some a -> rs = Some b -> 1 <= n ->
  bc_rank n a b = n.
Proof. exact rms_rank_guard_sufficient. Qed.
Print Assumptions C19_rms_rank_guard_sufficient.
Theorem C19_ln_rank_guard_sufficient : forall x e rx re rs n a b r,
  ln_check_rewrite true x e rx re rs = Some r -> rx = Some n -> re = Some a -> rs = Some b -> 1 <= n ->
  bc_rank n a b = n.
Proof. exact ln_rank_guard_sufficient. Qed.
Print Assumptions C19_ln_rank_guard_sufficient.
Theorem C19_ln_bias_rank_guard_sufficient : forall rx rb n b,
  ln_bias_check true rx rb = true -> rx = Some n -> rb = Some b -> 1 <= n -> Nat.max n b = n.
Proof. exact ln_bias_rank_guard_sufficient. Qed.
Print Assumptions C19_ln_bias_rank_guard_sufficient.
Example C19_rms_rank_guard_fires : rms_check_rewrite true FLOAT16 FLOAT16 (Some FLOAT) true (Some 3) (Some 0) (Some 1) = Some ((-1)%Z, 1%Z)
  /\ rms_check_rewrite true FLOAT FLOAT None true (Some 3) (Some 3) (Some 3) = Some ((-1)%Z, 1%Z).
Proof. exact rms_rank_guard_fires. Qed.
(* FINDINGS (known, C19:rms_norm / C19:rules.fusion:rms_norm / C19:rules.fusion:layer_norm :epsilon-or-scale-rank-exceeds-input-rank):
   as read (rank_guard = false) x of rank 3 with an epsilon of rank 4 is accepted and the result rank changes; the repair refuses *)
Theorem C19_rms_rank_as_read_refuted : exists n a b,
  rms_check_rewrite false FLOAT FLOAT None true (Some n) (Some a) (Some b) <> None /\ 1 <= n /\ bc_rank n a b <> n
  /\ rms_check_rewrite true FLOAT FLOAT None true (Some n) (Some a) (Some b) = None.
Proof. exact rms_rank_as_read_refuted. Qed.
Print Assumptions C19_rms_rank_as_read_refuted.
Theorem C19_ln_rank_as_read_refuted : exists n a b,
  ln_check_rewrite false FLOAT true (Some n) (Some a) (Some b) <> None /\ 1 <= n /\ bc_rank n a b <> n
  /\ ln_check_rewrite true FLOAT true (Some n) (Some a) (Some b) = None
  /\ ln_bias_check false (Some n) (Some a) = true /\ ln_bias_check true (Some n) (Some a) = false.
Proof. exact ln_rank_as_read_refuted. Qed.
Print Assumptions C19_ln_rank_as_read_refuted.

Theorem C19_skip_check_ranks : forall hb ln i s g be bi st,
  skip_check hb ln i s g be bi st = true ->
  exists si ss sg, i = Some si /\ s = Some ss /\ g = Some sg /\ length si = 3%nat /\ length ss = 3%nat /\ length sg = 1%nat /\ st = 1%Z.
Proof. exact skip_check_ranks. Qed.
Print Assumptions C19_skip_check_ranks.

(* check()-sufficiency of the skip fusions: an accepted match has input = skip = [B,S,D] and gamma (beta, bias) = [D] with one D:
   the documented operand shapes of Skip(Simplified)LayerNormalization, and the situation (rows of equal length D) that
   C19_skip_rms_norm_identity / C19_skip_layer_norm_identity describe.  Dims may be static or symbolic codes. *)
Theorem C19_skip_check_sufficient : forall hb ln i s g be bi st,
  skip_check hb ln (Some i) (Some s) (Some g) be bi st = true ->
  exists B S D, i = [B; S; D] /\ s = [B; S; D] /\ g = [D] /\ (ln = true -> be = Some [D]) /\ (hb = true -> bi = Some [D]) /\ st = 1%Z
    /\ skip_op_ok ln i s g (if ln then be else None) (if hb then bi else None) = true.
Proof. exact skip_check_sufficient. Qed.
Print Assumptions C19_skip_check_sufficient.
Example C19_skip_check_sufficient_satisfiable :
  skip_check true true (Some [2; 3; 8]%Z) (Some [2; 3; 8]%Z) (Some [8]%Z) (Some [8]%Z) (Some [8]%Z) 1 = true
  /\ skip_check false false (Some [-2; -3; 8]%Z) (Some [-2; -3; 8]%Z) (Some [8]%Z) None None 1 = true.
Proof. exact skip_check_sufficient_satisfiable. Qed.

(* ---- GELU --------------------------------------------------------------------------------------------- *)
Theorem C19_gelu_erf_identity : forall F (o : fops F), is_field o -> forall (erf : F -> F) (half sqrt2 : F) x,
  gelu_erf_pattern F o erf half sqrt2 x = gelu_spec F o erf half sqrt2 x.
Proof. exact gelu_erf_identity. Qed.
Print Assumptions C19_gelu_erf_identity.

Theorem C19_erf_gelu_identity : forall F (o : fops F), is_field o -> forall (erf : F -> F) (half sqrt2 : F) x,
  erf_gelu_pattern_1 F o erf half sqrt2 x = gelu_spec F o erf half sqrt2 x
  /\ erf_gelu_pattern_2 F o erf half sqrt2 x = gelu_spec F o erf half sqrt2 x.
Proof. exact erf_gelu_identity. Qed.
Print Assumptions C19_erf_gelu_identity.

Theorem C19_gelu_tanh_identity : forall F (o : fops F), is_field o -> forall (tanh : F -> F) (half s2pi k : F) x,
  gelu_tanh_pattern F o tanh half s2pi k x = fastgelu_spec F o tanh half s2pi k x.
Proof. exact gelu_tanh_identity. Qed.
Print Assumptions C19_gelu_tanh_identity.

Theorem C19_fastgelu_kernel_form : forall F (o : fops F), is_field o -> forall (tanh : F -> F) (half s2pi k : F) C x,
  C = fmul o k s2pi -> fastgelu_spec F o tanh half s2pi k x = fastgelu_kernel F o tanh half s2pi C x.
Proof. exact fastgelu_kernel_form. Qed.
Print Assumptions C19_fastgelu_kernel_form.

Theorem C19_bias_gelu_identity : forall F (o : fops F) (erf : F -> F) (half sqrt2 : F) row bias,
  length row = length bias ->
  bias_gelu_pattern F o erf half sqrt2 row bias = bias_gelu_fused F o erf half sqrt2 row bias.
Proof. exact bias_gelu_identity. Qed.
Print Assumptions C19_bias_gelu_identity.

(* the side condition of BiasGeluFusion.check (bias 1-D, input's last dimension = its length) is sufficient *)
Theorem C19_bias_gelu_check_sufficient : forall F (o : fops F) (erf : F -> F) (half sqrt2 : F) a (row bias : list F) (lead : list Z),
  bias_gelu_check a (Some [Z.of_nat (length bias)]) (Some (lead ++ [Z.of_nat (length row)])) = true ->
  bias_gelu_pattern F o erf half sqrt2 row bias = bias_gelu_fused F o erf half sqrt2 row bias.
Proof. exact bias_gelu_check_sufficient. Qed.
Print Assumptions C19_bias_gelu_check_sufficient.

(* FINDING (fixed in /repo): the check before the fix (bias has rank 1) accepted operands the fused operator rejects *)
Theorem C19_bias_gelu_check_old_insufficient_refuted : forall F (o : fops F) (erf : F -> F) (half sqrt2 : F),
  bias_gelu_check_old ApproxAbsent (Some [2%Z]) = true /\
  exists row bias : list F, length bias = 2 /\
    bias_gelu_pattern F o erf half sqrt2 row bias <> None /\ bias_gelu_fused F o erf half sqrt2 row bias = None.
Proof. exact bias_gelu_check_old_insufficient_refuted. Qed.
Print Assumptions C19_bias_gelu_check_old_insufficient_refuted.

(* ---- FusedMatMul ---------------------------------------------------------------------------------------- *)
Theorem C19_fused_matmul_div : forall F (o : fops F), is_field o -> forall (x y : mat F) c,
  omeq F (div1_pattern F o x y c) (div1_rewrite F o x y c).
Proof. exact fused_matmul_div. Qed.
Print Assumptions C19_fused_matmul_div.

Theorem C19_fused_matmul_div2 : forall F (o : fops F), is_field o -> forall alpha tA tB (x y : mat F) c,
  omeq F (div2_pattern F o alpha tA tB x y c) (div2_rewrite F o alpha tA tB x y c).
Proof. exact fused_matmul_div2. Qed.
Print Assumptions C19_fused_matmul_div2.

Theorem C19_fused_matmul_transpose : forall F (o : fops F) alpha tA tB (x y : mat F),
  omeq F (tmm1_pattern F o alpha tA tB x y) (tmm1_rewrite F o alpha tA tB x y)
  /\ omeq F (tmm2_pattern F o alpha tA tB x y) (tmm2_rewrite F o alpha tA tB x y).
Proof. exact fused_matmul_transpose. Qed.
Print Assumptions C19_fused_matmul_transpose.

(* Transpose of the product: (op_a(x) op_b(y))^T = op_b(y)^T op_a(x)^T -- the flags swap sides with the operands (the code since the fix) *)
Theorem C19_matmul_transpose_sound : forall F (o : fops F), is_field o -> forall alpha tA tB (x y : mat F),
  omeq F (mmt_pattern F o alpha tA tB x y) (mmt_rewrite_code F o alpha tA tB x y).
Proof. exact matmul_transpose_sound. Qed.
Print Assumptions C19_matmul_transpose_sound.

(* FINDING (fixed in /repo): the rewrite before the fix negated the old flags in place; right only for transA = transB ... *)
Theorem C19_matmul_transpose_old_sound_equal_flags : forall F (o : fops F), is_field o -> forall alpha t (x y : mat F),
  omeq F (mmt_pattern F o alpha t t x y) (mmt_rewrite_old F o alpha t t x y).
Proof. exact matmul_transpose_old_sound_equal_flags. Qed.
Print Assumptions C19_matmul_transpose_old_sound_equal_flags.

(* ... and wrong for transA <> transB (witness replayed on the real rule + onnxruntime on every run) *)
Theorem C19_fused_matmul_transpose_output_old_refuted : exists (alpha : Z) (tA tB : bool) (x y : mat Z),
  ~ omeq Z (mmt_pattern Z z_ops alpha tA tB x y) (mmt_rewrite_old Z z_ops alpha tA tB x y).
Proof. exact matmul_transpose_old_refuted. Qed.
Print Assumptions C19_fused_matmul_transpose_output_old_refuted.

(* N-d operands: Transpose composed with the (transBatch, trans) transposition, for every rank >= 2 *)
Theorem C19_transpose_compose : forall V (p q : nat -> nat) (T T' T'' : (nat -> nat) -> V),
  is_transpose p T T' -> is_transpose q T' T'' -> is_transpose (fun k => p (q k)) T T''.
Proof. exact transpose_compose. Qed.
Print Assumptions C19_transpose_compose.

Theorem C19_fused_matmul_batch_transpose : forall r tb t perm,
  2 <= length perm -> batch_check r tb perm = true ->
  let '(tb', t') := batch_rewrite r tb t in
  compose perm (eff_perm tb t (length perm)) = eff_perm tb' t' (length perm).
Proof. exact fused_matmul_batch_transpose. Qed.
Print Assumptions C19_fused_matmul_batch_transpose.

Theorem C19_fused_matmul_last2_transpose : forall t N, 2 <= N ->
  compose (swap_last2 N) (eff_perm false t N) = eff_perm false (negb t) N.
Proof. exact fused_matmul_last2_transpose. Qed.
Print Assumptions C19_fused_matmul_last2_transpose.

(* the batch rules fire only on rank >= 3 (layout constraint of transBatchA/B) *)
Theorem C19_batch_check_rank3 : forall r tb perm, batch_check r tb perm = true -> 3 <= length perm.
Proof. exact batch_check_rank3. Qed.
Print Assumptions C19_batch_check_rank3.

(* FINDING (fixed in /repo): before the fix they accepted the identity perm on rank 2 *)
Theorem C19_batch_rule_rank2_old_refuted : exists perm, length perm = 2 /\ batch_check_old FlipBatch false perm = true
  /\ fst (batch_rewrite FlipBatch false false) = true.
Proof. exact batch_rule_rank2_old_refuted. Qed.
Print Assumptions C19_batch_rule_rank2_old_refuted.

(* Transpose WITHOUT a perm attribute reverses all axes: a swap of the last two for rank 2 and for no other rank *)
Theorem C19_default_perm_is_swap_iff_rank2 : forall N, 2 <= N -> (default_perm N = swap_last2 N <-> N = 2).
Proof. exact default_perm_is_swap_iff_rank2. Qed.
Print Assumptions C19_default_perm_is_swap_iff_rank2.

(* whenever _TransposeMatMulBase.check accepts, the absorbed Transpose swaps the last two axes of an operand of rank r >= 2
   (perm given or absent), no operand is 1-D and transBatch is not set: the hypotheses of C19_fused_matmul_last2_transpose *)
Theorem C19_simple_check_sound : forall perm r other ftb,
  simple_check perm (Some r) other ftb = true ->
  (match perm with Some ((_ :: _) as p) => length p = r | _ => True end) ->
  2 <= r /\ transpose_perm perm r = swap_last2 r /\ r <> 1 /\ other <> Some 1 /\ ftb <> Some true.
Proof. exact simple_check_sound. Qed.
Print Assumptions C19_simple_check_sound.

(* ---- rotary embedding ----------------------------------------------------------------------------------- *)
Theorem C19_rotary_half_rotation : forall F (o : fops F), is_field o -> forall (x1 x2 c s : list F) e2,
  let x := x1 ++ x2 in let h := length c in
  length x1 = h -> length x2 = h -> length s = h -> length x <= e2 ->
  rope23_pattern F o x c s 0 (length x / 2) (length x / 2) e2 = rope_spec F o x c s.
Proof. exact rotary_half_rotation. Qed.
Print Assumptions C19_rotary_half_rotation.

(* odd head sizes cannot reach the opset-23 operator through the rule: its cos operand Concat(f, f) has even length *)
Theorem C19_rotary_concat_even : forall F (c : list F), Nat.even (length (c ++ c)) = true.
Proof. exact concat_twice_even. Qed.
Print Assumptions C19_rotary_concat_even.

Theorem C19_partial_rotary_identity : forall F (o : fops F) (x c s : list F) r,
  r = 2 * length c -> r <= length x -> partial_pattern F o x c s r r = rope_spec F o x c s.
Proof. exact partial_rotary_identity. Qed.
Print Assumptions C19_partial_rotary_identity.

Theorem C19_rot_check_bounds : forall r d1 d3 s1 e1 s2 e2 nh,
  rot_check r d1 d3 s1 e1 s2 e2 = Some nh ->
  r = 4%nat /\ d1 = Some nh /\ exists hs, d3 = Some hs /\ s1 = 0%Z /\ e1 = (hs / 2)%Z /\ s2 = (hs / 2)%Z /\ (hs <= e2)%Z.
Proof. exact rot_check_bounds. Qed.
Print Assumptions C19_rot_check_bounds.

(* ---- SDPA ------------------------------------------------------------------------------------------------ *)
Theorem C19_sdpa_scale_variants : forall F (o : fops F), is_field o -> forall (softmax : list F -> list F)
  sq sk sqk q K mask Vcols,
  sdpa_pattern F o softmax sq sk sqk q K mask Vcols = sdpa_spec F o softmax (sdpa_scale F o sq sk sqk) q K mask Vcols.
Proof. exact sdpa_scale_variants. Qed.
Print Assumptions C19_sdpa_scale_variants.

(* ---- softmax upcast removal -------------------------------------------------------------------------------- *)
(* identity with its idealisation explicit: Cast(f32->f16) inverts Cast(f16->f32), and the float32 kernel computes on up-cast
   values what the float16 kernel computes (the rule's precision claim: NOT provable algebraically, measured by the oracle) *)
Theorem C19_softmax_upcast_removal : forall F (up down : F -> F) (sm : list F -> list F) x,
  (forall v, down (up v) = v) -> (forall y, sm (map up y) = map up (sm y)) ->
  softmax_pattern F up down sm x = softmax_fused F sm x.
Proof. exact softmax_upcast_removal. Qed.
Print Assumptions C19_softmax_upcast_removal.
(* check()-sufficiency: the rule fires only on FLOAT16 -> FLOAT -> FLOAT16, so the casts are an up-cast and its inverse and the
   replacement keeps the element type of the matched expression *)
Theorem C19_softmax_check_sufficient : forall i u d, softmax_rule_fires i u d = true ->
  i = Some FLOAT16 /\ u = FLOAT /\ d = FLOAT16 /\ softmax_fused_dtype FLOAT16 = softmax_pattern_dtype d.
Proof. exact softmax_check_sufficient. Qed.
Print Assumptions C19_softmax_check_sufficient.
Theorem C19_softmax_without_check_refuted : exists i, softmax_fused_dtype i <> softmax_pattern_dtype FLOAT16
  /\ softmax_rule_fires (Some i) FLOAT FLOAT16 = false.
Proof. exact softmax_without_check_refuted. Qed.
Print Assumptions C19_softmax_without_check_refuted.
Example C19_softmax_identity_nontrivial :
  softmax_pattern nat (fun v => 2 * v) (fun v => Nat.div v 2) (map (fun v => v + v)) [1; 2; 3] = softmax_fused nat (map (fun v => v + v)) [1; 2; 3].
Proof. exact softmax_identity_nontrivial. Qed.
