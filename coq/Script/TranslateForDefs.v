(* Stage S3 (first part) of the compiler-correctness theorem: `for i in range(bound)` loops.  This file names the
   pieces of Converter._translate_loop_stmt as they occur in Script/Translate.v (the statements of the loop body, the
   whole `for` translation as an equation proved by reflexivity), and defines the class of loops covered
   (loop_ok): a tensor-valued bound, a body made of assignments of tensor-valued S1 expressions, and decidable
   side conditions on what the generated analysis (Gen/Analysis.v) says about the loop.  Two of the side
   conditions (C1, C2) exclude exactly the programs that hit the two liveness defects of the code (the loop bound is
   not live; a variable assigned but not read in the loop and live after it is not live before it). *)
From Coq Require Import List String ZArith Bool Arith Lia.
Require Import OV.Graph.Syntax OV.Graph.Sem OV.Graph.SemProofs OV.Graph.Wf OV.Graph.WfProofs.
Require Import OV.Script.Syntax OV.Script.Sets OV.Gen.Analysis OV.Gen.ScriptTables OV.Script.Translate OV.Script.PySem
               OV.Script.TranslateProofs OV.Script.AnalysisProofs OV.Script.LivenessProofs OV.Script.TranslateIfProofs.
Import ListNotations.
Local Open Scope string_scope.
Local Open Scope list_scope.

Section ForEq.
  Variable globals : list (string * lit).
  Variable cic : expr -> option bool.
  Variable afuel : nat.
  Variable inputs : list vname.
  Notation tr_stmts := (tr_stmts globals cic afuel false inputs).

  (* the statements of a loop body (Converter._translate_loop_stmt), named *)
  Definition tr_loop_body (fu : nat) (lo_body : sset) : list stmt -> scopes -> M (scopes * option vname) :=
    fix gob (l : list stmt) (sc_b : scopes) {struct l} : M (scopes * option vname) :=
      match l with
      | [] => ret (sc_b, None)
      | s0 :: rest =>
        match is_break_if s0 with
        | Some (EVar cn) =>
          guard (is_nil rest) ;;;
          match scope_find cn (cur_scope sc_b) with
          | Some (BV v) => ret (sc_b, Some v)
          | _ => fail
          end
        | Some _ => fail
        | None =>
          lo0 <- lift (live_block cic afuel rest lo_body) ;;
          r0 <- match s0 with
                | SAssign x e => v <- tr_expr globals sc_b (Some x) e ;; ret (bind_var x (BV v) sc_b, [])
                | STuple xs e => vs <- tr_call_multi globals sc_b e xs ;; ret (bind_all xs vs sc_b, [])
                | _ => tr_stmts fu false [s0] lo0 sc_b []
                end ;;
          gob rest (fst r0)
        end
      end.

  Lemma tr_stmts_for : forall fu top i bound body rest lo sc outs,
    tr_stmts (S fu) top (SFor i bound body :: rest) lo sc outs =
    (lo_s <- lift (live_block cic afuel rest lo) ;;
     r <- (hdr <- (b <- tr_expr globals sc (Some "loop_bound") bound ;;
                   cin <- uniq "cond_in" ;;
                   ret (i, cin, Some b, @None vname, @None string)) ;;
           let '(loop_var_py, cond_param, o_bound, o_cond, while_c) := hdr in
           state <- list_set (sinter (assigned_block cic body) (sunion (exposed_uses cic body) lo_s)) ;;
           guard (negb (is_nil state)) ;;;
           lo_body <- lift (loop_fixpoint cic afuel (SFor i bound body) lo_s) ;;
           lv <- uniq loop_var_py ;;
           ps <- mapM uniq state ;;
           let sc_b0 := bind_all state ps (bind_var loop_var_py (BV lv) ([] :: sc)) in
           r <- capture (tr_loop_body fu lo_body body sc_b0) ;;
           let sc_b := fst (fst r) in
           let brk := snd (fst r) in
           let ns0 := snd r in
           wc <- match while_c with
                 | Some c => match scope_find c (cur_scope sc_b) with
                             | Some (BV v) => ret (Some v)
                             | _ => fail
                             end
                 | None => ret None
                 end ;;
           cnodes <- capture (
                       match brk, wc with
                       | Some bv, Some wv =>
                           nb <- uniq "not_break" ;; emit (node1 "Not" [Some bv] nb []) ;;;
                           co <- uniq "cond_out" ;; emit (node1 "And" [Some wv; Some nb] co []) ;;; ret co
                       | Some bv, None =>
                         co <- uniq "cond_out" ;; emit (node1 "Not" [Some bv] co []) ;;; ret co
                       | None, Some wv =>
                         co <- uniq "cond_out" ;; emit (identity wv co) ;;; ret co
                       | None, None =>
                         co <- uniq "cond_out" ;; emit (identity cond_param co) ;;; ret co
                       end) ;;
           o <- loop_outputs globals false sc_b state (ns0 ++ snd cnodes)%list [fst cnodes] ;;
           let body_g := Graph (lv :: cond_param :: ps) [] (snd o) (fst cnodes :: fst o) in
           ins <- mapM (py_var globals sc) state ;;
           state_out <- ret state ;;
           names <- mapM uniq state_out ;;
           emit (Node "" "Loop" (o_bound :: o_cond :: map Some ins) names [] [("body", body_g)]) ;;;
           ret (bind_all state_out names sc, outs)) ;;
     tr_stmts (S fu) top rest lo (fst r) (snd r)).
  Proof. reflexivity. Qed.
End ForEq.

(* ------------------------------------------------------------------ the class: a `for` loop over a tensor bound
   whose body is a list of assignments of tensor-valued S1 expressions, and the side conditions on what the
   generated analysis says about it (each is a decidable check on the program; C1 and C2 fail on programs that hit
   the two liveness defects of the code: bound not live, live-out not live-in) *)

Section ForClass.
  Variable globals : list (string * lit).
  Variable cic : expr -> option bool.
  Variable afuel : nat.

  Definition assign_ok (s : stmt) : bool := match s with SAssign _ e => rhs_ok globals e | _ => false end.

  Definition is_none {A} (o : option A) : bool := match o with None => true | Some _ => false end.

  Fixpoint sl_eqb (a b : list string) : bool :=
    match a, b with
    | [], [] => true
    | x :: s, y :: t => String.eqb x y && sl_eqb s t
    | _, _ => false
    end.

  (* what is live before the loop is exactly what the converter uses as live at the end of the body (as the code stood
     when this first part of S3 was proved the two were the same expression; with the loop bound kept live they coincide
     when the bound's variables are live in the loop anyway) *)
  Definition fix_ok (i : string) (bound : expr) (body : list stmt) (lo_s : sset) : bool :=
    match live_stmt cic afuel (SFor i bound body) lo_s, loop_fixpoint cic afuel (SFor i bound body) lo_s with
    | Some L, Some Lf => sl_eqb L Lf
    | _, _ => false
    end.

  Definition loop_ok (i : string) (bound : expr) (body : list stmt) (lo_s : sset) : bool :=
    fix_ok i bound body lo_s && rhs_ok globals bound && forallb assign_ok body &&
    match live_stmt cic afuel (SFor i bound body) lo_s with
    | None => false
    | Some L =>
      match live_block cic afuel body L with
      | None => false
      | Some Lb =>
        let A := assigned_block cic body in
        let S := sinter A (sunion (exposed_uses cic body) lo_s) in
        ssubset (used_vars bound) L &&                          (* C1: the bound is live before the loop *)
        ssubset S L &&                                          (* C2: the loop state is live before the loop *)
        ssubset (sdiff Lb (i :: S)) (sdiff L A) &&              (* C3: what the body reads and is not state comes from outside, unchanged *)
        ssubset (sdiff lo_s (i :: S)) L &&                      (* C4: what is live after the loop and not state was live before it *)
        negb (mem i lo_s) && negb (mem i A) &&                  (* C5, C6: the loop variable is not used after the loop, not assigned in it *)
        forallb (fun x => is_none (lookup_assoc x globals)) S   (* C7: no state variable shadows a module-level constant *)
      end
    end.

  Lemma sl_eqb_eq : forall a b, sl_eqb a b = true -> a = b.
  Proof.
    induction a as [|x s IH]; intros [|y t] H; cbn in H; try discriminate H; [reflexivity|].
    apply andb_true_iff in H. destruct H as [H1 H2]. apply String.eqb_eq in H1. subst y. f_equal. apply IH. exact H2.
  Qed.

  Lemma fix_ok_spec : forall i bound body lo_s L, fix_ok i bound body lo_s = true ->
    live_stmt cic afuel (SFor i bound body) lo_s = Some L -> loop_fixpoint cic afuel (SFor i bound body) lo_s = Some L.
  Proof.
    intros i bound body lo_s L H Hl. unfold fix_ok in H. rewrite Hl in H.
    destruct (loop_fixpoint cic afuel (SFor i bound body) lo_s) as [Lf|]; [|discriminate H].
    apply sl_eqb_eq in H. subst Lf. reflexivity.
  Qed.
End ForClass.
