#!/venv/bin/python
"""try_seed.py <seed_id> [tier]  -> runs ./check <pid> against a scratch worktree of /repo with seeded/<seed_id>/patch.diff applied
(OSVERIF_REPO), records the outcome in seeded/<seed_id>/meta.json."""
import json, os, re, shutil, subprocess, sys, time
VH = os.environ.get("VERIF_HOME", "/verif")   # run the check from an isolated copy of /verif while builders edit /verif
sid = sys.argv[1]; tier = sys.argv[2] if len(sys.argv) > 2 else "quick"
pid = sid.split("-")[0]
d = f"/verif/seeded/{sid}"
wt = f"/var/tmp/osv/mut-{sid}"
subprocess.run(["git", "-C", "/repo", "worktree", "remove", "--force", wt], capture_output=True)
subprocess.run(["git", "-C", "/repo", "worktree", "add", "--detach", wt, "HEAD"], check=True, capture_output=True)
ev = f"{VH}/evidence/{pid}.json"
ev_saved = open(ev).read() if os.path.exists(ev) else None     # the mutated run rewrites the evidence file: put it back afterwards
try:
    if subprocess.run(["git", "-C", wt, "apply", os.path.join(d, "patch.diff")]).returncode != 0:
        subprocess.run(["git", "-C", wt, "apply", "--3way", os.path.join(d, "patch.diff")], check=True)
    t0 = time.time()
    env = dict(os.environ, OSVERIF_REPO=wt, VERIF_SEED=os.environ.get("VERIF_SEED", "0"))
    p = subprocess.run([f"{VH}/check", pid, "--tier", tier], env=env, capture_output=True, text=True, cwd=VH)
    lines = [l for l in p.stdout.splitlines() if l.startswith("VIOLATION") or l.startswith("  (") or l.startswith("KNOWN-FINDING") or l.startswith("[")]
    res = {"tier": tier, "exit": p.returncode, "wall_s": round(time.time() - t0), "lines": lines[:12],
           "detected": p.returncode == 1 and any(l.startswith("VIOLATION") for l in lines),
           "with_input": any(l.startswith("VIOLATION") and "no-failing-input-found" not in l for l in lines)}
    if p.returncode not in (0, 1):
        res["stderr"] = p.stderr[-1500:]
finally:
    if ev_saved is not None:
        open(ev, "w").write(ev_saved)
    subprocess.run(["git", "-C", "/repo", "worktree", "remove", "--force", wt], capture_output=True)
    shutil.rmtree(wt, ignore_errors=True)
mp = os.path.join(d, "meta.json")
meta = json.load(open(mp)) if os.path.exists(mp) else {}
meta.setdefault("check_result", {})[tier] = res
json.dump(meta, open(mp, "w"), indent=1)
print(sid, "DETECTED" if res["detected"] else "MISSED", json.dumps(res)[:1500])
# restore the evidence file for the unchanged tree is the caller's business (re-run ./check pid)
