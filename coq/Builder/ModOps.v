(* Model A of C18, imperative module programs: a heap of onnxscript.nn objects (Module / ModuleList / Sequential with
   their `_name`, ordered `_parameters` and `_modules` dicts; Parameter objects with their `name` field) and the
   operations the classes offer, executed in any order on any objects:
     ONew        Module(name) / ModuleList() / Sequential()           (nn/_module.py __init__)
     ONewParam   Parameter(name=...)
     OSetParam   m.<key> = p        Module.__setattr__, Parameter branch (re-assignment replaces the dict entry in place)
     OSetChild   m.<key> = c        Module.__setattr__, Module branch (only an unnamed child is renamed; re-assignment,
                                    a child under two names, a child moved from another parent are all this operation)
     OAppend     l.append(c)        ModuleList.append / extend = repeated append; _register_child of the CURRENT tree
     OSlice      l[lo:hi]           ModuleList.__getitem__(slice) (also on a Sequential: the result is a ModuleList)
     ORename     m._set_name(n)     virtual: ModuleList prefixes its children, Sequential resets them to bare keys
     ODelAttr    del m.<key>        object.__delattr__: Module defines no __delattr__, the dicts keep the entry (no-op)
   ModuleList.insert / __setitem__ / __delitem__ / pop, register_parameter / register_module / add_module do NOT
   exist in onnxscript.nn (the harness asserts their absence on every run).
   `mo_direct`: forward() of this module calls the children of a Sequential child DIRECTLY (seq[i](op, x), iteration,
   a forward-time slice of a Sequential) instead of calling the Sequential.
   The object graph reachable from a root is unfolded into an `mtree` of OV.Builder.Modules (`to_tree`), on which
   state_dict keys and realised initializer names are defined there.  No proofs in this file. *)
From Coq Require Import String List Bool Arith.
Require Import OV.Builder.Strings OV.Builder.Modules.
Import ListNotations.
Local Open Scope string_scope.

Record mobj := MO { mo_kind : kind; mo_name : option string; mo_ps : list (string * nat);
                    mo_cs : list (string * nat); mo_direct : bool }.
Record mheap := MH { h_objs : list mobj; h_pnames : list (option string) }.

Inductive mop :=
| ONew (k : kind) (nm : option string) (direct : bool)
| ONewParam (nm : option string)
| OSetParam (m : nat) (key : string) (p : nat)
| OSetChild (m : nat) (key : string) (c : nat)
| OAppend (l c : nat)
| OSlice (l lo hi : nat)
| ORename (m : nat) (n : string)
| ODelAttr (m : nat) (key : string).

Fixpoint upd {A} (l : list A) (i : nat) (x : A) : list A :=
  match l, i with
  | [], _ => []
  | _ :: t, O => x :: t
  | y :: t, S j => y :: upd t j x
  end.

(* dict[key] = v : an existing key keeps its position *)
Fixpoint dict_set {A} (l : list (string * A)) (key : string) (v : A) : list (string * A) :=
  match l with
  | [] => [(key, v)]
  | (k, x) :: t => if String.eqb k key then (k, v) :: t else (k, x) :: dict_set t key v
  end.

Definition with_name (o : mobj) (n : string) : mobj := MO (mo_kind o) (Some n) (mo_ps o) (mo_cs o) (mo_direct o).
Definition with_cs (o : mobj) (cs : list (string * nat)) : mobj := MO (mo_kind o) (mo_name o) (mo_ps o) cs (mo_direct o).
Definition with_ps (o : mobj) (ps : list (string * nat)) : mobj := MO (mo_kind o) (mo_name o) ps (mo_cs o) (mo_direct o).

(* module._set_name(n), virtual; None = recursion deeper than the fuel (a cyclic object graph) or a dangling id *)
Fixpoint hset_name (fuel : nat) (h : list mobj) (id : nat) (n : string) {struct fuel} : option (list mobj) :=
  match fuel with
  | O => None
  | S f =>
    match nth_error h id with
    | None => None
    | Some o =>
      let h1 := upd h id (with_name o n) in
      match mo_kind o with
      | KMod => Some h1
      | k =>
        (fix go (l : list (string * nat)) (h : list mobj) : option (list mobj) :=
           match l with
           | [] => Some h
           | (key, c) :: r =>
             match hset_name f h c (match k with KList => dot n key | _ => key end) with
             | Some h' => go r h'
             | None => None
             end
           end) (mo_cs o) h1
      end
    end
  end.

Definition fuel_of (h : list mobj) : nat := S (List.length h).

(* container._register_child(key, c) on container object l (current tree: an attached ModuleList renames every
   child, an unattached one only an unnamed child, a Sequential always) followed by _modules[key] = c *)
Definition register_child (h : list mobj) (l : nat) (key : string) (c : nat) : option (list mobj) :=
  match nth_error h l, nth_error h c with
  | Some lo, Some co =>
    let named :=
      match mo_kind lo with
      | KSeq => hset_name (fuel_of h) h c key
      | _ => match mo_name lo, mo_name co with
             | Some p, _ => hset_name (fuel_of h) h c (dot p key)
             | None, None => hset_name (fuel_of h) h c key
             | None, Some _ => Some h
             end
      end in
    match named with
    | Some h' => match nth_error h' l with
                 | Some lo' => Some (upd h' l (with_cs lo' (dict_set (mo_cs lo') key c)))
                 | None => None
                 end
    | None => None
    end
  | _, _ => None
  end.

Definition is_container (k : kind) : bool := match k with KMod => false | _ => true end.

(* one operation; None = the real code raises (or the program refers to an object that does not exist) *)
Definition step (hp : mheap) (o : mop) : option mheap :=
  let h := h_objs hp in
  let pn := h_pnames hp in
  match o with
  | ONew k nm direct => Some (MH (h ++ [MO k (match k with KMod => nm | _ => None end) [] [] direct])%list pn)
  | ONewParam nm => Some (MH h (pn ++ [nm])%list)
  | OSetParam m key p =>
    match nth_error h m, nth_error pn p with
    | Some mo, Some nm =>
      Some (MH (upd h m (with_ps mo (dict_set (mo_ps mo) key p)))
               (match nm with None => upd pn p (Some key) | Some _ => pn end))
    | _, _ => None
    end
  | OSetChild m key c =>
    match nth_error h m, nth_error h c with
    | Some _, Some co =>
      let named := match mo_name co with None => hset_name (fuel_of h) h c key | Some _ => Some h end in
      match named with
      | Some h' => match nth_error h' m with
                   | Some mo' => Some (MH (upd h' m (with_cs mo' (dict_set (mo_cs mo') key c))) pn)
                   | None => None
                   end
      | None => None
      end
    | _, _ => None
    end
  | OAppend l c =>
    match nth_error h l with
    | Some lo => if is_container (mo_kind lo)
                 then option_map (fun h' => MH h' pn) (register_child h l (dec (List.length (mo_cs lo))) c)
                 else None
    | None => None
    end
  | OSlice l lo hi =>
    match nth_error h l with
    | Some lobj =>
      if is_container (mo_kind lobj) then
        let new := List.length h in
        (fix go (cs : list (string * nat)) (i : nat) (h : list mobj) : option mheap :=
           match cs with
           | [] => Some (MH h pn)
           | (_, c) :: r => match register_child h new (dec i) c with
                            | Some h' => go r (S i) h'
                            | None => None
                            end
           end) (slice_list lo hi (mo_cs lobj)) 0 (h ++ [MO KList None [] [] false])%list
      else None
    | None => None
    end
  | ORename m n => option_map (fun h' => MH h' pn) (hset_name (fuel_of h) h m n)
  | ODelAttr m key => match nth_error h m with Some _ => Some hp | None => None end
  end.

Fixpoint run_ops (hp : mheap) (ops : list mop) : option mheap :=
  match ops with
  | [] => Some hp
  | o :: r => match step hp o with Some hp' => run_ops hp' r | None => None end
  end.

Definition empty_heap : mheap := MH [] [].

(* the object graph reachable from `id`, as the tree the calls traverse.  pdirect: the caller's forward treats a
   Sequential as a plain list of children (it is not called: no scope is pushed for it) *)
Fixpoint to_tree (fuel : nat) (hp : mheap) (id : nat) (pdirect : bool) {struct fuel} : option mtree :=
  match fuel with
  | O => None
  | S f =>
    match nth_error (h_objs hp) id with
    | None => None
    | Some o =>
      let as_list := pdirect && kind_eqb (mo_kind o) KSeq in
      let k := if as_list then KList else mo_kind o in
      let down := match mo_kind o with
                  | KList => pdirect
                  | KSeq => if as_list then false else mo_direct o
                  | KMod => mo_direct o
                  end in
      let ps := map (fun kp => PE (fst kp) (snd kp)
                                  (match nth_error (h_pnames hp) (snd kp) with Some (Some n) => n | _ => "" end)) (mo_ps o) in
      match (fix go (l : list (string * nat)) : option (list (string * mtree)) :=
               match l with
               | [] => Some []
               | (key, c) :: r => match to_tree f hp c down, go r with
                                  | Some t, Some ts => Some ((key, t) :: ts)
                                  | _, _ => None
                                  end
               end) (mo_cs o) with
      | Some cs => Some (MT k (mo_name o) ps cs false)
      | None => None
      end
    end
  end.

(* decidable versions of ModulesProofs.named / shape_ok: every module below t carries the name its registration
   path gives it (relative to the nearest module that is really called) *)
Fixpoint namedb (acc : string) (t : mtree) {struct t} : bool :=
  let 'MT k nm _ cs _ := t in
  (match nm with Some n => String.eqb n acc | None => false end) &&
  (fix go (l : list (string * mtree)) : bool :=
     match l with
     | [] => true
     | (key, c) :: r => namedb (match k with KList => dot acc key | _ => key end) c && go r
     end) cs.

Fixpoint shape_okb (t : mtree) {struct t} : bool :=
  let 'MT k _ _ cs _ := t in
  (fix go (l : list (string * mtree)) : bool :=
     match l with
     | [] => true
     | (key, c) :: r => (match k with KList => shape_okb c | _ => namedb key c end) && go r
     end) cs.

(* the side condition of the theorem, on the unfolded object graph: the root is called (not a bare ModuleList),
   names are propagated, dict keys are identifiers and Parameter names equal their keys, no Parameter object is
   reachable twice (no shared Parameter, no module reachable under two keys) *)
Definition heap_okb (t : mtree) : bool :=
  negb (kind_eqb (t_kind t) KList) && shape_okb t && keys_okb t && nodup_natb (param_ids t).

(* what calling the root does on the real code: error (a ModuleList / empty Sequential is called, or
   Parameter._realize meets a name already used by another Parameter object) or the initializer names *)
Definition first_events (t : mtree) : list (nat * string) := first_by_id [] (events cfg_fixed false [] [] t).
Definition call_outcome (t : mtree) : option (list string) :=
  if negb (kind_eqb (t_kind t) KList) && callable_ok t && nodup_strb (map snd (first_events t))
  then Some (realised_names cfg_fixed t) else None.

(* a case: program, root object, observed (error | initializer names), observed state_dict keys *)
Definition mcase := (list mop * nat * option (list string) * list string)%type.
Definition lstr_eqb (a b : list string) : bool :=
  (fix go (a b : list string) : bool :=
     match a, b with
     | [], [] => true
     | x :: s, y :: t => String.eqb x y && go s t
     | _, _ => false
     end) a b.
Definition mcase_tree (c : mcase) : option mtree :=
  let '(ops, root, _, _) := c in
  match run_ops empty_heap ops with
  | Some hp => to_tree (fuel_of (h_objs hp)) hp root false
  | None => None
  end.
Definition magrees (c : mcase) : bool :=
  let '(_, _, obs, sd) := c in
  match mcase_tree c with
  | Some t =>
    lstr_eqb (sd_keys t) sd &&
    match call_outcome t, obs with
    | Some a, Some b => lstr_eqb a b
    | None, None => true
    | _, _ => false
    end
  | None => false
  end.
Fixpoint mdisagreeing (i : nat) (cs : list mcase) : list nat :=
  match cs with [] => [] | c :: t => ((if magrees c then [] else [i]) ++ mdisagreeing (S i) t)%list end.
Definition mcase_ok (c : mcase) : bool :=
  match mcase_tree c with Some t => heap_okb t | None => false end.

(* ---------------------------------------------------------------- witnesses outside the side condition *)
(* root = Box("root"); root.seq = Sequential(Leaf(), Leaf()); forward: root.seq[0](op, x); root.seq[1](op, x) *)
Definition w_seq_direct : list mop :=
  [ONew KMod (Some "root") true; ONew KSeq None false; ONew KMod None false; ONew KMod None false;
   ONewParam None; ONewParam None; OSetParam 2 "w" 0; OSetParam 3 "w" 1;
   OAppend 1 2; OAppend 1 3; OSetChild 0 "seq" 1].
(* leaf = Leaf(); tmp = Box(); tmp.c = leaf; root = Box("root"); root.d = leaf     (tmp is dropped) *)
Definition w_reattached : list mop :=
  [ONew KMod (Some "root") false; ONew KMod None false; ONew KMod None false; ONewParam None; OSetParam 2 "w" 0;
   OSetChild 1 "c" 2; OSetChild 0 "d" 2].
