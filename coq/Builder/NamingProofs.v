(* Proofs about Model B: default value / node names determine the node counter they were made from,
   hence names allocated at different counters (one graph: the counter only grows) are distinct. *)
From Coq Require Import String Ascii List Bool Arith Lia FinFun.
Require Import OV.Builder.Strings OV.Builder.StringsProofs OV.Builder.Naming.
Import ListNotations.
Local Open Scope string_scope.

Lemma split_last_none : forall c s, has_char c s = false -> split_last c s = None.
Proof.
  induction s as [|a t IH]; simpl; intro H; auto.
  apply orb_false_iff in H as [H1 H2]. rewrite (IH H2).
  rewrite Ascii.eqb_sym. now rewrite H1.
Qed.

Lemma split_last_app : forall c A B, has_char c B = false ->
  split_last c (A ++ String c B) = Some (A, B).
Proof.
  induction A as [|a A IH]; simpl; intros B H.
  - rewrite (split_last_none c B H). now rewrite Ascii.eqb_refl.
  - now rewrite (IH B H).
Qed.

Lemma split_at_last_inj : forall c A1 B1 A2 B2,
  has_char c B1 = false -> has_char c B2 = false ->
  A1 ++ String c B1 = A2 ++ String c B2 -> A1 = A2 /\ B1 = B2.
Proof.
  intros c A1 B1 A2 B2 H1 H2 E.
  pose proof (split_last_app c A1 B1 H1) as S1. rewrite E, (split_last_app c A2 B2 H2) in S1.
  inversion S1; auto.
Qed.

Lemma last_char_app : forall X Y, Y <> "" -> last_char (X ++ Y) = last_char Y.
Proof.
  induction X as [|a X IH]; simpl; intros Y H; auto.
  destruct (X ++ Y) eqn:E.
  - destruct X; simpl in E; [congruence | discriminate].
  - rewrite <- E. now apply IH.
Qed.

Lemma last_char_all : forall p Y, Y <> "" -> all_chars p Y = true ->
  exists c, last_char Y = Some c /\ p c = true.
Proof.
  induction Y as [|a Y IH]; intros H Hp; [congruence|].
  simpl in Hp. apply andb_true_iff in Hp as [Ha Hp].
  destruct Y as [|b Y'].
  - exists a. auto.
  - destruct IH as [c [Hc Hpc]]; auto; [discriminate|]. exists c. split; auto.
Qed.

Lemma letter_not_digit : forall c, is_letter c = true -> is_digit c = false.
Proof.
  intros c H. unfold is_letter, is_digit in *. destruct (Nat.leb (nat_of_ascii c) 57) eqn:E; [|now rewrite andb_false_r].
  apply Nat.leb_le in E.
  apply orb_true_iff in H as [H|H]; apply andb_true_iff in H as [H1 _]; apply Nat.leb_le in H1; lia.
Qed.

Lemma dec_no_underscore : forall n, has_char "_"%char (dec n) = false.
Proof. intro n. apply (all_chars_not is_digit); [apply dec_digits | reflexivity]. Qed.

Lemma dec_neq_empty : forall n, dec n <> "".
Proof. intros n E. pose proof (dec_nonempty n) as H. rewrite E in H. discriminate. Qed.

Lemma plain_op_nonempty : forall op, plain_op op = true -> String.eqb op "" = false /\ op <> "" /\ all_chars is_letter op = true.
Proof.
  unfold plain_op, nonempty. intros op H. apply andb_true_iff in H as [H1 H2]. apply negb_true_iff in H1.
  repeat split; auto. intro E; subst; discriminate.
Qed.

(* the two shapes of a default value name, written as  head ++ "_" ++ decimal *)
Definition vname1 (st : list string) (op : string) (c : nat) : string := qualify_value st (base_name op c).
Definition vnameN (st : list string) (op : string) (c i : nat) : string :=
  qualify_value st (base_name op c ++ "_" ++ dec i).
Definition vhead (st : list string) (op : string) : string := "v_" ++ scope_prefix "." st ++ op.

Lemma vname1_eq : forall st op c, plain_op op = true -> vname1 st op c = vhead st op ++ String "_" (dec c).
Proof.
  intros st op c H. destruct (plain_op_nonempty op H) as (E & _ & _).
  unfold vname1, qualify_value, base_name, vhead. rewrite E. simpl. now rewrite !app_assoc_str.
Qed.

Lemma vnameN_eq : forall st op c i, plain_op op = true ->
  vnameN st op c i = (vhead st op ++ String "_" (dec c)) ++ String "_" (dec i).
Proof.
  intros st op c i H. destruct (plain_op_nonempty op H) as (E & _ & _).
  unfold vnameN, qualify_value, base_name, vhead. rewrite E. simpl. now rewrite !app_assoc_str.
Qed.

Lemma value_names_eq : forall st op c n,
  value_names st op c n =
  match n with 1 => [vname1 st op c] | _ => map (vnameN st op c) (seq 0 n) end.
Proof. intros. unfold value_names, vname1, vnameN. destruct n as [|[|n]]; reflexivity. Qed.

Theorem vname1_inj : forall st1 op1 c1 st2 op2 c2, plain_op op1 = true -> plain_op op2 = true ->
  vname1 st1 op1 c1 = vname1 st2 op2 c2 -> c1 = c2.
Proof.
  intros st1 op1 c1 st2 op2 c2 H1 H2 E. rewrite !vname1_eq in E by auto.
  apply split_at_last_inj in E as [_ E]; auto using dec_no_underscore. now apply dec_inj.
Qed.

Theorem vnameN_inj : forall st1 op1 c1 i1 st2 op2 c2 i2, plain_op op1 = true -> plain_op op2 = true ->
  vnameN st1 op1 c1 i1 = vnameN st2 op2 c2 i2 -> c1 = c2 /\ i1 = i2.
Proof.
  intros st1 op1 c1 i1 st2 op2 c2 i2 H1 H2 E. rewrite !vnameN_eq in E by auto.
  apply split_at_last_inj in E as [E Ei]; auto using dec_no_underscore.
  apply split_at_last_inj in E as [_ Ec]; auto using dec_no_underscore.
  split; now apply dec_inj.
Qed.

Theorem vname1_vnameN_neq : forall st1 op1 c1 st2 op2 c2 i2, plain_op op1 = true -> plain_op op2 = true ->
  vname1 st1 op1 c1 <> vnameN st2 op2 c2 i2.
Proof.
  intros st1 op1 c1 st2 op2 c2 i2 H1 H2 E. rewrite vname1_eq, vnameN_eq in E by auto.
  apply split_at_last_inj in E as [E _]; auto using dec_no_underscore.
  (* left: ends with the last letter of op1; right: ends with a digit *)
  destruct (plain_op_nonempty op1 H1) as (_ & Hne & Hl).
  assert (L : exists c, last_char (vhead st1 op1) = Some c /\ is_letter c = true).
  { unfold vhead. rewrite <- !app_assoc_str. rewrite last_char_app by auto. now apply last_char_all. }
  assert (R : exists c, last_char (vhead st2 op2 ++ String "_" (dec c2)) = Some c /\ is_digit c = true).
  { change (String "_" (dec c2)) with ("_" ++ dec c2). rewrite <- app_assoc_str.
    rewrite last_char_app by apply dec_neq_empty. apply last_char_all; [apply dec_neq_empty | apply dec_digits]. }
  destruct L as [a [La Ha]]. destruct R as [b [Rb Hb]]. rewrite E in La. rewrite La in Rb. inversion Rb; subst.
  rewrite (letter_not_digit _ Ha) in Hb. discriminate.
Qed.

(* node names: <scope>/<op>_node_<count> *)
Theorem node_name_inj : forall st1 op1 c1 st2 op2 c2,
  node_name st1 op1 c1 = node_name st2 op2 c2 -> c1 = c2.
Proof.
  intros st1 op1 c1 st2 op2 c2 E. unfold node_name, qualify_node in E.
  assert (F : forall st op c, scope_prefix "/" st ++ op ++ "_node_" ++ dec c =
                              (scope_prefix "/" st ++ op ++ "_node") ++ String "_" (dec c)).
  { intros. now rewrite !app_assoc_str. }
  rewrite !F in E. apply split_at_last_inj in E as [_ E]; auto using dec_no_underscore. now apply dec_inj.
Qed.

(* ---------------------------------------------------------------- allocations in one graph *)
(* one call with default output naming: scope, op type, node counter at the call, number of outputs *)
Record alloc := Alloc { a_st : list string; a_op : string; a_count : nat; a_n : nat }.
Definition alloc_names (a : alloc) : list string := value_names (a_st a) (a_op a) (a_count a) (a_n a).

Lemma value_names_shape : forall st op c n x, In x (value_names st op c n) ->
  x = vname1 st op c \/ exists i, x = vnameN st op c i.
Proof.
  intros st op c n x H. rewrite value_names_eq in H. destruct n as [|[|n]].
  - destruct H.
  - destruct H as [H|[]]. now left.
  - right. apply in_map_iff in H as [i [H _]]. now exists i.
Qed.

Lemma alloc_names_count : forall a b x, plain_op (a_op a) = true -> plain_op (a_op b) = true ->
  In x (alloc_names a) -> In x (alloc_names b) -> a_count a = a_count b.
Proof.
  intros [st1 op1 c1 n1] [st2 op2 c2 n2] x H1 H2 Ha Hb. unfold alloc_names in *. cbn [a_st a_op a_count a_n] in *.
  apply value_names_shape in Ha. apply value_names_shape in Hb.
  destruct Ha as [Ha|[i Ha]], Hb as [Hb|[j Hb]].
  - apply (vname1_inj st1 op1 c1 st2 op2 c2 H1 H2). congruence.
  - exfalso. apply (vname1_vnameN_neq st1 op1 c1 st2 op2 c2 j H1 H2). congruence.
  - exfalso. apply (vname1_vnameN_neq st2 op2 c2 st1 op1 c1 i H2 H1). congruence.
  - assert (E : vnameN st1 op1 c1 i = vnameN st2 op2 c2 j) by congruence.
    now destruct (vnameN_inj _ _ _ _ _ _ _ _ H1 H2 E).
Qed.

Lemma alloc_names_nodup : forall a, plain_op (a_op a) = true -> NoDup (alloc_names a).
Proof.
  intros [st op c n] H. unfold alloc_names. cbn. rewrite value_names_eq.
  destruct n as [|[|n]].
  - constructor.
  - constructor; [intros []|constructor].
  - apply FinFun.Injective_map_NoDup; [|apply seq_NoDup].
    intros i j E. now destruct (vnameN_inj _ _ _ _ _ _ _ _ H H E).
Qed.

(* names_unique_one_graph: allocations made at pairwise different node counters (in one graph the
   counter is the number of nodes so far, which only grows) never produce the same name, whatever the
   scopes are *)
Theorem names_unique_allocs : forall l,
  Forall (fun a => plain_op (a_op a) = true) l -> NoDup (map a_count l) ->
  NoDup (flat_map alloc_names l).
Proof.
  induction l as [|a r IH]; simpl; intros Hp Hn; [constructor|].
  inversion Hp; subst. inversion Hn; subst.
  apply NoDup_app'.
  - now apply alloc_names_nodup.
  - now apply IH.
  - intros x Hx Hy. apply in_flat_map in Hy as [b [Hb Hxb]].
    rewrite Forall_forall in H2. specialize (H2 b Hb).
    pose proof (alloc_names_count a b x H1 H2 Hx Hxb) as E.
    apply H3. rewrite E. now apply in_map.
Qed.
