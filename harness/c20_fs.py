"""Fault injector for C20: wraps the file-system calls made under one directory inside this process.

Instrumented calls ("steps", numbered from 0 in the order they happen):
    open(path, ...)            for a path under the watched directory (read and write modes)
    file.write / file.flush / file.close  on files opened for writing there (through a proxy object; the proxy
                               hides fileno(), so onnx_ir writes tensors with file.write(tensor.tobytes())
                               instead of numpy's array.tofile(fd))
    os.replace / os.rename / os.remove / os.unlink / os.makedirs / os.mkdir  touching the directory
The k-th step raises OSError(EIO) *instead of* being performed (close: the real close is performed first so
that what was written before stays visible, then the error is raised).
"""
from __future__ import annotations

import builtins
import errno
import os


class FaultFS:
    def __init__(self, root, fail_at=None):
        self.root = os.path.realpath(root)
        self.fail_at = fail_at
        self.log = []            # (kind, basename, extra)
        self.fired = False
        self._saved = {}

    # ---- bookkeeping
    def _mine(self, path):
        try:
            p = os.path.realpath(os.fspath(path))
        except TypeError:
            return False
        return p == self.root or p.startswith(self.root + os.sep)

    def _step(self, kind, path, extra=None, before_raise=None):
        idx = len(self.log)
        self.log.append((kind, os.path.basename(os.fspath(path)), extra))
        if self.fail_at is not None and idx == self.fail_at:
            self.fired = True
            if before_raise is not None:
                before_raise()
            raise OSError(errno.EIO, f"injected fault at file-system step {idx} ({kind})")

    # ---- patched callables
    def _open(self, file, mode="r", *a, **k):
        if isinstance(file, (str, bytes, os.PathLike)) and self._mine(file):
            self._step("openw" if any(c in mode for c in "wax+") else "openr", file, mode)
            f = self._saved["open"](file, mode, *a, **k)
            if any(c in mode for c in "wax+"):
                return _Proxy(self, f, file)
            return f
        return self._saved["open"](file, mode, *a, **k)

    def _wrap_os(self, name):
        real = getattr(os, name)

        def w(*a, **k):
            if any(isinstance(x, (str, bytes, os.PathLike)) and self._mine(x) for x in a[:2]):
                self._step("os." + name, a[0])
            return real(*a, **k)
        return real, w

    def __enter__(self):
        self._saved["open"] = builtins.open
        builtins.open = self._open
        for name in ("replace", "rename", "remove", "unlink", "makedirs", "mkdir"):
            real, w = self._wrap_os(name)
            self._saved["os." + name] = real
            setattr(os, name, w)
        return self

    def __exit__(self, *exc):
        builtins.open = self._saved["open"]
        for name in ("replace", "rename", "remove", "unlink", "makedirs", "mkdir"):
            setattr(os, name, self._saved["os." + name])
        return False


class _Proxy:
    """File opened for writing; every write/flush/close is a step.  No fileno()."""

    def __init__(self, fsx, f, path):
        self._x = fsx
        self._f = f
        self._p = path
        self._closed = False

    def write(self, b):
        self._x._step("write", self._p, len(b))
        return self._f.write(b)

    def flush(self):
        self._x._step("flush", self._p)
        return self._f.flush()

    def close(self):
        if self._closed:
            return None
        self._closed = True
        self._x._step("close", self._p, before_raise=self._f.close)
        return self._f.close()

    def tell(self):
        return self._f.tell()

    def seek(self, *a):
        return self._f.seek(*a)

    def writable(self):
        return True

    @property
    def name(self):
        return self._f.name

    @property
    def closed(self):
        return self._closed

    def __enter__(self):
        return self

    def __exit__(self, *exc):
        try:
            self.close()
        finally:
            if not self._f.closed:
                self._f.close()
        return False

    def __del__(self):
        try:
            if not self._f.closed:
                self._f.close()
        except Exception:
            pass
