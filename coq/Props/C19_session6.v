(* C19 property theorems, session 6: statements only, each closed by `exact`, Print Assumptions beneath.
   (1) GroupQueryAttention with query / key normalisation (gqa.py): which normalisation the rewrite re-applies, for the full
       product of placements {none, before the Transpose, after it, both} x {same for the key}; a row-wise normalisation
       commutes with the head-splitting Transpose, so the operand the rewrite emits has the heads the pattern attends over;
       the "one placement for both operands" rewrite (seeded change C19-6) is refuted on the mixed pairs, in the choice and
       in the values.
   (2) Attention, packed MatMul + Slice variant (attention.py): see part 2 below.
   WHAT THESE THEOREMS DO NOT SAY ABOUT float16 / float32.  Every identity below and in C19.v / C19_attention.v / C19_round2.v
   is an equation between two expressions over an arbitrary carrier (an arbitrary type for the index algebra, an arbitrary
   field for the arithmetic ones).  IEEE half / single precision with round-to-nearest is NOT a field: addition and
   multiplication are not associative, (a*b)*c and a*(b*c) differ by rounding, x/sqrt(v+eps)*g and g*(x/sqrt(v+eps)) agree but
   x*(1/sqrt(..)) does not in general, a sum over Dh elements depends on the accumulation order and on the accumulator type
   (onnxruntime's fused kernels accumulate float16 data in float32, the unfused float16 graph rounds after every node).
   So for float16 (and float32) the field identities prove only that the two sides are the SAME REAL-VALUED FUNCTION of the
   inputs, i.e. that any difference between the model before and after a fusion is rounding error and not a different
   formula; they give no bound on that rounding error, say nothing about overflow (float16 saturates at 65504: a sum of
   squares of values > 255 overflows in the unfused float16 graph and not in the fused kernel), NaN / inf propagation or
   denormals.  The index-algebra theorems (head splitting, kv-head repetition, Slice partitions, normalisation / Transpose
   commutation: parts 1 and 2 here) move elements without arithmetic and therefore hold bit for bit at every dtype.
   The size of the rounding difference is what the direct oracle measures, per dtype (float16: rtol 1e-2, atol 1e-3 x output
   magnitude = one float16 ulp at 1.0), with inputs of magnitude ~1 so that the tolerance is ~10 ulp of the outputs and a
   wrong epsilon / scale / bias / rotation (which moves the output by >> 1e-2 relative) is visible: see the evidence keys
   float16_fired_per_family, float16_near_miss_per_family, float16_discrimination. *)
From Coq Require Import List ZArith Bool Arith.
Require Import OV.Fusion.Field OV.Fusion.Norm OV.Fusion.Attn OV.Fusion.AttnProofs OV.Fusion.GqaNorm OV.Fusion.GqaNormProofs.
Import ListNotations.

(* ---- 1. GroupQueryAttention: q-norm / k-norm ----------------------------------------------------------------------- *)
(* the choice, for the FULL PRODUCT of placements: the rule fires iff neither operand is normalised twice, and then re-applies
   to each operand exactly the node matched on that operand (None = no normalisation emitted).  [N] is the type of a matched
   node: the harness instantiates it with (scale operand, epsilon bits, axis, stash_type) read off the real graphs and
   compares gqa_rewrite_norms with what the real rewrite emitted, on the whole product, every run (stream gqan). *)
Theorem C19_gqa_rewrite_norms_exact : forall (N : Type) plq plk (qb qa kb ka : N),
  gqa_rewrite_norms N (bind_norm N plq qb qa) (bind_norm N plk kb ka)
  = if placement_eqb plq PBoth || placement_eqb plk PBoth then None
    else Some (source_norm N plq qb qa, source_norm N plk kb ka).
Proof. exact gqa_rewrite_norms_exact. Qed.
Print Assumptions C19_gqa_rewrite_norms_exact.

(* values: normalising the last axis after Transpose(0,2,1,3) or before it gives the same head matrices -- every B, S,
   N (num_heads for the query, kv_num_heads for the key), Dh and every row function f (SimplifiedLayerNormalization with its
   scale and epsilon, or anything else acting on one row).  No arithmetic: holds at every dtype bit for bit. *)
Theorem C19_norm_commutes_with_head_split : forall (A : Type) (d0 : A) f B S N Dh x b h, b < B -> h < N ->
  mat_at A d0 N S Dh (rowwise A d0 f (B * N * S) Dh (transpose0213 A d0 B S N Dh (reshape A x))) b h
  = mat_at A d0 N S Dh (transpose0213 A d0 B S N Dh (rowwise A d0 f (B * S * N) Dh (reshape A x))) b h.
Proof. exact norm_commutes_with_head_split. Qed.
Print Assumptions C19_norm_commutes_with_head_split.

(* for every single placement: head (b,h) of the [B,N,S,Dh] operand the pattern hands to RotaryEmbedding / attention
   = head (b,h) GroupQueryAttention reads from the [B,S,N*Dh] operand the rewrite emits (through the rewrite's own choice) *)
Theorem C19_gqa_norm_operand_heads : forall (A : Type) (d0 : A) pl fb fa B S N Dh x b h, b < B -> h < N -> pl <> PBoth ->
  mat_at A d0 N S Dh (operand4 A d0 pl fb fa B S N Dh x) b h
  = head_packed A d0 S N Dh (emitted3 A d0 (pick_norm _ (bind_norm _ pl fb fa)) B S N Dh x) b h.
Proof. exact gqa_norm_operand_heads. Qed.
Print Assumptions C19_gqa_norm_operand_heads.

(* and what that head is: the packed operand's head, each row normalised by the SOURCE model's function for that operand *)
Theorem C19_gqa_operand4_heads : forall (A : Type) (d0 : A) pl fb fa B S N Dh x b h, b < B -> h < N -> pl <> PBoth ->
  mat_at A d0 N S Dh (operand4 A d0 pl fb fa B S N Dh x) b h
  = match source_norm _ pl fb fa with
    | None => head_packed A d0 S N Dh x b h
    | Some f => maprows A d0 f Dh (head_packed A d0 S N Dh x b h)
    end.
Proof. exact operand4_heads. Qed.
Print Assumptions C19_gqa_operand4_heads.

(* the whole rule on the query side (kv heads repeated, arbitrary per-head attention and mask): NOT covered -- the rotary
   embedding between the normalisation and the attention (own theorems C19_rotary_*; on both sides it is a function of the
   same head rows and positions) and the key side's Concat with the past (C19_concat_seq_mat) are not composed here *)
Theorem C19_gqa_qnorm_fusion : forall (A : Type) (d0 : A)
  (attn : list (list A) -> list (list A) -> list (list A) -> option (list (list A)) -> list (list A))
  pl fb fa B S T Hkv G Dh q kseq vseq mask, 0 < Hkv -> 0 < G -> pl <> PBoth ->
  gqa_pattern4 A d0 attn B S T Hkv G Dh (operand4 A d0 pl fb fa B S (Hkv * G) Dh q) kseq vseq mask
  = gqa_spec A d0 attn B S T (Hkv * G) Hkv Dh (emitted3 A d0 (pick_norm _ (bind_norm _ pl fb fa)) B S (Hkv * G) Dh q) kseq vseq mask.
Proof. exact gqa_qnorm_fusion. Qed.
Print Assumptions C19_gqa_qnorm_fusion.
Example C19_gqa_norm_operand_computes :
  mat_at nat 0 2 1 2 (operand4 nat 0 PAfter (map S) (map (fun v => v * 10)) 1 1 2 2 [1; 2; 3; 4]) 0 1 = [[30; 40]]
  /\ head_packed nat 0 1 2 2 (emitted3 nat 0 (pick_norm _ (bind_norm _ PAfter (map S) (map (fun v => v * 10)))) 1 1 2 2 [1; 2; 3; 4]) 0 1 = [[30; 40]].
Proof. exact gqa_norm_operand_computes. Qed.

(* one placement chosen for BOTH operands (after-Transpose pair if either is bound, else the before-Transpose pair): equal to
   the rule's choice exactly off the mixed pairs ... *)
Theorem C19_gqa_joint_choice_iff : forall (N : Type) plq plk (qb qa kb ka : N), plq <> PBoth -> plk <> PBoth ->
  (gqa_rewrite_norms_joint N (bind_norm N plq qb qa) (bind_norm N plk kb ka)
   = gqa_rewrite_norms N (bind_norm N plq qb qa) (bind_norm N plk kb ka))
  <-> ~ ((plq = PBefore /\ plk = PAfter) \/ (plq = PAfter /\ plk = PBefore)).
Proof. exact gqa_joint_choice_iff. Qed.
Print Assumptions C19_gqa_joint_choice_iff.
(* ... where it drops the before-Transpose normalisation: the key's in the choice, and in the values (the emitted key operand's
   head is the un-normalised one) *)
Theorem C19_gqa_joint_choice_refuted : exists plq plk (nq nk : nat),
  plq <> PBoth /\ plk <> PBoth /\
  gqa_rewrite_norms_joint nat (bind_norm nat plq nq nq) (bind_norm nat plk nk nk) = Some (Some nq, None) /\
  gqa_rewrite_norms nat (bind_norm nat plq nq nq) (bind_norm nat plk nk nk) = Some (Some nq, Some nk).
Proof. exact gqa_joint_choice_refuted. Qed.
Print Assumptions C19_gqa_joint_choice_refuted.
Theorem C19_gqa_joint_choice_values_refuted : exists (f : list nat -> list nat) x,
  let mk := bind_norm _ PBefore f f in let mq := bind_norm _ PAfter f f in
  match gqa_rewrite_norms_joint _ mq mk with
  | Some (_, ck) => mat_at nat 0 1 1 1 (operand4 nat 0 PBefore f f 1 1 1 1 x) 0 0 <> head_packed nat 0 1 1 1 (emitted3 nat 0 ck 1 1 1 1 x) 0 0
  | None => False
  end.
Proof. exact gqa_joint_choice_values_refuted. Qed.
Print Assumptions C19_gqa_joint_choice_values_refuted.

(* ---- 2. Attention: the packed MatMul + Slice rules (attention.py, no_slice = False) ------------------------------------- *)
Require Import OV.Fusion.Attention OV.Fusion.AttentionProofs OV.Fusion.AttSlice OV.Fusion.AttSliceProofs.

(* THE IDENTITY with the three Slices as the pattern has them (arbitrary integer bounds, ONNX Slice semantics: negative = from
   the end, clamped): com.microsoft.Attention(input, qkv_weight, bias; qkv_hidden_sizes = widths of the slices) =
   MultiHeadAttention(Slice1, Slice2, Slice3 of MatMul(input, qkv_weight), bias), for every token rows (every B, S, D), weight,
   bias, [core] (every num_heads, mask, scale, softmax; own theorems C19_mha_split_merge ...), [dot], [add] -- under exactly
   what check tests on constant bounds: start1 = 0, end1 = start2, end2 = start3, end3 >= hidden, widths add up to hidden.
   NOT covered: the contrib kernel itself (measured), rounding. *)
Theorem C19_attention_slices_identity : forall (A : Type) (dot : list A -> list A -> A) (add : A -> A -> A) (Out : Type)
  (core : list (list A) -> list (list A) -> list (list A) -> Out) rows W bias s1 e1 s2 e2 s3 e3,
  let n := Z.of_nat (length W) in
  length bias = length W -> slices_tile n s1 e1 s2 e2 s3 e3 = true ->
  att_fused A dot add Out core rows W bias
            (Z.to_nat (slice_width n s1 e1)) (Z.to_nat (slice_width n s2 e2)) (Z.to_nat (slice_width n s3 e3))
  = att_pattern_slices A dot add Out core rows W bias s1 e1 s2 e2 s3 e3.
Proof. exact attention_slices_identity. Qed.
Print Assumptions C19_attention_slices_identity.
Example C19_attention_slices_negative_bounds_compute :
  slices_tile 3 0 (-2) (-2) (-1) (-1) 9223372036854775807 = true
  /\ att_pattern_slices nat (fun r c => fold_right plus 0 (map2 mult r c)) plus _ (fun q k v => q ++ k ++ v)
       [[1; 2]; [3; 4]] [[1; 0]; [0; 1]; [1; 1]] [10; 20; 30] 0 (-2) (-2) (-1) (-1) 9223372036854775807
     = [[11]; [13]; [22]; [24]; [33]; [37]].
Proof. exact attention_slices_negative_bounds_compute. Qed.

(* what the accepted bounds are: two cut points 0 <= a <= b <= hidden, each slice the block between consecutive cuts *)
Theorem C19_attention_tile_facts : forall n s1 e1 s2 e2 s3 e3, (0 <= n)%Z -> slices_tile n s1 e1 s2 e2 s3 e3 = true ->
  exists a b, (0 <= a <= b)%Z /\ (b <= n)%Z
    /\ norm_bound n s1 = 0%Z /\ norm_bound n e1 = a /\ norm_bound n s2 = a
    /\ norm_bound n e2 = b /\ norm_bound n s3 = b /\ norm_bound n e3 = n.
Proof. exact tile_facts. Qed.
Print Assumptions C19_attention_tile_facts.
Theorem C19_attention_tile_of_cuts : forall n a b, (0 <= a <= b)%Z -> (b <= n)%Z -> slices_tile n 0 a a b b n = true.
Proof. exact tile_of_cuts. Qed.
Print Assumptions C19_attention_tile_of_cuts.

(* check()-sufficiency: a match the model of check accepts, whose six bounds are CONSTANTS and whose recorded shapes are truthful
   (slice widths = ONNX Slice widths, which is what shape inference records; the weight has the recorded column count), satisfies
   slices_tile, the hypothesis of the identity, with the emitted qkv_hidden_sizes (dq, dk, dv) as the widths *)
Theorem C19_att_check_slices_sufficient : forall i dq dk dv s1 e1 s2 e2 s3 e3,
  ai_no_slice i = false -> att_check_rewrite i = Some (dq, dk, dv) ->
  ai_bounds i = [Some s1; Some e1; Some s2; Some e2; Some s3; Some e3] ->
  forall n p0 p1, ai_projected i = Some [p0; p1; n] ->
  dq = slice_width n s1 e1 -> dk = slice_width n s2 e2 -> dv = slice_width n s3 e3 ->
  ai_qkv_weight i = Some [match ai_input i with Some [_; _; d] => d | _ => 0%Z end; n] ->
  slices_tile n s1 e1 s2 e2 s3 e3 = true.
Proof. exact att_check_slices_sufficient. Qed.
Print Assumptions C19_att_check_slices_sufficient.

(* the check AS READ is weaker than that: it accepts non-constant bounds (None == None); with the slice widths declared in the
   model and run-time bounds respecting them the key window can be the query's, and the fused operator differs -- replayed on
   the real rule every run (known finding C19:attention:non-constant-slice-bounds-accepted) *)
Theorem C19_att_check_nonconstant_bounds_refuted :
  att_check_rewrite nonconst_witness = Some (1, 1, 1)%Z
  /\ att_check_rewrite_v true nonconst_witness = None
  /\ exists (rows W : list (list nat)) (bias : list nat) e1 s2 e2 s3,
       let dotn := fun r c => fold_right plus 0 (map2 mult r c) in
       let core := fun q k v : list (list nat) => q ++ k ++ v in
       slice_width 3 0 e1 = 1%Z /\ slice_width 3 s2 e2 = 1%Z /\ slice_width 3 s3 3 = 1%Z
       /\ att_fused nat dotn plus _ core rows W bias 1 1 1 <> att_pattern_slices nat dotn plus _ core rows W bias 0 e1 s2 e2 s3 3.
Proof. exact att_check_nonconstant_bounds_refuted. Qed.
Print Assumptions C19_att_check_nonconstant_bounds_refuted.
(* the proposed repair: every accepted packed match has six constant bounds (so C19_att_check_slices_sufficient applies) and is
   accepted by the check as read with the same hidden sizes *)
Theorem C19_att_check_strict_bounds_constant : forall i r, ai_no_slice i = false -> att_check_rewrite_v true i = Some r ->
  exists s1 e1 s2 e2 s3 e3, ai_bounds i = [Some s1; Some e1; Some s2; Some e2; Some s3; Some e3] /\ att_check_rewrite i = Some r.
Proof. exact att_check_strict_bounds_constant. Qed.
Print Assumptions C19_att_check_strict_bounds_constant.
(* the tests on the bounds are needed: widths that add up to hidden do not make the slices tile (near miss "start-not-0") *)
Theorem C19_slices_widths_alone_refuted : exists s1 e1 s2 e2 s3 e3,
  (slice_width 3 s1 e1 + slice_width 3 s2 e2 + slice_width 3 s3 e3 = 3)%Z /\ slices_tile 3 s1 e1 s2 e2 s3 e3 = false
  /\ let dotn := fun r c => fold_right plus 0 (map2 mult r c) in
     let core := fun q k v : list (list nat) => q ++ k ++ v in
     att_fused nat dotn plus _ core [[1; 2]] [[1; 0]; [0; 1]; [1; 1]] [10; 20; 30] 1 1 1
     <> att_pattern_slices nat dotn plus _ core [[1; 2]] [[1; 0]; [0; 1]; [1; 1]] [10; 20; 30] s1 e1 s2 e2 s3 e3.
Proof. exact slices_widths_alone_refuted. Qed.
Print Assumptions C19_slices_widths_alone_refuted.

(* ---- 1b. GroupQueryAttention: the whole rule (q/k-norm x rotary embedding x past) ----------------------------------------- *)
(* for every single placement of the q-norm and of the k-norm, every row function each, every rotation [rot] (cos / sin caches
   inside), per-head attention and mask, every B, S >= 1, past length P (P = 0: no past), Hkv >= 1, G >= 1, Dh: the attention
   output of the matched sub-graph is the documented GroupQueryAttention(num_heads = Hkv*G, kv_num_heads = Hkv, do_rotary = 1)
   on the operands the rewrite emits, and every present key / value head is the operator's -- PROVIDED the position_ids rows
   are P, P+1, ..., P+S-1.  Trusted: the transcription of the operator document (gqa_op_out / gqa_op_khead / gqa_op_vhead:
   measured against onnxruntime on every fired instance).  Not covered: the causal-mask sub-graph = the operator's causality
   is a separate theorem (C19_causal_mask_is_gqa_causality); rounding. *)
Theorem C19_gqa_rule_fusion : forall (A : Type) (d0 : A)
  (attn : list (list A) -> list (list A) -> list (list A) -> option (list (list A)) -> list (list A)) (rot : nat -> list A -> list A)
  plq plk fqb fqa fkb fka (ids : nat -> list nat) B S P Hkv G Dh q k v pk pv mask,
  0 < Hkv -> 0 < G -> 0 < S -> plq <> PBoth -> plk <> PBoth ->
  (forall b, b < B -> ids b = seq P S) ->
  let pos := fun b s => nth s (ids b) 0 in
  let sk := fun b => seqlens_k (ids b) in
  let q3 := emitted3 A d0 (pick_norm _ (bind_norm _ plq fqb fqa)) B S (Hkv * G) Dh q in
  let k3 := emitted3 A d0 (pick_norm _ (bind_norm _ plk fkb fka)) B S Hkv Dh k in
  let '(out, kseq, vseq) := gqa_rule_pattern A d0 attn rot plq plk fqb fqa fkb fka pos B S P Hkv G Dh q k v pk pv mask in
  out = gqa_op_out A d0 attn rot sk B S P (Hkv * G) Hkv Dh q3 k3 v pk pv mask
  /\ (forall b n, b < B -> n < Hkv -> mat_at A d0 Hkv (P + S) Dh kseq b n = gqa_op_khead A d0 rot sk S P Hkv Dh k3 pk b n)
  /\ (forall b n, b < B -> n < Hkv -> mat_at A d0 Hkv (P + S) Dh vseq b n = gqa_op_vhead A d0 S P Hkv Dh v pv b n).
Proof. exact gqa_rule_fusion. Qed.
Print Assumptions C19_gqa_rule_fusion.

(* the hypothesis on position_ids: the rewrite passes seqlens_k = ReduceMax(position_ids, axis 1) and the operator places new
   token s at seqlens_k + 1 - S + s; that is position_ids[s] for every s exactly when the row is consecutive.  The rule does NOT
   check it (position_ids is a free pattern variable; known finding C19:gqa:position-ids-not-consecutive, replayed every run) *)
Theorem C19_gqa_positions_iff : forall (ids : list nat) S, 0 < S -> length ids = S ->
  (forall s, s < S -> op_pos (seqlens_k ids) S s = nth s ids 0) <-> exists P, ids = seq P S.
Proof. exact gqa_positions_iff. Qed.
Print Assumptions C19_gqa_positions_iff.
Theorem C19_gqa_positions_ok_iff : forall (ids : list nat) S, 0 < S -> length ids = S ->
  positions_ok ids S = true <-> exists P, ids = seq P S.
Proof. exact positions_ok_iff. Qed.
Print Assumptions C19_gqa_positions_ok_iff.
Theorem C19_gqa_positions_refuted : exists (ids : list nat) S s, s < S /\ length ids = S /\ op_pos (seqlens_k ids) S s <> nth s ids 0.
Proof. exact gqa_positions_refuted. Qed.
Print Assumptions C19_gqa_positions_refuted.
Theorem C19_gqa_positions_match_past_iff : forall (ids : list nat) S P, 0 < S -> length ids = S ->
  positions_match_past ids S P = true <-> ids = seq P S.
Proof. exact positions_match_past_iff. Qed.
Print Assumptions C19_gqa_positions_match_past_iff.
