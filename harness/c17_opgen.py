"""C17, translation validation of the generator: run opgen/onnx_opset_builder.py (the way opgen/__main__.py
drives it, but writing into a scratch directory) against the INSTALLED onnx.defs and compare what it generates
with the checked-in onnxscript/onnx_opset/_impl/*.py, class by class and method by method, on Python asts:

  L1  the records the C17 translator extracts (harness/c17_extract.py): class set, base class, (domain, version),
      method set per class, parameter names / order / kinds / defaults, the get_schema triple, the Op name,
      the arguments of _prepare_inputs and the forwarded keywords; the exported instances of __init__.py;
  L2  the whole `def` of every method (annotations included, docstring text apart) -- counted, not judged:
      annotations are not part of the property.

A difference at L1 is reported per (class, operator) with both sides.
"""
from __future__ import annotations

import ast
import json
import os
import shutil
import subprocess
import sys

from harness import c17_extract as X

DRIVER = r"""
import json, sys
from pathlib import Path
repo, out, base, minver = sys.argv[1], sys.argv[2], sys.argv[3], int(sys.argv[4])
sys.path.insert(0, repo)
sys.path.insert(0, repo + "/opgen")
from onnx_opset_builder import OpsetsBuilder, parse_opsetid
b = OpsetsBuilder(module_base_name=base, min_default_opset_version=minver,
                  include_opsets=set(), exclude_opsets={parse_opsetid(x) for x in sys.argv[5:]})
r = b.build()
paths = r.write(Path(out))
print("RESULT " + json.dumps({
    "files": len(paths), "ops": r.all_ops_count,
    "unsupported": {k: sorted(str(e.op) for e in v) for k, v in r.unsupported_ops.items()},
    "included": sorted(map(list, r.included_opsets)), "excluded": sorted(map(list, r.excluded_opsets))}))
"""

EXCLUDE = ["ai.onnx.preview.training/1"]      # the example of opgen/__main__.py's docstring; the repository ships no class for it


def excluded_keys():
    """EXCLUDE as (domain, version) pairs, parsed like opgen's parse_opsetid."""
    out = []
    for x in EXCLUDE:
        i = x.rfind("/")
        out.append(("" if i < 0 else x[:i], int(x[i + 1:])))
    return out


def main_constants(repo):
    """module_base_names and MIN_REQUIRED_ONNX_OPSET_VERSION as opgen/__main__.py defines them (ast, fail-closed)."""
    tree = ast.parse(open(os.path.join(repo, "opgen", "__main__.py"), encoding="utf-8").read())
    base = minver = None
    for st in tree.body:
        if isinstance(st, ast.Assign) and len(st.targets) == 1 and isinstance(st.targets[0], ast.Name):
            n = st.targets[0].id
            try:
                v = ast.literal_eval(st.value)
            except Exception:
                continue
            if n == "module_base_names" and isinstance(v, list) and all(isinstance(x, str) for x in v):
                base = ".".join(v)
            if n == "MIN_REQUIRED_ONNX_OPSET_VERSION" and type(v) is int:
                minver = v
    doc = ast.get_docstring(tree) or ""
    return base, minver, doc


def run_generator(repo, out):
    base, minver, doc = main_constants(repo)
    if base is None or minver is None:
        return None, "opgen/__main__.py: module_base_names / MIN_REQUIRED_ONNX_OPSET_VERSION not found as literals"
    if not all(x in doc for x in EXCLUDE):
        return None, "opgen/__main__.py no longer documents the exclusion " + repr(EXCLUDE)
    shutil.rmtree(out, ignore_errors=True)
    os.makedirs(out)
    env = dict(os.environ, PYTHONPATH=repo, OMP_NUM_THREADS="1", PYTHONHASHSEED="0")
    p = subprocess.run([sys.executable, "-c", DRIVER, repo, out, base, str(minver)] + EXCLUDE,
                       capture_output=True, text=True, timeout=600, env=env)
    lines = [l for l in p.stdout.splitlines() if l.startswith("RESULT ")]
    if p.returncode != 0 or not lines:
        return None, "the generator failed: " + (p.stderr or p.stdout)[-1500:]
    info = json.loads(lines[-1][7:])
    info["base"], info["min_version"] = base, minver
    return info, None


def _method_defs(path):
    """{method name: ast.dump of the def without its docstring} of the single class of a generated module."""
    tree = ast.parse(open(path, encoding="utf-8").read())
    out = {}
    for c in tree.body:
        if isinstance(c, ast.ClassDef):
            for st in c.body:
                if isinstance(st, ast.FunctionDef):
                    if st.body and isinstance(st.body[0], ast.Expr) and isinstance(st.body[0].value, ast.Constant) \
                            and isinstance(st.body[0].value.value, str):
                        doc = " ".join(st.body[0].value.value.split())
                        st.body = st.body[1:]
                    else:
                        doc = None
                    out[st.name] = (ast.dump(st), doc)
    return out


FIELDS = ("params", "triple", "op_name", "prepare", "forwards")


def compare(repo, out):
    """-> (diffs, stats, gen_classes).  diffs: list of dict(cls, op, field, generator, checked_in)."""
    a, ea, erra = X.extract_classes(repo)
    b, eb, errb = X.extract_classes(out)
    diffs = []
    for f, line, why in errb:
        diffs.append(dict(cls=f, op="", field="generator-output-outside-template", generator=f"{f}:{line}: {why}", checked_in=None))
    A, B = {c["cls"]: c for c in a}, {c["cls"]: c for c in b}
    for k in sorted(set(A) - set(B)):
        diffs.append(dict(cls=k, op="", field="class-not-generated", generator=None, checked_in=A[k]["file"]))
    for k in sorted(set(B) - set(A)):
        diffs.append(dict(cls=k, op="", field="class-not-checked-in", generator=B[k]["file"], checked_in=None))
    n_methods = n_same_def = n_same_doc = 0
    ann_only = []
    for k in sorted(set(A) & set(B)):
        ca, cb = A[k], B[k]
        for f in ("base", "domain", "version"):
            if ca[f] != cb[f]:
                diffs.append(dict(cls=k, op="", field="class-" + f, generator=cb[f], checked_in=ca[f]))
        ma, mb = {m["name"]: m for m in ca["methods"]}, {m["name"]: m for m in cb["methods"]}
        for n in sorted(set(ma) - set(mb)):
            diffs.append(dict(cls=k, op=n, field="method-not-generated", generator=None, checked_in=list(ma[n]["triple"])))
        for n in sorted(set(mb) - set(ma)):
            diffs.append(dict(cls=k, op=n, field="method-not-checked-in", generator=list(mb[n]["triple"]), checked_in=None))
        da = _method_defs(os.path.join(repo, ca["file"]))
        db = _method_defs(os.path.join(out, cb["file"]))
        for n in sorted(set(ma) & set(mb)):
            n_methods += 1
            for f in FIELDS:
                if ma[n][f] != mb[n][f]:
                    diffs.append(dict(cls=k, op=n, field=f, generator=mb[n][f], checked_in=ma[n][f]))
            if n in da and n in db:
                if da[n][0] == db[n][0]:
                    n_same_def += 1
                elif all(ma[n][f] == mb[n][f] for f in FIELDS):
                    ann_only.append(f"{k}.{n}")
                if da[n][1] == db[n][1]:
                    n_same_doc += 1
    if ea != eb:
        sa, sb = {e[0]: e for e in ea}, {e[0]: e for e in eb}
        for n in sorted(set(sa) | set(sb)):
            if sa.get(n) != sb.get(n):
                diffs.append(dict(cls="__init__", op=n, field="exported-instance", generator=sb.get(n), checked_in=sa.get(n)))
    stats = dict(classes_checked_in=len(a), classes_generated=len(b), methods_compared=n_methods,
                 method_defs_ast_equal=n_same_def, method_docstrings_equal_modulo_whitespace=n_same_doc,
                 annotation_only_differences=ann_only[:10], annotation_only_difference_count=len(ann_only))
    return diffs, stats, b
