"""C08 helper: trace a torch_lib function the way tests/function_libs/torch_lib/ops_test_common.graph_executor
does (torch exporter's OpRecorder + SymbolicTensor inputs), run the traced graph on onnxruntime with every
graph optimisation disabled, and extract the *skeleton* of the traced graph (non-Constant nodes with their
integer attributes and integer constant operands).

Plain-data conventions used by the generators (JSON-able, so a replay file is self-contained):

    tensor spec   {"t": dtype_name, "shape": [..], "data": [flat python numbers]}
    everything else (ints, floats, None, str, lists of those / of tensor specs) is passed as is.
"""
from __future__ import annotations

import numpy as np

_LAZY = {}

DTYPES = ("int64", "int32", "uint8", "bool", "float32", "int8", "int16", "float64", "float16")


def mods():
    """Import torch & friends once (≈10–20 s)."""
    if _LAZY:
        return _LAZY
    import onnx
    import onnxruntime as ort
    import torch
    from torch.onnx._internal.exporter import _building, _tensors

    import onnxscript
    import onnxscript.evaluator
    from onnxscript import ir

    t2o = {
        torch.bool: ir.DataType.BOOL, torch.uint8: ir.DataType.UINT8, torch.int8: ir.DataType.INT8,
        torch.int16: ir.DataType.INT16, torch.int32: ir.DataType.INT32, torch.int64: ir.DataType.INT64,
        torch.float16: ir.DataType.FLOAT16, torch.float32: ir.DataType.FLOAT, torch.float64: ir.DataType.DOUBLE,
    }
    _LAZY.update(onnx=onnx, ort=ort, torch=torch, building=_building, tensors=_tensors, onnxscript=onnxscript,
                 ir=ir, t2o=t2o)
    return _LAZY


def is_spec(x):
    return isinstance(x, dict) and "t" in x and "shape" in x


def spec(dtype, shape, data):
    return {"t": dtype, "shape": [int(d) for d in shape], "data": list(data)}


def to_torch(x):
    """tensor spec -> torch tensor; containers mapped recursively; everything else unchanged."""
    m = mods()
    torch = m["torch"]
    if is_spec(x):
        dt = getattr(torch, x["t"])
        return torch.tensor(x["data"], dtype=dt).reshape(x["shape"])
    if isinstance(x, (list, tuple)):
        return [to_torch(y) for y in x]
    return x


def from_torch(t):
    m = mods()
    torch = m["torch"]
    if isinstance(t, torch.Tensor):
        return {"t": str(t.dtype).replace("torch.", ""), "shape": list(t.shape), "data": t.reshape(-1).tolist()}
    if isinstance(t, (list, tuple)):
        return [from_torch(y) for y in t]
    return t


def from_numpy(a):
    if isinstance(a, np.ndarray) or isinstance(a, np.generic):
        a = np.asarray(a)
        return {"t": str(a.dtype), "shape": list(a.shape), "data": a.reshape(-1).tolist()}
    if isinstance(a, (list, tuple)):
        return [from_numpy(y) for y in a]
    return a


class Traced:
    __slots__ = ("model", "feeds", "outputs")


def trace(function, args, kwargs):
    """args/kwargs already converted with to_torch.  Returns Traced (ir.Model, feeds, symbolic outputs)."""
    m = mods()
    ir, torch, onnxscript = m["ir"], m["torch"], m["onnxscript"]
    graph = ir.Graph((), (), nodes=(), opset_imports={"": 18, "pkg.torch.onnx": 1, "pkg.onnxscript.torch_lib.common": 1,
                                                       "pkg.onnxscript.torch_lib": 1}, name="main_graph")
    opset = onnxscript.opset18
    tracer = m["building"].OpRecorder(opset, {})
    feeds = {}

    def sym(name, t):
        v = m["tensors"].SymbolicTensor(opset=opset, name=name, shape=ir.Shape(t.shape), type=ir.TensorType(m["t2o"][t.dtype]))
        graph.inputs.append(v)
        feeds[name] = t.numpy()
        return v

    a2 = []
    for i, a in enumerate(args):
        if isinstance(a, torch.Tensor):
            a2.append(sym(f"input_{i}", a))
        elif isinstance(a, (list, tuple)):
            a2.append([sym(f"input_{i}_{j}", s) if isinstance(s, torch.Tensor) else s for j, s in enumerate(a)])
        else:
            a2.append(a)
    k2 = {k: (sym(k, v) if isinstance(v, torch.Tensor) else v) for k, v in kwargs.items()}
    with onnxscript.evaluator.default_as(tracer):
        outs = function(*a2, **k2)
    if not isinstance(outs, (list, tuple)):
        outs = (outs,)
    graph.outputs.extend(outs)
    graph.extend(tracer.nodes)
    model = ir.Model(graph, ir_version=10, producer_name="c08")
    for ident, f in tracer.functions.items():
        if ident in model.functions:
            continue
        model.functions[ident] = f if isinstance(f, ir.Function) else ir.serde.deserialize_function(f.to_function_proto())
    r = Traced()
    r.model, r.feeds, r.outputs = model, feeds, outs
    return r


def run_ort(traced):
    """-> list of numpy arrays (a sequence output becomes a python list of arrays)."""
    m = mods()
    ort, ir = m["ort"], m["ir"]
    proto = ir.to_proto(traced.model)
    so = ort.SessionOptions()
    so.graph_optimization_level = ort.GraphOptimizationLevel.ORT_DISABLE_ALL
    so.log_severity_level = 4
    so.intra_op_num_threads = 1
    so.inter_op_num_threads = 1
    sess = ort.InferenceSession(proto.SerializeToString(), so, providers=["CPUExecutionProvider"])
    return sess.run(None, traced.feeds)


# ----------------------------------------------------------------------------- skeleton

def _const_ints(value):
    """int-valued constant tensor -> flat python int list (None when not integral / too large)."""
    try:
        arr = value.numpy()
    except Exception:
        return None
    if arr.size > 64:
        return None
    if arr.dtype.kind == "f":               # a float constant with an integral value (e.g. clamp bounds) counts as that integer
        if not np.all(np.isfinite(arr)) or not np.array_equal(np.rint(arr), arr):
            return None
    elif arr.dtype.kind not in "iub":
        return None
    return [int(x) for x in arr.reshape(-1).tolist()]


def skeleton(traced):
    """[(op_type, [int-lists])] for every non-Constant node, in graph order.

    The int-lists are: the values of the integer(-list) attributes in attribute-name order, followed by the
    values of the inputs that are integer constants (produced by a Constant node or given as an initializer /
    literal), in input order.  Inputs that are not integer constants contribute nothing.
    """
    ir = mods()["ir"]
    consts = {}
    out = []
    for node in traced.model.graph:
        if node.op_type == "Constant" and node.domain in ("", "ai.onnx"):
            a = node.attributes
            v = None
            if "value" in a:
                v = _const_ints(a["value"].value)
            elif "value_ints" in a:
                v = [int(x) for x in a["value_ints"].value]
            elif "value_int" in a:
                v = [int(a["value_int"].value)]
            consts[id(node.outputs[0])] = v
            continue
        ints = []
        for name in sorted(node.attributes):
            at = node.attributes[name]
            if at.type == ir.AttributeType.INT:
                ints.append([int(at.value)])
            elif at.type == ir.AttributeType.INTS:
                ints.append([int(x) for x in at.value])
        for inp in node.inputs:
            if inp is None:
                continue
            if id(inp) in consts:
                if consts[id(inp)] is not None:
                    ints.append(consts[id(inp)])
            elif inp.const_value is not None:
                v = _const_ints(inp.const_value)
                if v is not None:
                    ints.append(v)
        name = node.op_type if node.domain in ("", "ai.onnx") else f"{node.domain}::{node.op_type}"
        out.append((name, ints))
    return out
