(* C19 proofs: head splitting / merging, kv-head repetition, mask broadcasting are index bijections; the side
   conditions of the checks. *)
From Coq Require Import List Arith Bool ZArith Lia.
Require Import OV.Fusion.Norm OV.Fusion.Attn.
Import ListNotations.

Section Blocks.
  Variable A : Type.

  Lemma nth_flat_map_seq : forall (f : nat -> list A) n m a i j d,
    (forall k, a <= k < a + m -> length (f k) = n) -> i < m -> j < n ->
    nth (i * n + j) (flat_map f (seq a m)) d = nth j (f (a + i)) d.
  Proof.
    intros f n m. induction m as [|m IH]; intros a i j d Hlen Hi Hj; [lia|].
    simpl. destruct i as [|i].
    - simpl. rewrite app_nth1 by (rewrite Hlen; lia). replace (a + 0) with a by lia. reflexivity.
    - simpl. rewrite app_nth2 by (rewrite Hlen by lia; lia). rewrite Hlen by lia.
      replace (n + i * n + j - n) with (i * n + j) by lia.
      rewrite IH; [| intros; apply Hlen; lia | lia | lia]. f_equal. f_equal. lia.
  Qed.

  Lemma length_flat_map_seq : forall (f : nat -> list A) n m a,
    (forall k, a <= k < a + m -> length (f k) = n) -> length (flat_map f (seq a m)) = m * n.
  Proof.
    intros f n m. induction m as [|m IH]; intros a Hlen; simpl; auto.
    rewrite app_length, Hlen by lia. rewrite IH; [lia | intros; apply Hlen; lia].
  Qed.

  Lemma nth_tabulate : forall (f : nat -> list A) n m i j d,
    (forall k, k < m -> length (f k) = n) -> i < m -> j < n -> nth (i * n + j) (tabulate A m f) d = nth j (f i) d.
  Proof. intros. unfold tabulate. rewrite nth_flat_map_seq with (n := n); auto. intros; apply H; lia. Qed.

  Lemma length_tabulate : forall (f : nat -> list A) n m,
    (forall k, k < m -> length (f k) = n) -> length (tabulate A m f) = m * n.
  Proof. intros. unfold tabulate. apply length_flat_map_seq. intros; apply H; lia. Qed.

  Lemma length_tab1 : forall n (f : nat -> A), length (tab1 A n f) = n.
  Proof. intros. unfold tab1. rewrite map_length, seq_length. reflexivity. Qed.

  Lemma nth_tab1 : forall n (f : nat -> A) j d, j < n -> nth j (tab1 A n f) d = f j.
  Proof.
    intros. unfold tab1. rewrite (nth_indep _ d (f 0)) by (rewrite map_length, seq_length; lia).
    rewrite map_nth, seq_nth by lia. reflexivity.
  Qed.

  Lemma flat_map_ext_seq : forall (f g : nat -> list A) m a,
    (forall k, a <= k < a + m -> f k = g k) -> flat_map f (seq a m) = flat_map g (seq a m).
  Proof.
    intros f g m. induction m as [|m IH]; intros a H; simpl; auto.
    rewrite H by lia. f_equal. apply IH. intros; apply H; lia.
  Qed.
  Lemma tabulate_ext : forall (f g : nat -> list A) m, (forall k, k < m -> f k = g k) -> tabulate A m f = tabulate A m g.
  Proof. intros. unfold tabulate. apply flat_map_ext_seq. intros; apply H; lia. Qed.
  Lemma tab1_ext : forall (f g : nat -> A) n, (forall k, k < n -> f k = g k) -> tab1 A n f = tab1 A n g.
  Proof. intros. unfold tab1. apply map_ext_in. intros k Hk. apply in_seq in Hk. apply H. lia. Qed.
  Lemma map_seq_ext : forall (B : Type) (f g : nat -> B) n, (forall k, k < n -> f k = g k) -> map f (seq 0 n) = map g (seq 0 n).
  Proof. intros. apply map_ext_in. intros k Hk. apply in_seq in Hk. apply H. lia. Qed.
  Lemma map_seq_offset : forall (B : Type) n (f : nat -> B) a, map f (seq a n) = map (fun i => f (a + i)) (seq 0 n).
  Proof.
    induction n as [|n IH]; intros f a; simpl; auto.
    f_equal; [f_equal; lia|]. rewrite (IH f (S a)), (IH (fun i => f (a + i)) 1).
    apply map_ext. intro i. f_equal. lia.
  Qed.
End Blocks.

Ltac solve_len :=
  repeat (first [ apply length_tab1
                | (apply length_tabulate; intros) ]).

Section Laws.
  Variable A : Type.
  Variable d0 : A.
  Variable attn : list (list A) -> list (list A) -> list (list A) -> option (list (list A)) -> list (list A).

  (* reading element (a,b,c,d) of a 4-level tabulation *)
  Lemma nth_tab4 : forall n0 n1 n2 n3 (f : nat -> nat -> nat -> nat -> A) a b c d,
    a < n0 -> b < n1 -> c < n2 -> d < n3 ->
    nth (((a * n1 + b) * n2 + c) * n3 + d)
        (tabulate A n0 (fun a => tabulate A n1 (fun b => tabulate A n2 (fun c => tab1 A n3 (fun d => f a b c d))))) d0
    = f a b c d.
  Proof.
    intros.
    replace (((a * n1 + b) * n2 + c) * n3 + d) with (a * (n1 * (n2 * n3)) + (b * (n2 * n3) + (c * n3 + d))) by ring.
    assert (c * n3 + d < n2 * n3) by nia.
    assert (b * (n2 * n3) + (c * n3 + d) < n1 * (n2 * n3)) by nia.
    rewrite nth_tabulate with (n := n1 * (n2 * n3)); auto; [| intros; solve_len].
    rewrite nth_tabulate with (n := n2 * n3); auto; [| intros; solve_len].
    rewrite nth_tabulate with (n := n3); auto; [| intros; solve_len].
    apply nth_tab1; auto.
  Qed.

  (* ---- head splitting: Reshape [B,S,H*Dh] -> [B,S,H,Dh] + Transpose(0,2,1,3), then head (b,h), is the documented
     column block h of the packed operand -- for every B, S, H, Dh *)
  Lemma split_heads : forall B S H Dh x b h, b < B -> h < H ->
    mat_at A d0 H S Dh (transpose0213 A d0 B S H Dh (reshape A x)) b h = head_packed A d0 S H Dh x b h.
  Proof.
    intros. unfold mat_at, head_packed. apply map_seq_ext. intros s Hs. apply tab1_ext. intros d Hd.
    unfold transpose0213, reshape. rewrite nth_tab4 by auto. f_equal. ring.
  Qed.

  (* ---- head merging: Transpose(0,2,1,3) + Reshape of the per-head results is the documented [B,S,H*Dv] output *)
  Lemma merge_heads : forall B H S Dv M,
    reshape A (transpose0213 A d0 B H S Dv (stack_heads A d0 B H S Dv M)) = pack_heads A d0 B H S Dv M.
  Proof.
    intros. unfold reshape, transpose0213, pack_heads.
    apply tabulate_ext; intros b Hb. apply tabulate_ext; intros s Hs. apply tabulate_ext; intros h Hh.
    apply tab1_ext; intros d Hd. unfold stack_heads. rewrite nth_tab4 by auto. reflexivity.
  Qed.

  Lemma pack_heads_ext : forall B H S Dv M M',
    (forall b h, b < B -> h < H -> M b h = M' b h) -> pack_heads A d0 B H S Dv M = pack_heads A d0 B H S Dv M'.
  Proof.
    intros. unfold pack_heads. apply tabulate_ext; intros b Hb. apply tabulate_ext; intros s Hs.
    apply tabulate_ext; intros h Hh. rewrite H0 by auto. reflexivity.
  Qed.
  Lemma stack_heads_ext : forall B H S Dv M M',
    (forall b h, b < B -> h < H -> M b h = M' b h) -> stack_heads A d0 B H S Dv M = stack_heads A d0 B H S Dv M'.
  Proof.
    intros. unfold stack_heads. apply tabulate_ext; intros b Hb. apply tabulate_ext; intros h Hh.
    rewrite H0 by auto. reflexivity.
  Qed.

  (* mha.py: the matched sub-graph is MultiHeadAttention(num_heads = H) on the packed operands, for all sizes, any
     per-head attention function, any per-head mask *)
  Theorem mha_split_merge : forall B S T H Dh Dv q k v mask,
    mha_pattern A d0 attn B S T H Dh Dv q k v mask = mha_spec A d0 attn B S T H Dh Dv q k v mask.
  Proof.
    intros. unfold mha_pattern, mha_spec. rewrite merge_heads. apply pack_heads_ext. intros b h Hb Hh.
    rewrite !split_heads by auto. reflexivity.
  Qed.

  (* inverse direction (sdpa_via_mha.py): Transpose(0,2,1,3)+Reshape to packed, MultiHeadAttention, Reshape+Transpose
     back gives the [B,H,S,Dv] SDPA result *)
  Lemma unsplit_heads : forall B S H Dh x4 b h, b < B -> h < H ->
    head_packed A d0 S H Dh (reshape A (transpose0213 A d0 B H S Dh x4)) b h = mat_at A d0 H S Dh x4 b h.
  Proof.
    intros. unfold mat_at, head_packed. apply map_seq_ext. intros s Hs. apply tab1_ext. intros d Hd.
    unfold transpose0213, reshape.
    replace ((b * S + s) * (H * Dh) + (h * Dh + d)) with (((b * S + s) * H + h) * Dh + d) by ring.
    rewrite nth_tab4 by auto. reflexivity.
  Qed.
  Lemma unmerge_heads : forall B H S Dv M,
    transpose0213 A d0 B S H Dv (reshape A (pack_heads A d0 B H S Dv M)) = stack_heads A d0 B H S Dv M.
  Proof.
    intros. unfold reshape, transpose0213, stack_heads.
    apply tabulate_ext; intros b Hb. apply tabulate_ext; intros h Hh. apply tabulate_ext; intros s Hs.
    apply tab1_ext; intros d Hd. unfold pack_heads. rewrite nth_tab4 by auto. reflexivity.
  Qed.
  Theorem sdpa_lowering_sound : forall B S T H Dh Dv q4 k4 v4 mask,
    sdpa_lowered A d0 attn B S T H Dh Dv q4 k4 v4 mask = sdpa4 A d0 attn B S T H Dh Dv q4 k4 v4 mask.
  Proof.
    intros. unfold sdpa_lowered, sdpa4, mha_spec. rewrite unmerge_heads. apply stack_heads_ext. intros b h Hb Hh.
    rewrite !unsplit_heads by auto. reflexivity.
  Qed.

  (* ---- GQA: head h of the repeated key/value is kv head h / G *)
  Lemma nth_tab5 : forall n0 n1 n2 n3 n4 (f : nat -> nat -> nat -> nat -> nat -> A) a b c d e,
    a < n0 -> b < n1 -> c < n2 -> d < n3 -> e < n4 ->
    nth ((((a * n1 + b) * n2 + c) * n3 + d) * n4 + e)
        (tabulate A n0 (fun a => tabulate A n1 (fun b => tabulate A n2 (fun c => tabulate A n3 (fun d =>
           tab1 A n4 (fun e => f a b c d e)))))) d0
    = f a b c d e.
  Proof.
    intros.
    replace ((((a * n1 + b) * n2 + c) * n3 + d) * n4 + e)
      with (a * (n1 * (n2 * (n3 * n4))) + (b * (n2 * (n3 * n4)) + (c * (n3 * n4) + (d * n4 + e)))) by ring.
    assert (d * n4 + e < n3 * n4) by nia.
    assert (c * (n3 * n4) + (d * n4 + e) < n2 * (n3 * n4)) by nia.
    assert (b * (n2 * (n3 * n4)) + (c * (n3 * n4) + (d * n4 + e)) < n1 * (n2 * (n3 * n4))) by nia.
    rewrite nth_tabulate with (n := n1 * (n2 * (n3 * n4))); auto; [| intros; solve_len].
    rewrite nth_tabulate with (n := n2 * (n3 * n4)); auto; [| intros; solve_len].
    rewrite nth_tabulate with (n := n3 * n4); auto; [| intros; solve_len].
    rewrite nth_tabulate with (n := n4); auto; [| intros; solve_len].
    apply nth_tab1; auto.
  Qed.

  Lemma repeat_kv_head : forall B Hkv G T Dh x b h, b < B -> h < Hkv * G ->
    mat_at A d0 (Hkv * G) T Dh (repeat_kv A d0 B Hkv G T Dh x) b h = mat_at A d0 Hkv T Dh x b (h / G).
  Proof.
    intros B Hkv G T Dh x b h Hb Hh.
    assert (G <> 0) by (intro; subst; lia).
    pose proof (Nat.div_mod h G H) as Hdm. pose proof (Nat.mod_upper_bound h G H) as Hg.
    assert (Hhk : h / G < Hkv) by (apply Nat.div_lt_upper_bound; auto; lia).
    remember (h / G) as hk. remember (h mod G) as g.
    unfold mat_at. apply map_seq_ext. intros t Ht. apply tab1_ext. intros d Hd.
    unfold repeat_kv, reshape.
    replace (((b * (Hkv * G) + h) * T + t) * Dh + d) with ((((b * Hkv + hk) * G + g) * T + t) * Dh + d)
      by (rewrite Hdm; ring).
    rewrite nth_tab5 by auto. reflexivity.
  Qed.

  (* gqa.py: query split into Hkv*G heads, key/value repeated with Unsqueeze/Expand/Reshape = GroupQueryAttention with
     num_heads = Hkv*G, kv_num_heads = Hkv -- every B, S, T, Dh, every Hkv >= 1, G >= 1 (i.e. every pair of head counts
     with kv_heads | heads) *)
  Theorem gqa_repeat_kv : forall B S T Hkv G Dh q kseq vseq mask, 0 < Hkv -> 0 < G ->
    gqa_pattern A d0 attn B S T Hkv G Dh q kseq vseq mask = gqa_spec A d0 attn B S T (Hkv * G) Hkv Dh q kseq vseq mask.
  Proof.
    intros. unfold gqa_pattern, gqa_spec. rewrite merge_heads. apply pack_heads_ext. intros b h Hb Hh.
    rewrite split_heads by auto. rewrite !repeat_kv_head by auto.
    replace (Hkv * G / Hkv) with G by (rewrite Nat.mul_comm, Nat.div_mul; lia). reflexivity.
  Qed.

  (* the same statement with the head counts as the attributes carry them: kv_heads | heads *)
  Corollary gqa_repeat_kv_divides : forall B S T H Hkv Dh q kseq vseq mask, 0 < Hkv -> 0 < H -> H mod Hkv = 0 ->
    gqa_pattern A d0 attn B S T Hkv (H / Hkv) Dh q kseq vseq mask = gqa_spec A d0 attn B S T H Hkv Dh q kseq vseq mask.
  Proof.
    intros. assert (E : H = Hkv * (H / Hkv)) by (pose proof (Nat.div_mod H Hkv); lia).
    assert (0 < H / Hkv) by (destruct (H / Hkv); lia).
    rewrite gqa_repeat_kv by auto. rewrite <- E. reflexivity.
  Qed.

  (* taking kv_num_heads from the query's head count is a different function as soon as G > 1 : with G = 2 query head 1
     must read kv head 0, the wrong attribute makes it read kv head 1 *)
  Lemma gqa_group_of_head : forall Hkv G h, 0 < G -> h < Hkv * G -> h / (Hkv * G / Hkv) = h / G.
  Proof. intros. destruct Hkv; [lia|]. rewrite Nat.mul_comm, Nat.div_mul by lia. reflexivity. Qed.

  (* Concat(past, current, axis=-2) on [B,N,.,Dh]: matrix (b,n) is the past rows followed by the new rows *)
  Lemma nth_flat_app : forall (l1 l2 : list A) i, i < length l1 -> nth i (l1 ++ l2) d0 = nth i l1 d0.
  Proof. intros. apply app_nth1. auto. Qed.
  Lemma concat_seq_mat : forall B N P S Dh past cur b n, b < B -> n < N ->
    mat_at A d0 N (P + S) Dh (concat_seq A d0 B N P S Dh past cur) b n
    = mat_at A d0 N P Dh past b n ++ mat_at A d0 N S Dh cur b n.
  Proof.
    intros. unfold mat_at. rewrite seq_app, map_app. simpl.
    assert (LP : forall (f : nat -> nat -> A), length (tabulate A P (fun t => tab1 A Dh (f t))) = P * Dh)
      by (intros; solve_len).
    assert (LS : forall (f : nat -> nat -> A), length (tabulate A S (fun t => tab1 A Dh (f t))) = S * Dh)
      by (intros; solve_len).
    f_equal.
    - apply map_seq_ext. intros t Ht. apply tab1_ext. intros d Hd. unfold concat_seq.
      replace (((b * N + n) * (P + S) + t) * Dh + d) with (b * (N * ((P + S) * Dh)) + (n * ((P + S) * Dh) + (t * Dh + d))) by ring.
      assert (t * Dh + d < P * Dh) by nia.
      assert (t * Dh + d < (P + S) * Dh) by nia.
      assert (n * ((P + S) * Dh) + (t * Dh + d) < N * ((P + S) * Dh)) by nia.
      rewrite nth_tabulate with (n := N * ((P + S) * Dh)); auto;
        [| intros; apply length_tabulate; intros; rewrite app_length, LP, LS; lia].
      rewrite nth_tabulate with (n := (P + S) * Dh); auto; [| intros; rewrite app_length, LP, LS; lia].
      rewrite app_nth1 by (rewrite LP; auto).
      rewrite nth_tabulate with (n := Dh); auto; [| intros; solve_len].
      apply nth_tab1; auto.
    - rewrite map_seq_offset.
      apply map_seq_ext. intros t Ht. apply tab1_ext. intros d Hd. unfold concat_seq.
      replace (((b * N + n) * (P + S) + (P + t)) * Dh + d) with (b * (N * ((P + S) * Dh)) + (n * ((P + S) * Dh) + (P * Dh + (t * Dh + d)))) by ring.
      assert (t * Dh + d < S * Dh) by nia.
      assert (P * Dh + (t * Dh + d) < (P + S) * Dh) by nia.
      assert (n * ((P + S) * Dh) + (P * Dh + (t * Dh + d)) < N * ((P + S) * Dh)) by nia.
      rewrite nth_tabulate with (n := N * ((P + S) * Dh)); auto;
        [| intros; apply length_tabulate; intros; rewrite app_length, LP, LS; lia].
      rewrite nth_tabulate with (n := (P + S) * Dh); auto; [| intros; rewrite app_length, LP, LS; lia].
      rewrite app_nth2 by (rewrite LP; lia). rewrite LP.
      replace (P * Dh + (t * Dh + d) - P * Dh) with (t * Dh + d) by lia.
      rewrite nth_tabulate with (n := Dh); auto; [| intros; solve_len].
      apply nth_tab1; auto.
  Qed.

  (* ---- mask / attention_bias broadcasting.  A mask [Bm,Hm,S,T] with Bm in {1,B}, Hm in {1,H} is read by the
     documented operator exactly as NumPy broadcasting reads it in the pattern's Add ... *)
  Lemma mask_broadcast_S : forall Bm Hm S T m b h,
    mask_numpy A d0 Bm Hm S S T m b h = mask_mha A d0 Bm Hm S T m b h.
  Proof.
    intros. unfold mask_numpy, mask_mha, mat_at. apply map_seq_ext. intros s Hs. apply tab1_ext. intros t Ht.
    unfold bidx at 3. destruct (S =? 1) eqn:E1; auto.
    apply Nat.eqb_eq in E1. subst. assert (s = 0) by lia. subst. reflexivity.
  Qed.
  (* ... and a mask whose dimension 2 is 1 (or a 2-D mask [1|S, T], i.e. Bm = Hm = 1) after Expand(mask, [1,1,S,1]) *)
  Theorem mask_broadcast_expand : forall B H Bm Hm S T m b h,
    (Bm = 1 \/ Bm = B) -> (Hm = 1 \/ Hm = H) -> b < B -> h < H ->
    mask_numpy A d0 Bm Hm 1 S T m b h = mask_mha A d0 Bm Hm S T (expand_S A d0 Bm Hm S T m) b h.
  Proof.
    intros B H Bm Hm S T m b h HB HH Hb Hh.
    assert (bidx Bm b < Bm) by (unfold bidx; destruct (Bm =? 1) eqn:E; [apply Nat.eqb_eq in E; lia | destruct HB; subst; auto; discriminate]).
    assert (bidx Hm h < Hm) by (unfold bidx; destruct (Hm =? 1) eqn:E; [apply Nat.eqb_eq in E; lia | destruct HH; subst; auto; discriminate]).
    unfold mask_numpy, mask_mha, mat_at. apply map_seq_ext. intros s Hs. apply tab1_ext. intros t Ht.
    unfold expand_S. rewrite nth_tab4 by auto. f_equal. unfold bidx at 3. simpl. ring.
  Qed.
End Laws.

(* ---- causal mask and the sequence lengths passed to GroupQueryAttention *)
Lemma causal_mask_is_gqa_causality : forall trilu P s t, mask_blocked trilu P s t = negb (causal_allowed P s t).
Proof.
  intros. unfold mask_blocked, causal_allowed.
  destruct (Nat.ltb_spec (P + s) t), (Nat.leb_spec t (P + s)), trilu; simpl; try lia; auto.
  destruct (Nat.ltb_spec s t); auto; lia.
Qed.

Lemma list_max_seq : forall n a, 0 < n -> list_max (seq a n) = a + n - 1.
Proof.
  induction n as [|n IH]; intros a Hn; [lia|]. simpl. destruct n as [|n]; [simpl; lia|].
  rewrite IH by lia. lia.
Qed.
(* position_ids of a batch row are P, P+1, ..., P+S-1: seqlens_k = T - 1, total_sequence_length = T = P + S *)
Theorem gqa_seqlens : forall P S, 0 < S -> seqlens_k (seq P S) = P + S - 1.
Proof. intros. unfold seqlens_k. apply list_max_seq. auto. Qed.
Lemma list_max_repeat : forall n v, 0 < n -> list_max (repeat v n) = v.
Proof.
  induction n as [|n IH]; intros v Hn; [lia|]. simpl. destruct n as [|n]; [simpl; lia|].
  rewrite IH by lia. lia.
Qed.
Lemma map_repeat_const : forall (X Y : Type) (f : X -> Y) x n, map f (repeat x n) = repeat (f x) n.
Proof. induction n; simpl; auto. rewrite IHn. reflexivity. Qed.
Theorem gqa_total_seq_len : forall P S B, 0 < S -> 0 < B -> total_seq_len (repeat (seq P S) B) = P + S.
Proof.
  intros. unfold total_seq_len. rewrite map_repeat_const, gqa_seqlens by auto.
  rewrite list_max_repeat by auto. lia.
Qed.

(* ---- side conditions *)
Lemma bind_dims_length : forall actual names b b', bind_dims b actual names = Some b' -> length actual = length names.
Proof.
  induction actual as [|a at' IH]; intros [|n nt] b b' H; simpl in *; try discriminate; auto.
  destruct (lookup b n) as [v|]; [destruct (Z.eqb a v); try discriminate|]; f_equal; eapply IH; eauto.
Qed.
Lemma check_shape_some : forall b s names b', check_shape b s names = Some b' ->
  exists b0 l, b = Some b0 /\ s = Some l /\ bind_dims b0 l names = Some b'.
Proof. intros [b0|] [l|] names b' H; simpl in H; try discriminate. eauto. Qed.
(* bindings only grow: a name once bound keeps its dim *)
Lemma bind_dims_preserves : forall actual names b b' k v,
  bind_dims b actual names = Some b' -> lookup b k = Some v -> lookup b' k = Some v.
Proof.
  induction actual as [|a at' IH]; intros [|n nt] b b' k v H L; simpl in H; try discriminate.
  - inversion H; subst; auto.
  - destruct (lookup b n) as [w|] eqn:E.
    + destruct (Z.eqb a w); try discriminate. eapply IH; eauto.
    + eapply IH; eauto. simpl. destruct (Nat.eqb k n) eqn:E2; auto. apply Nat.eqb_eq in E2. subst. congruence.
Qed.
Lemma check_shape_preserves : forall b0 s names b' k v,
  check_shape (Some b0) s names = Some b' -> lookup b0 k = Some v -> lookup b' k = Some v.
Proof. intros b0 [l|] names b' k v H L; simpl in H; try discriminate. eapply bind_dims_preserves; eauto. Qed.

(* MultiHeadAttention.check accepted => query is [b,s,d], the Reshape output [b,s,h,dh] with the SAME codes b, s, the
   num_heads attribute is the static dim 2 of the Reshape output, and the SDPA key_format fits the pattern branch *)
Theorem mha_check_shapes : forall st i h ub, mha_check_rewrite st i = Some (h, ub) ->
  exists b s d dh, mi_query i = Some [b; s; d] /\ mi_query4 i = Some [b; s; h; dh] /\ (0 <= h)%Z
    /\ mi_key_format_bhsd i = mi_key_transposed i.
Proof.
  intros st i h ub H. unfold mha_check_rewrite in H.
  match type of H with match ?b6 with _ => _ end = _ => destruct b6 as [bd|] eqn:E6; [|discriminate] end.
  (* b5 *)
  assert (E5 : exists bd5, check_shape (if Bool.eqb (mi_key_format_bhsd i) (mi_key_transposed i)
                 then check_shape (check_shape (check_shape (Some []) (mi_query i) [0; 1; 2]%nat) (mi_query4 i) [0; 1; 3; 4]%nat) (mi_key i) [0; 5; 2]%nat
                 else None) (mi_value i) [0; 5; 2]%nat = Some bd5
               /\ forall k v, lookup bd5 k = Some v -> lookup bd k = Some v).
  { destruct (mi_has_past i).
    - apply check_shape_some in E6. destruct E6 as (bp & lp & Ep & _ & Bp).
      apply check_shape_some in Ep. destruct Ep as (b5 & lk & E5 & _ & Bk).
      exists b5. split; auto. intros. eapply bind_dims_preserves; eauto. eapply bind_dims_preserves; eauto.
    - exists bd. split; auto. }
  destruct E5 as (bd5 & E5 & P5).
  apply check_shape_some in E5. destruct E5 as (b4 & lv & E4 & _ & Bv).
  destruct (Bool.eqb (mi_key_format_bhsd i) (mi_key_transposed i)) eqn:KF; [|discriminate].
  apply Bool.eqb_prop in KF.
  apply check_shape_some in E4. destruct E4 as (b2 & lk & E2 & _ & Bk).
  apply check_shape_some in E2. destruct E2 as (b1 & l4 & E1 & Q4 & B4).
  apply check_shape_some in E1. destruct E1 as (b0 & lq & E0 & Q & Bq).
  inversion E0; subst b0. clear E0.
  pose proof (bind_dims_length _ _ _ _ Bq) as Lq. pose proof (bind_dims_length _ _ _ _ B4) as L4.
  destruct lq as [|b [|s [|d [|]]]]; simpl in Lq; try discriminate.
  destruct l4 as [|a0 [|a1 [|a2 [|a3 [|]]]]]; simpl in L4; try discriminate.
  simpl in Bq. inversion Bq; subst b1. clear Bq.
  simpl in B4.
  destruct (Z.eqb a0 b) eqn:A0; [|discriminate]. destruct (Z.eqb a1 s) eqn:A1; [|discriminate].
  apply Z.eqb_eq in A0, A1. subst a0 a1. inversion B4; subst b2. clear B4.
  assert (L3 : lookup bd 3%nat = Some a2).
  { apply P5. eapply bind_dims_preserves; [exact Bv|]. eapply bind_dims_preserves; [exact Bk|]. reflexivity. }
  rewrite L3 in H.
  match type of H with match ?bm with _ => _ end = _ => destruct bm as [ub'|]; [|discriminate] end.
  destruct (is_static a2) eqn:ST; [|discriminate]. inversion H; subst. unfold is_static in ST. apply Z.leb_le in ST.
  exists b, s, d, a3. auto.
Qed.

(* Sufficiency for NAMED / static dims: run-time sizes are a function [val] of the dim codes (the ONNX contract for
   dim_param names; static dims are themselves).  A Reshape preserves the element count, so the accepted shapes force
   hidden = num_heads * head_size and the Reshape IS the head split of mha_split_merge with H = num_heads. *)
Theorem mha_check_sufficient : forall st i h ub (val : Z -> Z) rq rq4,
  mha_check_rewrite st i = Some (h, ub) -> consistent val ->
  option_map (map val) (mi_query i) = Some rq -> option_map (map val) (mi_query4 i) = Some rq4 ->
  zprod rq = zprod rq4 -> (forall x, In x rq -> 0 < x)%Z ->
  exists B S Dh, rq = [B; S; h * Dh]%Z /\ rq4 = [B; S; h; Dh].
Proof.
  intros st i h ub val rq rq4 H C Q Q4 P Pos.
  destruct (mha_check_shapes _ _ _ _ H) as (b & s & d & dh & Eq & Eq4 & Hh & _).
  rewrite Eq in Q. rewrite Eq4 in Q4. simpl in Q, Q4. inversion Q; subst rq. inversion Q4; subst rq4. clear Q Q4.
  rewrite (C h Hh) in *. exists (val b), (val s), (val dh). split; auto.
  unfold zprod in P. simpl in P.
  assert (0 < val b)%Z by (apply Pos; simpl; auto). assert (0 < val s)%Z by (apply Pos; simpl; auto).
  apply Z.mul_reg_l in P; [|lia]. apply Z.mul_reg_l in P; [|lia].
  assert (E : (val d = h * val dh)%Z) by lia. rewrite E. reflexivity.
Qed.

(* ... and NOT for unnamed dims: onnx_ir compares SymbolicDim(None) == SymbolicDim(None) as equal, so the check accepts
   query [?,?,8] with Reshape output [?,?,2,4] although at run time query is [2,3,8] and the Reshape produced
   [3,2,2,4] (element counts agree): the head split of the theorem does not apply (replayed on the real rule). *)
Theorem mha_check_unnamed_dims_refuted : exists i rq rq4,
  mha_check_rewrite false i = Some (2%Z, false) /\ fits_codes (mi_query i) rq = true /\ fits_codes (mi_query4 i) rq4 = true
  /\ zprod rq = zprod rq4 /\ firstn 2 rq4 <> firstn 2 rq.
Proof.
  exists (mk_mha_in false true true (Some [-1; -1; 8]%Z) (Some [-1; -1; 2; 4]%Z) (Some [-1; -1; 8]%Z) (Some [-1; -1; 8]%Z) None None None),
         [2; 3; 8]%Z, [3; 2; 2; 4]%Z.
  repeat split; try (vm_compute; reflexivity). vm_compute. discriminate.
Qed.

(* ... and with the repaired comparison (fix C19_09: every occurrence of an unnamed dim has its own code) an accepted match has
   NO unnamed dim among the batch / sequence dims of the query: they are static or named, which is the hypothesis
   [consistent val] of mha_check_sufficient.  The witness above is refused. *)
Theorem mha_check_fresh_unnamed : forall st i h ub q q4,
  mha_check_rewrite st i = Some (h, ub) -> mi_query i = Some q -> mi_query4 i = Some q4 ->
  NoDup (filter is_fresh_unnamed (q ++ q4)) ->
  forall d, In d (firstn 2 q) -> is_fresh_unnamed d = false.
Proof.
  intros st i h ub q q4 H Q Q4 ND d Hd.
  destruct (mha_check_shapes _ _ _ _ H) as (b & s & d0 & dh & Eq & Eq4 & _).
  rewrite Eq in Q. rewrite Eq4 in Q4. inversion Q; inversion Q4; subst q q4. clear Q Q4.
  destruct (is_fresh_unnamed d) eqn:E; auto. exfalso.
  assert (TW : forall x l1 l2, is_fresh_unnamed x = true -> In x l1 -> In x l2 -> ~ NoDup (filter is_fresh_unnamed (l1 ++ l2))).
  { intros x l1 l2 Fx I1 I2 N. rewrite filter_app in N.
    assert (A1 : In x (filter is_fresh_unnamed l1)) by (apply filter_In; auto).
    assert (A2 : In x (filter is_fresh_unnamed l2)) by (apply filter_In; auto).
    apply in_split in A1. destruct A1 as (u & v & A1). rewrite A1 in N. rewrite <- app_assoc in N. simpl in N.
    apply NoDup_remove_2 in N. apply N. rewrite !in_app_iff. auto. }
  simpl in Hd. destruct Hd as [<-|[<-|[]]]; eapply TW; eauto; simpl; auto.
Qed.
Theorem mha_unnamed_witness_refused_by_repair :
  mha_check_rewrite false (mk_mha_in false true true (Some [-1000; -1001; 8]%Z) (Some [-1002; -1003; 2; 4]%Z) (Some [-1004; -1005; 8]%Z) (Some [-1006; -1007; 8]%Z) None None None) = None.
Proof. vm_compute. reflexivity. Qed.

(* the mask test of check: dimension 2 of an accepted rank-4 mask is S (no Expand) or 1 (Expand to S) *)
Lemma mask_dim2_rule_sound : forall s d2 ub, mask_dim2_rule s d2 = Some ub -> (ub = false /\ d2 = s) \/ (ub = true /\ d2 = 1%Z).
Proof.
  intros s d2 ub. unfold mask_dim2_rule. destruct (Z.eqb d2 s) eqn:E1.
  - intro H; inversion H. apply Z.eqb_eq in E1. auto.
  - destruct (Z.eqb d2 1) eqn:E2; [|discriminate]. intro H; inversion H. apply Z.eqb_eq in E2. auto.
Qed.
(* what check does NOT test: the last mask dimension against the total sequence length, dims 0/1 against B/H.
   Witness 1: mask [2,1,3,1] on scores [2,2,3,3] -- NumPy broadcasts the last axis, MultiHeadAttention's attention_bias
   must have T there.  Witness 2: mask [3,1,3,3] on scores [1,2,3,3] (the mask broadcasts the batch). *)
Theorem mha_mask_check_refuted : exists i B H S T mask ub h,
  mi_mask i = Some (Some mask) /\ mha_check_rewrite false i = Some (h, ub) /\ numpy_broadcastable mask [B; H; S; T] = true
  /\ mha_mask_ok B H S T (mha_mask_after ub S mask) = false.
Proof.
  exists (mk_mha_in false true true (Some [2; 3; 8]%Z) (Some [2; 3; 2; 4]%Z) (Some [2; 3; 8]%Z) (Some [2; 3; 8]%Z) None None (Some (Some [2; 1; 3; 1]%Z))),
         2%Z, 2%Z, 3%Z, 3%Z, [2; 1; 3; 1]%Z, false, 2%Z.
  repeat split; vm_compute; reflexivity.
Qed.
Theorem mha_mask_batch_check_refuted : exists i B H S T mask ub h,
  mi_mask i = Some (Some mask) /\ mha_check_rewrite false i = Some (h, ub)
  /\ mha_mask_ok B H S T (mha_mask_after ub S mask) = false /\ nth 3 mask 0%Z = T.
Proof.
  exists (mk_mha_in false true true (Some [1; 3; 8]%Z) (Some [1; 3; 2; 4]%Z) (Some [1; 3; 8]%Z) (Some [1; 3; 8]%Z) None None (Some (Some [3; 1; 3; 3]%Z))),
         1%Z, 2%Z, 3%Z, 3%Z, [3; 1; 3; 3]%Z, false, 2%Z.
  repeat split; vm_compute; reflexivity.
Qed.
(* when the mask does have the documented form, the rewritten node's mask is acceptable to the operator *)
Theorem mha_mask_after_ok : forall B H S T mb mh ms ub, (0 < S)%Z ->
  ((mb = 1 \/ mb = B) /\ (mh = 1 \/ mh = H))%Z -> mask_dim2_rule S ms = Some ub ->
  mha_mask_ok B H S T (mha_mask_after ub S [mb; mh; ms; T]) = true.
Proof.
  intros B H S T mb mh ms ub HS [HB HH] R. apply mask_dim2_rule_sound in R.
  assert (E : Z.max ms S = S) by (destruct R as [[_ ->]|[_ ->]]; lia).
  unfold mha_mask_after, mha_mask_ok.
  destruct R as [[-> ->]|[-> ->]]; rewrite ?E; rewrite !Z.eqb_refl;
    destruct HB as [->| ->], HH as [->| ->]; rewrite ?Z.eqb_refl, ?orb_true_r; reflexivity.
Qed.

(* ---- the repair of the mask check (strict_mask = true) ---------------------------------------------------- *)
(* a successful bind_dims binds every listed name to the dim at its position *)
Lemma bind_dims_binds : forall actual names b b', bind_dims b actual names = Some b' ->
  forall j n a, nth_error names j = Some n -> nth_error actual j = Some a -> lookup b' n = Some a.
Proof.
  induction actual as [|x at' IH]; intros [|m nt] b b' H j n a Hn Ha; simpl in H; try discriminate.
  - destruct j; discriminate.
  - destruct j as [|j]; simpl in Hn, Ha.
    + inversion Hn; inversion Ha; subst. destruct (lookup b n) as [w|] eqn:E.
      * destruct (Z.eqb a w) eqn:E2; [|discriminate]. apply Z.eqb_eq in E2. subst. eapply bind_dims_preserves; eauto.
      * eapply bind_dims_preserves; eauto. simpl. rewrite Nat.eqb_refl. reflexivity.
    + destruct (lookup b m) as [w|]; [destruct (Z.eqb x w); [|discriminate]|]; eapply IH; eauto.
Qed.
(* the repair only adds refusals *)
Theorem mha_strict_refines : forall i r, mha_check_rewrite true i = Some r -> mha_check_rewrite false i = Some r.
Proof.
  intros i r. unfold mha_check_rewrite.
  match goal with |- match ?b6 with _ => _ end = _ -> _ => destruct b6 as [bd|]; [|discriminate] end.
  destruct (mi_mask i) as [[ms|]|]; auto.
  destruct (length ms) as [|[|[|[|[|]]]]]; auto.
  - destruct (bind_dims bd ms [10; 11]%nat) as [bd'|]; auto. simpl andb. destruct (negb (mask_last_ok (mi_has_past i) bd')); auto; cbv iota; intro; discriminate.
  - destruct (bind_dims bd ms [8; 9; 10; 11]%nat) as [bd'|]; auto. simpl andb.
    destruct (negb (mask_lead_ok bd' && mask_last_ok (mi_has_past i) bd')); auto; cbv iota; intro; discriminate.
Qed.
(* Sufficiency of the repaired check for the mask, on instances with static dims: query [B,S,D], key [Bk,Skv,Dk], T the
   total key/value length (= Skv without a past).  The matched Add(scores [B,H,S,T], mask) is well-formed, so the last
   mask dim is T or 1 and, for a 2-D mask, the first is S or 1.  Then the mask the fused node receives has the
   documented attention_bias shape (1|B, 1|H, S, T). *)
Theorem mha_check_strict_mask_sufficient : forall i h ub B S D Bk Skv Dk mask T,
  mha_check_rewrite true i = Some (h, ub) ->
  mi_query i = Some [B; S; D] -> mi_key i = Some [Bk; Skv; Dk] -> mi_mask i = Some (Some mask) ->
  (0 < S)%Z ->
  (last mask 0 = T \/ last mask 0 = 1)%Z ->
  (mi_has_past i = false -> T = Skv) ->
  (forall ms mt, mask = [ms; mt] -> ms = S \/ ms = 1%Z) ->
  mha_mask_ok B h S T (mha_mask_after ub S mask) = true.
Proof.
  intros i h ub B S D Bk Skv Dk mask T H Q K M HS HL HT H2.
  unfold mha_check_rewrite in H. rewrite Q, K, M in H.
  match type of H with match ?b6 with _ => _ end = _ => destruct b6 as [bd|] eqn:E6; [|discriminate] end.
  (* the bindings of B, S (query) and Skv (key) survive in bd *)
  assert (LB : lookup bd 0%nat = Some B /\ lookup bd 1%nat = Some S /\ lookup bd 5%nat = Some Skv).
  { assert (P : forall b5, check_shape (if Bool.eqb (mi_key_format_bhsd i) (mi_key_transposed i)
                 then check_shape (check_shape (check_shape (Some []) (Some [B; S; D]) [0; 1; 2]%nat) (mi_query4 i) [0; 1; 3; 4]%nat) (Some [Bk; Skv; Dk]) [0; 5; 2]%nat
                 else None) (mi_value i) [0; 5; 2]%nat = Some b5 ->
               lookup b5 0%nat = Some B /\ lookup b5 1%nat = Some S /\ lookup b5 5%nat = Some Skv).
    { intros b5 E5. apply check_shape_some in E5. destruct E5 as (b4 & lv & E4 & _ & Bv).
      destruct (Bool.eqb (mi_key_format_bhsd i) (mi_key_transposed i)); [|discriminate].
      apply check_shape_some in E4. destruct E4 as (b2 & lk & E2 & Ek & Bk').
      inversion Ek; subst lk. clear Ek.
      apply check_shape_some in E2. destruct E2 as (b1 & l4 & E1 & _ & B4).
      simpl in E1. inversion E1; subst b1. clear E1.
      assert (L0 : lookup b2 0%nat = Some B) by (eapply bind_dims_preserves; [exact B4|reflexivity]).
      assert (L1 : lookup b2 1%nat = Some S) by (eapply bind_dims_preserves; [exact B4|reflexivity]).
      assert (L5 : lookup b4 5%nat = Some Skv) by (eapply bind_dims_binds with (j := 1%nat); [exact Bk'| |]; reflexivity).
      repeat split; eapply bind_dims_preserves; try exact Bv; auto; eapply bind_dims_preserves; try exact Bk'; auto. }
    destruct (mi_has_past i).
    - apply check_shape_some in E6. destruct E6 as (bp & lp & Ep & _ & Bp).
      apply check_shape_some in Ep. destruct Ep as (b5 & lk & E5 & _ & Bk').
      destruct (P _ E5) as (A0 & A1 & A5).
      repeat split; eapply bind_dims_preserves; try exact Bp; eapply bind_dims_preserves; try exact Bk'; auto.
    - apply P. exact E6. }
  destruct LB as (L0 & L1 & L5).
  destruct (lookup bd 3%nat) as [h'|] eqn:L3.
  2:{ match type of H with match ?bm with _ => _ end = _ => destruct bm; discriminate end. }
  destruct mask as [|m0 [|m1 [|m2 [|m3 [|m4 rest]]]]]; simpl length in H; cbv iota in H; try discriminate.
  - (* rank 2 *)
    destruct (bind_dims bd [m0; m1] [10; 11]%nat) as [bd'|] eqn:EB; [|discriminate].
    simpl andb in H. destruct (mask_last_ok (mi_has_past i) bd') eqn:ML; simpl in H; [|discriminate].
    destruct (is_static h') eqn:ST; [|discriminate]. inversion H; subst h' ub. clear H.
    assert (L11 : lookup bd' 11%nat = Some m1) by (eapply bind_dims_binds with (j := 1%nat); [exact EB| |]; reflexivity).
    assert (L5' : lookup bd' 5%nat = Some Skv) by (eapply bind_dims_preserves; eauto).
    unfold mask_last_ok in ML. rewrite L11, L5' in ML. simpl in HL.
    assert (m1 = T).
    { destruct HL as [|E1]; auto. subst m1. simpl in ML. apply andb_prop in ML. destruct ML as [NP SK].
      apply Z.eqb_eq in SK. rewrite HT; auto. destruct (mi_has_past i); auto; discriminate. }
    subst m1. destruct (H2 _ _ eq_refl) as [->| ->]; unfold mha_mask_after, mha_mask_ok;
      [rewrite Z.max_id | rewrite Z.max_r by lia]; rewrite !Z.eqb_refl; reflexivity.
  - (* rank 4 *)
    destruct (bind_dims bd [m0; m1; m2; m3] [8; 9; 10; 11]%nat) as [bd'|] eqn:EB; [|discriminate].
    simpl andb in H.
    destruct (mask_lead_ok bd') eqn:MLd; simpl in H; [|discriminate].
    destruct (mask_last_ok (mi_has_past i) bd') eqn:ML; simpl in H; [|discriminate].
    assert (L8 : lookup bd' 8%nat = Some m0) by (eapply bind_dims_binds with (j := 0%nat); [exact EB| |]; reflexivity).
    assert (L9 : lookup bd' 9%nat = Some m1) by (eapply bind_dims_binds with (j := 1%nat); [exact EB| |]; reflexivity).
    assert (L10 : lookup bd' 10%nat = Some m2) by (eapply bind_dims_binds with (j := 2%nat); [exact EB| |]; reflexivity).
    assert (L11 : lookup bd' 11%nat = Some m3) by (eapply bind_dims_binds with (j := 3%nat); [exact EB| |]; reflexivity).
    assert (L0' : lookup bd' 0%nat = Some B) by (eapply bind_dims_preserves; eauto).
    assert (L1' : lookup bd' 1%nat = Some S) by (eapply bind_dims_preserves; eauto).
    assert (L3' : lookup bd' 3%nat = Some h') by (eapply bind_dims_preserves; eauto).
    assert (L5' : lookup bd' 5%nat = Some Skv) by (eapply bind_dims_preserves; eauto).
    rewrite L10, L1' in H.
    destruct (mask_dim2_rule S m2) as [ub'|] eqn:R; [|discriminate].
    destruct (is_static h') eqn:ST; [|discriminate]. inversion H; subst h' ub'. clear H.
    unfold mask_lead_ok in MLd. rewrite L8, L9, L0', L3' in MLd. apply andb_prop in MLd. destruct MLd as [MB MH].
    apply orb_prop in MB. apply orb_prop in MH.
    unfold mask_last_ok in ML. rewrite L11, L5' in ML. simpl in HL.
    assert (m3 = T).
    { destruct HL as [|E1]; auto. subst m3. simpl in ML. apply andb_prop in ML. destruct ML as [NP SK].
      apply Z.eqb_eq in SK. rewrite HT; auto. destruct (mi_has_past i); auto; discriminate. }
    subst m3. apply mha_mask_after_ok; auto.
    split; [destruct MB as [E|E] | destruct MH as [E|E]]; apply Z.eqb_eq in E; auto.
Qed.
(* the two witnesses of the as-read findings are refused by the repaired check *)
Theorem mha_mask_witnesses_refused_by_repair :
  mha_check_rewrite true (mk_mha_in false true true (Some [2; 3; 8]%Z) (Some [2; 3; 2; 4]%Z) (Some [2; 3; 8]%Z) (Some [2; 3; 8]%Z) None None (Some (Some [2; 1; 3; 1]%Z))) = None
  /\ mha_check_rewrite true (mk_mha_in false true true (Some [1; 3; 8]%Z) (Some [1; 3; 2; 4]%Z) (Some [1; 3; 8]%Z) (Some [1; 3; 8]%Z) None None (Some (Some [3; 1; 3; 3]%Z))) = None.
Proof. split; vm_compute; reflexivity. Qed.
Example mha_check_strict_mask_fires :
  mha_check_rewrite true (mk_mha_in false true true (Some [2; 3; 8]%Z) (Some [2; 3; 2; 4]%Z) (Some [2; 5; 8]%Z) (Some [2; 5; 8]%Z) None None (Some (Some [2; 1; 1; 5]%Z))) = Some (2%Z, true).
Proof. vm_compute. reflexivity. Qed.

(* sdpa_via_mha: accepted => H static *)
Lemma sdpa_via_mha_check_static : forall kb q k v h, sdpa_via_mha_check kb q k v = Some h -> (0 <= h)%Z.
Proof.
  intros kb q k v h. unfold sdpa_via_mha_check.
  destruct (check_shape _ k _) as [bd|]; [|discriminate]. destruct (lookup bd 1%nat) as [x|]; [|discriminate].
  destruct (is_static x) eqn:E; [|discriminate]. intro H; inversion H; subst. apply Z.leb_le in E. auto.
Qed.

(* ---- SDPA.check, shape part: the repair (fix 9ed3615) makes every accepted match lowerable and keeps masks inside the score shape *)
Ltac split_eqb H :=
  repeat match type of H with context [Z.eqb ?x ?y] => let E := fresh "E" in destruct (Z.eqb x y) eqn:E; simpl in H; try discriminate end.
Ltac eqb_subst := repeat match goal with E : Z.eqb _ _ = true |- _ => apply Z.eqb_eq in E end; subst.

Theorem sdpa_check_fixed_lowerable : forall st kb q k v m, sdpa_check true st kb q k v m = true ->
  exists h, sdpa_via_mha_check kb q k v = Some h /\ (0 <= h)%Z.
Proof.
  intros st kb q k v m H. unfold sdpa_check in H. unfold sdpa_via_mha_check.
  destruct q as [[|a [|b [|c [|d [|? ?]]]]]|]; simpl in H; try discriminate.
  destruct k as [[|a1 [|b1 [|c1 [|d1 [|? ?]]]]]|]; try (destruct kb; simpl in H; discriminate).
  all: destruct kb; simpl in H; split_eqb H.
  all: destruct v as [[|a2 [|b2 [|c2 [|d2 [|? ?]]]]]|]; simpl in H; try discriminate; split_eqb H.
  all: eqb_subst; apply andb_prop in H; destruct H as [_ Hs]; exists b; repeat (progress (simpl; rewrite ?Z.eqb_refl)); unfold is_static in *; rewrite Hs;
    (split; [reflexivity | apply Z.leb_le; exact Hs]).
Qed.
Theorem sdpa_check_as_read_refuted : exists kb q k v, sdpa_check false false kb q k v None = true /\ sdpa_via_mha_check kb q k v = None
  /\ sdpa_check true false kb q k v None = false.
Proof. exists true, (Some [2; -2; 3; 4]%Z), (Some [2; -2; 5; 4]%Z), (Some [2; -2; 5; 4]%Z). repeat split; vm_compute; reflexivity. Qed.

(* mask: with static dims the repaired check admits exactly masks that NumPy-broadcast INTO the score shape *)
Lemma mask_rev_static : forall st m c, (0 <= m)%Z -> (0 <= c)%Z ->
  negb (is_static m && (st || is_static c) && negb (m =? 1)%Z && negb (m =? c)%Z) = ((m =? 1) || (m =? c))%Z.
Proof.
  intros st m c Hm Hc. unfold is_static. apply Z.leb_le in Hm, Hc. rewrite Hm, Hc. rewrite orb_true_r. simpl.
  destruct (m =? 1)%Z, (m =? c)%Z; reflexivity.
Qed.
Theorem sdpa_mask_fixed_into_score : forall st ms B H S T,
  (forall d, In d ms -> 0 <= d)%Z -> (0 <= B)%Z -> (0 <= H)%Z -> (0 <= S)%Z -> (0 <= T)%Z ->
  mask_into_score st ms [B; H; S; T] = true -> numpy_broadcastable (pad4 ms) [B; H; S; T] = true.
Proof.
  intros st ms B H S T Hms HB HH HS HT. unfold mask_into_score, pad4.
  destruct ms as [|m0 [|m1 [|m2 [|m3 [|m4 r]]]]]; simpl; try discriminate; auto.
  all: repeat rewrite mask_rev_static by (try assumption; apply Hms; simpl; auto 6).
  all: rewrite ?andb_true_r; auto.
  all: intro E; repeat (apply andb_prop in E; destruct E as [? E]); repeat (apply andb_true_intro; split); auto.
Qed.
(* strict variant, ANY score dims (static or symbolic codes): every static mask dim is 1 or IS the score dim it is aligned with --
   nothing is left to the run-time value of a symbolic dim *)
Theorem sdpa_mask_strict_static_dims : forall ms B H S T, length ms = 4%nat ->
  mask_into_score true ms [B; H; S; T] = true ->
  Forall2 (fun m c => (0 <= m)%Z -> m = 1%Z \/ m = c) ms [B; H; S; T].
Proof.
  intros ms B H S T L. destruct ms as [|m0 [|m1 [|m2 [|m3 [|? ?]]]]]; try discriminate. unfold mask_into_score. simpl.
  intro E. repeat (apply andb_prop in E; destruct E as [? E]).
  assert (K : forall m c, negb (is_static m && true && negb (m =? 1)%Z && negb (m =? c)%Z) = true -> (0 <= m)%Z -> m = 1%Z \/ m = c).
  { intros m c X Hm. unfold is_static in X. apply Z.leb_le in Hm. rewrite Hm in X. simpl in X.
    destruct (Z.eqb_spec m 1); auto. destruct (Z.eqb_spec m c); auto. discriminate. }
  constructor; [apply K; assumption|]. constructor; [apply K; assumption|]. constructor; [apply K; assumption|].
  constructor; [apply K; assumption|]. constructor.
Qed.
(* FINDING (known, C19:sdpa:static-mask-dim-against-symbolic-score-dim): as committed, a mask [2,1,S,T] against a symbolic batch is accepted *)
Theorem sdpa_mask_symbolic_refuted : exists q k v ms, sdpa_check true false true q k v (Some (Some ms)) = true
  /\ sdpa_check true true true q k v (Some (Some ms)) = false
  /\ nth 0 ms 0%Z = 2%Z /\ (forall b, q = Some b -> nth 0 b 0%Z < 0)%Z.
Proof.
  exists (Some [-2; 3; 2; 2]%Z), (Some [-2; 3; 4; 2]%Z), (Some [-2; 3; 4; 4]%Z), [2; 3; 1; 4]%Z.
  repeat split; try (vm_compute; reflexivity). intros b E. inversion E; subst. simpl. lia.
Qed.



(* GroupQueryAttention.check: what it establishes ... *)
Theorem gqa_check_sound : forall st h16 i h hkv il, gqa_check_rewrite st h16 i = Some (h, hkv, il) ->
  (0 <= h)%Z /\ (0 <= hkv)%Z /\ dim_at (gi_query4 i) 2 = Some h /\ dim_at (gi_key4 i) 2 = Some hkv
  /\ gi_q_interleaved i = il /\ gi_k_interleaved i = il /\ gi_mask_has_producer i = true
  /\ (st = true -> gi_mask_is_causal_pattern i = true).
Proof.
  intros st h16 i h hkv il. unfold gqa_check_rewrite.
  destruct (gi_q_norm_twice i || gi_k_norm_twice i); [discriminate|].
  match goal with |- match ?b with _ => _ end = _ -> _ => destruct b; [|discriminate] end.
  destruct (dim_at (gi_query4 i) 2) as [x|]; [|discriminate]. destruct (dim_at (gi_key4 i) 2) as [y|]; [|discriminate].
  destruct (is_static x) eqn:E1; simpl; [|discriminate]. destruct (is_static y) eqn:E2; simpl; [|discriminate].
  destruct (Z.eqb (gi_q_interleaved i) (gi_k_interleaved i)) eqn:E3; simpl; [|discriminate].
  destruct (gi_mask_has_producer i) eqn:E4; simpl; [|discriminate].
  destruct (negb st || gi_mask_is_causal_pattern i) eqn:E5; simpl; [|discriminate].
  match goal with |- (if ?c then _ else _) = _ -> _ => destruct c; [|discriminate] end.
  intro H; inversion H; subst. apply Z.leb_le in E1, E2. apply Z.eqb_eq in E3.
  repeat split; auto. intro; subst st. simpl in E5. auto.
Qed.
(* ... and what it does not: (1) the head size the CPU kernel needs with do_rotary (known finding, proposed patch);
   (2) AS WRITTEN (`_causal_mask_pattern.match(...) is None`) a mask that is not the causal pattern is accepted and
   silently replaced by the operator's causal masking *)
Definition gqa_witness (dh : Z) (causal : bool) : gqa_in :=
  mk_gqa_in (Some [-2; -3; 4 * dh]%Z) (Some [-2; -3; 2 * dh]%Z) (Some [-2; -3; 2 * dh]%Z)
            (Some (Some [-2; 2; -4; dh]%Z)) (Some (Some [-2; 2; -4; dh]%Z))
            (Some [-2; -3; 4; dh]%Z) (Some [-2; -3; 2; dh]%Z) 0 0 false false true causal.
Theorem gqa_check_head_size_refuted : exists i h hkv il dh,
  gqa_check_rewrite true false i = Some (h, hkv, il) /\ dim_at (gi_query4 i) 3 = Some dh /\ gqa_kernel_ok h hkv dh = false.
Proof. exists (gqa_witness 8 true), 4%Z, 2%Z, 0%Z, 8%Z. repeat split; vm_compute; reflexivity. Qed.
Theorem gqa_check_mask_refuted : exists i h hkv il,
  gqa_check_rewrite false false i = Some (h, hkv, il) /\ gi_mask_is_causal_pattern i = false /\ gqa_check_rewrite true false i = None.
Proof. exists (gqa_witness 16 false), 4%Z, 2%Z, 0%Z. repeat split; vm_compute; reflexivity. Qed.
Example gqa_check_fires : gqa_check_rewrite true true (gqa_witness 16 true) = Some (4, 2, 0)%Z /\ gqa_kernel_ok 4 2 16 = true.
Proof. split; vm_compute; reflexivity. Qed.

(* the repair of the head-size finding (head16 = true): an accepted instance has a static head size divisible by 16, and
   with kv_num_heads | num_heads everything the CPU kernel needs *)
Theorem gqa_check_head16_sufficient : forall st i h hkv il, gqa_check_rewrite st true i = Some (h, hkv, il) ->
  exists dh, dim_at (gi_query4 i) 3 = Some dh /\ (0 <= dh)%Z /\ (dh mod 16 = 0)%Z
    /\ ((0 < hkv)%Z -> (h mod hkv = 0)%Z -> gqa_kernel_ok h hkv dh = true).
Proof.
  intros st i h hkv il. unfold gqa_check_rewrite.
  destruct (gi_q_norm_twice i || gi_k_norm_twice i); [discriminate|].
  match goal with |- match ?b with _ => _ end = _ -> _ => destruct b; [|discriminate] end.
  destruct (dim_at (gi_query4 i) 2) as [x|]; [|discriminate]. destruct (dim_at (gi_key4 i) 2) as [y|]; [|discriminate].
  match goal with |- (if ?c then _ else _) = _ -> _ => destruct c eqn:E; [|discriminate] end.
  intro H; inversion H; subst. apply andb_prop in E. destruct E as [_ E]. simpl in E.
  destruct (dim_at (gi_query4 i) 3) as [dh|]; [|discriminate].
  apply andb_prop in E. destruct E as [E1 E2]. apply Z.leb_le in E1. apply Z.eqb_eq in E2.
  exists dh. repeat split; auto. intros Hk Hm. unfold gqa_kernel_ok.
  rewrite Hm, E2. simpl. apply Z.ltb_lt in Hk. rewrite Hk. reflexivity.
Qed.
Theorem gqa_head16_witness_refused_by_repair : gqa_check_rewrite true true (gqa_witness 8 true) = None
  /\ gqa_check_rewrite false true (gqa_witness 24 true) = None.
Proof. split; vm_compute; reflexivity. Qed.

(* AttentionFusion.check: with one packed projection the three slices tile the projected hidden size *)
Theorem att_check_sound : forall i dq dk dv, att_check_rewrite i = Some (dq, dk, dv) ->
  (0 <= dq /\ 0 <= dk /\ 0 <= dv)%Z.
Proof.
  intros i dq dk dv. unfold att_check_rewrite.
  match goal with |- match ?b with _ => _ end = _ -> _ => destruct b as [bd|]; [|discriminate] end.
  destruct (lookup bd 4%nat) as [a|]; [|discriminate]. destruct (lookup bd 5%nat) as [b|]; [|discriminate].
  destruct (lookup bd 6%nat) as [c|]; [|discriminate].
  destruct (is_static a) eqn:E1; simpl; [|discriminate]. destruct (is_static b) eqn:E2; simpl; [|discriminate].
  destruct (is_static c) eqn:E3; simpl; [|discriminate].
  match goal with |- (if ?x then _ else _) = _ -> _ => destruct x; [|discriminate] end.
  intro H; inversion H; subst. apply Z.leb_le in E1, E2, E3. auto.
Qed.
(* Attention's packed weight: MatMul(input, Concat(Wq, Wk, Wv, axis=1)) sliced at the hidden sizes = the three MatMuls
   (one row of the input against the columns of the weights; [dot] arbitrary) *)
Theorem attention_packed_projection : forall (A R : Type) (dot : list A -> list A -> R) (row : list A) (wq wk wv : list (list A)),
  let proj := map (dot row) (wq ++ wk ++ wv) in
  firstn (length wq) proj = map (dot row) wq
  /\ firstn (length wk) (skipn (length wq) proj) = map (dot row) wk
  /\ skipn (length wq + length wk) proj = map (dot row) wv.
Proof.
  intros. unfold proj. rewrite !map_app.
  assert (L : forall l : list (list A), length (map (dot row) l) = length l) by (intros; apply map_length).
  repeat split.
  - rewrite <- (L wq). rewrite firstn_app, Nat.sub_diag, firstn_all. simpl. apply app_nil_r.
  - rewrite <- (L wq). rewrite skipn_app, skipn_all, Nat.sub_diag. simpl.
    rewrite <- (L wk). rewrite firstn_app, Nat.sub_diag, firstn_all. simpl. apply app_nil_r.
  - rewrite <- (L wq), <- (L wk). rewrite <- app_length. rewrite app_assoc. rewrite skipn_app, skipn_all, Nat.sub_diag. reflexivity.
Qed.

(* ---- non-vacuity *)
(* B=1, S=T=2, H=2, Dh=Dv=1; a per-head function that is not the identity (reverses the query rows): the packed result
   interleaves the heads again *)
Example mha_pattern_computes :
  mha_pattern nat 0 (fun Q _ _ _ => rev Q) 1 2 2 2 1 1 [1; 2; 3; 4] [5; 6; 7; 8] [9; 10; 11; 12] (fun _ _ => None) = [3; 4; 1; 2].
Proof. vm_compute. reflexivity. Qed.
(* Hkv=1, G=2: both query heads read the one kv head (the per-head function returns the key rows) *)
Example gqa_pattern_computes :
  gqa_pattern nat 0 (fun _ K _ _ => K) 1 2 2 1 2 1 [1; 2; 3; 4] [5; 6] [7; 8] (fun _ _ => None) = [5; 5; 6; 6].
Proof. vm_compute. reflexivity. Qed.
Example mha_check_sufficient_satisfiable :
  let i := mk_mha_in false true true (Some [-2; -3; 8]%Z) (Some [-2; -3; 2; 4]%Z) (Some [-2; -3; 8]%Z) (Some [-2; -3; 8]%Z) None None
                     (Some (Some [1; 1; 1; -3]%Z)) in
  let val := fun d : Z => if Z.eqb d (-2) then 2%Z else if Z.eqb d (-3) then 3%Z else d in
  mha_check_rewrite true i = Some (2%Z, true) /\ consistent val
  /\ option_map (map val) (mi_query i) = Some [2; 3; 8]%Z /\ option_map (map val) (mi_query4 i) = Some [2; 3; 2; 4]%Z
  /\ zprod [2; 3; 8]%Z = zprod [2; 3; 2; 4]%Z.
Proof.
  repeat split; try (vm_compute; reflexivity).
  intros d Hd. destruct (Z.eqb d (-2)) eqn:E1; [apply Z.eqb_eq in E1; lia|].
  destruct (Z.eqb d (-3)) eqn:E2; [apply Z.eqb_eq in E2; lia|]. reflexivity.
Qed.
Example mask_broadcast_expand_computes :
  mask_numpy nat 0 1 1 1 2 2 [7; 8] 0 1 = [[7; 8]; [7; 8]] /\ expand_S nat 0 1 1 2 2 [7; 8] = [7; 8; 7; 8].
Proof. split; vm_compute; reflexivity. Qed.
