(* C12 property theorems, part 2: the Python OPERATOR spellings (`x != 2.5`, `2 * x`, `1 < x`, ...).
   Model: coq/Autocast/Operators.v; proofs: coq/Autocast/OperatorsProofs.v; tables regenerated on every run:
   coq/Gen/C12Operators.v (converter.py: primop_map and the two binary translators partially evaluated on every operator
   name; tensor.py: the Tensor operator methods) and coq/Gen/Schemas.v (onnx.defs).

   `promote_spelling all v sp args`: what the operands of `a <sym> b` become on their way to the node the converter emits
   in an opset of version v: static_cast_inputs driven by the signature of values.Op(default_opset, <sp_cast>) -- a name
   WITHOUT a schema has signature None and the cast is skipped silently.  `promote_op_static all v name args`: the same
   operands in an explicit call op.<name>(a, b).
   Not covered: spellings the converter does not translate (// ^ ~ << >> unary +, and / or, chained comparisons, augmented
   assignment: refused with a located error; the translator fails closed if one of them appears in converter.py); the
   operand ORDER and the attributes of the emitted node (fmod of `%`): C01. *)
From Coq Require Import NArith List Bool String.
Require Import OV.Autocast.Autocast OV.Autocast.AutocastProofs OV.Autocast.Operators OV.Autocast.OperatorsProofs.
Require OV.Gen.Schemas OV.Gen.C12Operators.
Import ListNotations.

(* -- the model's schema lookup is onnx.defs.get_schema on the registry: a schema of that name, not newer than the opset,
      and the newest such -- *)
Theorem C12_lookup_schema_sound : forall all name v s, lookup_schema all name v = Some s ->
  In s all /\ s_name s = name /\ (s_ver s <= v)%N.
Proof. exact lookup_schema_sound. Qed.
Print Assumptions C12_lookup_schema_sound.

Theorem C12_lookup_schema_newest : forall all name v s s', lookup_schema all name v = Some s ->
  In s' all -> s_name s' = name -> (s_ver s' <= v)%N -> (s_ver s' <= s_ver s)%N.
Proof. exact lookup_schema_newest. Qed.
Print Assumptions C12_lookup_schema_newest.

(* -- for every entry of the regenerated operator table and every opset 13..23: promotion through the spelling =
      promotion through the operator it maps to (`!=`: the literal is promoted against Equal's type constraint) -- *)
Theorem C12_operator_spelling_is_op : forall sp v,
  In sp OV.Gen.C12Operators.converter_spellings -> In v opsets ->
  exists s, lookup_schema OV.Gen.Schemas.all (sp_emit sp) v = Some s /\ schema_okb s = true /\
            forall args, promote_spelling OV.Gen.Schemas.all v sp args = promote_static s args
                         /\ promote_op_static OV.Gen.Schemas.all v (sp_emit sp) args = promote_static s args.
Proof. exact operator_spelling_is_op. Qed.
Print Assumptions C12_operator_spelling_is_op.

(* -- ... and therefore gives a plain literal the element type the rule names -- *)
Theorem C12_operator_spelling_follows_rule : forall sp v args slots pre post l p outs s,
  In sp OV.Gen.C12Operators.converter_spellings -> In v opsets ->
  lookup_schema OV.Gen.Schemas.all (sp_emit sp) v = Some s -> plainb l = true ->
  annotate s args = OK slots -> slots = (pre ++ (ALit l, p) :: post)%list ->
  promote_spelling OV.Gen.Schemas.all v sp args = OK outs ->
  exists o, nth_error outs (List.length pre) = Some o /\ out_literal o = Some l /\
            exists d, out_dtype o = Some d /\ spec_dtype (pre ++ post)%list l p d.
Proof. exact operator_spelling_follows_rule. Qed.
Print Assumptions C12_operator_spelling_follows_rule.

(* -- a cast-like step driven by the python operator's own name ("NotEqual" has no schema) promotes nothing: the
      2.5 of `x != 2.5` beside a DOUBLE tensor stays FLOAT, while op.Equal(x, 2.5) casts it -- *)
Theorem C12_spelling_by_unmapped_name_refuted :
  spelling_okb OV.Gen.Schemas.all 18 sp_ne_by_name = false /\
  promote_spelling OV.Gen.Schemas.all 18 sp_ne_by_name [ATensor DOUBLE true; ALit (LScalar (SFloat false 5 1))]
    = OK [OKeep (ATensor DOUBLE true); OConst (LScalar (SFloat false 5 1)) FLOAT] /\
  promote_op_static OV.Gen.Schemas.all 18 "Equal" [ATensor DOUBLE true; ALit (LScalar (SFloat false 5 1))]
    = OK [OKeep (ATensor DOUBLE true); OCastLike (LScalar (SFloat false 5 1)) FLOAT DOUBLE].
Proof. exact spelling_by_unmapped_name_refuted. Qed.
Print Assumptions C12_spelling_by_unmapped_name_refuted.

(* -- eager mode: every Tensor operator method (reflected ones included) calls an operator that has a schema in every
      opset 13..23, with (self, other) in the order the table says: its promotion is promote_eager of that schema -- *)
Theorem C12_tensor_method_is_op : forall tm v self other,
  In tm OV.Gen.C12Operators.tensor_methods -> In v opsets ->
  exists s, lookup_schema OV.Gen.Schemas.all (tm_op tm) v = Some s /\ schema_okb s = true /\
            promote_method OV.Gen.Schemas.all v tm self other
              = promote_eager s (if tm_swapped tm then [other; self] else [self; other]).
Proof. exact tensor_method_is_op. Qed.
Print Assumptions C12_tensor_method_is_op.

(* -- a literal on EITHER side of a binary operator whose inputs share a type variable gets the tensor's type, in the
      translated graph and in eager mode -- *)
Theorem C12_binary_shared_either_side : forall s, binary_sharedb s = true -> forall l d k,
  promote_static s [ATensor d k; ALit l] = OK [OKeep (ATensor d k); OCastLike l (ir_default_dtype l) d] /\
  promote_static s [ALit l; ATensor d k] = OK [OCastLike l (ir_default_dtype l) d; OKeep (ATensor d k)] /\
  promote_eager s [ATensor d k; ALit l] = OK [OKeep (ATensor d k); OConst l d] /\
  promote_eager s [ALit l; ATensor d k] = OK [OConst l d; OKeep (ATensor d k)].
Proof. exact binary_shared_either_side. Qed.
Print Assumptions C12_binary_shared_either_side.

(* -- which holds for + - * / % & | == < <= > >= at every opset 13..23: so `1 < x`, which Python evaluates as
      x.__gt__(1) = Greater(x, 1), and the converter's Less(1, x) give the literal the same type -- *)
Theorem C12_comparison_literal_side_irrelevant : forall n v, In n shared_names -> In v opsets ->
  exists s, lookup_schema OV.Gen.Schemas.all n v = Some s /\ forall l d k,
    promote_static s [ATensor d k; ALit l] = OK [OKeep (ATensor d k); OCastLike l (ir_default_dtype l) d] /\
    promote_static s [ALit l; ATensor d k] = OK [OCastLike l (ir_default_dtype l) d; OKeep (ATensor d k)] /\
    promote_eager s [ATensor d k; ALit l] = OK [OKeep (ATensor d k); OConst l d] /\
    promote_eager s [ALit l; ATensor d k] = OK [OConst l d; OKeep (ATensor d k)].
Proof. exact comparison_literal_side_irrelevant. Qed.
Print Assumptions C12_comparison_literal_side_irrelevant.
