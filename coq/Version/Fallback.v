(* C10 -- the C-API fallback path of onnxscript/version_converter/__init__.py as a state machine:
     _ConvertVersionPassRequiresInline.call (l.91-162), ConvertVersionPass.call (l.58-68),
     onnxscript/_framework_apis/torch_2_9.py convert_version (= the pass with fallback=True).
   The state pairs the part the native converter rewrites (Model.model: imports, node lists, functions) with the part the
   fallback touches (CApi.gsig: graph inputs with their types, outputs, the initializer table in dict order).
   The ONNX C-API converter is an ORACLE (Section variable `capi`): any function from the serialized, initializer-stripped
   model to an answer or a failure.  No proofs in this file.

   Read from the Python:
   * l.92-96   "" in opset_imports and == target -> PassResult(model, False), nothing touched;
   * l.102-109 not fallback or version_supported -> the native converter, in place; its exceptions propagate;
   * l.131-147 call_onnx_api(func) (CApi.call_onnx_api: initializers become inputs, the big ones lose their value; the
               `finally` block restores) ; ANY exception -> warning, PassResult(model, False);
   * l.149     ir.from_proto(converted_proto): a fresh graph; an initializer that is also listed as an input is ONE value;
   * l.152-155 for input in converted.inputs: if input.name in model.graph.initializers (the restored table):
               input.const_value = the ORIGINAL tensor; converted.register_initializer(input)
               (dict assignment: an existing key keeps its position, a new one goes to the end);
   * l.156-158 inputs := the first len(model.graph.inputs) inputs of the converted graph;
   * l.161     model.graph = converted.graph: nodes, graph-level opset imports (= the model's), inputs, outputs,
               initializers come from the converted graph; model.functions stay. *)
From Coq Require Import ZArith List Bool String.
Import ListNotations.
Require Import OV.Version.Model OV.Version.Model2 OV.Version.CApi.
Local Open Scope Z_scope.

Record state := St { st_model : model; st_sig : gsig }.

(* l.152-155 *)
Definition recover_step (orig : list (string * tensor)) (its : list (string * tensor)) (inp : string * Z) : list (string * tensor) :=
  match lookup_init (fst inp) orig with
  | Some v => assign_key (fst inp) v its
  | None => its
  end.
Definition recover (orig : list (string * tensor)) (conv : gsig) : list (string * tensor) :=
  fold_left (recover_step orig) (g_inputs conv) (g_inits conv).

Inductive fres :=
| FDone (S : state) (modified : bool) (log : list string)     (* PassResult(model, modified); logged skips of the native loop *)
| FRaised (e : err) (S : state) (log : list string).

(* what func (the C API) is given: the serialized model -- node versions are not part of a NodeProto *)
Definition serialized (S : state) (seen : gsig) : state := St (of_proto (st_model S)) seen.

(* model.graph = converted_model.graph *)
Definition adopt (S P : state) (after : gsig) : state :=
  let c := st_sig P in
  St (Model (m_decl (st_model P)) (m_ai (st_model P)) (m_graph (st_model P)) (m_funcs (st_model S)))
     (GSig (firstn (List.length (g_inputs (st_sig S))) (g_inputs c)) (g_outputs c) (recover (g_inits after) c)).

Section Fallback.
  Variables own refuse : bool.
  Variable minchk : minvar.
  Variable adapt : adapter.
  Variables smin smax : Z.
  Variable fuel : nat.
  Variable limit : Z.                              (* _BIG_TENSOR_SIZE_LIMIT *)
  Variable capi : state -> Z -> option state.      (* onnx.version_converter.convert_version on the proto; None = raised *)

  Definition capi_branch (S : state) (t : Z) : fres :=
    let '(seen, after) := call_onnx_api true limit (st_sig S) in
    match capi (serialized S seen) t with
    | None => FDone (St (st_model S) after) false []
    | Some P => FDone (adopt S P after) true []
    end.

  Definition requires_inline_call (fallback : bool) (S : state) (t : Z) : fres :=
    if oz_is (m_decl (st_model S)) t then FDone S false []
    else if negb fallback || supported smin smax (st_model S) t then
      match convert_native2 own refuse minchk adapt smin smax fuel (st_model S) t with
      | MDone M l => FDone (St M (st_sig S)) true l
      | MRaised e M l => FRaised e (St M (st_sig S)) l
      end
    else capi_branch S t.

  (* onnx_ir passes around it (oracles; measured): InlinePass; RemoveUnusedFunctions; RemoveUnusedOpsets before,
     RemoveUnusedNodes; RemoveUnusedFunctions; RemoveUnusedOpsets after *)
  Variables inline cleanup : state -> state.
  Definition pass_call (fallback : bool) (S : state) (t : Z) : fres :=
    match requires_inline_call fallback (inline S) t with
    | FDone S2 md l => FDone (cleanup S2) md l
    | FRaised e S2 l => FRaised e S2 l
    end.
  (* _framework_apis.torch_2_9.convert_version(model, target): version_converter.convert_version(model, target, fallback=True); return model *)
  Definition torch_2_9_convert (S : state) (t : Z) : fres := pass_call true S t.
End Fallback.

(* "declared opset matches its nodes" for a state: Model.consistent_at on the model part *)
Definition state_consistent_at (t : Z) (S : state) : bool := consistent_at t (st_model S).

