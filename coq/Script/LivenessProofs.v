(* Soundness of the *generated* liveness analysis (Gen/Analysis.v: live_stmt / live_block, translated from
   onnxscript/_internal/analysis.py on every run) with respect to the Python reading (Script/PySem.v), for
   loop-free code: two environments that agree on the variables live before a statement produce outcomes that
   agree on the variables live after it.  And the refutation of the same statement for `for` loops (the loop
   bound is not live).  The generated functions are used through small equations (proved by reflexivity on the
   current text) and set-membership lemmas only. *)
From Coq Require Import List String ZArith Bool Lia.
Require Import OV.Graph.Syntax OV.Graph.WfProofs OV.Script.Syntax OV.Script.Sets OV.Gen.Analysis OV.Gen.ScriptTables
               OV.Script.Translate OV.Script.PySem OV.Script.TranslateProofs OV.Script.AnalysisProofs
               OV.Script.TranslateExamples.
Import ListNotations.
Local Open Scope string_scope.
Local Open Scope list_scope.

(* ------------------------------------------------------------------ sets *)

Lemma In_sdiff : forall x a b, In x (sdiff a b) <-> In x a /\ ~ In x b.
Proof.
  intros x a b. unfold sdiff. rewrite filter_In. split.
  - intros [H1 H2]. split; [exact H1|]. apply negb_true_iff in H2. apply mem_false_not_In. exact H2.
  - intros [H1 H2]. split; [exact H1|]. apply negb_true_iff. destruct (mem x b) eqn:E; [|reflexivity].
    apply mem_In in E. contradiction.
Qed.

Lemma In_sinter : forall x a b, In x (sinter a b) <-> In x a /\ In x b.
Proof.
  intros x a b. unfold sinter. rewrite filter_In. split; intros [H1 H2]; (split; [exact H1|]); apply mem_In; exact H2.
Qed.

(* ------------------------------------------------------------------ the generated _used_vars, arm by arm *)

Definition used_args : list (option expr) -> sset :=
  fix go (l : list (option expr)) : sset :=
    match l with [] => [] | Some a :: t => sunion (used_vars a) (go t) | None :: t => go t end.

Definition used_kws : list (string * kwarg) -> sset :=
  fix kw (l : list (string * kwarg)) : sset :=
    match l with [] => [] | (_, KName x) :: t => sunion [x] (kw t) | _ :: t => kw t end.

Lemma used_vars_var : forall x, used_vars (EVar x) = [x].
Proof. reflexivity. Qed.
Lemma used_vars_un : forall op a, used_vars (EUn op a) = used_vars a.
Proof. reflexivity. Qed.
Lemma used_vars_bin : forall op a b, used_vars (EBin op a b) = sunion (used_vars a) (used_vars b).
Proof. reflexivity. Qed.
Lemma used_vars_cmp : forall op a b, used_vars (ECmp op a b) = sunion (used_vars a) (used_vars b).
Proof. reflexivity. Qed.
Lemma used_vars_call : forall f args kws, used_vars (ECall f args kws) = sunion (used_kws kws) (used_args args).
Proof. reflexivity. Qed.
Lemma used_vars_list_cons : forall e t, used_vars_list (e :: t) = sunion (used_vars e) (used_vars_list t).
Proof. reflexivity. Qed.

Lemma used_args_cons_some : forall a t x, In x (used_args (Some a :: t)) <-> In x (used_vars a) \/ In x (used_args t).
Proof. intros a t x. change (used_args (Some a :: t)) with (sunion (used_vars a) (used_args t)). apply In_sunion. Qed.
Lemma used_args_cons_none : forall t, used_args (None :: t) = used_args t.
Proof. reflexivity. Qed.

(* ------------------------------------------------------------------ coincidence for the Python reading of expressions *)

Section Coincidence.
  Variable V : Type.
  Variable sem : string -> string -> list (string * attrv) -> list (option V) -> option (list V).
  Variable globals : list (string * lit).

  Notation penv := (penv V).
  Notation eval_expr := (eval_expr V sem globals).
  Notation eval_args := (eval_args V sem globals).

  Definition agree_on (L : sset) (pe1 pe2 : penv) : Prop := forall x, In x L -> plookup V pe1 x = plookup V pe2 x.

  Lemma agree_on_sub : forall L L' pe1 pe2, (forall x, In x L' -> In x L) -> agree_on L pe1 pe2 -> agree_on L' pe1 pe2.
  Proof. intros L L' pe1 pe2 S A x Hx. apply A. apply S. exact Hx. Qed.

  Definition expr_coincides (e : expr) : Prop :=
    forall pe1 pe2, agree_on (used_vars e) pe1 pe2 -> eval_expr pe1 e = eval_expr pe2 e.

  Lemma eval_args_agree : forall args,
    Forall (fun o => match o with Some a => expr_coincides a | None => True end) args ->
    forall pe1 pe2, agree_on (used_args args) pe1 pe2 -> eval_args pe1 args = eval_args pe2 args.
  Proof.
    induction args as [|[a|] t IH]; intros HF pe1 pe2 A; [reflexivity| |].
    - inversion HF as [|o l Ha Ht]; subst.
      change (eval_args pe1 (Some a :: t)) with
        (match eval_expr pe1 a, eval_args pe1 t with Some v, Some vs => Some (Some v :: vs) | _, _ => None end).
      change (eval_args pe2 (Some a :: t)) with
        (match eval_expr pe2 a, eval_args pe2 t with Some v, Some vs => Some (Some v :: vs) | _, _ => None end).
      rewrite (Ha pe1 pe2), (IH Ht pe1 pe2); [reflexivity | |];
        intros x Hx; apply A; apply used_args_cons_some; auto.
    - inversion HF as [|o l Ha Ht]; subst.
      change (eval_args pe1 (None :: t)) with (option_map (cons None) (eval_args pe1 t)).
      change (eval_args pe2 (None :: t)) with (option_map (cons None) (eval_args pe2 t)).
      rewrite (IH Ht pe1 pe2); [reflexivity|]. exact A.
  Qed.

  Theorem eval_expr_agree : forall e, expr_coincides e.
  Proof.
    apply expr_ind'; unfold expr_coincides.
    - intros x pe1 pe2 A. cbn [PySem.eval_expr]. rewrite (A x); [reflexivity | left; reflexivity].
    - intros l pe1 pe2 _. reflexivity.
    - intros op a IHa pe1 pe2 A. cbn [PySem.eval_expr]. rewrite (IHa pe1 pe2 A). reflexivity.
    - intros op a b IHa IHb pe1 pe2 A. rewrite used_vars_bin in A. cbn [PySem.eval_expr].
      rewrite (IHa pe1 pe2), (IHb pe1 pe2); [reflexivity | |]; intros x Hx; apply A; apply In_sunion; auto.
    - intros op a b IHa IHb pe1 pe2 A. rewrite used_vars_cmp in A. cbn [PySem.eval_expr].
      rewrite (IHa pe1 pe2), (IHb pe1 pe2); [reflexivity | |]; intros x Hx; apply A; apply In_sunion; auto.
    - intros f args kws HF pe1 pe2 A. rewrite used_vars_call in A. rewrite !eval_expr_call_eq.
      rewrite (eval_args_agree args HF pe1 pe2); [reflexivity|].
      intros x Hx. apply A. apply In_sunion. right. exact Hx.
  Qed.

  Lemma eval_call_multi_agree : forall e pe1 pe2, agree_on (used_vars e) pe1 pe2 ->
    eval_call_multi V sem globals pe1 e = eval_call_multi V sem globals pe2 e.
  Proof.
    intros e pe1 pe2 A. destruct e as [x|l|op a|op a b|op a b|f args kws]; try reflexivity.
    rewrite used_vars_call in A. rewrite !eval_call_multi_eq.
    rewrite (eval_args_agree args) with (pe2 := pe2); [reflexivity | |].
    - clear. induction args as [|[a|] t IH]; constructor; auto. apply eval_expr_agree.
    - intros x Hx. apply A. apply In_sunion. right. exact Hx.
  Qed.

  Lemma eval_rets_agree : forall es pe1 pe2, agree_on (used_vars_list es) pe1 pe2 ->
    eval_rets V sem globals pe1 es = eval_rets V sem globals pe2 es.
  Proof.
    induction es as [|e t IH]; intros pe1 pe2 A; [reflexivity|]. rewrite used_vars_list_cons in A.
    change (eval_rets V sem globals pe1 (e :: t)) with
      (match eval_expr pe1 e, eval_rets V sem globals pe1 t with Some v, Some vs => Some (tensor_of V v :: vs) | _, _ => None end).
    change (eval_rets V sem globals pe2 (e :: t)) with
      (match eval_expr pe2 e, eval_rets V sem globals pe2 t with Some v, Some vs => Some (tensor_of V v :: vs) | _, _ => None end).
    rewrite (eval_expr_agree e pe1 pe2), (IH pe1 pe2); [reflexivity | |]; intros x Hx; apply A; apply In_sunion; auto.
  Qed.

  (* binding the targets of a tuple assignment preserves agreement, and adds the targets *)
  Lemma pbind_agree : forall S xs vs pe1 pe2 pe1',
    agree_on S pe1 pe2 -> pbind V xs vs pe1 = Some pe1' ->
    exists pe2', pbind V xs vs pe2 = Some pe2' /\ forall x, In x S \/ In x xs -> plookup V pe1' x = plookup V pe2' x.
  Proof.
    intros S xs. revert S. induction xs as [|y t IH]; intros S [|v vt] pe1 pe2 pe1' A H; cbn [pbind] in *; try discriminate.
    - inversion H; subst. exists pe2. split; [reflexivity|]. intros x [Hx|[]]. apply A. exact Hx.
    - destruct (IH (y :: S) vt ((y, PT V v) :: pe1) ((y, PT V v) :: pe2) pe1') as (pe2' & B & C); [|exact H|].
      + intros x Hx. cbn [plookup]. destruct (String.eqb x y) eqn:E; [reflexivity|].
        destruct Hx as [Hx|Hx]; [subst; rewrite String.eqb_refl in E; discriminate | apply A; exact Hx].
      + exists pe2'. split; [exact B|]. intros x [Hx|[Hx|Hx]]; apply C; [left; right; exact Hx | left; left; exact Hx | right; exact Hx].
  Qed.
End Coincidence.

(* ------------------------------------------------------------------ the generated liveness, arm by arm *)

Section LiveEqs.
  Variable cic : expr -> option bool.
  Variable afuel : nat.

  Lemma live_block_nil : forall lo, live_block cic afuel [] lo = Some lo.
  Proof. reflexivity. Qed.
  Lemma live_block_cons : forall s r lo,
    live_block cic afuel (s :: r) lo = match live_block cic afuel r lo with Some l1 => live_stmt cic afuel s l1 | None => None end.
  Proof. reflexivity. Qed.
  Lemma live_assign : forall x e lo, live_stmt cic afuel (SAssign x e) lo = Some (sunion (sdiff lo [x]) (used_vars e)).
  Proof. reflexivity. Qed.
  Lemma live_tuple : forall xs e lo, live_stmt cic afuel (STuple xs e) lo = Some (sunion (sdiff lo xs) (used_vars e)).
  Proof. reflexivity. Qed.
  Lemma live_break : forall lo, live_stmt cic afuel SBreak lo = Some lo.
  Proof. reflexivity. Qed.
  Lemma live_return : forall es lo, live_stmt cic afuel (SReturn es) lo = Some (used_vars_list es).
  Proof. reflexivity. Qed.
  Lemma live_if : forall c t f lo,
    live_stmt cic afuel (SIf c t f) lo =
    match cic c with
    | None => match live_block cic afuel t lo with
              | Some l1 => match live_block cic afuel f lo with
                           | Some l2 => Some (sunion (sunion l1 l2) (used_vars c))
                           | None => None
                           end
              | None => None
              end
    | Some true => live_block cic afuel t lo
    | Some false => live_block cic afuel f lo
    end.
  Proof. reflexivity. Qed.
End LiveEqs.

(* ------------------------------------------------------------------ loop-free statements *)

(* no for/while at any depth; `break` only where nothing follows it in the enclosing blocks (tail = true) *)
Fixpoint lf_stmt (tail : bool) (s : stmt) : bool :=
  match s with
  | SAssign _ _ | STuple _ _ | SReturn _ => true
  | SBreak => tail
  | SIf c t f =>
    (fix blk (l : list stmt) : bool :=
       match l with [] => true | s0 :: r => lf_stmt (tail && is_nil r) s0 && blk r end) t &&
    (fix blk (l : list stmt) : bool :=
       match l with [] => true | s0 :: r => lf_stmt (tail && is_nil r) s0 && blk r end) f
  | SFor _ _ _ | SWhile _ _ => false
  end.

Definition lf_block (tail : bool) : list stmt -> bool :=
  fix blk (l : list stmt) : bool :=
    match l with [] => true | s0 :: r => lf_stmt (tail && is_nil r) s0 && blk r end.

Lemma lf_block_cons : forall tail s0 r, lf_block tail (s0 :: r) = lf_stmt (tail && is_nil r) s0 && lf_block tail r.
Proof. reflexivity. Qed.

Lemma lf_if : forall tail c t f, lf_stmt tail (SIf c t f) = lf_block tail t && lf_block tail f.
Proof. reflexivity. Qed.

Section LiveSound.
  Variable V : Type.
  Variable sem : string -> string -> list (string * attrv) -> list (option V) -> option (list V).
  Variable truth : V -> option bool.
  Variable trip : V -> option nat.
  Variable of_nat : nat -> V.
  Variable while_limit : nat.
  Variable globals : list (string * lit).
  Variable cic : expr -> option bool.
  Variable afuel : nat.
  Variable K : sset.               (* the names the constant conditions read *)

  Notation penv := (penv V).
  Notation outcome := (outcome V).
  Notation eval_expr := (eval_expr V sem globals).
  Notation exec_block := (exec_block V sem truth trip of_nat while_limit globals).
  Notation exec_stmt1 := (exec_stmt1 V sem truth trip of_nat while_limit globals).
  Notation agree_on := (agree_on V).

  Hypothesis cic_sound : forall c b pe v, cic c = Some b -> eval_expr pe c = Some v -> ptruth V truth v = Some b.
  Hypothesis cic_reads : forall c b, cic c = Some b -> incl (used_vars c) K.

  (* agreement on a set of names and on K *)
  Definition agreeK (L : sset) (pe1 pe2 : penv) : Prop := forall x, In x L \/ In x K -> plookup V pe1 x = plookup V pe2 x.

  Definition out_rel (tail : bool) (lo : sset) (o1 o2 : outcome) : Prop :=
    match o1, o2 with
    | ONormal _ a, ONormal _ b => agreeK lo a b
    | OBreak _ a, OBreak _ b => tail = true /\ agreeK lo a b
    | OReturn _ v1, OReturn _ v2 => v1 = v2
    | _, _ => False
    end.

  Definition block_sound (fu : nat) : Prop :=
    forall ss tail lo li pe1 pe2 o1,
      lf_block tail ss = true -> live_block cic afuel ss lo = Some li -> agreeK li pe1 pe2 ->
      exec_block fu ss pe1 = Some o1 ->
      exists o2, exec_block fu ss pe2 = Some o2 /\ out_rel tail lo o1 o2.

  Lemma agreeK_on : forall L S pe1 pe2, agreeK L pe1 pe2 -> (forall x, In x S -> In x L \/ In x K) -> agree_on S pe1 pe2.
  Proof. intros L S pe1 pe2 A H x Hx. apply A. apply H. exact Hx. Qed.

  Lemma stmt_sound : forall fu, block_sound fu -> forall s tail lo li pe1 pe2 o1,
    lf_stmt tail s = true -> live_stmt cic afuel s lo = Some li -> agreeK li pe1 pe2 ->
    exec_stmt1 fu s pe1 = Some o1 ->
    exists o2, exec_stmt1 fu s pe2 = Some o2 /\ out_rel tail lo o1 o2.
  Proof.
    intros fu IH s tail lo li pe1 pe2 o1 Hlf Hlive A Hex.
    destruct s as [x e|xs e|c t f|i b body|c body| |es]; cbn [exec_stmt1] in *.
    - (* assignment *)
      rewrite live_assign in Hlive. inversion Hlive; subst li. clear Hlive.
      assert (Ae : agree_on (used_vars e) pe1 pe2).
      { eapply agreeK_on; [exact A|]. intros y Hy. left. apply In_sunion. right. exact Hy. }
      rewrite <- (eval_expr_agree V sem globals e pe1 pe2 Ae).
      destruct (eval_expr pe1 e) as [v|]; [|discriminate]. inversion Hex; subst o1.
      eexists. split; [reflexivity|]. cbn [out_rel]. intros y Hy. cbn [plookup].
      destruct (String.eqb y x) eqn:E; [reflexivity|]. apply A. destruct Hy as [Hy|Hy]; [left|right; exact Hy].
      apply In_sunion. left. apply In_sdiff. split; [exact Hy|]. intros [Hin|[]]. subst. rewrite String.eqb_refl in E. discriminate.
    - (* tuple assignment *)
      rewrite live_tuple in Hlive. inversion Hlive; subst li. clear Hlive.
      assert (Ae : agree_on (used_vars e) pe1 pe2).
      { eapply agreeK_on; [exact A|]. intros y Hy. left. apply In_sunion. right. exact Hy. }
      rewrite <- (eval_call_multi_agree V sem globals e pe1 pe2 Ae).
      destruct (eval_call_multi V sem globals pe1 e) as [vs|]; [|discriminate].
      destruct (pbind V xs vs pe1) as [pe1'|] eqn:Ep; [|discriminate]. inversion Hex; subst o1.
      destruct (pbind_agree V (sunion (sdiff lo xs) (used_vars e) ++ K) xs vs pe1 pe2 pe1') as (pe2' & B & C); [|exact Ep|].
      { intros y Hy. apply A. apply in_app_or in Hy. exact Hy. }
      rewrite B. eexists. split; [reflexivity|]. cbn [out_rel]. intros y Hy. apply C.
      destruct (in_dec string_dec y xs) as [Hin|Hnin]; [right; exact Hin|]. left. apply in_or_app.
      destruct Hy as [Hy|Hy]; [left|right; exact Hy]. apply In_sunion. left. apply In_sdiff. split; assumption.
    - (* if *)
      rewrite live_if in Hlive. rewrite lf_if in Hlf. apply andb_true_iff in Hlf. destruct Hlf as [Hlt Hlf].
      destruct (eval_expr pe1 c) as [vc|] eqn:Ec; [|discriminate].
      destruct (ptruth V truth vc) as [b|] eqn:Et; [|discriminate].
      destruct (cic c) as [cb|] eqn:Ecc.
      + (* constant condition: its names are in K *)
        assert (Ac : agree_on (used_vars c) pe1 pe2).
        { intros y Hy. apply A. right. eapply cic_reads; eassumption. }
        rewrite <- (eval_expr_agree V sem globals c pe1 pe2 Ac), Ec, Et.
        pose proof (cic_sound _ _ _ _ Ecc Ec) as Hb. rewrite Et in Hb. inversion Hb; subst cb.
        destruct b; eapply IH; eassumption.
      + destruct (live_block cic afuel t lo) as [l1|] eqn:E1; [|discriminate].
        destruct (live_block cic afuel f lo) as [l2|] eqn:E2; [|discriminate]. inversion Hlive; subst li. clear Hlive.
        assert (Ac : agree_on (used_vars c) pe1 pe2).
        { eapply agreeK_on; [exact A|]. intros y Hy. left. apply In_sunion. right. exact Hy. }
        rewrite <- (eval_expr_agree V sem globals c pe1 pe2 Ac), Ec, Et.
        destruct b.
        * eapply IH; [exact Hlt | exact E1 | | exact Hex].
          intros y [Hy|Hy]; apply A; [left|right; exact Hy]. apply In_sunion. left. apply In_sunion. left. exact Hy.
        * eapply IH; [exact Hlf | exact E2 | | exact Hex].
          intros y [Hy|Hy]; apply A; [left|right; exact Hy]. apply In_sunion. left. apply In_sunion. right. exact Hy.
    - discriminate Hlf.
    - discriminate Hlf.
    - (* break *)
      rewrite live_break in Hlive. inversion Hlive; subst li. inversion Hex; subst o1. cbn [lf_stmt] in Hlf.
      eexists. split; [reflexivity|]. cbn [out_rel]. split; [exact Hlf | exact A].
    - (* return *)
      rewrite live_return in Hlive. inversion Hlive; subst li. clear Hlive.
      fold (eval_rets V sem globals pe1) in Hex. fold (eval_rets V sem globals pe2).
      assert (Ae : agree_on (used_vars_list es) pe1 pe2).
      { eapply agreeK_on; [exact A|]. intros y Hy. left. exact Hy. }
      rewrite <- (eval_rets_agree V sem globals es pe1 pe2 Ae).
      destruct (eval_rets V sem globals pe1 es) as [vs|]; [|discriminate]. inversion Hex; subst o1.
      eexists. split; [reflexivity|]. reflexivity.
  Qed.

  Theorem live_block_sound_lf : forall fu, block_sound fu.
  Proof.
    induction fu as [|fu IH]; intros ss tail lo li pe1 pe2 o1 Hlf Hlive A Hex; [discriminate Hex|].
    revert tail lo li pe1 pe2 o1 Hlf Hlive A Hex. induction ss as [|s rest IHs]; intros tail lo li pe1 pe2 o1 Hlf Hlive A Hex.
    - rewrite live_block_nil in Hlive. inversion Hlive; subst li. cbn in Hex. inversion Hex; subst o1.
      eexists. split; [reflexivity|]. exact A.
    - rewrite live_block_cons in Hlive. destruct (live_block cic afuel rest lo) as [l1|] eqn:El; [|discriminate].
      rewrite lf_block_cons in Hlf. apply andb_true_iff in Hlf. destruct Hlf as [Hls Hlr].
      rewrite exec_block_cons in Hex. rewrite exec_block_cons.
      destruct (exec_stmt1 fu s pe1) as [o|] eqn:Es; [|discriminate].
      destruct (stmt_sound fu IH s _ l1 li pe1 pe2 o Hls Hlive A Es) as (o2 & Es2 & R). rewrite Es2.
      destruct o as [a|a|v1], o2 as [b|b|v2]; cbn [out_rel] in R; try contradiction.
      + eapply IHs; eassumption.
      + inversion Hex; subst o1. destruct R as [Ht R]. apply andb_true_iff in Ht. destruct Ht as [Ht Hn].
        destruct rest; [|discriminate Hn]. rewrite live_block_nil in El. inversion El; subst l1.
        eexists. split; [reflexivity|]. cbn [out_rel]. split; assumption.
      + inversion Hex; subst o1. eexists. split; [reflexivity|]. exact R.
  Qed.

  (* the statement of C01_live_in_sound_full, for loop-free statements *)
  Theorem live_in_sound_loopfree : forall fuel s lo li pe1 pe2 o1,
    lf_stmt true s = true ->
    live_stmt cic afuel s lo = Some li ->
    (forall x, In x li \/ In x K -> plookup V pe1 x = plookup V pe2 x) ->
    exec_block fuel [s] pe1 = Some o1 ->
    exists o2, exec_block fuel [s] pe2 = Some o2 /\
      match o1, o2 with
      | ONormal _ a, ONormal _ b | OBreak _ a, OBreak _ b => forall x, In x lo \/ In x K -> plookup V a x = plookup V b x
      | OReturn _ v1, OReturn _ v2 => v1 = v2
      | _, _ => False
      end.
  Proof.
    intros fuel s lo li pe1 pe2 o1 Hlf Hlive A Hex.
    assert (H1 : lf_block true [s] = true).
    { rewrite lf_block_cons. cbn [is_nil andb lf_block]. rewrite Hlf. reflexivity. }
    assert (H2 : live_block cic afuel [s] lo = Some li).
    { rewrite live_block_cons, live_block_nil. exact Hlive. }
    destruct (live_block_sound_lf fuel [s] true lo li pe1 pe2 o1 H1 H2 A Hex) as (o2 & E2 & R).
    exists o2. split; [exact E2|]. destruct o1, o2; cbn [out_rel] in R; try contradiction; try exact R. apply R.
  Qed.
End LiveSound.

(* ------------------------------------------------------------------ `for`: the loop bound is not live *)

Definition forb_stmt : stmt := SFor "i" (EVar "n") [SAssign "y" (EBin "Add" (EVar "y") (EVar "i"))].
Definition forb_pe1 : penv Z := [("n", PT Z 2%Z); ("y", PT Z 0%Z)].
Definition forb_pe2 : penv Z := [("n", PT Z 3%Z); ("y", PT Z 0%Z)].
Definition forb_truth (z : Z) : option bool := Some (negb (Z.eqb z 0)).
Definition forb_trip (z : Z) : option nat := Some (Z.to_nat z).
Definition forb_exec (pe : penv Z) : option (outcome Z) :=
  exec_block Z toy_sem forb_truth forb_trip Z.of_nat 10 [] 3 [forb_stmt] pe.

(* which of the two readings of `for` the generated analysis (= analysis.py as it is now) implements: is the loop
   bound live before the loop?  Decided by computation on the instance below. *)
Definition for_bound_live : bool :=
  match live_stmt (fun _ => None) 5 forb_stmt ["y"] with Some li => mem "n" li | None => false end.

(* as read before the repair (bound not live): y is live after the loop; the analysis says only y is live before it
   (not the bound n); two environments that agree on y but not on n run the loop 2 resp. 3 times and end with y = 1
   resp. y = 3 *)
Theorem live_in_sound_for_bound_refuted :
  for_bound_live = false ->
  exists li o1 o2,
    live_stmt (fun _ => None) 5 forb_stmt ["y"] = Some li /\ ~ In "n" li /\
    (forall x, In x li -> plookup Z forb_pe1 x = plookup Z forb_pe2 x) /\
    forb_exec forb_pe1 = Some o1 /\ forb_exec forb_pe2 = Some o2 /\
    match o1, o2 with
    | ONormal _ a, ONormal _ b => plookup Z a "y" = Some (PT Z 1%Z) /\ plookup Z b "y" = Some (PT Z 3%Z)
    | _, _ => False
    end.
Proof.
  intro Hv.
  first [ vm_compute in Hv; discriminate Hv
        | eexists; eexists; eexists;
          split; [vm_compute; reflexivity|];
          split; [intros [H|[]]; discriminate H|];
          split; [intros x [H|[]]; subst x; reflexivity|];
          split; [vm_compute; reflexivity|];
          split; [vm_compute; reflexivity|];
          split; reflexivity ].
Qed.

(* repaired (bound live): for every `for` statement the variables of the bound are live before the loop *)
Theorem live_in_for_bound_repaired :
  for_bound_live = true ->
  forall cic fuel i b body lo L, live_stmt cic fuel (SFor i b body) lo = Some L -> incl (used_vars b) L.
Proof.
  intro Hv.
  first [ vm_compute in Hv; discriminate Hv
        | intros cic fuel i b body lo L H; cbn [live_stmt] in H; cbv zeta in H;
          destruct (iterate _ _ _) as [c|]; [|discriminate H]; inversion H; subst L;
          intros x Hx; apply In_sunion; right; exact Hx ].
Qed.


(* the statement for a class of statements; the unrestricted statement and its refutation by the instance above *)
Definition live_in_sound_statement (cls : stmt -> Prop) : Prop :=
  forall (V : Type) sem truth trip of_nat while_limit globals cic afuel K,
    (forall c b pe v, cic c = Some b -> eval_expr V sem globals pe c = Some v -> ptruth V truth v = Some b) ->
    (forall c b, cic c = Some b -> incl (used_vars c) K) ->
    forall fuel s lo li pe1 pe2 o1,
      cls s ->
      live_stmt cic afuel s lo = Some li ->
      (forall x, In x li \/ In x K -> plookup V pe1 x = plookup V pe2 x) ->
      exec_block V sem truth trip of_nat while_limit globals fuel [s] pe1 = Some o1 ->
      exists o2, exec_block V sem truth trip of_nat while_limit globals fuel [s] pe2 = Some o2 /\
        match o1, o2 with
        | ONormal _ a, ONormal _ b | OBreak _ a, OBreak _ b => forall x, In x lo \/ In x K -> plookup V a x = plookup V b x
        | OReturn _ v1, OReturn _ v2 => v1 = v2
        | _, _ => False
        end.

Theorem live_in_sound_loopfree_statement : live_in_sound_statement (fun s => lf_stmt true s = true).
Proof.
  intros V sem truth trip of_nat while_limit globals cic afuel K Hs Hr fuel s lo li pe1 pe2 o1 Hc.
  exact (live_in_sound_loopfree V sem truth trip of_nat while_limit globals cic afuel K Hs Hr fuel s lo li pe1 pe2 o1 Hc).
Qed.

Definition live_in_sound_full_statement : Prop :=
  forall (V : Type) sem truth trip of_nat while_limit globals cic afuel K,
    (forall c b pe v, cic c = Some b -> eval_expr V sem globals pe c = Some v -> ptruth V truth v = Some b) ->
    (forall c b, cic c = Some b -> incl (used_vars c) K) ->
    forall fuel s lo li pe1 pe2 o1,
      live_stmt cic afuel s lo = Some li ->
      (forall x, In x li \/ In x K -> plookup V pe1 x = plookup V pe2 x) ->
      exec_block V sem truth trip of_nat while_limit globals fuel [s] pe1 = Some o1 ->
      exists o2, exec_block V sem truth trip of_nat while_limit globals fuel [s] pe2 = Some o2 /\
        match o1, o2 with
        | ONormal _ a, ONormal _ b | OBreak _ a, OBreak _ b => forall x, In x lo \/ In x K -> plookup V a x = plookup V b x
        | OReturn _ v1, OReturn _ v2 => v1 = v2
        | _, _ => False
        end.

Theorem live_in_sound_full_refuted : for_bound_live = false -> ~ live_in_sound_full_statement.
Proof.
  intros Hv H.
  destruct (live_in_sound_for_bound_refuted Hv) as (li & o1 & o2 & Hl & _ & Ha & H1 & H2 & Hd).
  destruct (H Z toy_sem forb_truth forb_trip Z.of_nat 10 [] (fun _ => None) 5 [] ltac:(discriminate) ltac:(discriminate)
              3 forb_stmt ["y"] li forb_pe1 forb_pe2 o1 Hl) as (o2' & E2 & R).
  - intros x [Hx|[]]. apply Ha. exact Hx.
  - exact H1.
  - unfold forb_exec in H2. rewrite H2 in E2. inversion E2; subst o2'.
    destruct o1 as [a| |], o2 as [b| |]; try contradiction. destruct Hd as [Hd1 Hd2].
    specialize (R "y" (or_introl (or_introl eq_refl))). rewrite Hd1, Hd2 in R. discriminate R.
Qed.
