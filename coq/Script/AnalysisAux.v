(* Glue around the generated analysis (Gen/Analysis.v): how AstAnalyzer is instantiated for a function
   (constant conditions from the globals, fuel) and the per-statement table the correspondence check
   compares with AstAnalyzer._live_in/_live_out.  No proofs in this file. *)
From Coq Require Import List String Bool.
Require Import OV.Graph.Syntax OV.Script.Syntax OV.Script.Sets OV.Gen.Analysis.
Import ListNotations.

(* every variable name occurring in a block: bounds the height of the liveness lattice *)
Fixpoint vars_stmt (s : stmt) : sset :=
  match s with
  | SAssign x e => x :: used_vars e
  | STuple xs e => xs ++ used_vars e
  | SIf c t f => used_vars c ++ (fix go (l : list stmt) := match l with [] => [] | a :: r => vars_stmt a ++ go r end) t
                             ++ (fix go (l : list stmt) := match l with [] => [] | a :: r => vars_stmt a ++ go r end) f
  | SFor i b body => i :: used_vars b ++ (fix go (l : list stmt) := match l with [] => [] | a :: r => vars_stmt a ++ go r end) body
  | SWhile c body => c :: (fix go (l : list stmt) := match l with [] => [] | a :: r => vars_stmt a ++ go r end) body
  | SBreak => []
  | SReturn es => used_vars_list es
  end.
Fixpoint vars_block (l : list stmt) : sset :=
  match l with [] => [] | a :: r => vars_stmt a ++ vars_block r end.

Definition fuel_of (body : list stmt) : nat := S (S (List.length (dedup (vars_block body)))).

(* AstAnalyzer.__init__: constant conditions are decided against assigned_vars(fun.body) computed
   while the table of constant conditions is still empty *)
Definition cic_of (body : list stmt) (globals : list (string * bool)) : expr -> option bool :=
  const_cond (assigned_block (fun _ => None) body) globals.

(* one row per visited statement: path, assigned_vars(stmt), live_in, live_out *)
Definition row := (list nat * sset * sset * sset)%type.

Section Table.
  Variable cic : expr -> option bool.
  Variable fuel : nat.

  Definition olist {A} (o : option (list A)) : list A := match o with Some l => l | None => [] end.

  Fixpoint table_stmt (depth : nat) (path : list nat) (s : stmt) (live_out : sset) {struct depth} : option (list row) :=
    match depth with
    | O => None
    | S d =>
      let table_block := fix blk (k : nat) (l : list stmt) (live : sset) {struct l} : option (list row) :=
        match l with
        | [] => Some []
        | s0 :: r =>
          match live_block cic fuel r live, blk (S k) r live with
          | Some lo, Some rows_r =>
            match table_stmt d (path ++ [k]) s0 lo with
            | Some rows0 => Some (rows0 ++ rows_r)
            | None => None
            end
          | _, _ => None
          end
        end in
      match live_stmt cic fuel s live_out with
      | None => None
      | Some li =>
        let here := (path, assigned_stmt cic s, li, live_out) in
        match s with
        | SIf c t f =>
          match cic c with
          | None => match table_block 0 t live_out, table_block 1000 f live_out with
                    | Some a, Some b => Some (here :: a ++ b) | _, _ => None end
          | Some true => option_map (cons here) (table_block 0 t live_out)
          | Some false => option_map (cons here) (table_block 1000 f live_out)
          end
        | SFor _ _ body | SWhile _ body =>
          match loop_fixpoint cic fuel s live_out with
          | Some fx => option_map (cons here) (table_block 0 body fx)
          | None => None
          end
        | _ => Some [here]
        end
      end
    end.

  Fixpoint table_block (depth : nat) (path : list nat) (k : nat) (l : list stmt) (live : sset) : option (list row) :=
    match l with
    | [] => Some []
    | s0 :: r =>
      match live_block cic fuel r live, table_block depth path (S k) r live with
      | Some lo, Some rows_r =>
        match table_stmt depth (path ++ [k]) s0 lo with
        | Some rows0 => Some (rows0 ++ rows_r)
        | None => None
        end
      | _, _ => None
      end
    end.
End Table.

(* the whole function: statements of the body visited from the last to the first with live = {} *)
Definition analysis_table (body : list stmt) (globals : list (string * bool)) : option (list row) :=
  table_block (cic_of body globals) (fuel_of body) 8 [] 0 body [].

(* loop rows: path, assigned_vars(body), exposed_uses(body)  -- what _translate_loop_stmt asks for *)
Section Loops.
  Variable cic : expr -> option bool.
  Fixpoint loops_stmt (path : list nat) (s : stmt) : list (list nat * sset * sset) :=
    let blk := fix blk (k : nat) (l : list stmt) : list (list nat * sset * sset) :=
      match l with [] => [] | s0 :: r => loops_stmt (path ++ [k]) s0 ++ blk (S k) r end in
    match s with
    | SIf c t f => blk 0 t ++ blk 1000 f
    | SFor _ _ body | SWhile _ body => (path, assigned_block cic body, exposed_uses cic body) :: blk 0 body
    | _ => []
    end.
  Fixpoint loops_block (path : list nat) (k : nat) (l : list stmt) : list (list nat * sset * sset) :=
    match l with [] => [] | s0 :: r => loops_stmt (path ++ [k]) s0 ++ loops_block path (S k) r end.
End Loops.

Definition loops_table (body : list stmt) (globals : list (string * bool)) : list (list nat * sset * sset) :=
  loops_block (cic_of body globals) [] 0 body.
