(* C13 property theorems for NESTED graphs: the program exported for a graph with If and Loop bodies means what the
   graph means.  Statements only, each closed by `exact`, Print Assumptions beneath.

   Export/EmitCF.v `export_cf kw prename rename infun use_operators inline_const skip_initializers fname ivals g` is the
   Python function the exporter prints (model of _translate_node / _translate_if / _translate_loop / _emit_assign with
   the remapping scope and the constants dictionary computed in traversal order), together with the parameters of the
   enclosing make_model.  Its meaning is Script/PySem.v `eval_script` (one Python scope, if / while / for);
   the graph's meaning is Graph/Sem.v `eval_graph` (nested scopes with outer-scope capture); `sem` is arbitrary.

   PROVED (C13_export_nested_sound_partial): options off; graphs built from plain nodes, If nodes, Loop nodes in the
   `while` form (no trip count, a condition input, the body does not read its condition input) and Loop nodes in the
   `for` form (a trip count, no condition input, the body passes its condition through by its last node
   `cond_out = Identity(cond_in)` or directly; the iteration number may be used), nested to any depth,
   initializers of the main graph referenced from any body; under the executable side conditions `nested_okb`
   (translation injective on the names, every value defined before use and not shadowed, the sequential `x = y`
   lines never read a variable an earlier line of the same group overwrote, ...): calling the exported function and
   evaluating the graph give the SAME result (both the same values or both an error), for every kernel semantics,
   with the same iteration bound for `while` and for Loop-without-trip-count.
   The `for` form needs two facts about the kernels (premises of the theorem): Identity returns its input, and the
   constant condition of_bool b is read back as b.
   The third Loop form, `for` + `if not c: break` (a trip count AND a condition input, the body computes the next
   condition and does not read its condition input), is in the class when the flag brk of nested_okb is set; it needs
   the kernel laws C01 uses for its break forms: Not negates a condition, and (brk = true only) every value is
   readable as a condition -- Python leaves an exhausted `range` without looking at the condition, the ONNX Loop reads
   the condition before it looks at the trip count (with a trip count of 0 and a non-boolean condition the graph fails
   and the script does not).
   use_operators (session 6, C13_export_nested_ops_sound_partial): the same statement with the option on -- a node of the
   operator table is printed `o = a <sym> b`; side condition op_line_okb (inside nested_ops_okb): such a node is the
   default-domain operator with two operands, one output and no attribute, and the converter's table reads the symbol
   back as this operator.  The exporter itself looks at the operator NAME only: C13_export_foreign_domain_operator is a
   node of another domain called "Add" that is printed as `x + x` (outside the class; documented limit of the exporter).
   skip_initializers: Props/C13_optsem.v.  inline_const: literal and line level only (Props/C13_inline.v, C13_options.v).
   NOT proved: a whole-program statement with inline_const on; attribute parameters; bodies reading their condition
   input.  The way back through the converter: Props/C13_roundtrip.v. *)
From Coq Require Import List String ZArith.
Import ListNotations.
Require Import OV.Gen.ExportTables OV.Export.Cleanup OV.Graph.Syntax OV.Graph.Names OV.Graph.Sem OV.Script.Syntax OV.Script.PySem
               OV.Export.Emit OV.Export.EmitProofs OV.Export.EmitCF OV.Export.EmitCFProofs.
Local Open Scope string_scope.

(* The full statement for nested graphs, every option and every Loop form: kept visible. *)
Definition C13_export_sound_nested_full : Prop :=
  forall (V : Type) sem truth trip of_nat of_bool limit globals kw prename rename infun use_ops inline fname ivals g f,
    export_cf kw prename rename infun use_ops inline false fname ivals g = Some (f, []) ->
    exists fuel0, forall fp fg xs, fuel0 <= fp -> fuel0 <= fg ->
      eval_script V sem truth trip of_nat limit globals fp f xs =
      match init_env V sem ivals with
      | Some outer => eval_graph V sem truth trip of_nat of_bool limit fg outer g xs
      | None => None
      end.

Theorem C13_export_nested_sound_partial :
  forall (V : Type) sem truth trip of_nat of_bool limit globals kw prename rename infun,
    (forall v, sem "" "Identity" [] [Some v] = Some [v]) -> (forall b, truth (of_bool b) = Some b) ->
    forall brk,
    (forall v b, truth v = Some b -> exists r, sem "" "Not" [] [Some v] = Some [r] /\ truth r = Some (negb b)) ->
    (brk = true -> forall v, exists b, truth v = Some b) ->
    forall fname ivals g f sk,
    export_cf kw prename rename infun None None false fname ivals g = Some (f, sk) ->
    nested_okb kw prename rename infun brk ivals g = true ->
    forall fp fg xs, depth_graph g <= S fp -> depth_graph g <= S fg ->
      eval_script V sem truth trip of_nat limit globals (S (S fp)) f xs =
      match init_env V sem ivals with
      | Some outer => eval_graph V sem truth trip of_nat of_bool limit (S (S fg)) outer g xs
      | None => None
      end.
Proof. exact export_cf_sound. Qed.
Print Assumptions C13_export_nested_sound_partial.

Theorem C13_export_nested_ops_sound_partial :
  forall (V : Type) sem truth trip of_nat of_bool limit globals kw prename rename infun,
    (forall v, sem "" "Identity" [] [Some v] = Some [v]) -> (forall b, truth (of_bool b) = Some b) ->
    forall brk,
    (forall v b, truth v = Some b -> exists r, sem "" "Not" [] [Some v] = Some [r] /\ truth r = Some (negb b)) ->
    (brk = true -> forall v, exists b, truth v = Some b) ->
    forall use_ops fname ivals g f sk,
    export_cf kw prename rename infun use_ops None false fname ivals g = Some (f, sk) ->
    nested_ops_okb kw prename rename infun brk use_ops ivals g = true ->
    forall fp fg xs, depth_graph g <= S fp -> depth_graph g <= S fg ->
      eval_script V sem truth trip of_nat limit globals (S (S fp)) f xs =
      match init_env V sem ivals with
      | Some outer => eval_graph V sem truth trip of_nat of_bool limit (S (S fg)) outer g xs
      | None => None
      end.
Proof. exact export_cf_ops_sound. Qed.
Print Assumptions C13_export_nested_ops_sound_partial.

Theorem C13_export_nested_ops_example :
  nested_ops_okb kwlist (cleanup kwlist) (cleanup kwlist) false false (Some true) iv_nested g_nested = true /\
  exists f, export_cf kwlist (cleanup kwlist) (cleanup kwlist) false (Some true) None false "g" iv_nested g_nested = Some (f, []) /\
            In (SAssign "y" (EBin "Sub" (EVar "r_0") (EVar "x"))) (f_body f) /\
            zscript2 f [(-3)%Z] = Some [94%Z] /\ zscript2 f [5%Z] = Some [(-10)%Z].
Proof. exact export_nested_ops_example. Qed.
Print Assumptions C13_export_nested_ops_example.

Theorem C13_export_foreign_domain_operator :
  exists f, export_cf kwlist (cleanup kwlist) (cleanup kwlist) false (Some true) None false "g" [] g_foreign_add = Some (f, []) /\
            f_body f = [SAssign "y" (EBin "Add" (EVar "x") (EVar "x")); SReturn [EVar "y"]] /\
            nested_ops_okb kwlist (cleanup kwlist) (cleanup kwlist) false false (Some true) [] g_foreign_add = false.
Proof. exact export_foreign_domain_operator. Qed.
Print Assumptions C13_export_foreign_domain_operator.

(* non-vacuity: an If whose else branch contains a while loop reading an outer value and an initializer; dotted names
   and a keyword; nested_okb holds, the export is the expected program, both sides give 94 on -3 and -10 on 5 *)
Theorem C13_export_nested_example :
  nested_okb kwlist (cleanup kwlist) (cleanup kwlist) false false iv_nested g_nested = true /\
  export_cf kwlist (cleanup kwlist) (cleanup kwlist) false None None false "g" iv_nested g_nested = Some (f_nested, []) /\
  zscript2 f_nested [(-3)%Z] = Some [94%Z] /\ zscript2 f_nested [5%Z] = Some [(-10)%Z] /\
  option_map (fun outer => zgraph2 outer g_nested [(-3)%Z]) (init_env Z zsem2 iv_nested) = Some (Some [94%Z]) /\
  option_map (fun outer => zgraph2 outer g_nested [5%Z]) (init_env Z zsem2 iv_nested) = Some (Some [(-10)%Z]).
Proof. exact export_nested_example. Qed.
Print Assumptions C13_export_nested_example.

(* non-vacuity for the counted form: `for i in range(n)`, iteration number used, pass-through condition as last body node *)
Theorem C13_export_for_example :
  nested_okb kwlist (cleanup kwlist) (cleanup kwlist) true false [] g_for = true /\
  export_cf kwlist (cleanup kwlist) (cleanup kwlist) true None None false "g" [] g_for = Some (f_for, []) /\
  zscript2 f_for [5%Z; 3%Z] = Some [23%Z] /\ zgraph2 [] g_for [5%Z; 3%Z] = Some [23%Z] /\
  zscript2 f_for [5%Z; 0%Z] = Some [5%Z] /\ zgraph2 [] g_for [5%Z; 0%Z] = Some [5%Z].
Proof. exact export_for_example. Qed.
Print Assumptions C13_export_for_example.

(* non-vacuity for the form with a trip count AND a condition (in the class only with brk = true) *)
Theorem C13_export_forbreak_example :
  nested_okb kwlist (cleanup kwlist) (cleanup kwlist) true true [] g_forbreak = true /\
  nested_okb kwlist (cleanup kwlist) (cleanup kwlist) true false [] g_forbreak = false /\
  export_cf kwlist (cleanup kwlist) (cleanup kwlist) true None None false "g" [] g_forbreak = Some (f_forbreak, []) /\
  zscript2 f_forbreak [2%Z; 5%Z] = Some [0%Z] /\ zgraph2 [] g_forbreak [2%Z; 5%Z] = Some [0%Z] /\
  zscript2 f_forbreak [5%Z; 2%Z] = Some [3%Z] /\ zgraph2 [] g_forbreak [5%Z; 2%Z] = Some [3%Z] /\
  zscript2 f_forbreak [(-1)%Z; 4%Z] = Some [(-1)%Z] /\ zgraph2 [] g_forbreak [(-1)%Z; 4%Z] = Some [(-1)%Z].
Proof. exact export_forbreak_example. Qed.
Print Assumptions C13_export_forbreak_example.

(* use_operators + inline_const: the program printed for Pow(-2, x) is `y = -2 ** x`, i.e. -(2 ** x) once parsed.
   Replayed on the real exporter by the harness: known finding C13:use_operators:negative-literal-pow-base:precedence. *)
Theorem C13_export_pow_negative_base_refuted :
  exists f, export_cf kwlist (cleanup kwlist) (cleanup kwlist) false (Some false) (Some as_read_fx) false "g" [] g_powneg = Some (f, []) /\
            f_body f = [SAssign "y" (EUn "USub" (EBin "Pow" (ELit (LInt 2%Z)) (EVar "x"))); SReturn [EVar "y"]].
Proof. exact export_pow_negative_base_refuted. Qed.
Print Assumptions C13_export_pow_negative_base_refuted.

(* ---- repair variants (the harness decides by probe which one the implementation shows, harness/c13_variants.py) ---- *)
(* C13_11: with the operand parenthesized the power keeps its negative base *)
Theorem C13_export_pow_negative_base_repaired :
  exists f, export_cf kwlist (cleanup kwlist) (cleanup kwlist) false (Some true) (Some as_read_fx) false "g" [] g_powneg = Some (f, []) /\
            f_body f = [SAssign "y" (EBin "Pow" (ELit (LInt (-2)%Z)) (EVar "x")); SReturn [EVar "y"]].
Proof. exact export_pow_negative_base_repaired. Qed.
Print Assumptions C13_export_pow_negative_base_repaired.

(* C13_05, as read: an inlined Constant that is a graph output is returned by a name no statement binds: the program
   fails (unbound name) on every input (known finding C13:inline_const:constant-used-as-assignment-source) *)
Theorem C13_export_inlined_source_refuted :
  exists f, export_cf kwlist (cleanup kwlist) (cleanup kwlist) false None (Some as_read_fx) false "g" [] g_const_out = Some (f, []) /\
            f_body f = [SAssign "t" (ECall (COp "Neg") [Some (EVar "x")] []); SReturn [EVar "t"; EVar "c"]] /\
            zscript f [1%Z] = None.
Proof. exact export_inlined_source_refuted. Qed.
Print Assumptions C13_export_inlined_source_refuted.

Theorem C13_export_inlined_source_repaired :
  exists f, export_cf kwlist (cleanup kwlist) (cleanup kwlist) false None (Some repaired_fx) false "g" [] g_const_out = Some (f, []) /\
            f_body f = [SAssign "t" (ECall (COp "Neg") [Some (EVar "x")] []); SReturn [EVar "t"; ELit (LInt 3%Z)]].
Proof. exact export_inlined_source_repaired. Qed.
Print Assumptions C13_export_inlined_source_repaired.
