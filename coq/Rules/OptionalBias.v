(* Model of onnxscript/rewriter/rules/common/_remove_optional_bias.py (C05):
   Conv / ConvTranspose / QLinearConv / Gemm whose last input is a constant all-zero bias -> the same node without it
   (rewrite: same op type, inputs = node.inputs[:-1], same attributes).  No proofs in this file. *)
From Coq Require Import ZArith QArith List Bool.
Import ListNotations.
Local Open Scope Z_scope.

Section Generic.
  Variable F : Type.
  Variables (zero : F) (add mul : F -> F -> F).
  Fixpoint dot (ws xs : list F) : F :=
    match ws, xs with w :: ws', x :: xs' => add (mul w x) (dot ws' xs') | _, _ => zero end.
  (* Conv / ConvTranspose output element of channel ch, with and without bias *)
  Definition conv_b (ws xs : list F) (b : F) : F := add (dot ws xs) b.
  Definition conv_nob (ws xs : list F) : F := dot ws xs.
  (* Gemm: alpha*A'B' + beta*C  /  alpha*A'B' *)
  Definition gemm_c (alpha beta : F) (ws xs : list F) (c : F) : F := add (mul alpha (dot ws xs)) (mul beta c).
  Definition gemm_noc (alpha : F) (ws xs : list F) : F := mul alpha (dot ws xs).
  (* QLinearConv: int32 accumulator (+ int32 bias), then requantisation by an arbitrary function *)
  Definition qconv_b (requant : F -> F) (ws xs : list F) (b : F) : F := requant (add (dot ws xs) b).
  Definition qconv_nob (requant : F -> F) (ws xs : list F) : F := requant (dot ws xs).
End Generic.

Inductive bop := OConv | OConvTranspose | OQLinearConv | OGemm.

(* number of inputs matched by the pattern (bias last) and the minimum the operator schema demands *)
Definition pattern_inputs (o : bop) : nat := match o with OQLinearConv => 9%nat | _ => 3%nat end.
Definition min_inputs (o : bop) (opset : Z) : nat :=
  match o with
  | OGemm => if opset <? 11 then 3%nat else 2%nat      (* Gemm-1..9: C is required; optional since opset 11 *)
  | OQLinearConv => 8%nat
  | _ => 2%nat
  end.

Record ob_params := {
  ob_op : bop;
  ob_opset : Z;
  ob_bias : option (list Q);       (* flattened constant value of the bias operand; None = not a constant *)
  ob_bias_graph_input : bool       (* the bias is an initializer that is also a graph input (overridable default) *)
}.

Definition all_zero (l : list Q) : bool := forallb (fun v => Qeq_bool v 0) l.

(* check as read: bias is a constant and np.equal(bias, 0).all() *)
Definition ob_check_impl (p : ob_params) : bool :=
  match ob_bias p with Some l => all_zero l | None => false end.
(* repaired: the constant must not be overridable and the node must stay schema-valid for the model's opset *)
Definition ob_check_fixed (p : ob_params) : bool :=
  ob_check_impl p && negb (ob_bias_graph_input p) && (min_inputs (ob_op p) (ob_opset p) <=? pattern_inputs (ob_op p) - 1)%nat.

(* result: number of inputs of the emitted node, None = does not fire *)
Definition ob_rule (fixed : bool) (p : ob_params) : option nat :=
  if (if fixed then ob_check_fixed p else ob_check_impl p) then Some (pattern_inputs (ob_op p) - 1)%nat else None.

Definition schema_valid (o : bop) (opset : Z) (n_inputs : nat) : bool := (min_inputs o opset <=? n_inputs)%nat.

(* ---------------------------------------------------------------- correspondence helpers *)
Fixpoint idx_false {A} (f : A -> bool) (i : nat) (l : list A) : list nat :=
  match l with [] => [] | c :: t => (if f c then [] else [i]) ++ idx_false f (S i) t end.
Definition on_eqb (a b : option nat) : bool :=
  match a, b with Some x, Some y => Nat.eqb x y | None, None => true | _, _ => false end.
Definition ob_case := (ob_params * option nat)%type.
Definition ob_dis (fixed : bool) (cs : list ob_case) : list nat :=
  idx_false (fun '(p, obs) => on_eqb (ob_rule fixed p) obs) 0 cs.
