"""C05 family: the rules exported by onnxscript/rewriter/rules/fusion (_layer_norm, _rms_normalization, _rotary_embedding, _gqa).

Model of the side conditions: coq/Rules/FusionRules.v (algebra: coq/Fusion/*, C19's, read-only); theorems: coq/Props/C05_fusion.v.
For every rule a grid of hosts = the target pattern with the parameters the pattern / check / rewrite read, each near miss
falsifying exactly one conjunct the property names (unknown type or shape, non-constant operand, a value only approximately
the required one, an attribute missing or at another value).  The real rule is applied; `fired` is compared in Coq with the
model of the check, two-directionally (LayerNorm / RMS also the emitted axis / stash_type); where a commit repaired the check the
model has a `legacy` variant and probe hosts decide per run which one the implementation is (legacy = violation, replayed with
its input).  The property itself is observed on onnxruntime (optimisations off) with the float tolerance of harness/c19_build.close.
Host builders are those of C19 (harness/c19_norm.py, c19_misc.py, c19_build.py; imported, not modified).
"""
from __future__ import annotations

from fractions import Fraction

import numpy as np

from harness import c05_basic_util as U
from harness import c19_misc as M
from harness import c19_norm as N
from harness import common
from harness.c19_build import G, apply_ir, close, feeds_for, find, ort_run
from harness.common import cbool, clist, cnat, copt, cz

DT = {"float32": "FLOAT", "float16": "FLOAT16", "float64": "DOUBLE", "int32": "INT32", "int64": "INT64"}
MAXI = 2 ** 63 - 1


def _odt(d):
    return "None" if d is None else f"(Some {DT[d]})"


def _olz(l):
    return copt(l, lambda v: clist([cz(x) for x in v]))


def _oz(v):
    return copt(v, cz)


def _sq(sq, exponent, dtype="float32"):
    """The exponent as the exact fraction of the constant that is stored in the model (float32 / float16 / float64 value)."""
    if sq == "mul":
        return "SqMulF"
    npdt = {"float32": np.float32, "float16": np.float16, "float64": np.float64}[dtype]
    f = Fraction(float(npdt(exponent)))
    return f"(SqPowF {cz(f.numerator)} {cz(f.denominator)})"


class _Run:
    def __init__(self, ctx):
        self.ctx = ctx
        self.np_rng = np.random.default_rng(ctx.rng.randrange(2 ** 31))
        self.cases, self.meta, self.attr_cases = [], [], []
        self.fired = {}
        self.n = {}

    def probe(self, rule, g, fn, params, fused_op, key_of=None, model=None, scale=1.0):
        """Returns (fired, rewritten proto) or (None, None) when the instance is not a valid runnable host."""
        ctx = self.ctx
        self.n[rule] = self.n.get(rule, 0) + 1
        try:
            m = model if model is not None else g.model()
        except Exception:  # noqa: BLE001  (a host this builder cannot express as a valid model is not an observation)
            return None, None
        feeds = [feeds_for(g, self.np_rng, scale=scale) for _ in range(2)]
        try:
            before = [ort_run(m, f) for f in feeds]
        except Exception:  # noqa: BLE001
            before = None      # host does not run: the decision is still compared, the oracle has nothing to say
        replay = {"family": "fusion", "rule": rule, "params": {k: (v if isinstance(v, (int, float, str, bool, type(None))) else str(v)) for k, v in params.items()}}
        try:
            m2, cnt = apply_ir(m, fn)
        except Exception as e:  # noqa: BLE001
            ctx.violation(f"C05:fusion:{rule}:raises:{type(e).__name__}", f"{rule} raised {type(e).__name__}: {str(e)[:160]} on {params}", replay)
            return None, None
        fired = bool(cnt) and bool(find(m2, fused_op)) if fused_op else bool(cnt)
        if fired:
            self.fired[rule] = self.fired.get(rule, 0) + 1
        if fired and before is not None:
            bad = None
            try:
                for f, b in zip(feeds, before):
                    ok, why = close(b, ort_run(m2, f))
                    if not ok:
                        bad = why
                        break
            except Exception as e:  # noqa: BLE001
                bad = f"rewritten model fails in onnxruntime: {str(e)[:200]}"
            if bad:
                key = (key_of(params) if key_of else None) or f"C05:fusion:{rule}:differs"
                ctx.violation(key, f"{rule} fired on {params}: {bad}", replay)
        return fired, m2


# ------------------------------------------------------------------------------------------------ LayerNorm
def _ln_model(p):
    g = G(opset=p.get("opset", 18))
    shape, dt = list(p["shape"]), p["dtype"]
    x0 = g.inp("x", dt, shape)
    x = g.op("Identity", [x0]) if p.get("x_unknown") else x0
    sc = g.inp("scale", dt, [shape[-1]])

    def axes(which):
        if p.get("axes_input") == which:
            return g.inp(f"axes{which}", "int64", [1])
        return g.const(list(p.get(f"axes{which}", (-1,))), "int64")

    def kd(which):
        v = p.get(f"keepdims{which}", 1)
        return {} if v is None else {"keepdims": v}
    mean = g.op("ReduceMean", [x, axes(1)], **kd(1))
    d = g.op("Sub", [x, mean])
    dd = g.op("Mul", [d, d]) if p["sq"] == "mul" else g.op("Pow", [d, g.const(p.get("exponent", 2.0), dt)])
    var = g.op("ReduceMean", [dd, axes(2)], **kd(2))
    e = g.inp("eps", dt, []) if p.get("eps_input") else g.const(np.full(p.get("eps_shape", []), p["eps"]), dt)
    std = g.op("Sqrt", [g.op("Add", [var, e])])
    n = g.op("Mul", [d, g.op("Reciprocal", [std])]) if p["norm"] == "recip" else g.op("Div", [d, std])
    y = g.op("Mul", [n, sc])
    g.op("Identity", [y], out="y")
    g.out("y", dt, None)
    if p.get("axes_input"):
        g.feeds_spec[f"axes{p['axes_input']}"] = ("int64", (1,))
    return g


def _fix_feeds(g, p):
    """axes fed as graph inputs must be a valid axis: int feeds are drawn from [0, 4) by feeds_for; pin them to the last axis."""
    return g


def fam_ln(R):
    from onnxscript.rewriter.rules.fusion._layer_norm import fuse_layer_normalization as fn
    ctx, rng = R.ctx, R.ctx.rng
    base = dict(shape=[2, 3, 8], dtype="float32", sq="pow", norm="recip", eps=1e-5)
    insts = []
    for dt in ("float32", "float64", "float16"):
        for sq in ("mul", "pow"):
            for nm in ("recip", "div"):
                insts.append(dict(base, dtype=dt, sq=sq, norm=nm, shape=[rng.randrange(1, 4), rng.randrange(1, 4), rng.choice([2, 3, 8, 17])], eps=rng.choice([1e-6, 1e-5, 1e-3])))
    insts += [dict(base, shape=[5]), dict(base, shape=[2, 4], eps_shape=[1]), dict(base, shape=[1, 2, 3, 4], sq="mul")]
    near = [
        ("approx-exponent", dict(base, exponent=2.00001)), ("approx-exponent", dict(base, exponent=2.000001, dtype="float64")),
        ("exponent-3", dict(base, exponent=3.0)), ("exponent-2.001", dict(base, exponent=2.001)),
        ("axes-first", dict(base, axes1=(0,), axes2=(0,))), ("axes-positive-last", dict(base, axes1=(2,), axes2=(2,))),
        ("axes2-other", dict(base, shape=[3, 3, 3], axes2=(1,))), ("axes-not-constant", dict(base, axes_input=1)),
        ("keepdims-absent", dict(base, keepdims1=None, keepdims2=None)), ("keepdims-0", dict(base, shape=[3, 3], keepdims1=0, keepdims2=0)),
        ("eps-not-constant", dict(base, eps_input=True)), ("x-type-unknown", dict(base, x_unknown=True)),
        ("eps-two-elements", dict(base, shape=[2, 3, 2], eps_shape=[2])),
    ]
    for tag, p in [("fire", q) for q in insts] + near:
        p = dict(p, tag=tag)
        g = _ln_model(p)
        model = None
        if p.get("x_unknown"):
            try:
                model = g.model(infer=False)      # no value_info: the Identity output has no type for the rewriter
            except Exception:  # noqa: BLE001
                continue
        fired, m2 = R.probe("layer_norm", g, fn, p, "LayerNormalization", model=model,
                            key_of=lambda q: "C05:fusion:layer-norm:approximate-pow-exponent" if q["tag"] == "approx-exponent" else None)
        ctx.case(("fusion", "layer_norm", tag, p["dtype"], p["sq"], p["norm"], len(p["shape"]), fired))
        if fired is None:
            continue
        es = p.get("eps_shape", [])
        eps_single = (not p.get("eps_input")) and int(np.prod(es)) == 1
        h = ("{| lh_xdt := %s; lh_eps_singleton := %s; lh_axes1 := %s; lh_axes2 := %s; lh_keepdims1 := %s; lh_keepdims2 := %s; lh_sq := %s; lh_norm := %s |}" % (
            "None" if p.get("x_unknown") else _odt(p["dtype"]), cbool(eps_single),
            "None" if p.get("axes_input") == 1 else _olz(list(p.get("axes1", (-1,)))), _olz(list(p.get("axes2", (-1,)))),
            _oz(p.get("keepdims1", 1)), _oz(p.get("keepdims2", 1)), _sq(p["sq"], p.get("exponent", 2.0), p["dtype"]), "NormRecip" if p["norm"] == "recip" else "NormDiv"))
        obs = "None"
        if fired:
            a = find(m2, "LayerNormalization")[0][2]
            obs = f"(Some ({cz(a.get('axis', -999))}, {cz(a.get('stash_type', -999))}))"
            want_eps = float(np.float32(p["eps"])) if p["dtype"] != "float64" else p["eps"]
            if abs(a.get("epsilon", -1) - want_eps) > 1e-5 * want_eps:
                ctx.tie_broken("correspondence", "fusion:layer_norm:epsilon", f"{p}: fused epsilon {a.get('epsilon')}")
        R.cases.append(f"FLn {h} {cbool(fired)}")
        R.attr_cases.append(f"(FLn {h} {cbool(fired)}, {obs})")
        R.meta.append(("layer_norm", p, fired))
        if tag == "fire" and p["dtype"] in ("float32", "float64") and not fired:
            ctx.tie_broken("correspondence", "fusion:layer_norm:expected-to-fire", f"{p}")
    # LayerNormBiasFusion: attributes forwarded, bias appended
    for axis, eps_attr, order in [(None, None, 0), (-1, 1e-3, 0), (1, None, 0), (2, 1e-3, 1)]:
        p = dict(shape=[2, 3, 8], dtype="float32", axis=axis, epsilon=eps_attr, order=order, tag="ln+bias")
        p["bias_shape"] = p["shape"][(axis if axis is not None else -1):]
        g = N.ln_bias_model(p)
        fired, m2 = R.probe("layer_norm_bias", g, fn, p, None, scale=1e-3 if eps_attr is None else 1.0)
        ctx.case(("fusion", "layer_norm_bias", axis, eps_attr, order, fired))
        if fired:
            node = find(m2, "LayerNormalization")[0]
            a = node[2]
            if len(node[3]) != 3 or (axis is not None and a.get("axis") != axis) or (("epsilon" in a) != (eps_attr is not None)):
                ctx.tie_broken("correspondence", "fusion:layer_norm_bias:attributes", f"{p}: inputs {node[3]} attributes {a}")


# ------------------------------------------------------------------------------------------------ RMS
def fam_rms(R):
    from onnxscript.rewriter.rules.fusion._rms_normalization import fuse_rms_normalization as fn
    ctx, rng = R.ctx, R.ctx.rng
    base = dict(shape=[2, 3, 8], xdtype="float32", sdtype="float32", compute=None, cast_back=None, mul_order=True, eps=1e-5,
                out_dtype="float32", opset=23)
    insts = []
    for mo in (True, False):
        for xdt, comp, cb in [("float32", None, None), ("float64", None, None), ("float16", "float32", "float16"), ("float32", "float64", "float32")]:
            insts.append(dict(base, mul_order=mo, xdtype=xdt, sdtype=(cb or xdt), compute=comp, cast_back=cb, out_dtype=(cb or xdt),
                              shape=[rng.randrange(1, 4), rng.choice([2, 8, 17])], eps=rng.choice([1e-6, 1e-5, 1e-3])))
    near = [
        ("approx-exponent", dict(base, exponent=2.00001)), ("exponent-3", dict(base, exponent=3.0)),
        ("axes-first", dict(base, axes=(0,))), ("axes-positive-last", dict(base, axes=(2,))),
        ("eps-not-constant", dict(base, eps_kind="input")),
        ("reduce-attrs-absent", dict(base, reduce_attrs=())), ("noop-attr-absent", dict(base, reduce_attrs=("keepdims",))),
        ("compute-float16", dict(base, xdtype="float16", sdtype="float16", out_dtype="float16")),
        ("eps-two-elements", dict(base, shape=[2, 3, 2], eps_shape=[2])),
    ]
    for tag, p in [("fire", q) for q in insts] + near:
        p = dict(p, tag=tag)
        g = N.rms_model(p)
        fired, m2 = R.probe("rms_norm", g, fn, p, "RMSNormalization",
                            key_of=lambda q: "C05:fusion:rms-norm:approximate-pow-exponent" if q["tag"] == "approx-exponent" else None)
        ctx.case(("fusion", "rms_norm", tag, p["xdtype"], p["compute"], p["mul_order"], fired))
        if fired is None:
            continue
        ra = p.get("reduce_attrs", ("keepdims", "noop_with_empty_axes"))
        es = p.get("eps_shape", [])
        eps_single = p.get("eps_kind") != "input" and int(np.prod(es)) == 1
        h = ("{| rh_xdt := %s; rh_sdt := %s; rh_compute := %s; rh_eps_float_singleton := %s; rh_axes := %s; rh_keepdims := %s; rh_noop := %s; rh_exp := %s; rh_mul_order := %s |}" % (
            _odt(p["xdtype"]), _odt(p["sdtype"]), _odt(p["compute"]), cbool(eps_single), _olz(list(p.get("axes", (-1,)))),
            _oz(1 if "keepdims" in ra else None), _oz(0 if "noop_with_empty_axes" in ra else None), _sq("pow", p.get("exponent", 2.0), p["compute"] or p["xdtype"]), cbool(p["mul_order"])))
        obs = "None"
        if fired:
            a = find(m2, "RMSNormalization")[0][2]
            obs = f"(Some ({cz(a.get('axis', -999))}, {cz(a.get('stash_type', -999))}))"
        R.cases.append(f"FRms {h} {cbool(fired)}")
        R.attr_cases.append(f"(FRms {h} {cbool(fired)}, {obs})")
        R.meta.append(("rms_norm", p, fired))
        if tag == "fire" and not fired:
            ctx.tie_broken("correspondence", "fusion:rms_norm:expected-to-fire", f"{p}")


# ------------------------------------------------------------------------------------------------ rotary
def _symbolise(g, name, dims):
    for vi in g.inputs:
        if vi.name == name:
            for i, d in dims.items():
                dim = vi.type.tensor_type.shape.dim[i]
                dim.ClearField("dim_value")
                if d is not None:
                    dim.dim_param = d


def fam_rot(R):
    from onnxscript.rewriter.rules.fusion._rotary_embedding import fuse_partial_rotary_embedding as f_prot
    from onnxscript.rewriter.rules.fusion._rotary_embedding import fuse_rotary_embedding as f_rot
    ctx, rng = R.ctx, R.ctx.rng
    insts = []
    for _ in range(6):
        B, H, S, D = rng.randrange(1, 3), rng.randrange(1, 5), rng.randrange(1, 4), rng.choice([2, 4, 6, 8, 16])
        insts.append(("fire", dict(dtype=rng.choice(["float32", "float32", "float16"]), xshape=[B, H, S, D], fshape=[B, S, D // 2],
                                   slices=(0, D // 2, D // 2, rng.choice([MAXI, D, D + 3])))))
    b = dict(dtype="float32", xshape=[2, 4, 3, 8], fshape=[2, 3, 4])
    insts += [
        ("end2-short", dict(b, slices=(0, 4, 4, 7))), ("start1-not-0", dict(b, slices=(1, 4, 4, MAXI))),
        ("uneven-halves", dict(b, slices=(0, 3, 3, MAXI))), ("unsqueeze-axis-other", dict(b, unsq=-3)),
        ("symbolic-num-heads", dict(b, sym={1: "H"})), ("symbolic-head-size", dict(b, sym={3: "D"})), ("unknown-head-size", dict(b, sym={3: None})),
    ]
    for tag, p in insts:
        p = dict(p, tag=tag)
        g = M.rotary23_model(p)
        if p.get("sym"):
            _symbolise(g, "x", p["sym"])
            for o in g.outputs:
                o.type.tensor_type.ClearField("shape")
        fired, m2 = R.probe("rotary_embedding", g, f_rot, p, "RotaryEmbedding")
        ctx.case(("fusion", "rotary", tag, p["dtype"], p["xshape"][3], fired))
        if fired is None:
            continue
        D = p["xshape"][3]
        s = p.get("slices", (0, D // 2, D // 2, MAXI))
        sym = p.get("sym", {})
        h = ("{| ro_rank := Some 4%%nat; ro_dim1 := %s; ro_dim3 := %s; ro_s1 := Some %s; ro_e1 := Some %s; ro_s2 := Some %s; ro_e2 := Some %s; ro_one1 := Some %s; ro_one2 := Some %s |}" % (
            "None" if 1 in sym else f"(Some {cz(p['xshape'][1])})", "None" if 3 in sym else f"(Some {cz(D)})",
            cz(s[0]), cz(s[1]), cz(s[2]), cz(s[3]), cz(p.get("unsq", 1)), cz(p.get("unsq", 1))))
        R.cases.append(f"FRot {h} {cbool(fired)}")
        R.meta.append(("rotary_embedding", p, fired))
        if fired:
            a = find(m2, "RotaryEmbedding")[0][2]
            if a.get("num_heads") != p["xshape"][1] or a.get("interleaved") != 0:
                ctx.tie_broken("correspondence", "fusion:rotary_embedding:attributes", f"{p}: {a}")
        if tag == "fire" and not fired:
            ctx.tie_broken("correspondence", "fusion:rotary_embedding:expected-to-fire", f"{p}")
    pb = dict(domain="", dtype="float32", B=2, H=3, S=2, D=8, r=4)
    for tag, p in [("fire", dict(pb)), ("fire", dict(pb, D=16, r=8)), ("fire", dict(pb, r=8)), ("fire", dict(pb, attrs={"interleaved": 0})),
                   ("start2-mismatch", dict(pb, start2=5)), ("interleaved-1", dict(pb, attrs={"interleaved": 1})),
                   ("rotary_embedding_dim-present", dict(pb, attrs={"rotary_embedding_dim": 4}))]:
        p = dict(p, tag=tag)
        g = M.partial_rotary_model(p)
        fired, m2 = R.probe("partial_rotary_embedding", g, f_prot, p, None)
        ctx.case(("fusion", "partial_rotary", tag, p["D"], p["r"], fired))
        if fired is None:
            continue
        at = p.get("attrs", {})
        h = "{| ph_end1 := Some %s; ph_start2 := Some %s; ph_has_dim_attr := %s; ph_interleaved := %s |}" % (
            cz(p.get("end1", p["r"])), cz(p.get("start2", p["r"])), cbool("rotary_embedding_dim" in at), _oz(at.get("interleaved")))
        R.cases.append(f"FPartial {h} {cbool(fired)}")
        R.meta.append(("partial_rotary_embedding", p, fired))
        if fired:
            a = find(m2, "RotaryEmbedding")[0][2]
            if a.get("rotary_embedding_dim") != p["r"]:
                ctx.tie_broken("correspondence", "fusion:partial_rotary_embedding:attributes", f"{p}: {a}")
        if tag == "fire" and not fired:
            ctx.tie_broken("correspondence", "fusion:partial_rotary_embedding:expected-to-fire", f"{p}")


# ------------------------------------------------------------------------------------------------ GQA (ONNX Attention-23)
def _gqa_model(p):
    g = G(opset=23)
    B, H, Hkv, S, P, D = p["B"], p["H"], p["Hkv"], p["S"], p["P"], p["D"]
    dt = "float32"
    Gp = H // Hkv
    T = S + P
    q = g.inp("q", dt, p.get("q_decl", [B, H, S, D]), [B, H, S, D])
    k = g.inp("k", dt, p.get("k_decl", [B, Hkv, S, D]), [B, Hkv, S, D])
    v = g.inp("v", dt, [B, Hkv, S, D])
    pk = g.inp("pk", dt, [B, Hkv, P, D])
    pv = g.inp("pv", dt, [B, Hkv, P, D])
    es = p.get("expand_shape", [B, Hkv, Gp, T, D])
    rs = [B, H, T, D]

    def rep(past, cur, tag):
        c = g.op("Concat", [past, cur], axis=p.get("concat_axis", -2), out=f"present_{tag}")
        u = g.op("Unsqueeze", [c, g.const(2 if p.get("scalar_axes", True) else [2], "int64")])
        e = g.op("Expand", [u, g.const(es, "int64")], out=f"expand_{tag}")
        r = g.op("Reshape", [e, g.const(rs, "int64")], out=f"rep_{tag}")
        return c, r
    ck, rk = rep(pk, k, "k")
    cv, rv = rep(pv, v, "v")
    ins = [q, rk, rv]
    if p.get("mask"):
        ins.append(g.inp("mask", dt, [S, T]))
    a = g.op("Attention", ins, **p.get("attrs", {}))
    g.op("Identity", [a], out="y")
    g.out("y", dt, None)
    g.op("Identity", [ck], out="pko")
    g.out("pko", dt, None)
    g.op("Identity", [cv], out="pvo")
    g.out("pvo", dt, None)
    return g


def _shapes_of(m):
    res = {}
    names = {}
    unk = [-1001]

    def enc(vi):
        tt = vi.type.tensor_type
        if not tt.HasField("shape"):
            return None
        out = []
        for d in tt.shape.dim:
            if d.HasField("dim_value"):
                out.append(d.dim_value)
            elif d.dim_param:
                out.append(names.setdefault(d.dim_param, -(len(names) + 2)))
            else:
                unk[0] -= 1
                out.append(unk[0])
        return out
    for vi in list(m.graph.input) + list(m.graph.value_info) + list(m.graph.output):
        res[vi.name] = enc(vi)
    return res


def _gqa_key(p):
    if p.get("attrs", {}).get("is_causal"):
        return "C05:fusion:gqa:is-causal-carried"
    if "expand_shape" in p:
        return "C05:fusion:gqa:expand-shape-not-checked"
    return None


def fam_gqa(R):
    from onnxscript.rewriter.rules.fusion._gqa import fuse_gqa as fn
    ctx, rng = R.ctx, R.ctx.rng
    b = dict(B=1, H=4, Hkv=2, S=3, P=2, D=8)
    insts = [("fire", dict(b)), ("fire", dict(b, B=2)), ("fire", dict(b, H=2, Hkv=2)), ("fire", dict(b, H=6, Hkv=2, D=4)), ("fire", dict(b, mask=True)),
             ("fire", dict(b, attrs={"scale": 0.5})), ("fire", dict(b, attrs={"softcap": 2.0})), ("fire", dict(b, attrs={"is_causal": 0})),
             ("fire", dict(B=rng.randrange(1, 3), H=4, Hkv=rng.choice([1, 2, 4]), S=rng.randrange(1, 4), P=rng.randrange(1, 4), D=rng.choice([4, 8]))),
             ("is-causal-1", dict(b, attrs={"is_causal": 1})), ("is-causal-1", dict(b, S=1, attrs={"is_causal": 1})),
             ("expand-leading-group", dict(b, expand_shape=[2, 1, 2, 1, 5, 8])),
             ("unsqueeze-axes-1d", dict(b, scalar_axes=False)), ("symbolic-query", dict(b, q_decl=["B", 4, "S", 8])),
             ("unknown-key-dim", dict(b, k_decl=[1, 2, None, 8])), ("concat-axis-positive", dict(b, concat_axis=2))]
    for tag, p in insts:
        p = dict(p, tag=tag)
        g = _gqa_model(p)
        try:
            m = g.model()
        except Exception:  # noqa: BLE001
            continue
        fired, m2 = R.probe("gqa", g, fn, p, None, key_of=_gqa_key, model=m)
        ctx.case(("fusion", "gqa", tag, p["H"], p["Hkv"], bool(p.get("mask")), tuple(sorted(p.get("attrs", {}))), fired))
        if fired is None:
            continue
        sh = _shapes_of(m)
        f = lambda n: copt(sh.get(n), lambda l: clist([cz(x) for x in l]))  # noqa: E731
        h = ("{| gh_query := %s; gh_key := %s; gh_value := %s; gh_past_key := %s; gh_past_value := %s; gh_present_key := %s; gh_present_value := %s; "
             "gh_expand_key := %s; gh_expand_value := %s; gh_is_causal := %s; gh_unsq_scalar2 := %s; gh_concat_axis := %s |}" % (
                 f("q"), f("k"), f("v"), f("pk"), f("pv"), f("rep_k"), f("rep_v"), f("expand_k"), f("expand_v"), _oz(p.get("attrs", {}).get("is_causal")),
                 cbool(p.get("scalar_axes", True)), _oz(p.get("concat_axis", -2))))
        R.cases.append(f"FGqa {h} {cbool(fired)}")
        R.meta.append(("gqa", p, fired))
        if fired:
            node = find(m2, "Attention")[0]
            want = ["q", "k", "v", "mask" if p.get("mask") else "", "pk", "pv"]
            if node[3] != want:
                ctx.tie_broken("correspondence", "fusion:gqa:inputs", f"{p}: fused Attention inputs {node[3]}, expected {want}")
        if tag == "fire" and not fired:
            ctx.tie_broken("correspondence", "fusion:gqa:expected-to-fire", f"{p}")


POW_PROBE = {"approx-exponent"}
GQA_PROBE = {"is-causal-1", "expand-leading-group"}


def family(ctx):
    R = _Run(ctx)
    for fam in (fam_ln, fam_rms, fam_rot, fam_gqa):
        fam(R)
    # probes: which variant of the repaired checks is the implementation under test?  (legacy = the check before commits
    # cf408b5 / aa8c462, refuted in Props/C05_fusion.v).  A probe host is one on which exactly the repaired conjunct decides.
    pow_legacy = any(f for _, p, f in R.meta if p.get("tag") in POW_PROBE)
    gqa_legacy = any(f for _, p, f in R.meta if p.get("tag") in GQA_PROBE)
    pl, gl = ("true" if pow_legacy else "false"), ("true" if gqa_legacy else "false")
    body = (f"Definition cases : list fcase := {clist(R.cases)}.\nEval vm_compute in (fdisagreeing {pl} {gl} 0 cases).\n"
            f"Definition acases : list (fcase * option (Z * Z)) := {clist(R.attr_cases)}.\n"
            f"Eval vm_compute in (adisagreeing {pl} 0 acases).")
    ok, vals, raw = ctx.coq_eval(["OV.Fusion.Norm", "OV.Fusion.Rotary", "OV.Rules.FusionRules", "OV.Rules.FusionRulesProofs"], body, name="fusion")
    if not ok:
        ctx.tie_broken("correspondence", "fusion:model-evaluation", raw[-800:])
        return
    bad = common.parse_nat_list(vals[0])
    nbad_attr = len(common.parse_nat_list(vals[1]))
    for i in bad[:5]:
        rule, p, fired = R.meta[i]
        ctx.tie_broken("correspondence", f"fusion:{rule}", f"{'fired' if fired else 'did not fire'} on {p}: differs from Rules/FusionRules.v's model of the check "
                       f"(variant: pow exponent {'legacy isclose' if pow_legacy else 'exact'}, gqa {'legacy' if gqa_legacy else 'shipped'})")
    if nbad_attr:
        ctx.tie_broken("correspondence", "fusion:emitted-attributes", f"{nbad_attr} LayerNorm/RMS instances: emitted (axis, stash_type) differ from ln_fires_v / rms_fires_v")
    # a legacy variant is the refuted check: the oracle has replayed its witnesses above (violations with input); if it stayed silent
    # the regression is still reported
    reported = {v.get("key") for v in getattr(ctx, "violations", [])} | {k for k, _ in getattr(ctx, "known_hits", [])}
    if pow_legacy and not any(k and "approximate-pow-exponent" in k for k in reported):
        ctx.tie_broken("correspondence", "fusion:pow-exponent-variant", "the implementation matches the legacy (isclose) exponent test refuted by C05_fusion_pow_exponent_legacy_refuted, but no output difference was observed")
    if gqa_legacy and not any(k and k.startswith("C05:fusion:gqa:") for k in reported):
        ctx.tie_broken("correspondence", "fusion:gqa-variant", "the implementation matches the legacy GQA check refuted by C05_fusion_gqa_impl_check_refuted, but no output difference was observed")
    ctx.obligation("correspondence fusion (two-directional): every rules.fusion rule fired exactly where Rules/FusionRules.v's model of its check says so on the generated hosts; "
                   "LayerNormalization / RMSNormalization axis and stash_type as modelled", not bad and not nbad_attr)
    ctx.obligation("variant fusion: the implementation is the shipped variant of the repaired checks (exact Pow exponent: cf408b5; GQA Expand shape + is_causal: aa8c462), "
                   "not the legacy one refuted in Props/C05_fusion.v", not pow_legacy and not gqa_legacy,
                   f"pow exponent {'LEGACY' if pow_legacy else 'shipped'}, gqa {'LEGACY' if gqa_legacy else 'shipped'}")
    ctx.cover(fusion_variant_pow_exponent="legacy" if pow_legacy else "shipped", fusion_variant_gqa="legacy" if gqa_legacy else "shipped")
    for rule, minimum in (("layer_norm", 8), ("layer_norm_bias", 2), ("rms_norm", 6), ("rotary_embedding", 4), ("partial_rotary_embedding", 3), ("gqa", 6)):
        U.guard(ctx, f"fusion:{rule}", R.fired.get(rule, 0), minimum)
    ctx.cover(fusion_instances=dict(R.n), fusion_fired=dict(R.fired), fusion_model_disagreements=len(bad))
    ctx.sample({"family": "fusion", "case": str(R.meta[len(R.meta) // 2])[:400]})
    ctx.assume("rules.fusion: scalars form a field (no rounding); Sqrt, Pow with a constant exponent (only Pow(v, 2) = v*v is used), Cos/Sin and the per-head attention "
               "function of Attention-23 are abstract; Attention-23's head mapping (query head h reads key/value head h / (H/Hkv); past_key/past_value concatenated before the "
               "current key/value) is transcribed from the operator document and measured on onnxruntime for every fired instance")
    ctx.assume("dropout_zero / dropout_inference / CastIdentity theorems: Section hypotheses 1*v = v, 1/(1-0) = 1, Cast to the tensor's own type is the identity (operator documents)")
