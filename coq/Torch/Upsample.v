(* C08 -- upsample / interpolate output extents (nn.py: aten_upsample_nearest{1,2,3}d, aten_upsample_nearestnd_vec,
   aten_upsample_bilinear2d(_vec), linear1d, bicubic2d, trilinear3d): which of `output_size` and the scale factors decides the
   output extent, and the float32 arithmetic of Resize on the scales path.  No proofs in this file.

   PyTorch (UpSample.h, compute_output_size): the non-vec overloads always produce `output_size` (their scales only steer the
   source index); the .vec overloads produce output_size when given, else floor(input_size * scale_factor) computed in double.
   The double product is modelled EXACTLY (floor of the rational product): exact whenever input_size * scale has at most 53
   significant bits, e.g. every extent < 2^24 with a scale of at most 29 significant bits; other scales are outside the model.
   ONNX Resize-18 with `scales` (a float32 tensor): output_dim = floor(input_dim * scale), evaluated by onnxruntime in float32:
   the scale is first rounded to float32 (the Constant holds float32), the product is rounded to float32 again. *)
From Coq Require Import ZArith List Bool QArith String.
Require Import OV.Torch.Onnx OV.Torch.F32.
Import ListNotations.
Local Open Scope Z_scope.

Inductive up_kind :=
| UNearest     (* aten_upsample_nearest1d / 2d / 3d: the scales are used when ALL of them are given, else output_size *)
| UVec         (* *_vec overloads: scale_factors when given, else output_size *)
| USizeOnly.   (* linear1d, bilinear2d, bicubic2d, trilinear3d (non-vec): output_size, scales ignored *)

Definition all_given (scales : list (option Q)) : bool :=
  match scales with [] => false | _ => forallb (fun o => match o with Some _ => true | None => false end) scales end.
Definition aten_upsample_uses_scales (k : up_kind) (scales : list (option Q)) : bool :=
  match k with USizeOnly => false | _ => all_given scales end.

(* floor of m * 2^e *)
Definition fl (p : Z * Z) : Z := let '(m, e) := p in if 0 <=? e then m * 2 ^ e else m / 2 ^ (- e).
(* float32 path: scale q > 0 as an exact rational (the python float); extent n >= 0 *)
Definition onnx_scale_extent (n : Z) (q : Q) : Z :=
  if (n <=? 0) || (Qnum q <=? 0) then 0
  else let '(m, e) := round24 (Qnum q) (Zpos (Qden q)) in                 (* float32(scale) = m * 2^e *)
       let x := if 0 <=? e then n * m * 2 ^ e else n * m in
       let y := if 0 <=? e then 1 else 2 ^ (- e) in
       fl (round24 x y).                                                    (* floor(float32(n * float32(scale))) *)
Definition torch_scale_extent (n : Z) (q : Q) : Z := (n * Qnum q) / Zpos (Qden q).

Fixpoint map2o (f : Z -> Q -> Z) (ns : list Z) (qs : list (option Q)) : list Z :=
  match ns, qs with
  | n :: ns', Some q :: qs' => f n q :: map2o f ns' qs'
  | _, _ => []
  end.
(* spatial output extents; ns = spatial input extents, size = output_size ([] when the .vec overload gets None) *)
Definition aten_upsample_extents (k : up_kind) (ns size : list Z) (scales : list (option Q)) : list Z :=
  if aten_upsample_uses_scales k scales then map2o onnx_scale_extent ns scales else size.
Definition torch_upsample_extents (k : up_kind) (ns size : list Z) (scales : list (option Q)) : list Z :=
  match k with
  | UVec => match size with [] => map2o torch_scale_extent ns scales | _ => size end
  | _ => size
  end.
Definition skel_upsample (k : up_kind) (size : list Z) (scales : list (option Q)) : list (string * list (list Z)) :=
  if aten_upsample_uses_scales k scales then [("Resize"%string, [[0]; [0]])]
  else [("Shape"%string, [[2]; [0]]); ("Cast"%string, [[7]; size]); ("Concat"%string, [[0]]); ("Resize"%string, [[0]; [0]])].
