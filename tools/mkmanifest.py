#!/venv/bin/python
"""Regenerate MANIFEST.json from the table below (only properties with harness/cXX.py are claimed)."""
import json
import os

HERE = os.path.dirname(os.path.dirname(os.path.abspath(__file__)))

# id -> (category, technique, level text, level note, design_ref)
T = {}


def reg(pid, technique, text, note, cat="proof"):
    T[pid] = dict(cat=cat, technique=technique, text=text, note=note)


exec(open(os.path.join(HERE, "tools", "manifest_table.py")).read())
import glob
for _f in sorted(glob.glob(os.path.join(HERE, "tools", "manifest.d", "*.py"))):
    exec(open(_f).read())

NOT_BUILT = {}
checks = []
na = []
for n in range(1, 21):
    pid = f"C{n:02d}"
    if pid in T and os.path.exists(os.path.join(HERE, "harness", pid.lower() + ".py")):
        t = T[pid]
        checks.append({
            "property_id": pid,
            "quick_cmd": f"./check {pid} --tier quick",
            "thorough_cmd": f"./check {pid} --tier thorough",
            "evidence_file": f"/verif/evidence/{pid}.json",
            "replay_cmd_template": f"./check {pid} --replay {{path}}",
            "engine": "coq-proof+correspondence",
            "level_claimed": {"category": t["cat"], "text": t["text"], "design_ref": f"DESIGN.md section 5 ({pid})"},
            "level_note": t["note"],
            "technique": t["technique"],
        })
    else:
        na.append({"property_id": pid, "reason": NA.get(pid, "no check registered yet: the Coq model and its correspondence for this property are not built; see DESIGN.md section 5 for the plan")})

m = {
    "version": 1,
    "setup_cmd": "./check --setup",
    "hooks": {
        "guard": "ONNXSCRIPT_VERIF",
        "enable": "no source hooks: observation points are reached by wrapping module-level callables inside the harness process; checks run /repo's working tree through PYTHONPATH=/repo with ONNXSCRIPT_VERIF=1 set (unused by the source)",
        "baseline_off_cmd": "cd /repo && /venv/bin/python -m pytest -ra -q -p no:cacheprovider --timeout=900 --continue-on-collection-errors",
        "source_commits": [],
        "add_only": True,
    },
    "engines": [{
        "name": "coq-proof+correspondence",
        "path": "/verif/check",
        "serves_properties": [c["property_id"] for c in checks],
        "kind_free_text": "Coq 8.16.1 development under /verif/coq (models, theorems, Props/Cxx.v with Print Assumptions) rebuilt on every run; models regenerated from /repo by translators (gen/, harness regenerate()) or tied by a correspondence check that evaluates the Gallina model with vm_compute on the same inputs as the implementation",
    }],
    "checks": checks,
    "not_applicable": na,
    "notes": "Fix commits in /repo and known findings are recorded in /verif/known_findings.json; DESIGN.md section 7 describes them.",
}
json.dump(m, open(os.path.join(HERE, "MANIFEST.json"), "w"), indent=1)
print("claimed:", [c["property_id"] for c in checks])
