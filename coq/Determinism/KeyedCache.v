(* C14 -- process-wide memo tables keyed by a projection of the request.
   A module-level object (e.g. optimizer/_constant_folding.py: _reference_evaluator) that remembers
   f(x) under the key k(x): a later request y with k(y) = k(x) is answered with f(x).  The answers are
   independent of the history of earlier requests exactly when f factors through k.
   No proofs in this file (KeyedCacheProofs.v). *)
From Coq Require Import List String Bool.
Import ListNotations.
Local Open Scope string_scope.

Section Memo.
  Variables X K V : Type.
  Variable K_eq_dec : forall a b : K, {a = b} + {a <> b}.
  Variable k : X -> K.     (* the key the source builds from the request *)
  Variable f : X -> V.     (* what is computed on a miss *)

  Definition memo := list (K * V).
  Fixpoint find (key : K) (m : memo) : option V :=
    match m with
    | [] => None
    | (key', v) :: r => if K_eq_dec key key' then Some v else find key r
    end.
  (* if key not in memo: memo[key] = f(x);  return memo[key] *)
  Definition request (m : memo) (x : X) : V * memo :=
    match find (k x) m with
    | Some v => (v, m)
    | None => (f x, (k x, f x) :: m)
    end.
  Fixpoint serve (m : memo) (h : list X) : memo :=
    match h with [] => m | x :: r => serve (snd (request m x)) r end.
  (* the answer to x in a process that served the history h before (fresh process: h = []) *)
  Definition answer_after (h : list X) (x : X) : V := fst (request (serve [] h) x).

  Definition factors_through_key : Prop := forall x y, k x = k y -> f x = f y.
End Memo.
Arguments find {K V} K_eq_dec key m.
Arguments request {X K V} K_eq_dec k f m x.
Arguments serve {X K V} K_eq_dec k f m h.
Arguments answer_after {X K V} K_eq_dec k f h x.
Arguments factors_through_key {X K V} k f.

(* requests as named parameters of the memoizing method; the key is a tuple of some of them *)
Definition env := string -> nat.
Definition project (P : list string) (x : env) : list nat := map x P.
Definition depends_only_on {V : Type} (f : env -> V) (Q : list string) : Prop :=
  forall x y : env, (forall p, In p Q -> x p = y p) -> f x = f y.

(* translator data: one record per memo table found in the source *)
Record memo_site := { m_owner : string; m_field : string; m_key_params : list string; m_fun_params : list string }.
Definition smem (s : string) (l : list string) : bool := existsb (String.eqb s) l.
Definition memo_ok (m : memo_site) : bool := forallb (fun p => smem p (m_key_params m)) (m_fun_params m).
Definition bad_memos (l : list memo_site) : list string :=
  map (fun m => (m_owner m ++ "." ++ m_field m)%string) (filter (fun m => negb (memo_ok m)) l).

(* the reference-evaluator lookup with the opset version left out of the key (refutation witness):
   request = (op type, opset version); implementation = (op type, since-version of the schema in force) *)
Definition since (v : nat) : nat := if Nat.leb 13 v then 13 else 11.
Definition impl_of (x : string * nat) : string * nat := (fst x, since (snd x)).
Definition key_without_version (x : string * nat) : string := fst x.
Definition key_with_version (x : string * nat) : string * nat := x.
