(* Field trees of protobuf messages and the inclusion checker used by C15.
   The harness turns a ModelProto into a `tree` (populated, non-default fields only; repeated fields that ONNX
   addresses by name -- initializers, value_info, metadata_props, opset_import, functions, attributes -- become
   `Node`s keyed by that name, all other repeated fields `Seq`s; tensors are (dtype, dims, payload bytes, ...)).
   `includes a b` decides "every populated field of a reappears in b with the same value".  No proofs here. *)
From Coq Require Import ZArith List Bool String.
Import ListNotations.
Open Scope Z_scope.

(* bytes / strings are carried as their lower-case hex text (an injective encoding; one token for Coq's parser) *)
Inductive value := VInt (z : Z) | VBytes (hex : string).
Inductive tree :=
| Leaf (v : value)
| Node (fields : list (string * tree))
| Seq (items : list tree).

Definition value_eqb (a b : value) : bool :=
  match a, b with VInt x, VInt y => Z.eqb x y | VBytes x, VBytes y => String.eqb x y | _, _ => false end.

Fixpoint lookup (k : string) (l : list (string * tree)) : option tree :=
  match l with [] => None | (k', t) :: r => if String.eqb k k' then Some t else lookup k r end.

Fixpoint includes (a b : tree) {struct a} : bool :=
  match a, b with
  | Leaf v, Leaf w => value_eqb v w
  | Node fa, Node fb =>
      (fix go (l : list (string * tree)) : bool :=
         match l with
         | [] => true
         | (k, ta) :: r => match lookup k fb with Some tb => includes ta tb | None => false end && go r
         end) fa
  | Seq la, Seq lb =>
      (fix go (l m : list tree) : bool :=
         match l, m with
         | [], [] => true
         | x :: r, y :: s => includes x y && go r s
         | _, _ => false
         end) la lb
  | _, _ => false
  end.

(* paths into a tree *)
Inductive pstep := Key (k : string) | Idx (i : nat).
Fixpoint get (t : tree) (p : list pstep) : option tree :=
  match p with
  | [] => Some t
  | Key k :: r => match t with Node fs => match lookup k fs with Some c => get c r | None => None end | _ => None end
  | Idx i :: r => match t with Seq l => match nth_error l i with Some c => get c r | None => None end | _ => None end
  end.

(* well-keyed: no `Node` of the tree lists a key twice (then every field is reachable by a path) *)
Fixpoint keys_nodupb (ks : list string) : bool :=
  match ks with [] => true | k :: r => negb (existsb (String.eqb k) r) && keys_nodupb r end.
Fixpoint wkb (t : tree) : bool :=
  match t with
  | Leaf _ => true
  | Node fs => keys_nodupb (map fst fs) && (fix go (l : list (string * tree)) : bool := match l with [] => true | (_, c) :: r => wkb c && go r end) fs
  | Seq l => (fix go (l : list tree) : bool := match l with [] => true | c :: r => wkb c && go r end) l
  end.

(* the specification of inclusion, in terms of paths only: wherever a has something, b has something of the same kind --
   the same scalar / bytes value, a keyed container, or an ordered list of the same length *)
Definition same_kind (x y : tree) : Prop :=
  match x, y with
  | Leaf v, Leaf w => v = w
  | Node _, Node _ => True
  | Seq l, Seq m => List.length l = List.length m
  | _, _ => False
  end.
Definition Included (a b : tree) : Prop :=
  forall p x, get a p = Some x -> exists y, get b p = Some y /\ same_kind x y.

Fixpoint disagreeing (i : nat) (cs : list bool) : list nat :=
  match cs with [] => [] | c :: t => ((if c then [] else [i]) ++ disagreeing (S i) t)%list end.
