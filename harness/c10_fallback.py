"""C10 -- the C-API fallback path against Version/Fallback.v, under a STUBBED oracle and with the real C API.

_ConvertVersionPassRequiresInline(target, fallback)(ir_model) is run with onnx.version_converter.convert_version replaced
(in this process) by
    real      the real ONNX C-API converter,
    relabel   returns the proto it was given with the default-domain opset_import set to the target,
    raise     raises RuntimeError,
    rename    relabel + renames one input that stands for an initializer (interface NOT kept: the model predicts the loss),
    extra     relabel + one more initializer and one more graph input appended (what C++ adapters may do),
    payload   relabel + the values of one small initializer changed in the returned proto,
    dropinit  relabel + one small initializer removed from the returned initializer list (its input stays),
    reorder   relabel + the returned initializer list reversed,
and the final state -- imports, node list, graph inputs with their types, outputs, the initializer table in dict order with
the IDENTITY of every payload (the very tensor object of the original model vs a deserialized copy), PassResult.modified,
exception class -- together with what the stub was given is compared with Fallback.requires_inline_call inside Coq
(FallbackStd.fb_disagreeing).  The property is judged directly as well: on failure nothing changed; on success with an
interface-keeping oracle the inputs are the original ones and every original initializer is there with its original payload.
"""
from __future__ import annotations

from unittest import mock

import numpy as np

from harness import common
from harness.common import cbool, clist, copt, cstr, cz


class Coder:
    """small integer codes for (dtype, shape) of values and tensors, shared by everything compared within one run"""

    def __init__(self):
        self.d = {}

    def ty(self, dtype, shape):
        key = (None if dtype is None else int(dtype), None if shape is None else tuple(str(d) for d in shape))
        return self.d.setdefault(key, len(self.d) + 1)


def ir_sig(graph, coder, payload):
    """(inputs [(name, type code)], outputs [name], initializers [(name, (size, payload id, type code))] in dict order)"""
    ins = [(v.name, coder.ty(v.dtype, v.shape)) for v in graph.inputs]
    outs = [v.name for v in graph.outputs]
    its = []
    for name, v in graph.initializers.items():
        t = v.const_value
        if t is None:
            its.append((name, (0, 0, 0)))
        else:
            its.append((name, (int(t.size), payload(name, t), coder.ty(t.dtype, t.shape))))
    return ins, outs, its


def c_gsig(sg):
    return (f"(GSig {clist(sg[0], lambda p: f'({cstr(p[0])}, {cz(p[1])})')} {clist(sg[1], cstr)} "
            + clist(sg[2], lambda kv: f"({cstr(kv[0])}, Tensor {cz(kv[1][0])} {cz(kv[1][1])} {cz(kv[1][2])})") + ")")


def _fill(t):
    a = np.asarray(t.numpy()).reshape(-1)
    return int(round(float(a[0]))) if a.size else 0


SIZES = [1, 4, 1000, 1001, 2048]


def build(rng, s, all_used=False):
    """a model with k initializers of sizes around the strip limit (some also graph inputs, some possibly unused)"""
    from onnx import TensorProto as TP
    from onnx import helper, numpy_helper
    k = rng.randint(0, 4)
    inits, nodes, gin, outs = [], [], [helper.make_tensor_value_info("x", TP.FLOAT, [2])], []
    fills = {}
    for j in range(k):
        size = rng.choice(SIZES)
        name = f"w{j}"
        inits.append(numpy_helper.from_array(np.full((size,), float(j + 1), dtype=np.float32), name))
        fills[name] = j + 1
        if rng.random() < 0.3:
            gin.append(helper.make_tensor_value_info(name, TP.FLOAT, [size]))
        if all_used or rng.random() < 0.85:
            nodes.append(helper.make_node("Shape", [name], [f"s{j}"]))
            outs.append(helper.make_tensor_value_info(f"s{j}", TP.INT64, [1]))
    if rng.random() < 0.3:              # a later user input after an initializer-input
        gin.append(helper.make_tensor_value_info("x2", TP.FLOAT, [2]))
        nodes.append(helper.make_node("Add", ["x", "x2"], ["xa"]))
        src = "xa"
    else:
        src = "x"
    nodes.append(helper.make_node("Relu", [src], ["y"]))
    g = helper.make_graph(nodes, "g", gin, [helper.make_tensor_value_info("y", TP.FLOAT, [2])] + outs, initializer=inits)
    return helper.make_model(g, opset_imports=[helper.make_opsetid("", s)], ir_version=9 if s >= 19 else 8, producer_name="osverif-c10"), fills


def make_stub(kind, t, seen, real):
    import onnx
    from onnx import TensorProto as TP
    from onnx import helper, numpy_helper

    def stub(proto, target_version):
        seen["proto"] = onnx.ModelProto()
        seen["proto"].CopyFrom(proto)
        if kind == "real":
            out = real(proto, target_version)
            seen["answer"] = out
            return out
        if kind == "raise":
            raise RuntimeError("osverif stub")
        out = onnx.ModelProto()
        out.CopyFrom(proto)
        for o in out.opset_import:
            if o.domain == "":
                o.version = target_version
        init_names = [i.name for i in out.graph.input if i.name.startswith("w")]
        small = [x for x in out.graph.initializer]
        if kind == "rename" and init_names:
            old = init_names[-1]
            for i in out.graph.input:
                if i.name == old:
                    i.name = old + "_renamed"
            for x in out.graph.initializer:
                if x.name == old:
                    x.name = old + "_renamed"
            for n in out.graph.node:
                for q, nm in enumerate(n.input):
                    if nm == old:
                        n.input[q] = old + "_renamed"
        elif kind == "extra":
            out.graph.initializer.append(numpy_helper.from_array(np.full((3,), 50.0, dtype=np.float32), "osv_new"))
            out.graph.input.append(helper.make_tensor_value_info("osv_in", TP.FLOAT, [2]))
        elif kind == "payload" and small:
            x = small[0]
            a = numpy_helper.to_array(x)
            x.CopyFrom(numpy_helper.from_array(np.full(a.shape, 77.0, dtype=np.float32), x.name))
        elif kind == "dropinit" and small:
            del out.graph.initializer[0]
        elif kind == "reorder" and len(small) > 1:
            xs = list(out.graph.initializer)[::-1]
            del out.graph.initializer[:]
            out.graph.initializer.extend(xs)
        seen["answer"] = out
        return out

    return stub


KEEPS_INTERFACE = {"real", "relabel", "extra", "payload", "dropinit", "reorder"}


def run(ctx, H, st, fx):
    import onnx
    import onnx.version_converter
    import onnx_ir as ir
    from onnxscript import version_converter
    from onnxscript.version_converter import _c_api_utils
    rng = ctx.rng
    lo, hi = st["lo"], st["hi"]
    limit = _c_api_utils._BIG_TENSOR_SIZE_LIMIT
    real = onnx.version_converter.convert_version
    H._quiet_logging()
    kinds = ["real", "relabel", "raise", "rename", "extra", "payload", "dropinit", "reorder"]
    n = 96 if ctx.tier == "quick" else 480
    lits, metas = [], []
    stats = {"cases": 0, "branch": {}, "stub_called": 0, "answers": 0, "initializers": 0, "big_initializers": 0, "payload_identity_checked": 0}
    for i in range(n):
        kind = kinds[i % len(kinds)]
        coder = Coder()
        # requests: mostly natively unsupported (fallback decides), some supported, some already at the target
        r = rng.random()
        if r < 0.55:
            s = rng.randint(lo + 1, hi)
            t = rng.randint(max(lo - 4, 9), s - 1)
        elif r < 0.7:
            s = rng.randint(13, lo - 1)
            t = rng.randint(lo, hi)
        elif r < 0.8:
            s = rng.randint(lo, hi)
            t = hi + rng.randint(1, 3)
        elif r < 0.93:
            s = rng.randint(lo, hi - 1)
            t = rng.randint(s + 1, hi)
        else:
            s = t = rng.randint(lo, hi)
        fb = rng.random() < 0.8
        proto, fills = build(rng, s)
        im = ir.from_proto(proto)
        orig = {name: v.const_value for name, v in im.graph.initializers.items()}
        ident = {id(tn): fills[name] for name, tn in orig.items()}

        def payload(name, tn, ident=ident):
            if id(tn) in ident:
                stats["payload_identity_checked"] += 1
                return ident[id(tn)]            # the very tensor object of the original model
            return 100 + _fill(tn)              # a deserialized copy (or something the oracle made)

        before_m = H.x_model(im)
        before_g = ir_sig(im.graph, coder, payload)
        stats["initializers"] += len(before_g[2])
        stats["big_initializers"] += sum(1 for _, (sz, _, _) in before_g[2] if sz > limit)
        seen = {}
        h = H._quiet_logging()
        h.skips = 0
        err = None
        res = None
        with mock.patch.object(onnx.version_converter, "convert_version", make_stub(kind, t, seen, real)):
            try:
                res = version_converter._ConvertVersionPassRequiresInline(target_version=t, fallback=fb)(im)
            except Exception as e:  # noqa: BLE001 -- the class is the observation
                err = e
        after_m = H.x_model(im)
        after_g = ir_sig(im.graph, coder, payload)
        if err is not None:
            obs = f"(FORaised {H.exc_class(err)} {H.c_model(after_m)} {c_gsig(after_g)})"
        else:
            obs = f"(FODone {H.c_model(after_m)} {c_gsig(after_g)} {cbool(bool(res.modified))} {h.skips}%nat)"
        c_seen = c_ans = "None"
        if "proto" in seen:
            stats["stub_called"] += 1
            pm = ir.from_proto(seen["proto"])
            sg = ir_sig(pm.graph, coder, lambda name, tn: fills.get(name, 100 + _fill(tn)))     # what func is given: the model's own tensors
            c_seen = f"(Some ({H.c_model(H.x_model(pm))}, {c_gsig(sg)}))"
        if "answer" in seen:
            stats["answers"] += 1
            am = ir.from_proto(seen["answer"])
            ag = ir_sig(am.graph, coder, lambda name, tn: 100 + _fill(tn))                        # copies
            c_ans = f"(Some ({H.c_model(H.x_model(am))}, {c_gsig(ag)}))"
        lits.append(f"(FCase {cbool(fx['own'])} {cbool(fx['refuse'])} {fx['minchk']} {H.c_flags(fx)} {cz(limit)} {cbool(fb)} {H.c_model(before_m)} "
                    f"{c_gsig(before_g)} {cz(t)} {c_seen} {c_ans} {obs})")
        supported = lo <= s <= t <= hi
        branch = "noop" if s == t else ("native" if (not fb or supported) else ("capi-ok" if "answer" in seen else "capi-failed"))
        metas.append((i, kind, s, t, fb, branch))
        stats["cases"] += 1
        stats["branch"][branch] = stats["branch"].get(branch, 0) + 1
        ctx.case(("fallback", kind if branch.startswith("capi") else "-", branch, fb, len(before_g[2]), sum(1 for _, (sz, _, _) in before_g[2] if sz > limit) > 0,
                  "err" if err else "ok"))

        # ---- the property, directly
        rep = {"family": "fallback", "stub": kind, "s": s, "t": t, "fallback": fb, "branch": branch, "before": repr(before_g), "after": repr(after_g)}
        if branch in ("capi-failed", "capi-ok") and err is not None:
            ctx.violation("C10:fallback:raises", f"fallback on, {s}->{t}, oracle `{kind}`: the pass raised {type(err).__name__}: {str(err)[:120]} "
                          "(promised: a failing C API leaves the model as it was, without an exception)", rep)
            continue
        if branch in ("capi-failed", "noop") or err is not None:
            # nothing may have changed: model part, inputs with types, outputs, initializer map with payload identity
            if after_m != before_m or after_g[0] != before_g[0] or after_g[1] != before_g[1] or dict(after_g[2]) != dict(before_g[2]):
                ctx.violation(f"C10:fallback:{branch}:model-changed", f"{s}->{t} fallback={fb} oracle `{kind}` ({'raised ' + type(err).__name__ if err else 'returned'}): "
                              "the model differs from the one passed in", rep)
        elif branch == "capi-ok" and kind in KEEPS_INTERFACE:
            if after_g[0] != before_g[0]:
                ctx.violation("C10:fallback:capi-ok:graph-inputs", f"{s}->{t} oracle `{kind}`: graph inputs (names / order / types) changed", rep)
            a = dict(after_g[2])
            lost = [k for k, v in before_g[2] if a.get(k) != v]
            if lost:
                ctx.violation("C10:fallback:capi-ok:initializers", f"{s}->{t} oracle `{kind}`: initializer(s) {lost} lost, or not the original payload", rep)
            if after_m[0] != t and kind != "real":
                ctx.violation("C10:fallback:capi-ok:declared", f"{s}->{t} oracle `{kind}`: declares {after_m[0]}", rep)
        elif branch == "native":
            if after_g != before_g:
                ctx.violation("C10:fallback:native:signature-touched", f"{s}->{t} fallback={fb}: the native branch changed inputs / outputs / initializers", rep)

    shard = 48
    bodies = ["Definition cs : list fcase := " + clist(lits[k:k + shard]) + ".\nEval vm_compute in (fb_disagreeing 0 cs)." for k in range(0, len(lits), shard)]
    req = ["OV.Version.Model", "OV.Version.Model2", "OV.Version.Adapters", "OV.Version.Std", "OV.Version.CApi", "OV.Version.Fallback", "OV.Version.FallbackStd"]
    import os
    from concurrent.futures import ThreadPoolExecutor
    os.makedirs(ctx.cases_dir, exist_ok=True)
    with ThreadPoolExecutor(max_workers=4) as ex:
        res = list(ex.map(lambda kb: ctx.coq_eval(req, kb[1], name=f"c10_fb_{kb[0]}"), enumerate(bodies)))
    bad = []
    broken = False
    for k, (ok, vals, raw) in enumerate(res):
        if not ok or not vals:
            ctx.tie_broken("correspondence", "fallback-evaluation", raw[-600:])
            broken = True
            continue
        bad += [metas[k * shard + j] for j in common.parse_nat_list(vals[0])]
    if bad:
        ctx.tie_broken("correspondence", "fallback", f"{len(bad)} case(s) where _ConvertVersionPassRequiresInline differs from Fallback.requires_inline_call "
                       f"(final imports / nodes / inputs with types / outputs / initializer table with payload identity / modified flag / exception class / what the "
                       f"C API was given); first (index, stub, s, t, fallback, branch): {bad[:4]}")
    ctx.obligation("correspondence: _ConvertVersionPassRequiresInline.call under a stubbed C API (relabel / raise / rename / extra / payload / dropinit / reorder) and "
                   "with the real C API = Fallback.requires_inline_call (state after, payload identity, what the C API is given)", not bad and not broken,
                   f"{len(bad)} disagreeing of {len(lits)}; branches {stats['branch']}; stub called {stats['stub_called']}, answered {stats['answers']}")
    torch_wrapper(ctx, H, st, fx, stats)
    ctx.cover(fallback_family=stats)
    if stats["branch"].get("capi-ok", 0) < 10 or stats["branch"].get("capi-failed", 0) < 5 or stats["big_initializers"] < 10:
        ctx.tie_broken("harness", "fallback-family-degenerate", str(stats))


def check_torch_2_9_source(ctx):
    """translator-style reading of onnxscript/_framework_apis/torch_2_9.py (fail-closed): convert_version(model, target_version) is
    exactly `version_converter.convert_version(model, target_version, fallback=True); return model` -- what Fallback.torch_2_9_convert models"""
    import ast
    import os
    path = os.path.join(common.REPO, "onnxscript", "_framework_apis", "torch_2_9.py")
    try:
        tree = ast.parse(open(path).read())
    except Exception as e:  # noqa: BLE001
        ctx.tie_broken("translator", "torch_2_9.py", f"cannot parse: {e}")
        return False
    imp = any(isinstance(n, ast.ImportFrom) and n.module == "onnxscript" and any(a.name == "version_converter" and a.asname is None for a in n.names)
              for n in tree.body)
    fns = [n for n in tree.body if isinstance(n, ast.FunctionDef) and n.name == "convert_version"]
    why = None
    if not imp:
        why = "`from onnxscript import version_converter` not found"
    elif len(fns) != 1:
        why = f"{len(fns)} definitions of convert_version"
    else:
        f = fns[0]
        body = [b for b in f.body if not (isinstance(b, ast.Expr) and isinstance(b.value, ast.Constant) and isinstance(b.value.value, str))]
        args = [a.arg for a in f.args.args]
        if args != ["model", "target_version"] or f.args.vararg or f.args.kwarg or f.args.kwonlyargs or f.decorator_list:
            why = f"signature {args}"
        elif len(body) != 2 or not isinstance(body[0], ast.Expr) or not isinstance(body[0].value, ast.Call) or not isinstance(body[1], ast.Return):
            why = "body is not [call; return]"
        else:
            c = body[0].value
            ok = (isinstance(c.func, ast.Attribute) and c.func.attr == "convert_version" and isinstance(c.func.value, ast.Name) and c.func.value.id == "version_converter"
                  and [getattr(a, "id", None) for a in c.args] == ["model", "target_version"]
                  and [(k.arg, getattr(k.value, "value", None)) for k in c.keywords] == [("fallback", True)]
                  and isinstance(body[1].value, ast.Name) and body[1].value.id == "model")
            if not ok:
                why = "body differs from `version_converter.convert_version(model, target_version, fallback=True); return model`: " + ast.unparse(f)[-300:]
    if why is None:
        from onnxscript._framework_apis import torch_2_9
        try:
            from onnxscript._framework_apis import torch_2_11
            if torch_2_11.convert_version is not torch_2_9.convert_version:
                why = "torch_2_11.convert_version is not torch_2_9.convert_version"
        except ImportError:
            pass
    ctx.obligation("translator (reading): _framework_apis/torch_2_9.py convert_version = version_converter.convert_version(model, target_version, fallback=True); "
                   "return model (the definition of Fallback.torch_2_9_convert); torch_2_11 re-exports it", why is None, why or "")
    if why is not None:
        ctx.tie_broken("translator", "torch_2_9.py", why)
    return why is None


def torch_wrapper(ctx, H, st, fx, stats):
    """torch_2_9.convert_version(model, t) under the stubbed / real C API against Fallback.torch_2_9_convert (inline measured, clean-up = identity)"""
    import onnx
    import onnx.version_converter
    import onnx_ir as ir
    from onnxscript._framework_apis import torch_2_9
    from onnxscript.version_converter import _c_api_utils
    check_torch_2_9_source(ctx)
    rng = ctx.rng
    lo, hi = st["lo"], st["hi"]
    limit = _c_api_utils._BIG_TENSOR_SIZE_LIMIT
    real = onnx.version_converter.convert_version
    kinds = ["real", "relabel", "raise", "rename", "payload", "reorder"]
    n = 36 if ctx.tier == "quick" else 180
    lits, metas = [], []
    outcomes = {}
    for i in range(n):
        kind = kinds[i % len(kinds)]
        coder = Coder()
        r = rng.random()
        if r < 0.5:
            s = rng.randint(lo + 1, hi)
            t = rng.randint(max(lo - 4, 9), s - 1)
        elif r < 0.65:
            s = rng.randint(13, lo - 1)
            t = rng.randint(lo, hi)
        elif r < 0.75:
            s = rng.randint(lo, hi)
            t = hi + rng.randint(1, 3)
        elif r < 0.92:
            s = rng.randint(lo, hi - 1)
            t = rng.randint(s + 1, hi)
        else:
            s = t = rng.randint(lo, hi)
        proto, fills = build(rng, s, all_used=True)
        im = ir.from_proto(proto)
        orig = {name: v.const_value for name, v in im.graph.initializers.items()}
        ident = {id(tn): fills[name] for name, tn in orig.items()}
        payload = lambda name, tn, ident=ident: ident[id(tn)] if id(tn) in ident else 100 + _fill(tn)
        m_inl = H.inline_copy(proto)                    # oracle `inline`, measured on a copy
        before_m = H.x_model(m_inl)
        before_g = ir_sig(m_inl.graph, coder, lambda name, tn: fills.get(name, 100 + _fill(tn)))
        seen = {}
        h = H._quiet_logging()
        h.skips = 0
        err = None
        res = im
        with mock.patch.object(onnx.version_converter, "convert_version", make_stub(kind, t, seen, real)):
            try:
                res = torch_2_9.convert_version(im, t)
            except Exception as e:  # noqa: BLE001
                err = e
        after_m = H.x_model(im)
        after_g = ir_sig(im.graph, coder, payload)
        if err is not None:
            obs = f"(FORaised {H.exc_class(err)} {H.c_model(after_m)} {c_gsig(after_g)})"
        else:
            obs = f"(FODone {H.c_model(after_m)} {c_gsig(after_g)} false {h.skips}%nat)"
        c_seen = c_ans = "None"
        if "proto" in seen:
            pm = ir.from_proto(seen["proto"])
            c_seen = f"(Some ({H.c_model(H.x_model(pm))}, {c_gsig(ir_sig(pm.graph, coder, lambda name, tn: fills.get(name, 100 + _fill(tn))))}))"
        if "answer" in seen:
            am = ir.from_proto(seen["answer"])
            c_ans = f"(Some ({H.c_model(H.x_model(am))}, {c_gsig(ir_sig(am.graph, coder, lambda name, tn: 100 + _fill(tn)))}))"
        lits.append(f"(FCase {cbool(fx['own'])} {cbool(fx['refuse'])} {fx['minchk']} {H.c_flags(fx)} {cz(limit)} true {H.c_model(before_m)} "
                    f"{c_gsig(before_g)} {cz(t)} {c_seen} {c_ans} {obs})")
        supported = lo <= s <= t <= hi
        branch = "noop" if s == t else ("native" if supported else ("capi-ok" if "answer" in seen else "capi-failed"))
        metas.append((i, kind, s, t, branch))
        outcomes[branch] = outcomes.get(branch, 0) + 1
        ctx.case(("torch_2_9", kind if branch.startswith("capi") else "-", branch, len(before_g[2]), "err" if err else "ok"))
        rep = {"family": "torch_2_9", "stub": kind, "s": s, "t": t, "branch": branch, "before": repr(before_g), "after": repr(after_g)}
        if res is not im:
            ctx.violation("C10:torch_2_9:not-in-place", "torch_2_9.convert_version returned another object than the model passed in", rep)
        if err is not None and not supported:
            ctx.violation("C10:torch_2_9:unsupported-request:raises", f"torch_2_9.convert_version({s}->{t}), oracle `{kind}`: raised {type(err).__name__}: {str(err)[:120]}", rep)
        elif err is None and branch == "capi-failed" and (after_m != before_m or after_g[0] != before_g[0] or after_g[1] != before_g[1] or dict(after_g[2]) != dict(before_g[2])):
            ctx.violation("C10:torch_2_9:unsupported-request:failed-but-modified", f"{s}->{t}: the C API failed (oracle `{kind}`) but the model differs from the one passed in", rep)
    stats["torch_2_9_cases"] = {"n": n, "branches": outcomes}
    ok, vals, raw = ctx.coq_eval(["OV.Version.Model", "OV.Version.Model2", "OV.Version.Adapters", "OV.Version.Std", "OV.Version.CApi", "OV.Version.Fallback",
                                  "OV.Version.FallbackStd"], "Definition cs : list fcase := " + clist(lits) + ".\nEval vm_compute in (tw_disagreeing 0 cs).", name="c10_tw")
    bad = None
    if not ok or not vals:
        ctx.tie_broken("correspondence", "torch_2_9-evaluation", raw[-600:])
    else:
        bad = [metas[j] for j in common.parse_nat_list(vals[0])]
        if bad:
            ctx.tie_broken("correspondence", "torch_2_9", f"{len(bad)} case(s) where _framework_apis.torch_2_9.convert_version differs from Fallback.torch_2_9_convert; "
                           f"first (index, stub, s, t, branch): {bad[:4]}")
    ctx.obligation("correspondence: _framework_apis.torch_2_9.convert_version under a stubbed / the real C API = Fallback.torch_2_9_convert (inline measured, clean-up "
                   "identity): final imports, nodes, inputs with types, outputs, initializer table with payload identity, exception class", bad == [],
                   f"{bad and len(bad)} disagreeing of {len(lits)}; branches {outcomes}")
