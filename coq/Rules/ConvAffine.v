(* Model of onnxscript/rewriter/rules/common/_fuse_conv_affine.py (C05):
   AffineConvFusion  Conv(x*scale + offset, W, b; pads=[0,0,0,0]) -> Conv(x, W*scale, b + sum_{1,2,3}(W*offset))
   ConvAffineFusion  Conv(x, W, b)*scale + offset                 -> Conv(x, W*scale, b*scale + offset)
   scale, offset: constants with exactly one element (any rank).  No proofs in this file. *)
From Coq Require Import ZArith QArith List Bool.
Import ListNotations.
Local Open Scope Z_scope.

Section Generic.
  Variable F : Type.
  Variables (zero : F) (add mul : F -> F -> F).

  (* one output element of a convolution for one output channel: the channel's weights against the input patch;
     a patch entry is Some v (a data element) or None (a position inside the padding, contributing 0) *)
  Fixpoint dotp (ws : list F) (xs : list (option F)) : F :=
    match ws, xs with
    | w :: ws', Some v :: xs' => add (mul w v) (dotp ws' xs')
    | _ :: ws', None :: xs' => dotp ws' xs'
    | _, _ => zero
    end.
  Definition conv_out (ws : list F) (b : F) (xs : list (option F)) : F := add (dotp ws xs) b.
  Definition affine (s o x : F) : F := add (mul x s) o.
  Fixpoint sum (l : list F) : F := match l with [] => zero | x :: t => add x (sum t) end.

  Definition scaled_w (ws : list F) (s : F) : list F := map (fun w => mul w s) ws.
  (* AffineConvFusion: b + np.sum(w * offset, axis=(1,2,3)) *)
  Definition affine_conv_b (ws : list F) (b o : F) : F := add b (sum (map (fun w => mul w o) ws)).
  (* ConvAffineFusion: b * scale + offset *)
  Definition conv_affine_b (b s o : F) : F := add (mul b s) o.
End Generic.

(* ---------------------------------------------------------------- shapes: numpy broadcasting of b[M] with one-element tensors *)
Fixpoint bcast_rev (a b : list Z) : list Z :=     (* both reversed (innermost first); sizes assumed compatible *)
  match a, b with
  | [], l | l, [] => l
  | x :: a', y :: b' => (if x =? 1 then y else x) :: bcast_rev a' b'
  end.
Definition bcast (a b : list Z) : list Z := rev (bcast_rev (rev a) (rev b)).
Definition ones (r : nat) : list Z := repeat 1 r.

(* ---------------------------------------------------------------- the two rules on rational tensors *)
Inductive cakind := AffineConv | ConvAffine.

Record ca_params := {
  ck : cakind;
  cw_shape : list Z;                 (* [M; C/g; kh; kw] *)
  cw : list Q; cb : list Q;          (* flattened W, b[M] *)
  cscale : Q; coffset : Q;
  scale_rank : nat; offset_rank : nat;
  consts_ok : bool;                  (* W, b constant; scale, offset constants with exactly one element *)
  pads_attr_zero4 : bool             (* AffineConv: Conv has the attribute pads = [0,0,0,0] (the pattern pins it) *)
}.

Fixpoint prod (l : list Z) : Z := match l with [] => 1 | x :: t => x * prod t end.
Fixpoint chunks (n : nat) (k : nat) (l : list Q) : list (list Q) :=
  match n with O => [] | S n' => firstn k l :: chunks n' k (skipn k l) end.

Definition fused_w (p : ca_params) : list Q := scaled_w Q Qmult (cw p) (cscale p).
Definition fused_b (p : ca_params) : list Q :=
  match ck p with
  | ConvAffine => map (fun b => conv_affine_b Q Qplus Qmult b (cscale p) (coffset p)) (cb p)
  | AffineConv =>
      let per := Z.to_nat (prod (tl (cw_shape p))) in
      map (fun '(b, ws) => affine_conv_b Q 0%Q Qplus Qmult ws b (coffset p)) (combine (cb p) (chunks (length (cb p)) per (cw p)))
  end.

(* rank of the emitted bias initializer *)
Definition fused_b_rank (fixed : bool) (p : ca_params) : nat :=
  if fixed then 1%nat else
  match ck p with
  | ConvAffine => length (bcast (bcast [Z.of_nat (length (cb p))] (ones (scale_rank p))) (ones (offset_rank p)))
  | AffineConv => 1%nat
  end.

Definition ca_check (fixed : bool) (p : ca_params) : bool :=
  consts_ok p && (match ck p with AffineConv => pads_attr_zero4 p | ConvAffine => true end) &&
  (if fixed then (scale_rank p <=? length (cw_shape p))%nat && (offset_rank p <=? length (cw_shape p))%nat else true).

Definition ca_rule (fixed : bool) (p : ca_params) : option (list Q * list Q * nat) :=
  if ca_check fixed p then Some (fused_w p, fused_b p, fused_b_rank fixed p) else None.

(* ---------------------------------------------------------------- correspondence helpers *)
Fixpoint ql_eqb (a b : list Q) : bool :=
  match a, b with
  | [], [] => true
  | x :: a', y :: b' => Qeq_bool x y && ql_eqb a' b'
  | _, _ => false
  end.
Definition obs_eqb (a b : option (list Q * list Q * nat)) : bool :=
  match a, b with
  | Some (w1, b1, r1), Some (w2, b2, r2) => ql_eqb w1 w2 && ql_eqb b1 b2 && Nat.eqb r1 r2
  | None, None => true
  | _, _ => false
  end.
Fixpoint idx_false {A} (f : A -> bool) (i : nat) (l : list A) : list nat :=
  match l with [] => [] | c :: t => (if f c then [] else [i]) ++ idx_false f (S i) t end.
Definition ca_case := (ca_params * option (list Q * list Q * nat))%type.
Definition ca_dis (fixed : bool) (cs : list ca_case) : list nat :=
  idx_false (fun '(p, obs) => obs_eqb (ca_rule fixed p) obs) 0 cs.
