#!/venv/bin/python
"""Compare a junit xml produced by the baseline command with /root/.vp/BASELINE.json stable_pass.
usage: baseline_cmp.py <junit.xml>  -> prints missing passes (tests in stable_pass that did not pass)."""
import json
import sys
import xml.etree.ElementTree as ET

base = set(json.load(open("/root/.vp/BASELINE.json"))["stable_pass"])
root = ET.parse(sys.argv[1]).getroot()
passed = set()
for tc in root.iter("testcase"):
    bad = any(c.tag in ("failure", "error", "skipped") for c in tc)
    if not bad:
        passed.add(f"{tc.get('classname')}::{tc.get('name')}")
missing = sorted(base - passed)
print(f"baseline stable_pass={len(base)} passed_now={len(passed)} missing={len(missing)}")
for m in missing[:40]:
    print("  MISSING", m)
sys.exit(1 if missing else 0)
