"""C16 -- every registered torch_lib overload binds correctly to its ATen schema (DESIGN.md section 5, C16).

Tie:
  translator      regenerate(ctx): live registry (get_torchlib_ops) + op_signature of every function +
                  torch.ops.<ns>.<name>.<overload>._schema of the installed PyTorch -> coq/Gen/TorchRegistry.v;
                  Props/C16.v re-proves `forallb entry_ok` over it by vm_compute on every run.
  correspondence  the Gallina `bind` against torch's real _construct_named_inputs_and_attrs on the real
                  op_signature (scripted path) and against Python's own call binding (trace-only path) on
                  generated call shapes; `name_ok` against the real _check_and_normalize_names; `register` /
                  `flatten` against the real Registry and get_torchlib_ops.
  direct oracle   each failing entry's witness call is replayed on the real function the way the exporter
                  calls it; onnx.checker.check_function on every scripted function's FunctionProto.
"""
from __future__ import annotations

import inspect
import json
import os
import string as _string

from harness import common
from harness.common import cbool, clist, cnat, copt, cstr

PROPERTY = "C16"
LEVEL = "proof"

DROPPABLE = ("generator", "layout", "device", "pin_memory", "memory_format", "requires_grad")
WHY = {"WTensorToAttr": "tensor-to-attribute", "WNotAccepted": "not-accepted", "WRequiredUnbound": "required-unbound",
       "WDroppedPositional": "dropped-positional", "WTooManyPositional": "too-many-positional",
       "WDroppedKeyword": "dropped-keyword", "WUnexpectedKeyword": "unexpected-keyword"}

_STATE = {}


def _key(qname, cx, arg, why):
    return f"C16|{qname}|{'complex' if cx else 'real'}|{arg}|{why}"


def _known_exception_entries():
    """(qname, complex) pairs named by status-known C16 findings: the registry theorem is stated modulo them."""
    out = []
    for f in common.load_findings():
        if f["property"] == PROPERTY and f.get("status", "known") == "known":
            parts = f["key"].split("|")
            if len(parts) == 5 and parts[0] == "C16":
                k = (parts[1], parts[2] == "complex")
                if k not in out:
                    out.append(k)
    return sorted(out)


# ----------------------------------------------------------------------------- translator

def _c_arg(a):
    return f'A {cstr(a["name"])} {a["base"]} {cb(a["list"])} {cb(a["opt"])} {cb(a["kwonly"])} {cb(a["default"])}'


def cb(b):
    return "Y" if b else "N"


def _c_param(p):
    kind = "PInput" if p["kind"] == "PInput" else f"(PAttr {p['kind']})"
    return f'P {cstr(p["name"])} {kind} {cb(p["required"])}'


def _load():
    if "entries" in _STATE:
        return _STATE["entries"], _STATE["counts"]
    from harness import c16_extract as X
    entries, counts = X.registry_entries()
    for e in entries:
        if e["status"] == "python":
            # Python builtin: positional-only arity taken from the builtin itself
            try:
                n = len(inspect.signature(e["target"]).parameters)
            except (TypeError, ValueError) as ex:
                raise X.Untranslatable(f"{e['qname']}: no signature for builtin {e['target']!r}: {ex}")
            e["schema"] = [{"name": f"arg{i}", "base": "BPyObj", "list": False, "opt": False, "kwonly": False,
                            "default": False, "type": "object"} for i in range(n)]
            e["schema_str"] = f"{e['qname']}({', '.join('arg%d' % i for i in range(n))})  [python builtin]"
    _STATE["entries"], _STATE["counts"] = entries, counts
    return entries, counts


def regenerate(ctx):
    from harness import c16_extract as X
    try:
        entries, _counts = _load()
    except X.Untranslatable as ex:
        ctx.tie_broken("translator", "torch_lib registry", str(ex))
        _STATE["broken"] = True
        return
    # one definition per distinct function object
    fn_ids = {}
    lines = [
        "(* GENERATED on every run by harness/c16.py (regenerate) from the live torch_lib registry of the checked tree",
        "   and the operator schemas of the installed PyTorch.  Do not edit. *)",
        "From Coq Require Import String List.",
        "Require Import OV.Registry.Binding.",
        "Import ListNotations.",
        "Open Scope string_scope.",
        "Local Notation Y := true (only parsing).",
        "Local Notation N := false (only parsing).",
        "Local Notation A := mkA (only parsing).",
        "Local Notation P := mkP (only parsing).",
    ]
    for e in entries:
        fid = id(e["fn"])
        if fid not in fn_ids:
            fn_ids[fid] = f"f{len(fn_ids)}"
            lines.append(f"Definition {fn_ids[fid]} := mkF {clist(e['params'], _c_param)} {cbool(e['traced'])}.")
        e["fid"] = fn_ids[fid]
    chunks = []
    for i, e in enumerate(entries):
        sch = copt(clist(e["schema"], _c_arg)) if "schema" in e else "None"
        lines.append(f"Definition e{i} := mkE {cstr(e['qname'])} {cbool(e['complex'])} {cstr(e['fname'])} {e['fid']} {sch}.")
    for k in range(0, len(entries), 50):
        chunks.append(f"all{k // 50}")
        lines.append(f"Definition all{k // 50} : list entry := {clist(['e%d' % j for j in range(k, min(k + 50, len(entries)))])}.")
    lines.append("Definition all : list entry := " + (" ++ ".join(chunks) if chunks else "[]") + ".")
    known = _known_exception_entries()
    lines.append("(* entries named by status-known findings of known_findings.json: the registry theorem is stated modulo these *)")
    lines.append("Definition known_exceptions : list (string * bool) := "
                 + clist([f"({cstr(q)}, {cbool(c)})" for q, c in known]) + ".")
    text = "\n".join(lines) + "\n"
    _STATE["gen_changed"] = ctx.gen("TorchRegistry", text)
    _STATE["known_exceptions"] = known
