(* C10 -- the three attribute / input readers of _version_converter.py
     _get_input(node, index), _get_int_attribute(node, name, default), _get_str_attribute(node, name, default)
   as programs of a tiny Python subset, with an evaluator over the node abstraction of Model.v.  The harness translates the
   CURRENT bodies of the three functions (Python ast, fail-closed) into `hstmt` lists (Gen/VersionHelpers.v); HelpersProofs.v
   proves, for every node / name / default, that they compute Adapters.get_int / get_str / present -- the readers the adapter
   models are written with.  A reader that treats a falsy value (0, "") as absent does not.
   Also: the table of every call the adapters make to these readers (attribute name and default), regenerated from the source
   and compared with `model_reads`.  No proofs in this file. *)
From Coq Require Import ZArith List Bool String.
Import ListNotations.
Require Import OV.Version.Model OV.Version.Adapters.
Local Open Scope string_scope.
Local Open Scope Z_scope.

(* ---------------------------------------------------------------- values *)
Inductive pyv :=
| PNone
| PInt (z : Z)
| PStr (s : string)
| PBool (b : bool)
| PFloat (bits : Z)          (* a float attribute value, by its float32 bit pattern *)
| PAttr (a : attrv)          (* an ir.Attr object (onnx_ir: RefAttr(...) builds an Attr too) *)
| PValue                     (* an ir.Value object: an input that is present *)
| PObj.                      (* any other object: sequence, tensor, graph, or the None of a reference attribute -- nothing is known
                                about its truth value or identity with None *)

(* attr.value *)
Definition attr_value (a : attrv) : pyv :=
  match a with
  | AInt z => PInt z
  | AStr s => PStr s
  | AFlt b => PFloat b
  | AInts _ => PObj
  | AOther => PObj
  end.

(* bool(v); None = not determined by the abstraction *)
Definition truthy (v : pyv) : option bool :=
  match v with
  | PNone => Some false
  | PInt z => Some (negb (z =? 0))
  | PStr s => Some (negb (String.eqb s ""))
  | PBool b => Some b
  | PFloat b => Some (negb ((b =? 0) || (b =? 2147483648)))     (* +0.0 / -0.0 *)
  | PAttr _ => Some true
  | PValue => Some true
  | PObj => None
  end.

Inductive hcls := KAttr | KInt | KStr.       (* ir.Attr | int | str *)
Definition isinst (v : pyv) (k : hcls) : bool :=
  match k, v with
  | KAttr, PAttr _ => true
  | KInt, PInt _ => true
  | KInt, PBool _ => true                    (* bool is a subclass of int *)
  | KStr, PStr _ => true
  | _, _ => false
  end.

(* ---------------------------------------------------------------- syntax *)
Inductive hexp :=
| HNone | HIntLit (z : Z) | HStrLit (s : string) | HBoolLit (b : bool)
| HVar (x : string)
| HIn (e : hexp)                       (* e in node.attributes *)
| HIndex (e : hexp)                    (* node.attributes[e] *)
| HGet (e : hexp) (d : hexp)           (* node.attributes.get(e, d); one-argument form: d = HNone *)
| HIsInst (e : hexp) (k : hcls)        (* isinstance(e, k) *)
| HNot (e : hexp)
| HAnd (a b : hexp) | HOr (a b : hexp) (* Python value semantics: a and b / a or b return one of the operands *)
| HIsNone (e : hexp)                   (* e is None *)
| HValueOf (e : hexp)                  (* e.value *)
| HLt (a b : hexp) | HLe (a b : hexp)
| HLenInputs                           (* len(node.inputs) *)
| HInput (e : hexp)                    (* node.inputs[e] *)
| HIfExp (c a b : hexp).               (* a if c else b *)

Inductive hstmt :=
| HAssign (x : string) (e : hexp)
| HReturn (e : hexp)
| HIf (c : hexp) (th el : list hstmt).

Definition env := list (string * pyv).
Fixpoint env_get (x : string) (en : env) : option pyv :=
  match en with
  | [] => None
  | (k, v) :: r => if String.eqb k x then Some v else env_get x r
  end.

(* ---------------------------------------------------------------- evaluation; None = the Python raises (KeyError, IndexError,
   NameError, TypeError) or the abstraction cannot tell *)
Section Eval.
  Variable n : node.

  Definition attr_of (k : pyv) : option (option attrv) :=
    match k with PStr s => Some (lookup s (n_attrs n)) | _ => None end.

  Fixpoint eval (en : env) (e : hexp) : option pyv :=
    match e with
    | HNone => Some PNone
    | HIntLit z => Some (PInt z)
    | HStrLit s => Some (PStr s)
    | HBoolLit b => Some (PBool b)
    | HVar x => env_get x en
    | HIn a =>
      match eval en a with
      | Some k => match attr_of k with Some (Some _) => Some (PBool true) | Some None => Some (PBool false) | None => None end
      | None => None
      end
    | HIndex a =>
      match eval en a with
      | Some k => match attr_of k with Some (Some v) => Some (PAttr v) | _ => None end      (* absent: KeyError *)
      | None => None
      end
    | HGet a d =>
      match eval en a, eval en d with
      | Some k, Some dv => match attr_of k with Some (Some v) => Some (PAttr v) | Some None => Some dv | None => None end
      | _, _ => None
      end
    | HIsInst a k => match eval en a with Some v => Some (PBool (isinst v k)) | None => None end
    | HNot a => match eval en a with Some v => option_map (fun b => PBool (negb b)) (truthy v) | None => None end
    | HAnd a b =>
      match eval en a with
      | Some v => match truthy v with Some true => eval en b | Some false => Some v | None => None end
      | None => None
      end
    | HOr a b =>
      match eval en a with
      | Some v => match truthy v with Some true => Some v | Some false => eval en b | None => None end
      | None => None
      end
    | HIsNone a =>
      match eval en a with
      | Some PNone => Some (PBool true)
      | Some PObj => None
      | Some _ => Some (PBool false)
      | None => None
      end
    | HValueOf a => match eval en a with Some (PAttr v) => Some (attr_value v) | _ => None end
    | HLt a b => match eval en a, eval en b with Some (PInt x), Some (PInt y) => Some (PBool (x <? y)) | _, _ => None end
    | HLe a b => match eval en a, eval en b with Some (PInt x), Some (PInt y) => Some (PBool (x <=? y)) | _, _ => None end
    | HLenInputs => Some (PInt (Z.of_nat (List.length (n_ins n))))
    | HInput a =>
      match eval en a with
      | Some (PInt i) =>
        if i <? 0 then None                 (* negative indices are never used by the callers *)
        else match nth_error (n_ins n) (Z.to_nat i) with
             | Some true => Some PValue
             | Some false => Some PNone
             | None => None                 (* IndexError *)
             end
      | _ => None
      end
    | HIfExp c a b =>
      match eval en c with
      | Some v => match truthy v with Some true => eval en a | Some false => eval en b | None => None end
      | None => None
      end
    end.

  Inductive hres := HErr | HRet (v : pyv) | HCont (en : env).

  Fixpoint exec (en : env) (s : hstmt) {struct s} : hres :=
    match s with
    | HAssign x e => match eval en e with Some v => HCont ((x, v) :: en) | None => HErr end
    | HReturn e => match eval en e with Some v => HRet v | None => HErr end
    | HIf c th el =>
      let blk := fix blk (en : env) (l : list hstmt) {struct l} : hres :=
                   match l with
                   | [] => HCont en
                   | s :: r => match exec en s with HCont en' => blk en' r | o => o end
                   end in
      match eval en c with
      | Some v => match truthy v with Some true => blk en th | Some false => blk en el | None => HErr end
      | None => HErr
      end
    end.

  Fixpoint exec_block (en : env) (l : list hstmt) : hres :=
    match l with
    | [] => HCont en
    | s :: r => match exec en s with HCont en' => exec_block en' r | o => o end
    end.

  (* calling the function: falling off the end returns None *)
  Definition call (body : list hstmt) (args : env) : option pyv :=
    match exec_block args body with
    | HRet v => Some v
    | HCont _ => Some PNone
    | HErr => None
    end.
End Eval.

(* ---------------------------------------------------------------- what the readers must compute *)
Definition of_oz (o : option Z) : pyv := match o with Some z => PInt z | None => PNone end.
Definition of_os (o : option string) : pyv := match o with Some s => PStr s | None => PNone end.
Definition is_value (v : pyv) : bool := match v with PValue => true | _ => false end.

Definition int_args (name : string) (d : option Z) : env := [("name", PStr name); ("default", of_oz d)].
Definition str_args (name : string) (d : option string) : env := [("name", PStr name); ("default", of_os d)].
Definition input_args (i : nat) : env := [("index", PInt (Z.of_nat i))].

(* ---------------------------------------------------------------- the calls the adapters make *)
Inductive rd :=
| RInt (name : string) (d : option Z)          (* _get_int_attribute(node, name, d) *)
| RStr (name : string) (d : option string)     (* _get_str_attribute(node, name, d) *)
| RIn (i : Z).                                 (* _get_input(node, i) *)

(* (calling function -- an adapter is named by its registration: <op>_<from>_<to> --, call), SORTED by (caller, call) as the
   translator emits them: the readers are side-effect free (their translated bodies are functions of the node, HelpersProofs),
   so the order in which an adapter reads its attributes carries no information.  dft_axis = the default the DFT adapter
   passes for `axis` (Some 1 since the default-axis repair, None before it) *)
Definition model_reads (dft_axis : option Z) : list (string * rd) :=
  [ ("_unconvertible_reason", RIn 0); ("_unconvertible_reason", RIn 1);
    ("dft_19_20", RInt "axis" dft_axis); ("dft_19_20", RInt "inverse" (Some 0)); ("dft_19_20", RInt "onesided" (Some 0));
    ("gridsample_19_20", RInt "align_corners" (Some 0)); ("gridsample_19_20", RStr "mode" (Some "linear"));
    ("gridsample_19_20", RStr "padding_mode" (Some "zeros"));
    ("groupnormalization_20_21", RIn 0); ("groupnormalization_20_21", RIn 1); ("groupnormalization_20_21", RIn 2);
    ("groupnormalization_20_21", RInt "num_groups" None) ].

Definition oz_eq (a b : option Z) : bool := match a, b with Some x, Some y => x =? y | None, None => true | _, _ => false end.
Definition os_eq (a b : option string) : bool :=
  match a, b with Some x, Some y => String.eqb x y | None, None => true | _, _ => false end.
Definition rd_eqb (a b : rd) : bool :=
  match a, b with
  | RInt x d, RInt y e => String.eqb x y && oz_eq d e
  | RStr x d, RStr y e => String.eqb x y && os_eq d e
  | RIn i, RIn j => i =? j
  | _, _ => false
  end.
Definition reads_eqb (a b : list (string * rd)) : bool :=
  list_eqb (fun p q => String.eqb (fst p) (fst q) && rd_eqb (snd p) (snd q)) a b.
Definition dft_axis_default (fx : flags) : option Z := if fx_dft_axis fx then Some 1 else None.

(* ---------------------------------------------------------------- what an adapter EMITS for the attributes it read *)
(* the value of the Constant feeding the axis input of the DFT-20 node; None = no such constant *)
Definition emitted_axis (r : aresult) : option Z :=
  match r with
  | AReplace [c; d] => if nth 2 (n_ins d) false then get_int c "value_int" None else None
  | _ => None
  end.
(* attribute `name` of the last node an adapter built; None = not replaced or attribute not set *)
Definition emitted_attr (name : string) (r : aresult) : option attrv :=
  match r with
  | AReplace news => match rev news with m :: _ => lookup name (n_attrs m) | [] => None end
  | _ => None
  end.
Definition replaced (r : aresult) : bool := match r with AReplace _ => true | _ => false end.

(* ---------------------------------------------------------------- correspondence on the emitted attributes
   one observation: the node before, the adapter (op, from-version) run on it, and what stands in the converted graph:
   was the node replaced, the emitted axis constant, the attributes (sorted by name) of the op's node afterwards *)
Definition attrs_eqb (a b : list (string * attrv)) : bool :=
  list_eqb (fun p q => String.eqb (fst p) (fst q) && attrv_eqb (snd p) (snd q)) a b.
Definition oz_eqb' := oz_eq.
Record emit_case := EmitCase {
  ec_fx : flags; ec_node : node; ec_from : Z;
  ec_replaced : bool; ec_axis : option Z; ec_attrs : list (string * attrv) }.
Definition sort_free_attrs (r : aresult) (orig : node) : list (string * attrv) :=
  match r with
  | AReplace news => match rev news with m :: _ => n_attrs m | [] => [] end
  | _ => n_attrs orig
  end.
(* insertion sort by name (the harness lists attributes sorted by name) *)
Fixpoint ins_attr (p : string * attrv) (l : list (string * attrv)) : list (string * attrv) :=
  match l with
  | [] => [p]
  | q :: r => if String.leb (fst p) (fst q) then p :: l else q :: ins_attr p r
  end.
Definition sort_attrs (l : list (string * attrv)) : list (string * attrv) := fold_right ins_attr [] l.
Definition run_emit (c : emit_case) : bool :=
  match modelled (ec_fx c) (n_op (ec_node c)) (ec_from c) with
  | None => false
  | Some f =>
    let r := f (ec_node c) in
    Bool.eqb (replaced r) (ec_replaced c)
    && oz_eq (emitted_axis r) (ec_axis c)
    && attrs_eqb (sort_attrs (sort_free_attrs r (ec_node c))) (ec_attrs c)
  end.
Fixpoint emit_disagreeing (i : nat) (cs : list emit_case) : list nat :=
  match cs with
  | [] => []
  | c :: r => (if run_emit c then [] else [i]) ++ emit_disagreeing (S i) r
  end.
