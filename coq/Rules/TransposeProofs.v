From Coq Require Import List Arith Bool Lia.
Require Import OV.Rules.Transpose.
Import ListNotations.

Lemma nodupb_NoDup : forall l, nodupb l = true -> NoDup l.
Proof.
  induction l as [|a l IH]; intro H; [constructor|].
  cbn in H. apply andb_true_iff in H as [H1 H2]. constructor; auto.
  intro Hin. apply negb_true_iff in H1. assert (existsb (Nat.eqb a) l = true); [|congruence].
  apply existsb_exists. exists a. split; auto. apply Nat.eqb_refl.
Qed.

Lemma is_perm_spec : forall p, is_perm p = true -> NoDup p /\ (forall k, In k p -> k < length p).
Proof.
  intros p H. unfold is_perm in H. apply andb_true_iff in H as [H1 H2]. split.
  - now apply nodupb_NoDup.
  - intros k Hk. rewrite forallb_forall in H1. apply Nat.ltb_lt. auto.
Qed.

(* pigeonhole: a duplicate-free list of n numbers below n contains every number below n *)
Lemma perm_surj : forall p a, is_perm p = true -> a < length p -> In a p.
Proof.
  intros p a H Ha. destruct (is_perm_spec p H) as [Hnd Hlt].
  assert (Hincl : incl (seq 0 (length p)) p).
  { apply NoDup_length_incl; auto.
    - rewrite seq_length. lia.
    - intros k Hk. apply in_seq. specialize (Hlt k Hk). lia. }
  apply Hincl. apply in_seq. lia.
Qed.

Lemma index_of_lt : forall a p, In a p -> index_of a p < length p.
Proof.
  induction p as [|b p IH]; intro H; [destruct H|]. cbn. destruct (Nat.eqb a b) eqn:E; [lia|].
  destruct H as [->|H]; [rewrite Nat.eqb_refl in E; discriminate|]. specialize (IH H). lia.
Qed.

Lemma nth_index_of : forall a p d, In a p -> nth (index_of a p) p d = a.
Proof.
  induction p as [|b p IH]; intros d H; [destruct H|]. cbn. destruct (Nat.eqb a b) eqn:E.
  - apply Nat.eqb_eq in E. now subst.
  - destruct H as [->|H]; [rewrite Nat.eqb_refl in E; discriminate|]. now apply IH.
Qed.

Lemma index_of_nth : forall p k d, NoDup p -> k < length p -> index_of (nth k p d) p = k.
Proof.
  induction p as [|b p IH]; intros k d Hnd Hk; [cbn in Hk; lia|].
  inversion Hnd as [|? ? Hnotin Hnd']; subst. destruct k as [|k]; cbn.
  - now rewrite Nat.eqb_refl.
  - destruct (Nat.eqb (nth k p d) b) eqn:E.
    + apply Nat.eqb_eq in E. exfalso. apply Hnotin. rewrite <- E. apply nth_In. cbn in Hk. lia.
    + f_equal. apply IH; auto. cbn in Hk. lia.
Qed.

(* index_of through an injective renaming *)
Lemma index_of_map : forall (g : nat -> nat) p j,
  (forall u v, In u (j :: p) -> In v (j :: p) -> g u = g v -> u = v) ->
  index_of (g j) (map g p) = index_of j p.
Proof.
  induction p as [|b p IH]; intros j Hinj; [reflexivity|]. cbn.
  destruct (Nat.eqb j b) eqn:E.
  - apply Nat.eqb_eq in E. subst. now rewrite Nat.eqb_refl.
  - destruct (Nat.eqb (g j) (g b)) eqn:E2.
    + apply Nat.eqb_eq in E2. apply Hinj in E2; [subst; rewrite Nat.eqb_refl in E; discriminate|cbn; auto|cbn; auto].
    + f_equal. apply IH. intros u v Hu Hv. apply Hinj; cbn in *; tauto.
Qed.

Lemma composed_eq : forall p1 p2, (forall k, In k p1 -> k < length p1) ->
  composed p1 p2 = map (fun k => nth k p1 0) p2.
Proof.
  intros p1 p2 Hlt. unfold composed, apply_transposes, apply_transpose, permute. cbn [fold_left].
  apply map_ext_in. intros k _.
  destruct (Nat.lt_ge_cases k (length p1)) as [Hk|Hk].
  - set (f := fun k0 => nth k0 (seq 0 (length p1)) 0).
    rewrite (nth_indep _ 0 (f 0)); [|rewrite map_length; exact Hk].
    rewrite (map_nth f). unfold f. rewrite seq_nth; [reflexivity|]. apply Hlt. now apply nth_In.
  - rewrite nth_overflow; [|rewrite map_length; exact Hk]. now rewrite nth_overflow.
Qed.

Lemma composed_length : forall p1 p2, length (composed p1 p2) = length p2.
Proof. intros. unfold composed, apply_transposes, apply_transpose, permute. cbn [fold_left]. apply map_length. Qed.

(* shapes: Transpose(Transpose(x, p1), p2) has the shape of Transpose(x, composed p1 p2) *)
Lemma permute_permute : forall (sh : list nat) p1 p2,
  (forall k, In k p1 -> k < length p1) -> (forall k, In k p2 -> k < length p1) ->
  permute 0 p2 (permute 0 p1 sh) = permute 0 (composed p1 p2) sh.
Proof.
  intros sh p1 p2 H0 H. rewrite composed_eq by exact H0. unfold permute. rewrite map_map. apply map_ext_in. intros k Hk.
  specialize (H k Hk).
  set (f := fun k0 => nth k0 sh 0).
  rewrite (nth_indep _ 0 (f 0)); [|rewrite map_length; exact H].
  rewrite (map_nth f). reflexivity.
Qed.

(* elements: the two index maps compose to the index map of the composed permutation *)
Lemma unpermute_unpermute : forall p1 p2 ix,
  is_perm p1 = true -> is_perm p2 = true -> length p1 = length p2 -> length ix = length p1 ->
  unpermute p1 (unpermute p2 ix) = unpermute (composed p1 p2) ix.
Proof.
  intros p1 p2 ix H1 H2 Hl Hix.
  destruct (is_perm_spec p1 H1) as [Hnd1 Hlt1]. destruct (is_perm_spec p2 H2) as [Hnd2 Hlt2].
  unfold unpermute at 1 3. rewrite composed_length, <- Hl. apply map_ext_in. intros a Ha. apply in_seq in Ha.
  assert (Hin : In a p1) by (apply perm_surj; auto; lia).
  set (j := index_of a p1). assert (Hj : j < length p1) by (apply index_of_lt; auto).
  unfold unpermute. rewrite (nth_indep _ 0 (nth (index_of 0 p2) ix 0)); [|rewrite map_length, seq_length; lia].
  rewrite (map_nth (fun a0 => nth (index_of a0 p2) ix 0)). rewrite seq_nth; [|lia]. cbn [Nat.add].
  f_equal. rewrite composed_eq by exact Hlt1.
  symmetry. set (g := fun k => nth k p1 0).
  transitivity (index_of (g j) (map g p2)).
  { f_equal. unfold g, j. symmetry. apply nth_index_of. exact Hin. }
  apply index_of_map. unfold g.
  intros u v Hu Hv E.
  assert (Hb : forall w, In w (j :: p2) -> w < length p1).
  { intros w [<-|Hw]; auto. rewrite Hl. auto. }
  rewrite <- (index_of_nth p1 u 0 Hnd1 (Hb u Hu)), <- (index_of_nth p1 v 0 Hnd1 (Hb v Hv)). now rewrite E.
Qed.

(* TransposeTranspose: same shape, and the same element at every index of the right rank *)
Theorem transpose_transpose_sound : forall (V : Type) (t : tensor V) p1 p2,
  is_perm p1 = true -> is_perm p2 = true -> length p1 = length p2 -> length (fst t) = length p1 ->
  fst (transpose p2 (transpose p1 t)) = fst (transpose (composed p1 p2) t) /\
  forall ix, length ix = length p1 ->
    snd (transpose p2 (transpose p1 t)) ix = snd (transpose (composed p1 p2) t) ix.
Proof.
  intros V [sh f] p1 p2 H1 H2 Hl Hsh. cbn [transpose fst snd]. split.
  - apply permute_permute; [exact (proj2 (is_perm_spec p1 H1))|]. intros k Hk. rewrite Hl. now apply (proj2 (is_perm_spec p2 H2)).
  - intros ix Hix. f_equal. apply unpermute_unpermute; auto.
Qed.

Lemma list_eqb_eq : forall a b, list_eqb a b = true -> a = b.
Proof.
  induction a as [|x a IH]; intros [|y b] H; try reflexivity; try discriminate.
  unfold list_eqb in *. cbn in H. apply andb_true_iff in H as [Hlen H]. apply andb_true_iff in H as [Hxy H].
  apply Nat.eqb_eq in Hxy. subst. f_equal. apply IH. rewrite Hlen. exact H.
Qed.

Lemma permute_id : forall (A : Type) (d : A) (l : list A), permute d (seq 0 (length l)) l = l.
Proof.
  intros A d l. unfold permute. apply nth_ext with (d := d) (d' := d).
  - now rewrite map_length, seq_length.
  - intros n Hn. rewrite map_length, seq_length in Hn.
    rewrite (nth_indep _ d (nth 0 l d)); [|rewrite map_length, seq_length; exact Hn].
    rewrite (map_nth (fun k => nth k l d)). rewrite seq_nth; auto.
Qed.

Lemma index_of_seq : forall n s a, a < n -> index_of (s + a) (seq s n) = a.
Proof.
  induction n as [|n IH]; intros s a Ha; [lia|]. cbn. destruct a as [|a].
  - rewrite Nat.add_0_r, Nat.eqb_refl. reflexivity.
  - destruct (Nat.eqb (s + S a) s) eqn:E; [apply Nat.eqb_eq in E; lia|]. f_equal.
    replace (s + S a) with (S s + a) by lia. apply IH. lia.
Qed.

Lemma unpermute_id : forall n ix, length ix = n -> unpermute (seq 0 n) ix = ix.
Proof.
  intros n ix Hix. unfold unpermute. rewrite seq_length. apply nth_ext with (d := 0) (d' := 0).
  - now rewrite map_length, seq_length.
  - intros k Hk. rewrite map_length, seq_length in Hk.
    rewrite (nth_indep _ 0 (nth (index_of 0 (seq 0 n)) ix 0)); [|rewrite map_length, seq_length; exact Hk].
    rewrite (map_nth (fun a => nth (index_of a (seq 0 n)) ix 0)). rewrite seq_nth; auto. cbn [Nat.add].
    pose proof (index_of_seq n 0 k Hk) as E. cbn [Nat.add] in E. now rewrite E.
Qed.

(* TransposeIdentity: perm == range(len(perm)) on a tensor of that rank is the identity *)
Theorem transpose_identity_sound : forall (V : Type) (t : tensor V) p,
  ti_check p = true -> length (fst t) = length p ->
  fst (transpose p t) = fst t /\ forall ix, length ix = length p -> snd (transpose p t) ix = snd t ix.
Proof.
  intros V [sh f] p H Hsh. apply list_eqb_eq in H. cbn [transpose fst snd] in *.
  remember (length p) as n eqn:Hn. split.
  - rewrite H. rewrite <- Hsh. apply permute_id.
  - intros ix Hix. f_equal. rewrite H. apply unpermute_id. exact Hix.
Qed.

(* what TransposeTranspose emits: Identity exactly when the composed permutation is range(n), otherwise it *)
Theorem tt_rewrite_sound : forall (V : Type) (t : tensor V) p1 p2,
  is_perm p1 = true -> is_perm p2 = true -> length p1 = length p2 -> length (fst t) = length p1 ->
  let rhs := match tt_rewrite p1 p2 with None => t | Some q => transpose q t end in
  fst (transpose p2 (transpose p1 t)) = fst rhs /\
  forall ix, length ix = length p1 -> snd (transpose p2 (transpose p1 t)) ix = snd rhs ix.
Proof.
  intros V t p1 p2 H1 H2 Hl Hsh. cbn zeta.
  destruct (transpose_transpose_sound V t p1 p2 H1 H2 Hl Hsh) as [Hs He].
  unfold tt_rewrite. destruct (list_eqb (seq 0 (length p1)) (composed p1 p2)) eqn:E; [|split; auto].
  apply list_eqb_eq in E.
  assert (Hc : ti_check (composed p1 p2) = true).
  { unfold ti_check. rewrite <- E at 1. rewrite composed_length, <- Hl.
    clear. generalize (seq 0 (length p1)). intro l. unfold list_eqb. rewrite Nat.eqb_refl. cbn.
    induction l as [|a l IH]; [reflexivity|]. cbn. now rewrite Nat.eqb_refl. }
  assert (Hlen : length (fst t) = length (composed p1 p2)) by (rewrite composed_length; lia).
  destruct (transpose_identity_sound V t _ Hc Hlen) as [Hs' He']. split.
  - now rewrite Hs.
  - intros ix Hix. rewrite He; auto. apply He'. rewrite composed_length. lia.
Qed.

Example tt_example : tt_rewrite [1; 2; 0] [2; 0; 1] = None /\ tt_rewrite [1; 2; 0] [1; 2; 0] = Some [2; 0; 1]
  /\ is_perm [1; 2; 0] = true.
Proof. repeat split; reflexivity. Qed.
