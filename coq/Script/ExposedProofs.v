(* exposed_uses of the *generated* analysis (Gen/Analysis.v) on loop-free blocks: it coincides with the generated
   liveness, hence is sound in the same sense (LivenessProofs.live_block_sound_lf).  And a refutation of the
   unrestricted statement: after a `for` loop that runs zero times the loop variable keeps its old value, but the
   analysis removes it from what is exposed. *)
From Coq Require Import List String ZArith Bool Lia.
Require Import OV.Graph.Syntax OV.Graph.WfProofs OV.Script.Syntax OV.Script.Sets OV.Gen.Analysis OV.Gen.ScriptTables
               OV.Script.Translate OV.Script.PySem OV.Script.TranslateProofs OV.Script.AnalysisProofs
               OV.Script.LivenessProofs OV.Script.TranslateIfProofs OV.Script.TranslateExamples.
Import ListNotations.
Local Open Scope string_scope.
Local Open Scope list_scope.

Section ExposedEqs.
  Variable cic : expr -> option bool.
  Variable afuel : nat.

  Lemma exposed_block_nil : forall live, exposed_block cic [] live = live.
  Proof. reflexivity. Qed.
  Lemma exposed_block_cons : forall s r live, exposed_block cic (s :: r) live = exposed_stmt cic s (exposed_block cic r live).
  Proof. reflexivity. Qed.
  Lemma exposed_if : forall c t f lo,
    exposed_stmt cic (SIf c t f) lo =
    match cic c with
    | None => sunion (sunion (exposed_block cic t lo) (exposed_block cic f lo)) (used_vars c)
    | Some true => exposed_block cic t lo
    | Some false => exposed_block cic f lo
    end.
  Proof. reflexivity. Qed.

  Definition exposed_is_live (s : stmt) : Prop :=
    forall tail lo, lf_stmt tail s = true -> live_stmt cic afuel s lo = Some (exposed_stmt cic s lo).

  Lemma exposed_is_live_block : forall ss, Forall exposed_is_live ss ->
    forall tail lo, lf_block tail ss = true -> live_block cic afuel ss lo = Some (exposed_block cic ss lo).
  Proof.
    intros ss HF. induction HF as [|s r Hs Hr IH]; intros tail lo Hc; [reflexivity|].
    rewrite lf_block_cons in Hc. apply andb_true_iff in Hc. destruct Hc as [Hcs Hcr].
    rewrite live_block_cons, exposed_block_cons, (IH tail lo Hcr). eapply Hs. exact Hcs.
  Qed.

  Theorem exposed_is_live_all : forall s, exposed_is_live s.
  Proof.
    apply stmt_ind'; unfold exposed_is_live; try (intros; reflexivity); try (intros; discriminate).
    intros c t f Ht Hf tail lo Hc. rewrite lf_if in Hc. apply andb_true_iff in Hc. destruct Hc as [Hct Hcf].
    rewrite live_if, exposed_if.
    rewrite (exposed_is_live_block t Ht tail lo Hct), (exposed_is_live_block f Hf tail lo Hcf).
    destruct (cic c) as [[|]|]; reflexivity.
  Qed.

  Lemma exposed_block_live : forall ss tail lo, lf_block tail ss = true ->
    live_block cic afuel ss lo = Some (exposed_block cic ss lo).
  Proof.
    intros ss tail lo H. apply exposed_is_live_block with (tail := tail); [|exact H].
    clear. induction ss; constructor; auto. apply exposed_is_live_all.
  Qed.
End ExposedEqs.

(* the statement of C01_exposed_uses_sound_full for loop-free blocks *)
Theorem exposed_uses_sound_loopfree :
  forall (V : Type) sem truth trip of_nat while_limit globals cic K,
    (forall c b pe v, cic c = Some b -> eval_expr V sem globals pe c = Some v -> ptruth V truth v = Some b) ->
    (forall c b, cic c = Some b -> incl (used_vars c) K) ->
    forall fuel ss live pe1 pe2 o1,
      lf_block true ss = true ->
      (forall x, In x (exposed_block cic ss live) \/ In x K -> plookup V pe1 x = plookup V pe2 x) ->
      exec_block V sem truth trip of_nat while_limit globals fuel ss pe1 = Some o1 ->
      exists o2, exec_block V sem truth trip of_nat while_limit globals fuel ss pe2 = Some o2 /\
        match o1, o2 with
        | ONormal _ a, ONormal _ b | OBreak _ a, OBreak _ b => forall x, In x live \/ In x K -> plookup V a x = plookup V b x
        | OReturn _ v1, OReturn _ v2 => v1 = v2
        | _, _ => False
        end.
Proof.
  intros V sem truth trip of_nat while_limit globals cic K Hs Hr fuel ss live pe1 pe2 o1 Hlf A Hex.
  destruct (live_block_sound_lf V sem truth trip of_nat while_limit globals cic 0 K Hs Hr fuel ss true live
              (exposed_block cic ss live) pe1 pe2 o1 Hlf (exposed_block_live cic 0 ss true live Hlf) A Hex) as (o2 & E2 & R).
  exists o2. split; [exact E2|]. destruct o1, o2; cbn in R; try contradiction; try exact R. apply R.
Qed.

(* zero iterations: `for i in range(n): y = y + i` with i live afterwards.  The analysis exposes {y, n} only; two
   environments that agree on them (n = 0) and differ on i end in environments that differ on i. *)
Definition expz_pe1 : penv Z := [("n", PT Z 0%Z); ("y", PT Z 0%Z); ("i", PT Z 1%Z)].
Definition expz_pe2 : penv Z := [("n", PT Z 0%Z); ("y", PT Z 0%Z); ("i", PT Z 2%Z)].

Theorem exposed_uses_zero_trip_refuted :
  exists o1 o2,
    ~ In "i" (exposed_block (fun _ => None) [forb_stmt] ["i"]) /\
    (forall x, In x (exposed_block (fun _ => None) [forb_stmt] ["i"]) -> plookup Z expz_pe1 x = plookup Z expz_pe2 x) /\
    forb_exec expz_pe1 = Some o1 /\ forb_exec expz_pe2 = Some o2 /\
    match o1, o2 with
    | ONormal _ a, ONormal _ b => plookup Z a "i" = Some (PT Z 1%Z) /\ plookup Z b "i" = Some (PT Z 2%Z)
    | _, _ => False
    end.
Proof.
  eexists. eexists.
  split; [vm_compute; intuition discriminate|].
  split; [intros x Hx; vm_compute in Hx; destruct Hx as [H|[H|[]]]; subst x; reflexivity|].
  split; [vm_compute; reflexivity|]. split; [vm_compute; reflexivity|]. split; reflexivity.
Qed.

Definition exposed_uses_sound_full_statement : Prop :=
  forall (V : Type) sem truth trip of_nat while_limit globals cic K,
    (forall c b pe v, cic c = Some b -> eval_expr V sem globals pe c = Some v -> ptruth V truth v = Some b) ->
    (forall c b, cic c = Some b -> incl (used_vars c) K) ->
    forall fuel ss live pe1 pe2 o1,
      (forall x, In x (exposed_block cic ss live) \/ In x K -> plookup V pe1 x = plookup V pe2 x) ->
      exec_block V sem truth trip of_nat while_limit globals fuel ss pe1 = Some o1 ->
      exists o2, exec_block V sem truth trip of_nat while_limit globals fuel ss pe2 = Some o2 /\
        match o1, o2 with
        | ONormal _ a, ONormal _ b | OBreak _ a, OBreak _ b => forall x, In x live \/ In x K -> plookup V a x = plookup V b x
        | OReturn _ v1, OReturn _ v2 => v1 = v2
        | _, _ => False
        end.

Theorem exposed_uses_sound_full_refuted : ~ exposed_uses_sound_full_statement.
Proof.
  intros H.
  destruct exposed_uses_zero_trip_refuted as (o1 & o2 & _ & Ha & H1 & H2 & Hd).
  destruct (H Z toy_sem forb_truth forb_trip Z.of_nat 10 [] (fun _ => None) [] ltac:(discriminate) ltac:(discriminate)
              3 [forb_stmt] ["i"] expz_pe1 expz_pe2 o1) as (o2' & E2 & R).
  - intros x [Hx|[]]. apply Ha. exact Hx.
  - exact H1.
  - unfold forb_exec in H2. rewrite H2 in E2. inversion E2; subst o2'.
    destruct o1 as [a| |], o2 as [b| |]; try contradiction. destruct Hd as [Hd1 Hd2].
    specialize (R "i" (or_introl (or_introl eq_refl))). rewrite Hd1, Hd2 in R. discriminate R.
Qed.
