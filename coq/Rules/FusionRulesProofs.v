(* C05 proofs for the rules.fusion rules: side condition => the matched sub-graph is the fused operator (algebra from
   coq/Fusion/*Proofs.v), and each named near miss makes the side condition false. *)
From Coq Require Import List ZArith Bool Arith Lia.
Require Import OV.Fusion.Field OV.Fusion.Norm OV.Fusion.NormProofs OV.Fusion.Rotary OV.Fusion.RotaryProofs
               OV.Fusion.Attn OV.Fusion.AttnProofs OV.Rules.FusionRules.
Import ListNotations.

Lemma sq_exact_pow : forall n d, sq_exact (SqPowF n d) = true -> (0 < d /\ n = 2 * d)%Z.
Proof. intros n d H. unfold sq_exact in H. apply andb_true_iff in H as [H1 H2]. apply Z.ltb_lt in H1. apply Z.eqb_eq in H2. auto. Qed.

Section NormLaws.
  Variable F : Type.
  Variable o : fops F.
  Hypothesis Fth : is_field o.
  Variable sqrt : F -> F.
  Variable powr : F -> Z -> Z -> F.
  (* all that is assumed of ONNX Pow: an exponent that IS two squares *)
  Hypothesis powr_two : forall v n d, (0 < d)%Z -> (n = 2 * d)%Z -> powr v n d = pow o v 2.

  Lemma sq_sem_exact_mul : forall s d, sq_exact s = true ->
    sq_sem F o powr s d = match s with SqMulF => vmul o d d | SqPowF _ _ => map (fun v => pow o v 2) d end.
  Proof.
    intros [|n m] d H; [reflexivity|]. destruct (sq_exact_pow n m H) as [Hd Hn]. cbn. apply map_ext. intro v. now apply powr_two.
  Qed.

  (* LayerNormFusion: wherever the side condition holds, the matched sub-graph is LayerNormalization(x, scale, axis=-1)
     on every row, for every epsilon; the emitted attributes are axis = -1 and stash_type = x's type (FLOAT or DOUBLE) *)
  Theorem ln_rule_sound : forall h ax st (x scale : list F) (eps : F),
    ln_fires h = Some (ax, st) ->
    ln_host_sem F o sqrt powr h x scale eps = ln_spec F o sqrt x scale None eps /\
    ax = (-1)%Z /\ (st = 1 \/ st = 11)%Z /\ lh_eps_singleton h = true.
  Proof.
    intros h ax st x scale eps H. unfold ln_fires in H.
    destruct (olz_is (lh_axes1 h) (-1) && olz_is (lh_axes2 h) (-1) && oz_is (lh_keepdims1 h) 1 && oz_is (lh_keepdims2 h) 1 && sq_exact (lh_sq h)) eqn:E; [|discriminate].
    apply andb_true_iff in E as [_ Esq].
    destruct (lh_xdt h) as [d|]; [|discriminate]. unfold ln_check_rewrite in H.
    destruct (is_fp_type d && lh_eps_singleton h) eqn:E2; [|discriminate]. apply andb_true_iff in E2 as [Ed Ee].
    inversion H; subst. split; [|split; [reflexivity|split; [destruct d; cbn in Ed; try discriminate; auto|exact Ee]]].
    unfold ln_host_sem. rewrite (sq_sem_exact_mul _ _ Esq).
    destruct (lh_sq h) as [|n m].
    - rewrite <- (layer_norm_identity F o Fth sqrt SqMul (lh_norm h) x scale eps). reflexivity.
    - rewrite <- (layer_norm_identity F o Fth sqrt SqPow (lh_norm h) x scale eps). reflexivity.
  Qed.

  Theorem rms_rule_sound : forall h ax st (x scale : list F) (eps : F),
    rms_fires h = Some (ax, st) ->
    rms_host_sem F o sqrt powr h x scale eps = rms_spec F o sqrt x scale eps /\
    ax = (-1)%Z /\ (st = 1 \/ st = 11)%Z /\ rh_eps_float_singleton h = true.
  Proof.
    intros h ax st x scale eps H. unfold rms_fires in H.
    destruct (olz_is (rh_axes h) (-1) && oz_is (rh_keepdims h) 1 && oz_is (rh_noop h) 0 && sq_exact (rh_exp h)) eqn:E; [|discriminate].
    apply andb_true_iff in E as [_ Esq].
    destruct (rh_xdt h) as [xd|]; [|discriminate]. destruct (rh_sdt h) as [sd|]; [|discriminate].
    destruct (rms_check_sound _ _ _ _ _ _ H) as (Hax & Hst & He & _). split; [|auto].
    rewrite <- (rms_norm_identity F o Fth sqrt (rh_mul_order h) x scale eps).
    unfold rms_host_sem, rms_pattern, rms_of.
    rewrite (sq_sem_exact_mul _ x Esq). destruct (rh_exp h) as [|n m]; [|reflexivity].
    (* the pattern is a Pow; the Mul form does not occur and is the same function anyway *)
    rewrite (vmul_self F o x), <- (map_pow2 F o Fth x). reflexivity.
  Qed.
End NormLaws.

(* each named near miss falsifies the side condition (the contrapositive reading: such a host must not be rewritten) *)
Definition ln_ok : ln_host :=
  {| lh_xdt := Some FLOAT; lh_eps_singleton := true; lh_axes1 := Some [-1]%Z; lh_axes2 := Some [-1]%Z;
     lh_keepdims1 := Some 1%Z; lh_keepdims2 := Some 1%Z; lh_sq := SqPowF 2 1; lh_norm := NormRecip |}.
Theorem ln_near_misses :
  ln_fires ln_ok = Some ((-1)%Z, 1%Z) /\
  ln_fires {| lh_xdt := None; lh_eps_singleton := true; lh_axes1 := Some [-1]%Z; lh_axes2 := Some [-1]%Z; lh_keepdims1 := Some 1%Z; lh_keepdims2 := Some 1%Z; lh_sq := SqPowF 2 1; lh_norm := NormRecip |} = None /\
  ln_fires {| lh_xdt := Some FLOAT16; lh_eps_singleton := true; lh_axes1 := Some [-1]%Z; lh_axes2 := Some [-1]%Z; lh_keepdims1 := Some 1%Z; lh_keepdims2 := Some 1%Z; lh_sq := SqPowF 2 1; lh_norm := NormRecip |} = None /\
  ln_fires {| lh_xdt := Some FLOAT; lh_eps_singleton := false; lh_axes1 := Some [-1]%Z; lh_axes2 := Some [-1]%Z; lh_keepdims1 := Some 1%Z; lh_keepdims2 := Some 1%Z; lh_sq := SqPowF 2 1; lh_norm := NormRecip |} = None /\
  ln_fires {| lh_xdt := Some FLOAT; lh_eps_singleton := true; lh_axes1 := None; lh_axes2 := Some [-1]%Z; lh_keepdims1 := Some 1%Z; lh_keepdims2 := Some 1%Z; lh_sq := SqPowF 2 1; lh_norm := NormRecip |} = None /\
  ln_fires {| lh_xdt := Some FLOAT; lh_eps_singleton := true; lh_axes1 := Some [-1]%Z; lh_axes2 := Some [1]%Z; lh_keepdims1 := Some 1%Z; lh_keepdims2 := Some 1%Z; lh_sq := SqPowF 2 1; lh_norm := NormRecip |} = None /\
  ln_fires {| lh_xdt := Some FLOAT; lh_eps_singleton := true; lh_axes1 := Some [-1]%Z; lh_axes2 := Some [-1]%Z; lh_keepdims1 := Some 0%Z; lh_keepdims2 := Some 1%Z; lh_sq := SqPowF 2 1; lh_norm := NormRecip |} = None /\
  ln_fires {| lh_xdt := Some FLOAT; lh_eps_singleton := true; lh_axes1 := Some [-1]%Z; lh_axes2 := Some [-1]%Z; lh_keepdims1 := Some 1%Z; lh_keepdims2 := Some 1%Z; lh_sq := SqPowF 200001 100000; lh_norm := NormRecip |} = None.
Proof. repeat split; reflexivity. Qed.

Theorem rot_partial_gqa_near_misses :
  rot_fires {| ro_rank := Some 4; ro_dim1 := Some 4%Z; ro_dim3 := Some 8%Z; ro_s1 := Some 0%Z; ro_e1 := Some 4%Z; ro_s2 := Some 4%Z; ro_e2 := Some 8%Z; ro_one1 := Some 1%Z; ro_one2 := Some 1%Z |} = Some 4%Z /\
  rot_fires {| ro_rank := None; ro_dim1 := Some 4%Z; ro_dim3 := Some 8%Z; ro_s1 := Some 0%Z; ro_e1 := Some 4%Z; ro_s2 := Some 4%Z; ro_e2 := Some 8%Z; ro_one1 := Some 1%Z; ro_one2 := Some 1%Z |} = None /\
  rot_fires {| ro_rank := Some 4; ro_dim1 := None; ro_dim3 := Some 8%Z; ro_s1 := Some 0%Z; ro_e1 := Some 4%Z; ro_s2 := Some 4%Z; ro_e2 := Some 8%Z; ro_one1 := Some 1%Z; ro_one2 := Some 1%Z |} = None /\
  rot_fires {| ro_rank := Some 4; ro_dim1 := Some 4%Z; ro_dim3 := Some 8%Z; ro_s1 := Some 0%Z; ro_e1 := None; ro_s2 := Some 4%Z; ro_e2 := Some 8%Z; ro_one1 := Some 1%Z; ro_one2 := Some 1%Z |} = None /\
  rot_fires {| ro_rank := Some 4; ro_dim1 := Some 4%Z; ro_dim3 := Some 8%Z; ro_s1 := Some 0%Z; ro_e1 := Some 4%Z; ro_s2 := Some 4%Z; ro_e2 := Some 7%Z; ro_one1 := Some 1%Z; ro_one2 := Some 1%Z |} = None /\
  rot_fires {| ro_rank := Some 4; ro_dim1 := Some 4%Z; ro_dim3 := Some 8%Z; ro_s1 := Some 0%Z; ro_e1 := Some 4%Z; ro_s2 := Some 4%Z; ro_e2 := Some 8%Z; ro_one1 := Some 2%Z; ro_one2 := Some 1%Z |} = None /\
  partial_fires {| ph_end1 := Some 4%Z; ph_start2 := Some 4%Z; ph_has_dim_attr := false; ph_interleaved := None |} = Some 4%Z /\
  partial_fires {| ph_end1 := Some 4%Z; ph_start2 := Some 5%Z; ph_has_dim_attr := false; ph_interleaved := None |} = None /\
  partial_fires {| ph_end1 := None; ph_start2 := Some 4%Z; ph_has_dim_attr := false; ph_interleaved := None |} = None /\
  partial_fires {| ph_end1 := Some 4%Z; ph_start2 := Some 4%Z; ph_has_dim_attr := true; ph_interleaved := None |} = None /\
  partial_fires {| ph_end1 := Some 4%Z; ph_start2 := Some 4%Z; ph_has_dim_attr := false; ph_interleaved := Some 1%Z |} = None.
Proof. repeat split; reflexivity. Qed.

Section RotLaws.
  Variable F : Type.
  Variable o : fops F.
  Hypothesis Fth : is_field o.

  Lemma to_nat_half : forall n, Z.to_nat (Z.of_nat n / 2) = n / 2.
  Proof. intro n. rewrite <- (Nat2Z.id (n / 2)). f_equal. rewrite Nat2Z.inj_div. reflexivity. Qed.

  (* RotaryEmbedding23Fusion: wherever the side condition holds, on every row x = x1 ++ x2 of the static head size with
     caches of half that length, the matched sub-graph is RotaryEmbedding(interleaved = 0); num_heads = dim 1 of x *)
  Theorem rot_rule_sound : forall h nh s1 e1 s2 e2 (x1 x2 c s : list F),
    rot_fires h = Some nh ->
    ro_s1 h = Some s1 -> ro_e1 h = Some e1 -> ro_s2 h = Some s2 -> ro_e2 h = Some e2 ->
    ro_dim3 h = Some (Z.of_nat (length (x1 ++ x2))) ->
    length x1 = length c -> length x2 = length c -> length s = length c ->
    rope23_pattern F o (x1 ++ x2) c s (Z.to_nat s1) (Z.to_nat e1) (Z.to_nat s2) (Z.to_nat e2) = rope_spec F o (x1 ++ x2) c s
    /\ ro_dim1 h = Some nh /\ ro_rank h = Some 4.
  Proof.
    intros h nh s1 e1 s2 e2 x1 x2 c s H A1 A2 A3 A4 Hd L1 L2 L3. unfold rot_fires in H.
    rewrite A1, A2, A3, A4 in H. destruct (ro_rank h) as [r|]; [|discriminate].
    destruct (oz_is (ro_one1 h) 1 && oz_is (ro_one2 h) 1); [|discriminate].
    destruct (rot_check_bounds _ _ _ _ _ _ _ _ H) as (Hr & Hd1 & hs & Hd3 & B1 & B2 & B3 & B4).
    rewrite Hd in Hd3. inversion Hd3; subst hs. subst s1 e1 s2 r. split; [|auto].
    rewrite to_nat_half. change (Z.to_nat 0) with 0.
    apply (rotary_half_rotation F o Fth x1 x2 c s (Z.to_nat e2)); auto. lia.
  Qed.

  Theorem partial_rule_sound : forall h r e1 s2 (x c s : list F),
    partial_fires h = Some r -> ph_end1 h = Some e1 -> ph_start2 h = Some s2 ->
    Z.of_nat (2 * length c) = e1 ->                 (* RotaryEmbedding on the first slice: its caches have half its length *)
    2 * length c <= length x ->
    partial_pattern F o x c s (Z.to_nat e1) (Z.to_nat s2) = rope_spec F o x c s /\ r = e1 /\
    ph_has_dim_attr h = false /\ (ph_interleaved h = None \/ ph_interleaved h = Some 0%Z).
  Proof.
    intros h r e1 s2 x c s H A1 A2 He Hx. unfold partial_fires in H. rewrite A1, A2 in H. unfold partial_check in H.
    destruct ((e1 =? s2)%Z) eqn:E1; [|discriminate]. destruct (ph_has_dim_attr h); [discriminate|]. cbn in H.
    apply Z.eqb_eq in E1. subst s2.
    assert (Hil : ph_interleaved h = None \/ ph_interleaved h = Some 0%Z).
    { destruct (ph_interleaved h) as [v|]; [|auto]. destruct ((v =? 0)%Z) eqn:E; [|discriminate]. apply Z.eqb_eq in E. subst. auto. }
    assert (r = e1) by (destruct (ph_interleaved h) as [v|]; [destruct ((v =? 0)%Z); [|discriminate]|]; inversion H; auto).
    split; [|auto]. subst e1. rewrite Nat2Z.id. apply partial_rotary_identity; auto.
  Qed.
End RotLaws.

Section GqaLaws.
  Variable A : Type.
  Variable d0 : A.
  Variable attn : list (list A) -> list (list A) -> list (list A) -> option (list (list A)) -> list (list A).

  (* OnnxGroupQueryAttention, values: Attention over keys/values repeated by Unsqueeze(2) / Expand([B,Hkv,G,T,D]) /
     Reshape([B,Hkv*G,T,D]) = Attention with kv_num_heads = Hkv on the un-repeated present key/value, for every
     B, S, T, D, Hkv >= 1, G >= 1, every per-head attention function and mask *)
  Theorem gqa23_rule_sound : forall B S T Hkv G Dh q kseq vseq mask, 0 < Hkv -> 0 < G ->
    gqa23_host A d0 attn B S T Hkv G Dh q kseq vseq mask = gqa23_fused A d0 attn B S T Hkv G Dh q kseq vseq mask.
  Proof.
    intros B S T Hkv G Dh q kseq vseq mask HH HG. unfold gqa23_host, gqa23_fused, attention23.
    apply stack_heads_ext. intros b h Hb Hh.
    assert (E1 : Hkv * G / (Hkv * G) = 1) by (apply Nat.div_same; lia).
    assert (E2 : Hkv * G / Hkv = G) by (rewrite Nat.mul_comm; apply Nat.div_mul; lia).
    rewrite E1, E2, Nat.div_1_r. rewrite !repeat_kv_head by auto. reflexivity.
  Qed.
End GqaLaws.

(* OnnxGroupQueryAttention, shapes: the sound side condition pins the operand layouts the theorem above is about *)
Lemma check_shape_len : forall b s names b', check_shape b s names = Some b' -> exists sh, s = Some sh /\ length sh = length names.
Proof.
  intros b s names b' H. unfold check_shape in H. destruct b as [b0|]; [|discriminate]. destruct s as [sh|]; [|discriminate].
  exists sh. split; [reflexivity|]. eapply OV.Fusion.NormProofs.bind_dims_length; eauto.
Qed.
Theorem gqa_fires_shapes : forall h, gqa_fires h = true ->
  gqa_fires_impl h = true /\
  (exists e, gh_expand_key h = Some e /\ length e = 5) /\ (exists e, gh_expand_value h = Some e /\ length e = 5) /\
  (gh_is_causal h = None \/ gh_is_causal h = Some 0%Z).
Proof.
  intros h H. unfold gqa_fires in H.
  destruct (check_shape (check_shape (gqa_bindings_impl h) (gh_expand_key h) [0; 4; 7; 6; 3]) (gh_expand_value h) [0; 4; 7; 6; 3]) as [b|] eqn:E8; [|discriminate].
  destruct (check_shape (gqa_bindings_impl h) (gh_expand_key h) [0; 4; 7; 6; 3]) as [b7|] eqn:E7; [|discriminate].
  destruct (check_shape_len _ _ _ _ E8) as (ev & Hev & Lev). destruct (check_shape_len _ _ _ _ E7) as (ek & Hek & Lek).
  apply andb_true_iff in H as [_ Hc].
  split; [unfold gqa_fires_impl; destruct (gqa_bindings_impl h); [reflexivity|discriminate]|].
  split; [eauto|]. split; [eauto|].
  destruct (gh_is_causal h) as [v|]; [|auto]. apply Z.eqb_eq in Hc. subst. auto.
Qed.

(* the check as read is not sufficient: an Expand that broadcasts a leading group dimension ([G,B,Hkv,1,T,D]) passes it and
   repeats the heads in the other order; is_causal = 1 passes it as well (findings C05:fusion:gqa:...) *)
Definition gqa_witness (expand : list Z) (causal : option Z) : gqa_host :=
  {| gh_query := Some [1; 4; 3; 8]%Z; gh_key := Some [1; 2; 3; 8]%Z; gh_value := Some [1; 2; 3; 8]%Z;
     gh_past_key := Some [1; 2; 2; 8]%Z; gh_past_value := Some [1; 2; 2; 8]%Z;
     gh_present_key := Some [1; 4; 5; 8]%Z; gh_present_value := Some [1; 4; 5; 8]%Z;
     gh_expand_key := Some expand; gh_expand_value := Some expand; gh_is_causal := causal |}.
Theorem gqa_impl_check_insufficient :
  gqa_fires (gqa_witness [1; 2; 2; 5; 8]%Z None) = true /\
  gqa_fires_impl (gqa_witness [2; 1; 2; 1; 5; 8]%Z None) = true /\ gqa_fires (gqa_witness [2; 1; 2; 1; 5; 8]%Z None) = false /\
  gqa_fires_impl (gqa_witness [1; 2; 2; 5; 8]%Z (Some 1%Z)) = true /\ gqa_fires (gqa_witness [1; 2; 2; 5; 8]%Z (Some 1%Z)) = false.
Proof. repeat split; reflexivity. Qed.

(* non-vacuity over Qc *)
From Coq Require Import QArith Qcanon.
Example fusion_example :
  ln_fires ln_ok = Some ((-1)%Z, 1%Z) /\
  ln_host_sem Qc qc_ops (fun v => v) (fun v _ _ => Qcmult v v) ln_ok [Q2Qc 1; Q2Qc 3] [Q2Qc 2; Q2Qc 2] (Q2Qc 0) =
  ln_spec Qc qc_ops (fun v => v) [Q2Qc 1; Q2Qc 3] [Q2Qc 2; Q2Qc 2] None (Q2Qc 0).
Proof. split; [reflexivity|]. vm_compute. reflexivity. Qed.
