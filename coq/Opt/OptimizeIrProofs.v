(* optimize_ir with every stage but Inline instantiated by a model, linked to the theorems of the properties that own the pass.
   Hypotheses that remain (each named in the evidence assumptions of C03 with what measures it):
     const_oracle                  the Constant kernel returns the tensor its attribute denotes
     oracles                       reference evaluator = runtime kernel, Constant / Identity kernels, truth of a boolean scalar (fold)
     pe_ok pe                      the op-specific partial evaluators of the folder replace a node by an equivalent segment
     Forall rule_sound rules       per rewrite rule: matched segment interchangeable with its replacement (what C05 proves per
                                   family; Opt/RuleBridge.v discharges it for three families under their kernel laws)
     istage_sound inline_pass      onnx_ir's InlinePass (cf. Props/C18_inline.v: C18_inline_eq_call_node, the same statement for the
                                   builder's inliner: a call node evaluates like the inlined body with renamed intermediates; onnx_ir's
                                   pass differs in the naming scheme, in resolving reference attributes and in taking the callee from
                                   model.functions by (domain, name, overload))
   RemoveUnusedFunctions / RemoveUnusedOpsets are the identity on (graph, initializer table): a call is the kernel `sem dom op`, the
   meaning of a model reads neither the function table nor the opset table (Opt/StagesProofs.v: remove_unused_functions_closed says
   what the pass guarantees about the table).  Fuel exhaustion / failed side conditions of a model make the stage return None. *)
From Coq Require Import List String ZArith Bool Lia.
Require Import OV.Graph.Syntax OV.Graph.Sem OV.Opt.Fold OV.Opt.FoldProofs OV.Opt.FoldTheorems.
Require Import OV.Opt.Dce OV.Opt.DceProofs OV.Opt.Cse OV.Opt.CseProofs OV.Opt.Inits OV.Opt.InitsProofs.
Require Import OV.Opt.Pipeline OV.Opt.PipelineProofs OV.Opt.Stages OV.Opt.StagesProofs.
Import ListNotations.
Local Open Scope list_scope.

Section L.
  Variable V : Type.
  Variable sem : string -> string -> list (string * attrv) -> list (option V) -> option (list V).
  Variable truth : V -> option bool.
  Variable trip : V -> option nat.
  Variable of_nat : nat -> V.
  Variable of_bool : bool -> V.
  Variable limit : nat.
  Variable tok_val : token -> option V.
  Variable ref_eval : string -> string -> list (string * attrv) -> list (option V) -> option (list V).
  Variable const_val : list (string * attrv) -> option V.
  Variable attr_of_val : V -> attrv.
  Variable v_dtype : V -> Z.
  Variable v_dims : V -> list Z.
  Variable v_ints : V -> option (list Z).
  Variable v_tensor : V -> bool.
  Variable pe : state V -> node -> pe_out V.
  Variable rules : list rule.
  Variable inline_pass : mstage imodel.

  Notation istage_sound := (istage_sound V sem truth trip of_nat of_bool limit tok_val).

  Definition i_id (f : imodel -> bool) : mstage imodel := fun m => Some (m, f m).
  Lemma i_id_sound f : istage_sound (i_id f).
  Proof. intros m m' b H. inversion H; subst. intros F args r X. exact X. Qed.

  Definition optimize_ir_linked (cfg : config) (depth fuel : nat) (rn : vname -> vname) (vis : list vname) (f : imodel -> bool)
             (inline : bool) (num_iterations : nat) (stop_if_no_change : bool) : mstage imodel :=
    optimize_ir_model inline num_iterations stop_if_no_change [inline_pass]
      [i_fold V tok_val ref_eval const_val attr_of_val v_dtype v_dims v_ints v_tensor pe cfg depth fuel f; i_rewrite fuel rules f; i_dce f; i_id f; i_id f]
      [i_dce f; i_lift f; i_hoist f; i_dedup f; i_cse f; i_output_fix f; i_namefix rn vis f].

  Theorem optimize_ir_linked_sound :
    const_oracle V sem tok_val ->
    oracles V sem truth ref_eval const_val attr_of_val v_dtype v_ints ->
    pe_ok V sem truth trip of_nat of_bool limit pe ->
    Forall (rule_sound V sem truth trip of_nat of_bool limit) rules ->
    istage_sound inline_pass ->
    forall cfg depth fuel rn vis f inline num_iterations stop_if_no_change,
      istage_sound (optimize_ir_linked cfg depth fuel rn vis f inline num_iterations stop_if_no_change).
  Proof.
    intros Hc Ho Hpe Hr Hi cfg depth fuel rn vis f inline n stop. unfold optimize_ir_linked.
    assert (Hid : forall attrs v, sem "" "Identity" attrs [Some v] = Some [v]) by (destruct Ho as (_ & _ & _ & D & _); exact D).
    apply optimize_ir_model_ok;
      [exact (irefines_refl V sem truth trip of_nat of_bool limit tok_val)
      |exact (irefines_trans V sem truth trip of_nat of_bool limit tok_val)| | |];
      repeat (apply Forall_cons || apply Forall_nil); try assumption;
      first [ apply i_fold_sound; assumption | apply i_rewrite_sound; assumption | apply i_dce_sound | apply i_id_sound
            | apply i_lift_sound; assumption | apply i_hoist_sound | apply i_dedup_sound | apply i_cse_sound
            | apply i_output_fix_sound; assumption | apply i_namefix_sound ].
  Qed.
End L.
