(* C07: proofs about OV.Rewrite.Naming. *)
From Coq Require Import List String Bool Arith Lia.
Require Import OV.Graph.Syntax OV.Graph.Wf OV.Rewrite.State OV.Rewrite.StateProofs OV.Rewrite.Naming.
Import ListNotations.
Local Open Scope string_scope.
Local Open Scope list_scope.

Lemma nat_eqb_eq : forall a b, Nat.eqb a b = true <-> a = b.
Proof. intros. apply Nat.eqb_eq. Qed.

(* finding C07:replacement-returns-pattern-input: Identity(x) -> x with x a graph input.  Objects: 0 = x (graph input),
   1 = t (output of the matched Identity); old_values = [t], new_values = [x] *)
Theorem returned_input_renames_graph_input_refuted :
  exists inputs olds news vs,
    names_of_objects inputs (take_names olds news vs) <> names_of_objects inputs vs.
Proof. exists [0], [1], [0], [(0, "x"); (1, "t")]. vm_compute. discriminate. Qed.

(* what protects the signature: no replacement output is a graph input (true of every value a replacement CREATES) *)
Theorem created_outputs_keep_input_names : forall inputs olds news vs,
  (forall n, In n news -> ~ In n inputs) ->
  names_of_objects inputs (take_names olds news vs) = names_of_objects inputs vs.
Proof.
  intros inputs olds. induction olds as [|o ot IH]; intros news vs H; simpl; auto.
  destruct news as [|n nt]; auto. rewrite IH; [|intros; apply H; right; auto].
  unfold names_of_objects. apply map_ext_in. intros a Ha. unfold name_of.
  rewrite (dget_dset_other Nat.eqb nat_eqb_eq); auto. intro; subst. apply (H n); [left; auto | exact Ha].
Qed.

(* finding C07:fresh-name-clash: two graph-local authorities at the same counter give the same names *)
Theorem local_authorities_share_names : forall c k1 k2, 0 < k1 -> 0 < k2 ->
  exists nm, In nm (local_names c k1) /\ In nm (local_names c k2).
Proof.
  intros c k1 k2 H1 H2. exists ("val_" ++ nat_to_string c)%string. unfold local_names.
  split; apply in_map_iff; exists c; (split; [reflexivity | apply in_seq; lia]).
Qed.

Theorem fresh_name_shadows_outer_refuted : wf_graphb ex_shadow_after = false.
Proof. vm_compute. reflexivity. Qed.

(* the repair: names drawn against one model-wide set are new and pairwise distinct, and there are as many as asked *)
Lemma rewritten_inj : forall a b, ("rewritten_val_" ++ nat_to_string a)%string = ("rewritten_val_" ++ nat_to_string b)%string -> a = b.
Proof. intros a b H. apply append_inj_l in H. apply nat_to_string_inj. exact H. Qed.

Theorem fresh_names_fixed : forall k used,
  List.length (fresh_seq used k) = k /\ NoDup (fresh_seq used k) /\ forall nm, In nm (fresh_seq used k) -> ~ In nm used.
Proof.
  induction k as [|k IH]; intro used; cbn [fresh_seq].
  - split; [reflexivity|]. split; [constructor | intros nm []].
  - destruct (first_free_total (fun j => ("rewritten_val_" ++ nat_to_string j)%string) used 1 rewritten_inj) as [j Hj].
    rewrite Hj. cbv zeta. apply first_free_sound in Hj. destruct Hj as [Hf _].
    destruct (IH (("rewritten_val_" ++ nat_to_string j)%string :: used)) as [L [N D]].
    split; [cbn [List.length]; rewrite L; reflexivity|]. split.
    + constructor; auto. intro Q. apply D in Q. apply Q. left. reflexivity.
    + intros nm [<-|Q].
      * intro Q. apply mem_In in Q. congruence.
      * apply D in Q. intro R. apply Q. right. exact R.
Qed.
