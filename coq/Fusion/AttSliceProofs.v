(* C19 proofs: the packed-MatMul + Slice Attention rule with arbitrary integer Slice bounds. *)
From Coq Require Import List Arith ZArith Bool Lia.
Require Import OV.Fusion.Field OV.Fusion.Norm OV.Fusion.Attn OV.Fusion.AttnProofs OV.Fusion.Attention OV.Fusion.AttentionProofs
               OV.Fusion.AttSlice.
Import ListNotations.

Ltac split_ifs :=
  repeat match goal with
         | H : context [if ?c then _ else _] |- _ => destruct c eqn:?
         | |- context [if ?c then _ else _] => destruct c eqn:?
         end.
Ltac ltb_props :=
  repeat match goal with
         | H : (_ <? _)%Z = true |- _ => apply Z.ltb_lt in H
         | H : (_ <? _)%Z = false |- _ => apply Z.ltb_ge in H
         end.

Lemma norm_bound_range : forall n x, (0 <= n)%Z -> (0 <= norm_bound n x <= n)%Z.
Proof. intros. unfold norm_bound. split_ifs; lia. Qed.

(* what the check's conditions on constant bounds amount to, with truthful widths: two cut points 0 <= a <= b <= hidden *)
Lemma tile_facts : forall n s1 e1 s2 e2 s3 e3, (0 <= n)%Z -> slices_tile n s1 e1 s2 e2 s3 e3 = true ->
  exists a b, (0 <= a <= b)%Z /\ (b <= n)%Z
    /\ norm_bound n s1 = 0%Z /\ norm_bound n e1 = a /\ norm_bound n s2 = a
    /\ norm_bound n e2 = b /\ norm_bound n s3 = b /\ norm_bound n e3 = n.
Proof.
  intros n s1 e1 s2 e2 s3 e3 Hn H. unfold slices_tile, bounds_ok in H.
  repeat (apply andb_prop in H; destruct H as [H ?]).
  repeat match goal with X : (_ =? _)%Z = true |- _ => apply Z.eqb_eq in X | X : (_ <=? _)%Z = true |- _ => apply Z.leb_le in X end.
  subst s1 s2 s3.
  pose proof (norm_bound_range n e1 Hn). pose proof (norm_bound_range n e2 Hn).
  assert (E0 : norm_bound n 0 = 0%Z) by (unfold norm_bound; simpl; lia).
  assert (E3 : norm_bound n e3 = n) by (unfold norm_bound; split_ifs; ltb_props; lia).
  exists (norm_bound n e1), (norm_bound n e2).
  unfold slice_width in *. rewrite E0, E3 in *. repeat split; auto; lia.
Qed.

(* the converse: two cut points give accepted bounds (satisfiability of the hypotheses, and the `only if` of the tiling) *)
Lemma tile_of_cuts : forall n a b, (0 <= a <= b)%Z -> (b <= n)%Z -> slices_tile n 0 a a b b n = true.
Proof.
  intros. unfold slices_tile, bounds_ok, slice_width, norm_bound.
  rewrite !Z.eqb_refl, Z.leb_refl. simpl andb.
  apply Z.eqb_eq. split_ifs; ltb_props; lia.
Qed.

Lemma to_nat_max0 : forall x, Z.to_nat (Z.max 0 x) = Z.to_nat x.
Proof. intros. destruct (Z.max_spec 0 x) as [[? E]|[? E]]; rewrite E; auto. destruct x; try lia; reflexivity. Qed.

Section Laws.
  Variable A : Type.
  Variable dot : list A -> list A -> A.
  Variable add : A -> A -> A.
  Variable Out : Type.
  Variable core : list (list A) -> list (list A) -> list (list A) -> Out.

  (* on rows of the projection's width the three ONNX Slices are the three column blocks *)
  Lemma slices_are_blocks : forall n s1 e1 s2 e2 s3 e3 (row : list A), Z.of_nat (length row) = n ->
    slices_tile n s1 e1 s2 e2 s3 e3 = true ->
    let dq := Z.to_nat (slice_width n s1 e1) in let dk := Z.to_nat (slice_width n s2 e2) in let dv := Z.to_nat (slice_width n s3 e3) in
    slice_row A s1 e1 row = firstn dq row /\ slice_row A s2 e2 row = firstn dk (skipn dq row)
    /\ slice_row A s3 e3 row = skipn (dq + dk) row /\ dq + dk + dv = length row.
  Proof.
    intros n s1 e1 s2 e2 s3 e3 row L T. assert (Hn : (0 <= n)%Z) by lia.
    destruct (tile_facts _ _ _ _ _ _ _ Hn T) as (a & b & Hab & Hbn & N1 & N2 & N3 & N4 & N5 & N6).
    unfold slice_row, slice_width. rewrite L, N1, N2, N3, N4, N5, N6. rewrite !to_nat_max0. cbn zeta.
    replace (Z.to_nat 0) with 0 by reflexivity. cbn [skipn].
    replace (a - 0)%Z with a by lia.
    assert (Eab : Z.to_nat a + Z.to_nat (b - a) = Z.to_nat b) by lia.
    repeat split; auto.
    - rewrite Eab. apply firstn_all2. rewrite skipn_length. lia.
    - lia.
  Qed.

  (* THE IDENTITY with the Slice bounds as integers: com.microsoft.Attention(input, qkv_weight, bias; qkv_hidden_sizes = the
     widths of the three slices) = MultiHeadAttention on the three Slices, whenever the constant bounds pass the check's tests
     and the widths add up to the projection's width -- every rows (B, S, D), weight, bias, core (num_heads, mask, scale) *)
  Theorem attention_slices_identity : forall rows W bias s1 e1 s2 e2 s3 e3,
    let n := Z.of_nat (length W) in
    length bias = length W -> slices_tile n s1 e1 s2 e2 s3 e3 = true ->
    att_fused A dot add Out core rows W bias
              (Z.to_nat (slice_width n s1 e1)) (Z.to_nat (slice_width n s2 e2)) (Z.to_nat (slice_width n s3 e3))
    = att_pattern_slices A dot add Out core rows W bias s1 e1 s2 e2 s3 e3.
  Proof.
    intros rows W bias s1 e1 s2 e2 s3 e3 n LB T.
    assert (LR : forall r : list A, Z.of_nat (length (map (dot r) W)) = n) by (intro; rewrite map_length; reflexivity).
    destruct (slices_are_blocks n s1 e1 s2 e2 s3 e3 (map (dot []) W) (LR []) T) as (_ & _ & _ & Sum). rewrite map_length in Sum.
    rewrite (attention_fusion_identity_slice A Out dot add core rows W bias _ _ _ LB Sum).
    unfold att_pattern_slice, att_pattern_slices, matmul. fold n. rewrite !map_map.
    f_equal; apply map_ext; intro r; destruct (slices_are_blocks n s1 e1 s2 e2 s3 e3 (map (dot r) W) (LR r) T) as (E1 & E2 & E3 & _);
      symmetry; assumption.
  Qed.
End Laws.

(* from the model of check: an accepted packed match with CONSTANT bounds, whose recorded shapes are truthful (the slices'
   recorded widths are the ONNX Slice widths -- what shape inference computes --, the weight really has Dh columns, the recorded
   projection width is the weight's column count), satisfies the identity's hypotheses: the emitted qkv_hidden_sizes make the
   fused operator equal to the pattern *)
Theorem att_check_slices_sufficient : forall i dq dk dv s1 e1 s2 e2 s3 e3,
  ai_no_slice i = false -> att_check_rewrite i = Some (dq, dk, dv) ->
  ai_bounds i = [Some s1; Some e1; Some s2; Some e2; Some s3; Some e3] ->
  forall n p0 p1, ai_projected i = Some [p0; p1; n] ->
  dq = slice_width n s1 e1 -> dk = slice_width n s2 e2 -> dv = slice_width n s3 e3 ->
  ai_qkv_weight i = Some [match ai_input i with Some [_; _; d] => d | _ => 0%Z end; n] ->
  slices_tile n s1 e1 s2 e2 s3 e3 = true.
Proof.
  intros i dq dk dv s1 e1 s2 e2 s3 e3 NS H Bd n p0 p1 Pj Wq Wk Wv Wt.
  destruct (att_check_sufficient_slice i dq dk dv NS H)
    as (b & s & d & p0' & p1' & hidden & s1' & e1' & s2' & e2' & s3' & e3' & Hin & Hw & Hp & Hh & Hb & Hs1 & H12 & H23 & He3 & _).
  rewrite Pj in Hp. injection Hp; intros; subst p0' p1' hidden.
  rewrite Bd in Hb. injection Hb; intros; subst s1' e1' s2' e2' s3' e3'.
  repeat match goal with X : Some _ = Some _ |- _ => injection X; clear X; intros end.
  subst s1. simpl in H12, H23. apply Z.eqb_eq in H12. apply Z.eqb_eq in H23. subst s2 s3.
  rewrite Hw in Wt. rewrite Hin in Wt. cbn [nth_error] in Wt. injection Wt; intros.
  match goal with X : (_ + _ + _)%Z = _ |- _ => rename X into Hsum end.
  rewrite Wq, Wk, Wv in Hsum.
  unfold slices_tile, bounds_ok.
  repeat (apply andb_true_intro; split); try apply Z.eqb_eq; try apply Z.leb_le; auto.
Qed.

(* the check as read accepts NON-CONSTANT bounds (get_singleton_value(end1) == get_singleton_value(start2) is None == None):
   with slice widths declared in the model (value_info) and run-time bounds that respect those widths, the key slice can be
   any window -- here the query's own columns -- and the fused operator differs from the pattern *)
Definition nonconst_witness : att_in :=
  mk_att_in false (Some [2; 3; 2]%Z) (Some [2; 3; 3]%Z) (Some [2; 3]%Z) (Some [2; 3; 1]%Z) (Some [2; 3; 1]%Z) (Some [2; 3; 1]%Z)
            [Some 0%Z; None; None; None; None; Some 3%Z].
Theorem att_check_nonconstant_bounds_refuted :
  att_check_rewrite nonconst_witness = Some (1, 1, 1)%Z
  /\ att_check_rewrite_v true nonconst_witness = None
  /\ exists (rows W : list (list nat)) (bias : list nat) e1 s2 e2 s3,
       let dotn := fun r c => fold_right plus 0 (map2 mult r c) in
       let core := fun q k v : list (list nat) => q ++ k ++ v in
       (* the run-time bounds give every slice its recorded width 1 *)
       slice_width 3 0 e1 = 1%Z /\ slice_width 3 s2 e2 = 1%Z /\ slice_width 3 s3 3 = 1%Z
       /\ att_fused nat dotn plus _ core rows W bias 1 1 1 <> att_pattern_slices nat dotn plus _ core rows W bias 0 e1 s2 e2 s3 3.
Proof.
  split; [vm_compute; reflexivity|]. split; [vm_compute; reflexivity|].
  exists [[1; 2]], [[1; 0]; [0; 1]; [1; 1]], [10; 20; 30], 1%Z, 0%Z, 1%Z, 2%Z.
  vm_compute. repeat split; discriminate.
Qed.
(* the repaired check refuses exactly the matches with a non-constant bound and is the check as read otherwise *)
Theorem att_check_strict_bounds_spec : forall i,
  att_check_rewrite_v true i = if negb (ai_no_slice i) && negb (all_some (ai_bounds i)) then None else att_check_rewrite i.
Proof. intro i. unfold att_check_rewrite_v. reflexivity. Qed.
Theorem att_check_strict_bounds_constant : forall i r, ai_no_slice i = false -> att_check_rewrite_v true i = Some r ->
  exists s1 e1 s2 e2 s3 e3, ai_bounds i = [Some s1; Some e1; Some s2; Some e2; Some s3; Some e3] /\ att_check_rewrite i = Some r.
Proof.
  intros i [[dq dk] dv] NS H. unfold att_check_rewrite_v in H. rewrite NS in H. simpl in H.
  destruct (all_some (ai_bounds i)) eqn:AS; simpl in H; [|discriminate].
  destruct (att_check_sufficient_slice i dq dk dv NS H)
    as (b & s & d & p0 & p1 & hidden & s1 & e1 & s2 & e2 & s3 & e3 & _ & _ & _ & _ & Hb & Hs1 & _).
  rewrite Hb in AS. simpl in AS.
  destruct s1 as [s1|], e1 as [e1|], s2 as [s2|], e2 as [e2|], s3 as [s3|]; simpl in AS; try discriminate.
  exists s1, e1, s2, e2, s3, e3. split; assumption.
Qed.

(* without the tests on the bounds the widths alone do not make the slices tile: q = [1, 2), k = [2, 3), v = [2, 3) have widths
   1 + 1 + 1 = 3 = hidden but start at 1 (the harness's near miss "start-not-0") *)
Theorem slices_widths_alone_refuted : exists s1 e1 s2 e2 s3 e3,
  (slice_width 3 s1 e1 + slice_width 3 s2 e2 + slice_width 3 s3 e3 = 3)%Z /\ slices_tile 3 s1 e1 s2 e2 s3 e3 = false
  /\ let dotn := fun r c => fold_right plus 0 (map2 mult r c) in
     let core := fun q k v : list (list nat) => q ++ k ++ v in
     att_fused nat dotn plus _ core [[1; 2]] [[1; 0]; [0; 1]; [1; 1]] [10; 20; 30] 1 1 1
     <> att_pattern_slices nat dotn plus _ core [[1; 2]] [[1; 0]; [0; 1]; [1; 1]] [10; 20; 30] s1 e1 s2 e2 s3 e3.
Proof. exists 1%Z, 2%Z, 2%Z, 3%Z, 2%Z, 3%Z. vm_compute. repeat split; discriminate. Qed.

Example attention_slices_negative_bounds_compute :
  slices_tile 3 0 (-2) (-2) (-1) (-1) 9223372036854775807 = true
  /\ att_pattern_slices nat (fun r c => fold_right plus 0 (map2 mult r c)) plus _ (fun q k v => q ++ k ++ v)
       [[1; 2]; [3; 4]] [[1; 0]; [0; 1]; [1; 1]] [10; 20; 30] 0 (-2) (-2) (-1) (-1) 9223372036854775807
     = [[11]; [13]; [22]; [24]; [33]; [37]].
Proof. vm_compute. split; reflexivity. Qed.
