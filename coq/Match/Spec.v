(* C06 -- the declarative meaning of a pattern: when is an assignment sigma an *instance* of the
   pattern in a host graph.  No search, no stack, no order: sigma maps pattern nodes to host nodes,
   variable names to what they stand for, and unnamed value patterns (by identity) to values, and
   `instanceb` checks the local conditions of every mapped pattern node (a graph homomorphism).
   Boolean-valued so that it can also be evaluated on what the real matcher returned.
   No proofs in this file. *)
From Coq Require Import List ZArith String Bool Arith.
Require Import OV.Match.Pattern OV.Match.Matcher.
Import ListNotations.

Record sigma := mkSig {
  s_n : list (pid * nid);               (* pattern node -> host node *)
  s_v : list (string * bval);           (* variable -> value | attribute | tag | None *)
  s_k : list (vkey * option vid)        (* unnamed value pattern -> value *)
}.

Section Spec.
Variable g : hgraph.
Variable tbl : list npat.
Variable s : sigma.

Definition var_is (x : string) (b : bval) : bool :=
  match assoc String.eqb x (s_v s) with Some b' => bval_eqb b' b | None => false end.
Definition key_is (k : vkey) (v : option vid) : bool :=
  match assoc vkey_eqb k (s_k s) with Some v' => ovid_eqb v' v | None => false end.
Definition node_is (p : pid) (n : nid) : bool :=
  match assoc Nat.eqb p (s_n s) with Some m => Nat.eqb m n | None => false end.

(* a value pattern stands for one value: by name if it has one, else by identity *)
Definition value_is (name : option string) (k : vkey) (v : option vid) : bool :=
  match name with Some x => var_is x (bv v) | None => key_is k v end.
Definition tag_is (tagv : option string) (tag : Z) : bool :=
  match tagv with Some x => var_is x (BTag tag) | None => true end.

(* value v is output i of the host node that pattern node p is mapped to *)
Definition out_of (p : pid) (i : nat) (v : option vid) : bool :=
  match v with
  | Some x => match producer g x with
              | Some (n, idx) => Nat.eqb idx i && node_is p n
              | None => false
              end
  | None => false
  end.

Fixpoint vlocal (pv : vpat) (v : option vid) {struct pv} : bool :=
  negb (boundary_blocks g pv v) &&
  match pv with
  | PAny => true
  | PVar x none_ok => var_is x (bv v) && match v with None => none_ok | Some _ => true end
  | PConst k c => key_is (KObj k) v && match v with Some x => const_ok g c x | None => false end
  | POut p i => out_of p i v
  | POr k name tagv alts =>
      value_is name (KObj k) v &&
      (fix any (l : list (Z * vpat)) : bool :=
         match l with
         | [] => false
         | (tag, alt) :: t => (vlocal alt v && tag_is tagv tag) || any t
         end) alts
  | PDisp k name tagv alts =>
      value_is name (KObj k) v &&
      existsb (fun ta => out_of (fst (snd ta)) (snd (snd ta)) v && tag_is tagv (fst ta)) alts
  end.

Definition attr_local (h : hnode) (na : string * apat) : bool :=
  match assoc String.eqb (fst na) (h_attrs h), snd na with
  | None, APConst _ => false
  | None, APVar x none_ok => none_ok && match x with Some y => var_is y BNone | None => true end
  | Some a, APConst c => match attr_const_matches c a with Some true => true | _ => false end
  | Some a, APVar x _ => match x with Some y => var_is y (BAttr (fst na) a) | None => true end
  end.

(* the node's inputs are padded with None up to the number of pattern inputs *)
Fixpoint inputs_local (pins : list (option vpat)) (ins : list (option vid)) : bool :=
  match pins with
  | [] => true
  | pp :: ptl =>
      let a := match ins with [] => None | a :: _ => a end in
      let atl := match ins with [] => [] | _ :: atl => atl end in
      match pp with
      | None => match a with None => true | Some _ => false end
      | Some pv => vlocal pv a
      end && inputs_local ptl atl
  end.

Fixpoint outputs_local (p : pid) (names : list (option string)) (outs : list vid) (i : nat) : bool :=
  match names with
  | [] => true
  | name :: t =>
      match outs with
      | [] => false
      | o :: outs' => value_is name (KOut p i) (Some o) && outputs_local p t outs' (S i)
      end
  end.

Definition nlocal (p : pid) (np : npat) (h : hnode) : bool :=
  spat_matches (np_op np) (h_op h) && spat_matches (np_dom np) (h_dom h) &&
  forallb (attr_local h) (np_attrs np) &&
  (np_other_attrs np || no_other_attrs np h) &&
  ((List.length (h_ins h) <=? List.length (np_ins np)) || np_other_ins np) &&
  inputs_local (np_ins np) (h_ins h) &&
  outputs_local p (np_outs np) (h_outs h) 0.

Definition node_ok (pn : pid * nid) : bool :=
  match nth_error tbl (fst pn), nth_error (g_nodes g) (snd pn) with
  | Some np, Some h => nlocal (fst pn) np h
  | _, _ => false
  end.

(* every mapped pattern node is locally satisfied *)
Definition nodes_ok : bool :=
  forallb (fun pn => implb (node_is (fst pn) (snd pn)) (node_ok pn)) (s_n s).

Fixpoint roots_are (roots : list pid) (cand : list nid) : bool :=
  match roots, cand with
  | r :: rt, c :: ct => node_is r c && roots_are rt ct
  | [], [] => true
  | _, _ => false
  end.

(* sigma(outputs p) *)
Definition spec_output (pv : vpat) : option bval :=
  let named (name : option string) (k : vkey) :=
    match name with
    | Some x => assoc String.eqb x (s_v s)
    | None => option_map bv (assoc vkey_eqb k (s_k s))
    end in
  match pv with
  | PAny => None
  | PVar x _ => assoc String.eqb x (s_v s)
  | PConst k _ => named None (KObj k)
  | POut p i => named (out_name tbl p i) (KOut p i)
  | POr k name _ _ => named name (KObj k)
  | PDisp k name _ _ => named name (KObj k)
  end.

Fixpoint spec_outputs (outs : list vpat) : option (list bval) :=
  match outs with
  | [] => Some []
  | pv :: t => match spec_output pv, spec_outputs t with
               | Some b, Some bs => Some (b :: bs)
               | _, _ => None
               end
  end.

End Spec.

(* sigma is an instance of pattern p in g, the pattern's output nodes sitting at `cand` *)
Definition instanceb (g : hgraph) (p : gpat) (cand : list nid) (s : sigma) : bool :=
  roots_are s (output_nodes p) cand && nodes_ok g (gp_nodes p) s.

Definition image (s : sigma) : list nid := map snd (s_n s).

(* removability, declaratively: every value computed by a matched node, other than the outputs of the
   match, is not a graph output and is consumed by matched nodes only *)
Definition removable (g : hgraph) (matched : list nid) (outs : list bval) : Prop :=
  forall n h v, In n matched -> nth_error (g_nodes g) n = Some h -> In v (h_outs h) ->
    ~ In (BVal v) outs ->
    ~ In v (g_outs g) /\
    forall c hc, nth_error (g_nodes g) c = Some hc -> In (Some v) (h_ins hc) -> In c matched.

(* ------------------------------------------------------------------ well-formedness of patterns *)
(* value patterns without OrValue *)
Definition or_free_v (pv : vpat) : bool :=
  match pv with POr _ _ _ _ | PDisp _ _ _ _ => false | _ => true end.
Definition or_free_n (np : npat) : bool :=
  forallb (fun i => match i with Some pv => or_free_v pv | None => true end) (np_ins np).
Definition or_free (p : gpat) : bool := forallb or_free_n (gp_nodes p).

(* pattern nodes are listed in creation order: node q's inputs mention only outputs that exist of nodes < q
   (holds for every pattern built through the API: a NodePattern is created after its inputs) *)
Definition ref_ok (tbl : list npat) (q : pid) (p : pid) (i : nat) : bool :=
  (p <? q) && match nth_error tbl p with Some np => i <? List.length (np_outs np) | None => false end.

Fixpoint refs_below (tbl : list npat) (q : pid) (pv : vpat) {struct pv} : bool :=
  match pv with
  | POut p i => ref_ok tbl q p i
  | POr _ _ _ alts =>
      (fix all (l : list (Z * vpat)) : bool :=
         match l with [] => true | (_, a) :: t => refs_below tbl q a && all t end) alts
  | PDisp _ _ _ alts => forallb (fun ta => ref_ok tbl q (fst (snd ta)) (snd (snd ta))) alts
  | _ => true
  end.
Fixpoint topo_from (tbl : list npat) (ns : list npat) (q : pid) : bool :=
  match ns with
  | [] => true
  | np :: t => forallb (fun i => match i with Some pv => refs_below tbl q pv | None => true end) (np_ins np)
               && topo_from tbl t (S q)
  end.
Definition topo (p : gpat) : bool := topo_from (gp_nodes p) (gp_nodes p) 0.

(* q is reachable from r through node-output inputs *)
Inductive reach (tbl : list npat) (r : pid) : pid -> Prop :=
| reach_refl : reach tbl r r
| reach_step : forall q np q' i, reach tbl r q -> nth_error tbl q = Some np -> In (Some (POut q' i)) (np_ins np) ->
    reach tbl r q'.

(* every output of the pattern is an existing output of a node reachable from the output node r *)
Definition outs_reachable (p : gpat) (r : pid) : Prop :=
  forall pv, In pv (gp_outs p) ->
    exists q i np, pv = POut q i /\ reach (gp_nodes p) r q /\ nth_error (gp_nodes p) q = Some np /\ i < List.length (np_outs np).

(* the same for patterns with several output nodes *)
Definition outs_reachable_multi (p : gpat) : Prop :=
  forall pv, In pv (gp_outs p) ->
    exists r q i np, In r (output_nodes p) /\ pv = POut q i /\ reach (gp_nodes p) r q /\
                     nth_error (gp_nodes p) q = Some np /\ i < List.length (np_outs np).

(* the candidate tuples tried by SimplePatternMatcher.match for root node `root` *)
Definition candidates (fl : flags) (p : gpat) (g : hgraph) (root : nid) : list (list nid) :=
  match output_nodes p with
  | [] => []
  | [_] => [[root]]
  | _ :: others =>
      let ids := map (fun q => match nth_error (gp_nodes p) q with Some np => np_opid np | None => None end) others in
      product ([root] :: candidate_lists fl (g_nodes g) g ids false)
  end.

(* what the matcher observed, as a sigma *)
Definition sigma_of (m : matched) : sigma := mkSig (m_nb m) (m_b m) (m_vb m).

(* the three repairs: merge keeps value_bindings and node_bindings, an output-count mismatch is a recorded failure *)
Definition repaired (fl : flags) : bool := keep_vb fl && keep_nb fl && out_fail fl.

(* ------------------------------------------------------------------ attribute patterns the matcher can evaluate *)
(* AttrConstantPattern.matches raises (tuple(<int>)) when a scalar integer pattern meets a list-valued attribute of
   the same name (Matcher.attr_const_matches = None).  `attrs_typed tbl g`: that combination does not occur between the
   pattern's constant attribute patterns and the attributes of any node of g. *)
Definition attr_pat_typed (g : hgraph) (na : string * apat) : bool :=
  match snd na with
  | APConst c =>
      forallb (fun h => match assoc String.eqb (fst na) (h_attrs h) with
                        | Some a => match attr_const_matches c a with None => false | Some _ => true end
                        | None => true
                        end) (g_nodes g)
  | APVar _ _ => true
  end.
Definition attrs_typed (tbl : list npat) (g : hgraph) : bool :=
  forallb (fun np => forallb (attr_pat_typed g) (np_attrs np)) tbl.

(* a node of the graph being matched (not of an enclosing graph): what the candidate enumeration ranges over *)
Definition own_node (g : hgraph) (n : nid) : bool :=
  match nth_error (g_nodes g) n with
  | Some h => match h_outs h with o :: _ => negb (foreign g o) | [] => true end
  | None => false
  end.
