"""C12: sound source normalisations applied before harness/c12_decisions.py compares a function with its fixed shapes.

The decision translator is fail-closed: it recognises a handful of statement forms.  A rewrite that cannot change what
the function computes must give the SAME decision record (Gen/C12Decisions.v byte-identical); anything the steps below do
not recognise is left alone and the translator then refuses it as before.  Steps (control-flow and renaming machinery
imported from harness/c01_pynorm.py, whose soundness arguments apply unchanged):

  0 fresh tree     ast.parse(ast.unparse(f)): comments, layout, quoting are not part of the ast; docstrings dropped.
  1 module tuples  a load of a module-level name N bound exactly once in the whole module, by `N = (e1, .., en)` /
                   `N: T = (..)` at module top level with every ei a name / dotted name / constant that the module never
                   rebinds, no `global N`, and neither N nor an ei bound in the function, is replaced by the tuple
                   display.  A tuple is immutable and the names denote the same objects at import and at call time, so
                   `isinstance(x, N)` == `isinstance(x, (e1, .., en))`.
  2 pure locals    `v = E` at the top level of the function body (an annotation on it is not evaluated), v not one of the
                   function's reference locals, is removed and every later read of v replaced by E when
                     - v is bound exactly once in the function, is no parameter, is not mentioned in a nested def / lambda,
                       and every read of v is in a later statement of the same block (so the binding dominates the reads);
                     - E is a constant, a name, an attribute chain on a name, or len(<name / attribute chain>) with `len`
                       never bound in the function or module;
                     - every name r that E reads is a parameter that is never re-bound, or a local bound exactly once by
                       an earlier top-level statement;
                     - the value r denotes does not escape and is not written through in this function: every occurrence
                       of r (and, transitively, of a local that is a plain alias `w = r` / `w = r.a`, and of the names
                       the defining expression of r reads) is a load through attribute / subscript loads that ends as an
                       argument of len / enumerate / isinstance, an operand of `is` / `is not` / `not` / and / or / an
                       if-test, the iterable of a for, a formatted value, a returned value, or the right-hand side of an
                       assignment to a single plain name (element alias `e = r[i]`, or container alias checked
                       transitively).  No method is called on it, it is never a store / del / augmented target, it is
                       never passed to any other call.
                   Then each evaluation of E after the removed statement reads the same binding and measures the same
                   un-mutated object as the one evaluation at the removed statement did.  Standing assumptions (the
                   ones Autocast.v already makes by modelling the formals as an immutable Coq list): attribute loads and
                   `len` of such an un-escaped value are total and effect-free, and code the function calls does not
                   mutate an object it was not handed.  (`n = len(xs)` hoisted out of a loop == `len(xs)` in the loop.)
                   Only as many temporaries are removed as the function has locals beyond its reference list.
  3 control flow   c01_pynorm.flatten: `if A: B else: C` with B always leaving the function == `if A: B` then C; dead
                   statements after return / raise dropped.  Applied to the source and to the expected texts alike.
  4 names          the locals (not parameters), in order of first binding, are renamed to the reference names of the
                   function when their number agrees (simultaneous, capture refused: c01_pynorm._rename_in).  Consistent
                   renaming of bound names; if the rewrite was more than a renaming the texts still differ afterwards and
                   the translator refuses.
"""
from __future__ import annotations

import ast
import copy

from harness import c01_pynorm as pn

_PURE_CALLS = {"len", "enumerate", "isinstance"}


# ----------------------------------------------------------------------------- helpers
def _parents(fn):
    pm = {}
    for p in ast.walk(fn):
        for c in ast.iter_child_nodes(p):
            pm[c] = p
    return pm


def _chain_root(e):
    while isinstance(e, ast.Attribute) and isinstance(e.ctx, ast.Load):
        e = e.value
    return e.id if isinstance(e, ast.Name) and isinstance(e.ctx, ast.Load) else None


def _pure_reads(e):
    """-> (set of data names E reads, uses_len) or None when E is not of the admitted form"""
    if isinstance(e, ast.Constant):
        return set(), False
    r = _chain_root(e)
    if r is not None:
        return {r}, False
    if isinstance(e, ast.Call) and isinstance(e.func, ast.Name) and e.func.id == "len" and len(e.args) == 1 and not e.keywords:
        r = _chain_root(e.args[0])
        if r is not None:
            return {r}, True
    return None


def _store_counts(fn):
    stores = {}
    for n in ast.walk(fn):
        if isinstance(n, ast.Name) and isinstance(n.ctx, (ast.Store, ast.Del)):
            stores[n.id] = stores.get(n.id, 0) + 1
        elif isinstance(n, ast.ExceptHandler) and n.name:
            stores[n.name] = stores.get(n.name, 0) + 2
        elif isinstance(n, (ast.FunctionDef, ast.AsyncFunctionDef, ast.ClassDef)) and n is not fn:
            stores[n.name] = stores.get(n.name, 0) + 2
        elif isinstance(n, (ast.Import, ast.ImportFrom)):
            for a in n.names:
                nm = (a.asname or a.name).split(".")[0]
                stores[nm] = stores.get(nm, 0) + 2
    return stores


def _assign_parts(st):
    """`v = E` / `v: T = E` with a single plain-name target -> (v, E)"""
    if isinstance(st, ast.Assign) and len(st.targets) == 1 and isinstance(st.targets[0], ast.Name):
        return st.targets[0].id, st.value
    if isinstance(st, ast.AnnAssign) and st.value is not None and isinstance(st.target, ast.Name) and st.simple:
        return st.target.id, st.value
    return None


# ----------------------------------------------------------------------------- step 2
def _unescaped(fn, root, k, seen=None):
    """The value bound to `root` (parameter or once-bound local of fn defined before statement k) is only read, in the
    contexts listed in the module docstring, anywhere in fn."""
    seen = set() if seen is None else seen
    if root in seen:
        return True
    seen.add(root)
    params = [p.arg for p in pn._params(fn)]
    stores = _store_counts(fn)
    n_arg = sum(1 for n in ast.walk(fn) if isinstance(n, ast.arg) and n.arg == root)
    if root in params:
        if stores.get(root, 0) != 0 or n_arg != 1:
            return False
    else:
        if stores.get(root, 0) != 1 or n_arg != 0:
            return False
        defs = [i for i, st in enumerate(fn.body[:k]) if (_assign_parts(st) or (None,))[0] == root]
        if len(defs) != 1:
            return False
        reads = _pure_reads(_assign_parts(fn.body[defs[0]])[1])
        if reads is None or reads[1]:
            return False        # the local must itself be a plain view of un-escaped values
        for r in reads[0]:
            if not _unescaped(fn, r, defs[0], seen):
                return False
    pm = _parents(fn)
    for n in ast.walk(fn):
        if not (isinstance(n, ast.Name) and n.id == root and isinstance(n.ctx, ast.Load)):
            continue
        top, subscripted = n, False
        while True:
            p = pm.get(top)
            if isinstance(p, ast.Attribute) and p.value is top and isinstance(p.ctx, ast.Load):
                gp = pm.get(p)
                if isinstance(gp, ast.Call) and gp.func is p:
                    return False            # a method is called on it
                top = p
            elif isinstance(p, ast.Subscript) and p.value is top and isinstance(p.ctx, ast.Load):
                top, subscripted = p, True
            else:
                break
        p = pm.get(top)
        if isinstance(p, ast.Call) and isinstance(p.func, ast.Name) and p.func.id in _PURE_CALLS and top in p.args \
                and _store_counts(fn).get(p.func.id, 0) == 0:
            continue
        if isinstance(p, ast.Compare) and all(isinstance(o, (ast.Is, ast.IsNot)) for o in p.ops):
            continue
        if isinstance(p, ast.BoolOp) or (isinstance(p, ast.UnaryOp) and isinstance(p.op, ast.Not)):
            continue
        if isinstance(p, (ast.If, ast.While)) and p.test is top:
            continue
        if isinstance(p, ast.For) and p.iter is top:
            continue
        if isinstance(p, (ast.FormattedValue, ast.Return)):
            continue
        parts = _assign_parts(p) if isinstance(p, (ast.Assign, ast.AnnAssign)) else None
        if parts is not None and parts[1] is top:
            if subscripted:
                continue                    # an element, not the container
            if not _unescaped(fn, parts[0], len(fn.body), seen):
                return False
            continue
        return False
    return True


class _SubstLoads(ast.NodeTransformer):
    def __init__(self, name, expr):
        self.name, self.expr = name, expr

    def visit_Name(self, node):
        if node.id == self.name and isinstance(node.ctx, ast.Load):
            return copy.deepcopy(self.expr)
        return node


def _substitutable(fn, k, module_stores):
    parts = _assign_parts(fn.body[k])
    if parts is None:
        return False
    v, e = parts
    reads = _pure_reads(e)
    if reads is None:
        return False
    if any(isinstance(n, (ast.Global, ast.Nonlocal)) for n in ast.walk(fn)):
        return False
    stores = _store_counts(fn)
    if stores.get(v, 0) != 1 or any(isinstance(n, ast.arg) and n.arg == v for n in ast.walk(fn)):
        return False
    for n in ast.walk(fn):
        if n is not fn and isinstance(n, (ast.FunctionDef, ast.AsyncFunctionDef, ast.Lambda, ast.ClassDef)):
            if any(isinstance(m, ast.Name) and m.id == v for m in ast.walk(n)):
                return False
    for st in fn.body[:k + 1]:
        if any(isinstance(m, ast.Name) and m.id == v and isinstance(m.ctx, ast.Load) for m in ast.walk(st)):
            return False
    if reads[1] and (stores.get("len", 0) or module_stores.get("len", 0)
                     or any(isinstance(n, ast.arg) and n.arg == "len" for n in ast.walk(fn))):
        return False
    return all(_unescaped(fn, r, k) for r in reads[0])


def subst_pure_locals(fn, keep, module_stores, excess):
    """Step 2 (in place): remove up to `excess` substitutable top-level temporaries whose name is not in `keep`."""
    k = len(fn.body) - 1        # last first: a hoisted temporary is derived from the locals bound before it
    while excess > 0 and k >= 0:
        parts = _assign_parts(fn.body[k])
        if parts is not None and parts[0] not in keep and _substitutable(fn, k, module_stores):
            sub = _SubstLoads(parts[0], parts[1])
            fn.body[k + 1:] = [ast.fix_missing_locations(sub.visit(st)) for st in fn.body[k + 1:]]
            del fn.body[k]
            excess -= 1
        k -= 1
    return fn


# ----------------------------------------------------------------------------- step 1
def module_tuples(tree):
    """module-level once-bound tuple displays of never-rebound names / constants: name -> ast.Tuple"""
    stores = _store_counts(tree)
    if any(isinstance(n, ast.Global) for n in ast.walk(tree)):
        declared = {nm for n in ast.walk(tree) if isinstance(n, ast.Global) for nm in n.names}
    else:
        declared = set()
    out = {}
    for st in tree.body:
        parts = _assign_parts(st)
        if parts is None or not isinstance(parts[1], ast.Tuple) or stores.get(parts[0], 0) != 1 or parts[0] in declared:
            continue
        ok = True
        for el in parts[1].elts:
            if isinstance(el, ast.Constant):
                continue
            r = _chain_root(el)
            if r is None or stores.get(r, 0) > 1 or r in declared:
                ok = False
                break
        if ok and parts[1].elts:
            out[parts[0]] = parts[1]
    return out


def inline_module_tuples(fn, tuples):
    if not tuples:
        return fn
    bound = set(pn._all_identifiers(fn)) & (set(_store_counts(fn)) | {a.arg for a in ast.walk(fn) if isinstance(a, ast.arg)})
    for name, tup in tuples.items():
        elems = {_chain_root(e) for e in tup.elts if not isinstance(e, ast.Constant)}
        if name in bound or elems & bound:
            continue
        fn = _SubstLoads(name, tup).visit(fn)
    return ast.fix_missing_locations(fn)


# ----------------------------------------------------------------------------- step 4
def _locals(fn):
    params = {p.arg for p in pn._params(fn)}
    nested = {n.name for n in ast.walk(fn) if isinstance(n, (ast.FunctionDef, ast.AsyncFunctionDef, ast.ClassDef)) and n is not fn}
    return [n for n in pn._local_bindings(fn) if n not in params and n not in nested]


def rename_locals(fn, ref):
    names = _locals(fn)
    if len(names) != len(ref) or names == list(ref):
        return fn
    mapping = {old: new for old, new in zip(names, ref) if old != new}
    ids = pn._all_identifiers(fn)
    if any(new in ids and new not in mapping for new in mapping.values()):
        return fn           # capture: leave the names, the translator refuses
    tmp = {old: f"__c12n{i}__" for i, old in enumerate(mapping)}
    if any(t in ids for t in tmp.values()):
        return fn
    pn._rename_in(fn, tmp, True)
    pn._rename_in(fn, {tmp[old]: new for old, new in mapping.items()}, True)
    return fn


# ----------------------------------------------------------------------------- all steps
def normal(fn, ref_locals, tree):
    """FunctionDef of `tree` -> normalised copy (never raises: a step that does not apply is skipped)."""
    work = ast.parse(ast.unparse(fn)).body[0]
    for n in ast.walk(work):
        if isinstance(n, (ast.FunctionDef, ast.AsyncFunctionDef)):
            n.body = pn.strip_doc(n.body) or [ast.Pass()]
    try:
        work = inline_module_tuples(work, module_tuples(tree))
        excess = len(_locals(work)) - len(ref_locals)
        if excess > 0:
            work = subst_pure_locals(work, set(ref_locals), _store_counts(tree), excess)
        work.body = pn.flatten(work.body)
        work = rename_locals(work, list(ref_locals))
    except pn.NotNormalisable:
        pass
    return ast.fix_missing_locations(work)


def flat_texts(texts):
    """expected statement texts -> the same statements after step 3"""
    body = ast.parse("\n".join(texts)).body
    return [ast.unparse(s) for s in pn.flatten(body)]
