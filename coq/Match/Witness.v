(* C06 -- concrete patterns / graphs used by the refutation theorems and by the satisfiability examples.
   No proofs in this file. *)
From Coq Require Import List ZArith String Bool.
Require Import OV.Match.Pattern OV.Match.Matcher OV.Match.Spec.
Import ListNotations.
Local Open Scope string_scope.

Definition un (op : string) (i : vpat) : npat := mkNP (SExact op) (SExact "") [] true [Some i] false [None] true.
Definition bin (op : string) (a b : vpat) : npat := mkNP (SExact op) (SExact "") [] true [Some a; Some b] false [None] true.
Definition hn (op : string) (ins : list (option vid)) (outs : list vid) : hnode := mkHN op "" [] ins outs.

(* t = Relu(x); Add(OrValue([Neg(t), Neg(Abs(t))]), t)        (corpus/C06/f16_merge.json) *)
Definition p_or : gpat :=
  mkGP [un "Relu" (PVar "x" false);                   (* 0: t *)
        un "Neg" (POut 0 0);                          (* 1 *)
        un "Abs" (POut 0 0);                          (* 2 *)
        un "Neg" (POut 2 0);                          (* 3 *)
        bin "Add" (POr 0 None None [(0%Z, POut 1 0); (1%Z, POut 3 0)]) (POut 0 0)]   (* 4 *)
       ["x"] [POut 4 0].

(* r1 = Relu(x); r2 = Relu(x); n = Neg(r1); z = Add(n, r2): two different Relu nodes *)
Definition g_two_relus : hgraph :=
  mkHG [hn "Relu" [Some 0] [1]; hn "Relu" [Some 0] [2]; hn "Neg" [Some 1] [3]; hn "Add" [Some 3; Some 2] [4]] [4] [] [].

(* r = Relu(x); n = Neg(r); z = Add(n, r): a genuine instance of p_or *)
Definition g_one_relu : hgraph :=
  mkHG [hn "Relu" [Some 0] [1]; hn "Neg" [Some 1] [2]; hn "Add" [Some 2; Some 1] [3]] [3] [] [].

(* y, mask = Dropout(x) with two outputs; Relu(y) *)
Definition p_two_outs : gpat :=
  mkGP [mkNP (SExact "Dropout") (SExact "") [] true [Some (PVar "x" false)] false [None; None] true;
        un "Relu" (POut 0 0)]
       ["x"] [POut 1 0].
(* d = Dropout(x) (one output); z = Relu(d) *)
Definition g_one_out : hgraph := mkHG [hn "Dropout" [Some 0] [1]; hn "Relu" [Some 1] [2]] [2] [] [].

(* an OR-free pattern with a repeated variable and a shared node: t = Relu(x); Sub(Add(t, x), t) *)
Definition p_plain : gpat :=
  mkGP [un "Relu" (PVar "x" false); bin "Add" (POut 0 0) (PVar "x" false); bin "Sub" (POut 1 0) (POut 0 0)]
       ["x"] [POut 2 0].
Definition g_plain : hgraph :=
  mkHG [hn "Relu" [Some 0] [1]; hn "Add" [Some 1; Some 0] [2]; hn "Sub" [Some 2; Some 1] [3]] [3] [] [].
(* the same host, the intermediate Add result being used elsewhere too *)
Definition g_plain_used : hgraph :=
  mkHG [hn "Relu" [Some 0] [1]; hn "Add" [Some 1; Some 0] [2]; hn "Sub" [Some 2; Some 1] [3]; hn "Neg" [Some 2] [4]] [3; 4] [] [].
(* Add with swapped operands *)
Definition g_plain_swapped : hgraph :=
  mkHG [hn "Relu" [Some 0] [1]; hn "Add" [Some 0; Some 1] [2]; hn "Sub" [Some 2; Some 1] [3]] [3] [] [].

Definition s_plain : sigma :=
  mkSig [(2, 2); (1, 1); (0, 0)] [("x", BVal 0)] [(KOut 2 0, Some 3); (KOut 1 0, Some 2); (KOut 0 0, Some 1)].

(* Add(OrValue([Neg(x), Neg(Neg(x))]), x): the first alternative matches locally with x := Neg(a) and is kept;
   the conflict on the second operand then fails the whole match although the second alternative is an instance *)
Definition p_choice : gpat :=
  mkGP [un "Neg" (PVar "x" false);                    (* 0 *)
        un "Neg" (PVar "x" false);                    (* 1 *)
        un "Neg" (POut 1 0);                          (* 2 *)
        bin "Add" (POr 0 None None [(0%Z, POut 0 0); (1%Z, POut 2 0)]) (PVar "x" false)]   (* 3 *)
       ["x"] [POut 3 0].
Definition g_choice : hgraph :=
  mkHG [hn "Neg" [Some 0] [1]; hn "Neg" [Some 1] [2]; hn "Add" [Some 2; Some 0] [3]] [3] [] [].
Definition s_choice : sigma :=
  mkSig [(3, 2); (2, 1); (1, 0)] [("x", BVal 0)]
        [(KOut 3 0, Some 3); (KOut 2 0, Some 2); (KOut 1 0, Some 1); (KObj 0, Some 2)].

(* two output nodes: return Relu(x), Neg(x) *)
Definition p_two_roots : gpat :=
  mkGP [un "Relu" (PVar "x" false); un "Neg" (PVar "x" false)] ["x"] [POut 0 0; POut 1 0].
(* two Neg nodes: the first (on another input) is tried first and rejected *)
Definition g_two_roots : hgraph :=
  mkHG [hn "Relu" [Some 0] [2]; hn "Neg" [Some 1] [3]; hn "Neg" [Some 0] [4]] [2; 3; 4] [] [].
Definition s_two_roots : sigma :=
  mkSig [(0, 0); (1, 2)] [("x", BVal 0)] [(KOut 0 0, Some 2); (KOut 1 0, Some 4)].

(* r = Relu(x); a = Abs(r); n = Neg(a); z = Add(n, r): an instance of p_or through the SECOND alternative *)
Definition g_or_second : hgraph :=
  mkHG [hn "Relu" [Some 0] [1]; hn "Abs" [Some 1] [2]; hn "Neg" [Some 2] [3]; hn "Add" [Some 3; Some 1] [4]] [4] [] [].

(* attribute / optional-input / constant features in one node: Clip(x, 0.0 within 1e-3, optional hi)<axis = 1, mode = m> *)
Definition p_feat : gpat :=
  mkGP [mkNP (SExact "Clip") (SExact "") [("axis", APConst (AInt 1)); ("mode", APVar (Some "m") true)] false
             [Some (PVar "x" false); Some (PConst 0 (CPScalar (Coq.QArith.QArith_base.Qmake 0 1) (Coq.QArith.QArith_base.Qmake 1 1000) (Coq.QArith.QArith_base.Qmake 0 1))); Some (PVar "hi" true)] false [None] true]
       ["x"; "hi"] [POut 0 0].
Definition g_feat : hgraph :=
  mkHG [mkHN "Clip" "" [("axis", AInt 1)] [Some 0; Some 1] [2]] [2] [(1, CScalar (Coq.QArith.QArith_base.Qmake 0 1))] [].

(* every repair but the attribute one *)
Definition flags_attr_as_read := mkF true true true true false.
(* two output nodes: return Relu(x), Neg<perm = 1>(x) -- a scalar constant attribute pattern *)
Definition p_two_roots_attr : gpat :=
  mkGP [un "Relu" (PVar "x" false);
        mkNP (SExact "Neg") (SExact "") [("perm", APConst (AInt 1))] true [Some (PVar "x" false)] false [None] true]
       ["x"] [POut 0 0; POut 1 0].
(* the first Neg candidate carries a list-valued perm (as read: TypeError), the second is the instance *)
Definition g_two_roots_attr : hgraph :=
  mkHG [hn "Relu" [Some 0] [2]; mkHN "Neg" "" [("perm", AInts [1%Z; 0%Z])] [Some 1] [3];
        mkHN "Neg" "" [("perm", AInt 1)] [Some 0] [4]] [2; 3; 4] [] [].
Definition s_two_roots_attr : sigma :=
  mkSig [(0, 0); (1, 2)] [("x", BVal 0)] [(KOut 0 0, Some 2); (KOut 1 0, Some 4)].
(* one node: Neg<perm = 1>(x) against Neg<perm = [1, 0]> *)
Definition p_attr_scalar : gpat :=
  mkGP [mkNP (SExact "Neg") (SExact "") [("perm", APConst (AInt 1))] true [Some (PVar "x" false)] false [None] true]
       ["x"] [POut 0 0].
Definition g_attr_list : hgraph := mkHG [mkHN "Neg" "" [("perm", AInts [1%Z; 0%Z])] [Some 0] [1]] [1] [] [].
